//! Engine `sched-reserve` (C07): `reserve_entity` / `reserve_entities(n)` / `contains` through a shared
//! `&World` from several threads, every interleaving at atomic-access granularity; rendered as an
//! ordinary world trace in the order in which the atomic accesses happened.
use crate::comps::*;
use crate::sched::*;
use crate::util::*;
use hecs::{Entity, World};
use std::io::Write;

/// program letters: E = reserve_entity, 2/3 = reserve_entities(2/3), 0 = reserve_entities(0),
/// C = contains(last handle this thread obtained, or a live one), D = contains(a dead handle)
fn body(world: &World, prog: &[char], live: Entity, dead: Entity) {
    let mut last: Option<Entity> = None;
    for &c in prog {
        let y0 = my_yields();
        match c {
            'E' => {
                let e = world.reserve_entity();
                last = Some(e);
                emit(format!("reserve_entity W0 => e={} d=[]", show_entity(e)));
            }
            '0' | '2' | '3' => {
                let n = c.to_digit(10).unwrap();
                let es: Vec<Entity> = world.reserve_entities(n).collect();
                if let Some(&e) = es.last() {
                    last = Some(e);
                }
                emit(format!("reserve_entities W0 n={} => es={} d=[]", n, show_entities(&es)));
            }
            'C' => {
                let h = last.unwrap_or(live);
                let r = world.contains(h);
                emit(format!("contains W0 h={} => c={}", show_entity(h), r as u8));
            }
            'D' => {
                let r = world.contains(dead);
                emit(format!("contains W0 h={} => c={}", show_entity(dead), r as u8));
            }
            _ => panic!("harness: bad program letter"),
        }
        let y = my_yields() - y0;
        if y != 1 {
            emit(format!("yields W0 n={} call={} => ok", y, c));
        }
    }
}

pub fn run_one(k: usize, f: usize, progs: &[Vec<char>], choices: &[usize], by_thread: bool) -> (Vec<String>, Vec<(usize, usize)>) {
    reset_ledger();
    let mut lines: Vec<String> = vec!["world W0".to_string() + " => ok"];
    let mut world = World::new();
    let mut serial = 1u64;
    let mut es = Vec::new();
    for _ in 0..k {
        let e = world.spawn((A::new(serial),));
        lines.push(format!("spawn W0 k=1 b=[0:{}] => e={} d=[]", serial, show_entity(e)));
        serial += 1;
        es.push(e);
    }
    for i in 0..f.min(k) {
        let _ = take_drops();
        world.despawn(es[i]).unwrap();
        let d = take_drops();
        lines.push(format!("despawn W0 h={} => ok d={}", show_entity(es[i]), show_comps(&d)));
    }
    let live = if f < k { es[k - 1] } else { Entity::DANGLING };
    let dead = if f > 0 { es[0] } else { Entity::DANGLING };
    let mut kk = 0usize;
    let mut order: Vec<usize> = Vec::new();
    let decisions;
    {
        let wref = &world;
        let bodies: Vec<Box<dyn FnOnce() + Send + '_>> = progs
            .iter()
            .map(|p| {
                let p = p.clone();
                Box::new(move || body(wref, &p, live, dead)) as Box<dyn FnOnce() + Send + '_>
            })
            .collect();
        let mut choose = |enabled: &[usize]| -> usize {
            let c = choices.get(kk).copied();
            kk += 1;
            match c {
                None => 0,
                Some(c) if by_thread => enabled.iter().position(|&t| t == c).unwrap_or(0),
                Some(c) => c,
            }
        };
        let mut after = |s: &StepRec| {
            if s.site != u32::MAX {
                order.push(s.thread);
            }
            for e in &s.events {
                if e == "panic" {
                    lines.push("flush W0 => panic".to_string());
                } else {
                    lines.push(e.clone());
                }
            }
        };
        decisions = run_schedule(bodies, &mut choose, &mut after);
    }
    // every reserved handle must be contained before the flush, then materialised by it
    let mut ctx = crate::world_engine::Ctx::new();
    ctx.worlds.push(Some(world));
    for &e in &es {
        ctx.push_handle(e);
    }
    for l in &lines {
        // handles the threads obtained
        if let Some(rhs) = l.split(" => ").nth(1) {
            for tok in rhs.split_whitespace() {
                let list = tok.strip_prefix("e=").map(|x| x.to_string()).or_else(|| tok.strip_prefix("es=").map(|x| x.trim_matches(|c| c == '[' || c == ']').to_string()));
                if let (Some(list), true) = (list, l.starts_with("reserve_")) {
                    for h in list.split(',').filter(|x| !x.is_empty()) {
                        let (a, b) = h.split_once('v').expect("harness: handle");
                        ctx.push_handle(entity_of(a.parse().unwrap(), b.parse().unwrap()).unwrap());
                    }
                }
            }
        }
    }
    let (l, r) = ctx.exec(&crate::world_engine::Op::Obs { w: 0 }, 0);
    lines.push(format!("{} => {}", l, r));
    let (l, r) = ctx.exec(&crate::world_engine::Op::Flush { w: 0 }, 1);
    lines.push(format!("{} => {}", l, r));
    let (l, r) = ctx.exec(&crate::world_engine::Op::Obs { w: 0 }, 2);
    lines.push(format!("{} => {}", l, r));
    // and the world keeps working
    let (l, r) = ctx.exec(&crate::world_engine::Op::Spawn { w: 0, k: Some(2), b: vec![(1, 9999)] }, 3);
    lines.push(format!("{} => {}", l, r));
    let (l, r) = ctx.exec(&crate::world_engine::Op::Obs { w: 0 }, 4);
    lines.push(format!("{} => {}", l, r));
    let (l, r) = ctx.exec(&crate::world_engine::Op::DropWorld { w: 0 }, 5);
    lines.push(format!("{} => {}", l, r));
    let progs_s: Vec<String> = progs.iter().map(|p| p.iter().collect::<String>()).collect();
    let order_s: Vec<String> = order.iter().map(|t| t.to_string()).collect();
    lines.insert(0, format!("#sched setup={}:{} progs=[{}] order=[{}]", k, f, progs_s.join(";"), order_s.join(",")));
    (lines, decisions)
}

fn all_programs(maxlen: usize) -> Vec<Vec<char>> {
    let letters = ['E', '2', '3', '0', 'C', 'D'];
    let mut out: Vec<Vec<char>> = vec![];
    let mut frontier: Vec<Vec<char>> = vec![vec![]];
    for _ in 0..maxlen {
        let mut next = Vec::new();
        for p in &frontier {
            for &l in &letters {
                let mut q = p.clone();
                q.push(l);
                next.push(q);
            }
        }
        out.extend(next.iter().cloned());
        frontier = next;
    }
    out
}

pub fn gen(out_dir: &str, threads: usize, maxlen: usize, shard: usize, nshards: usize, cap: usize) {
    hecs::verif::set_yield_fn(Some(on_yield));
    std::fs::create_dir_all(out_dir).unwrap();
    let mut trace = std::io::BufWriter::new(std::fs::File::create(format!("{}/trace.txt", out_dir)).unwrap());
    let mut ops = std::io::BufWriter::new(std::fs::File::create(format!("{}/ops.txt", out_dir)).unwrap());
    let progs = all_programs(maxlen);
    let np = progs.len();
    let setups: [(usize, usize); 5] = [(0, 0), (2, 0), (2, 1), (3, 2), (4, 4)];
    let total: usize = np.pow(threads as u32) * setups.len();
    let (mut schedules, mut tuples, mut capped, mut calls) = (0usize, 0usize, 0usize, 0usize);
    for idx in 0..total {
        if idx % nshards != shard {
            continue;
        }
        let (k, f) = setups[idx % setups.len()];
        let mut x = idx / setups.len();
        let mut tuple = Vec::new();
        for _ in 0..threads {
            tuple.push(progs[x % np].clone());
            x /= np;
        }
        tuples += 1;
        let mut choices: Vec<usize> = Vec::new();
        let mut n_this = 0usize;
        loop {
            let (lines, decisions) = run_one(k, f, &tuple, &choices, false);
            let hid = idx * 1_000_000 + n_this;
            writeln!(trace, "history sched-reserve {}", hid).unwrap();
            writeln!(ops, "history sched-reserve {}", hid).unwrap();
            writeln!(ops, "{}", &lines[0][1..]).unwrap();
            calls += decisions.len();
            for l in &lines {
                writeln!(trace, "{}", l).unwrap();
            }
            schedules += 1;
            n_this += 1;
            if n_this >= cap {
                capped += 1;
                break;
            }
            match next_choices(&decisions) {
                Some(c) => choices = c,
                None => break,
            }
        }
    }
    let mut f = std::fs::File::create(format!("{}/stats.json", out_dir)).unwrap();
    writeln!(
        f,
        "{{\"schedules\": {}, \"program_tuples\": {}, \"atomic_steps\": {}, \"threads\": {}, \"max_program_len\": {}, \"tuples_capped\": {}}}",
        schedules, tuples, calls, threads, maxlen, capped
    )
    .unwrap();
    hecs::verif::set_yield_fn(None);
}

pub fn replay(file: &str) {
    hecs::verif::set_yield_fn(Some(on_yield));
    for line in std::fs::read_to_string(file).unwrap().lines() {
        let line = line.trim();
        if line.starts_with("history ") {
            println!("{}", line);
            continue;
        }
        let line = line.trim_start_matches('#');
        if !line.starts_with("sched ") {
            continue;
        }
        let toks: Vec<&str> = line.split_whitespace().collect();
        let setup = field(&toks, "setup").expect("harness: setup");
        let (k, f) = setup.split_once(':').expect("harness: setup");
        let progs_s = field(&toks, "progs").expect("harness: progs");
        let order_s = field(&toks, "order").expect("harness: order");
        let progs: Vec<Vec<char>> = progs_s[1..progs_s.len() - 1].split(';').map(|p| p.chars().collect()).collect();
        let order: Vec<usize> = if order_s.len() > 2 {
            order_s[1..order_s.len() - 1].split(',').map(|x| x.parse().expect("harness: order")).collect()
        } else {
            vec![]
        };
        let (lines, _) = run_one(k.parse().unwrap(), f.parse().unwrap(), &progs, &order, true);
        for l in &lines {
            println!("{}", l);
        }
    }
    hecs::verif::set_yield_fn(None);
}
