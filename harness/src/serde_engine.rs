//! Serialization support (C14, C15): user contexts as in the crate documentation, a recording
//! serializer that captures hecs' exact token structure (and checks announced lengths), a token-tree
//! deserializer, tree/byte mutators.
#![allow(dead_code)]

use crate::comps::*;
use crate::util::*;
use crate::with_type;
use hecs::serialize::{column, row};
use hecs::{Archetype, ColumnBatchBuilder, ColumnBatchType, EntityBuilder, EntityRef, World};
use serde::de::{DeserializeSeed, MapAccess, SeqAccess, Visitor};
use serde::ser::{SerializeMap, SerializeSeq, SerializeTuple};
use serde::{Deserialize, Deserializer, Serialize, Serializer};
use std::fmt;

// ---------------------------------------------------------------------------------------------
// token trees

#[derive(Clone, Debug, PartialEq)]
pub enum Tree {
    Num(u64),
    Seq(Vec<Tree>),
    Map(Vec<(Tree, Tree)>),
}

impl Tree {
    pub fn show(&self) -> String {
        match self {
            Tree::Num(n) => n.to_string(),
            Tree::Seq(xs) => format!("[{}]", xs.iter().map(|x| x.show()).collect::<Vec<_>>().join(",")),
            Tree::Map(kvs) => format!("{{{}}}", kvs.iter().map(|(k, v)| format!("{}:{}", k.show(), v.show())).collect::<Vec<_>>().join(",")),
        }
    }
    pub fn parse(s: &str) -> Tree {
        fn go(cs: &[u8], i: &mut usize) -> Tree {
            match cs[*i] {
                b'[' => {
                    *i += 1;
                    let mut v = Vec::new();
                    loop {
                        match cs[*i] {
                            b']' => {
                                *i += 1;
                                return Tree::Seq(v);
                            }
                            b',' => *i += 1,
                            _ => v.push(go(cs, i)),
                        }
                    }
                }
                b'{' => {
                    *i += 1;
                    let mut v = Vec::new();
                    loop {
                        match cs[*i] {
                            b'}' => {
                                *i += 1;
                                return Tree::Map(v);
                            }
                            b',' => *i += 1,
                            _ => {
                                let k = go(cs, i);
                                assert_eq!(cs[*i], b':', "harness: bad tree");
                                *i += 1;
                                let val = go(cs, i);
                                v.push((k, val));
                            }
                        }
                    }
                }
                _ => {
                    let st = *i;
                    while *i < cs.len() && cs[*i].is_ascii_digit() {
                        *i += 1;
                    }
                    Tree::Num(std::str::from_utf8(&cs[st..*i]).unwrap().parse().expect("harness: bad number in tree"))
                }
            }
        }
        let mut i = 0;
        go(s.as_bytes(), &mut i)
    }
}

#[derive(Debug)]
pub struct TErr(pub String);
impl fmt::Display for TErr {
    fn fmt(&self, f: &mut fmt::Formatter<'_>) -> fmt::Result {
        f.write_str(&self.0)
    }
}
impl std::error::Error for TErr {}
impl serde::ser::Error for TErr {
    fn custom<T: fmt::Display>(msg: T) -> Self {
        TErr(msg.to_string())
    }
}
impl serde::de::Error for TErr {
    fn custom<T: fmt::Display>(msg: T) -> Self {
        TErr(msg.to_string())
    }
}

// ---------------------------------------------------------------------------------------------
// recording serializer

thread_local! {
    /// set when an announced length differs from the number of elements written
    pub static DISHONEST: std::cell::Cell<bool> = std::cell::Cell::new(false);
}

pub struct Rec;
pub struct SeqRec {
    items: Vec<Tree>,
    announced: Option<usize>,
}
pub struct MapRec {
    items: Vec<(Tree, Tree)>,
    key: Option<Tree>,
    announced: Option<usize>,
}

macro_rules! unsupported {
    ($($f:ident($($t:ty),*)),* $(,)?) => {
        $(fn $f(self, $(_: $t),*) -> Result<Tree, TErr> { Err(TErr(format!("harness: recorder does not support {}", stringify!($f)))) })*
    };
}

impl Serializer for Rec {
    type Ok = Tree;
    type Error = TErr;
    type SerializeSeq = SeqRec;
    type SerializeTuple = SeqRec;
    type SerializeTupleStruct = serde::ser::Impossible<Tree, TErr>;
    type SerializeTupleVariant = serde::ser::Impossible<Tree, TErr>;
    type SerializeMap = MapRec;
    type SerializeStruct = serde::ser::Impossible<Tree, TErr>;
    type SerializeStructVariant = serde::ser::Impossible<Tree, TErr>;
    fn serialize_u8(self, v: u8) -> Result<Tree, TErr> {
        Ok(Tree::Num(v as u64))
    }
    fn serialize_u16(self, v: u16) -> Result<Tree, TErr> {
        Ok(Tree::Num(v as u64))
    }
    fn serialize_u32(self, v: u32) -> Result<Tree, TErr> {
        Ok(Tree::Num(v as u64))
    }
    fn serialize_u64(self, v: u64) -> Result<Tree, TErr> {
        Ok(Tree::Num(v))
    }
    unsupported!(serialize_bool(bool), serialize_i8(i8), serialize_i16(i16), serialize_i32(i32), serialize_i64(i64),
        serialize_f32(f32), serialize_f64(f64), serialize_char(char), serialize_str(&str), serialize_bytes(&[u8]),
        serialize_none(), serialize_unit(), serialize_unit_struct(&'static str),
        serialize_unit_variant(&'static str, u32, &'static str));
    fn serialize_some<T: ?Sized + Serialize>(self, v: &T) -> Result<Tree, TErr> {
        v.serialize(self)
    }
    fn serialize_newtype_struct<T: ?Sized + Serialize>(self, _: &'static str, v: &T) -> Result<Tree, TErr> {
        v.serialize(self)
    }
    fn serialize_newtype_variant<T: ?Sized + Serialize>(self, _: &'static str, _: u32, _: &'static str, _: &T) -> Result<Tree, TErr> {
        Err(TErr("harness: recorder does not support newtype variants".into()))
    }
    fn serialize_seq(self, len: Option<usize>) -> Result<SeqRec, TErr> {
        Ok(SeqRec { items: Vec::new(), announced: len })
    }
    fn serialize_tuple(self, len: usize) -> Result<SeqRec, TErr> {
        Ok(SeqRec { items: Vec::new(), announced: Some(len) })
    }
    fn serialize_tuple_struct(self, _: &'static str, _: usize) -> Result<Self::SerializeTupleStruct, TErr> {
        Err(TErr("harness: recorder does not support tuple structs".into()))
    }
    fn serialize_tuple_variant(self, _: &'static str, _: u32, _: &'static str, _: usize) -> Result<Self::SerializeTupleVariant, TErr> {
        Err(TErr("harness: recorder does not support tuple variants".into()))
    }
    fn serialize_map(self, len: Option<usize>) -> Result<MapRec, TErr> {
        Ok(MapRec { items: Vec::new(), key: None, announced: len })
    }
    fn serialize_struct(self, _: &'static str, _: usize) -> Result<Self::SerializeStruct, TErr> {
        Err(TErr("harness: recorder does not support structs".into()))
    }
    fn serialize_struct_variant(self, _: &'static str, _: u32, _: &'static str, _: usize) -> Result<Self::SerializeStructVariant, TErr> {
        Err(TErr("harness: recorder does not support struct variants".into()))
    }
}
impl SerializeSeq for SeqRec {
    type Ok = Tree;
    type Error = TErr;
    fn serialize_element<T: ?Sized + Serialize>(&mut self, v: &T) -> Result<(), TErr> {
        self.items.push(v.serialize(Rec)?);
        Ok(())
    }
    fn end(self) -> Result<Tree, TErr> {
        if let Some(n) = self.announced {
            if n != self.items.len() {
                DISHONEST.with(|d| d.set(true));
            }
        }
        Ok(Tree::Seq(self.items))
    }
}
impl SerializeTuple for SeqRec {
    type Ok = Tree;
    type Error = TErr;
    fn serialize_element<T: ?Sized + Serialize>(&mut self, v: &T) -> Result<(), TErr> {
        SerializeSeq::serialize_element(self, v)
    }
    fn end(self) -> Result<Tree, TErr> {
        SerializeSeq::end(self)
    }
}
impl SerializeMap for MapRec {
    type Ok = Tree;
    type Error = TErr;
    fn serialize_key<T: ?Sized + Serialize>(&mut self, k: &T) -> Result<(), TErr> {
        self.key = Some(k.serialize(Rec)?);
        Ok(())
    }
    fn serialize_value<T: ?Sized + Serialize>(&mut self, v: &T) -> Result<(), TErr> {
        let k = self.key.take().expect("harness: value without key");
        self.items.push((k, v.serialize(Rec)?));
        Ok(())
    }
    fn end(self) -> Result<Tree, TErr> {
        if let Some(n) = self.announced {
            if n != self.items.len() {
                DISHONEST.with(|d| d.set(true));
            }
        }
        Ok(Tree::Map(self.items))
    }
}

// ---------------------------------------------------------------------------------------------
// token-tree deserializer (self-describing: a sequence may have any length; whatever the visitor
// leaves unread is an error, as in serde_json)

pub struct TDe<'a>(pub &'a Tree);

struct SeqAcc<'a> {
    it: std::slice::Iter<'a, Tree>,
}
impl<'de, 'a> SeqAccess<'de> for SeqAcc<'a> {
    type Error = TErr;
    fn next_element_seed<T: DeserializeSeed<'de>>(&mut self, seed: T) -> Result<Option<T::Value>, TErr> {
        match self.it.next() {
            None => Ok(None),
            Some(t) => seed.deserialize(TDe(t)).map(Some),
        }
    }
}
struct MapAcc<'a> {
    it: std::slice::Iter<'a, (Tree, Tree)>,
    val: Option<&'a Tree>,
}
impl<'de, 'a> MapAccess<'de> for MapAcc<'a> {
    type Error = TErr;
    fn next_key_seed<K: DeserializeSeed<'de>>(&mut self, seed: K) -> Result<Option<K::Value>, TErr> {
        match self.it.next() {
            None => Ok(None),
            Some((k, v)) => {
                self.val = Some(v);
                seed.deserialize(TDe(k)).map(Some)
            }
        }
    }
    fn next_value_seed<V: DeserializeSeed<'de>>(&mut self, seed: V) -> Result<V::Value, TErr> {
        let v = self.val.take().ok_or_else(|| TErr("value without key".into()))?;
        seed.deserialize(TDe(v))
    }
}

impl<'de, 'a> Deserializer<'de> for TDe<'a> {
    type Error = TErr;
    fn deserialize_any<V: Visitor<'de>>(self, visitor: V) -> Result<V::Value, TErr> {
        match self.0 {
            Tree::Num(n) => visitor.visit_u64(*n),
            Tree::Seq(xs) => {
                let mut acc = SeqAcc { it: xs.iter() };
                let r = visitor.visit_seq(&mut acc)?;
                if acc.it.next().is_some() {
                    return Err(TErr("trailing elements".into()));
                }
                Ok(r)
            }
            Tree::Map(kvs) => {
                let mut acc = MapAcc { it: kvs.iter(), val: None };
                let r = visitor.visit_map(&mut acc)?;
                if acc.it.next().is_some() {
                    return Err(TErr("trailing entries".into()));
                }
                Ok(r)
            }
        }
    }
    fn deserialize_u32<V: Visitor<'de>>(self, visitor: V) -> Result<V::Value, TErr> {
        match self.0 {
            Tree::Num(n) if *n <= u32::MAX as u64 => visitor.visit_u32(*n as u32),
            _ => Err(TErr("expected a u32".into())),
        }
    }
    fn deserialize_u64<V: Visitor<'de>>(self, visitor: V) -> Result<V::Value, TErr> {
        match self.0 {
            Tree::Num(n) => visitor.visit_u64(*n),
            _ => Err(TErr("expected a u64".into())),
        }
    }
    fn deserialize_seq<V: Visitor<'de>>(self, visitor: V) -> Result<V::Value, TErr> {
        match self.0 {
            Tree::Seq(_) => self.deserialize_any(visitor),
            _ => Err(TErr("expected a sequence".into())),
        }
    }
    fn deserialize_tuple<V: Visitor<'de>>(self, _len: usize, visitor: V) -> Result<V::Value, TErr> {
        self.deserialize_seq(visitor)
    }
    fn deserialize_map<V: Visitor<'de>>(self, visitor: V) -> Result<V::Value, TErr> {
        match self.0 {
            Tree::Map(_) => self.deserialize_any(visitor),
            _ => Err(TErr("expected a map".into())),
        }
    }
    fn deserialize_newtype_struct<V: Visitor<'de>>(self, _: &'static str, visitor: V) -> Result<V::Value, TErr> {
        visitor.visit_newtype_struct(self)
    }
    serde::forward_to_deserialize_any! {
        bool i8 i16 i32 i64 i128 u8 u16 u128 f32 f64 char str string bytes byte_buf option unit unit_struct
        tuple_struct struct enum identifier ignored_any
    }
}

// ---------------------------------------------------------------------------------------------
// serde forms of the universe types: the serial

macro_rules! serde_comp {
    ($($T:ident),*) => {$(
        impl Serialize for $T {
            fn serialize<S: Serializer>(&self, s: S) -> Result<S::Ok, S::Error> {
                s.serialize_u64(Comp::serial(self))
            }
        }
        impl<'de> Deserialize<'de> for $T {
            fn deserialize<De: Deserializer<'de>>(d: De) -> Result<Self, De::Error> {
                let v = u64::deserialize(d)?;
                Ok(<$T as Comp>::new(v))
            }
        }
    )*};
}
serde_comp!(A, B, C, D, E, S, L, Z, ZA, ZB, TK, PB);

// ---------------------------------------------------------------------------------------------
// the documented user contexts

pub struct Ctx {
    pub handled: Vec<usize>,
    /// report `component_count` for row entities (both `Some(n)` and `None` are allowed)
    pub count_rows: bool,
    components: Vec<usize>,
}
impl Ctx {
    pub fn new(handled: &[usize], count_rows: bool) -> Self {
        Ctx { handled: handled.to_vec(), count_rows, components: Vec::new() }
    }
}

impl row::SerializeContext for Ctx {
    fn serialize_entity<S: SerializeMap>(&mut self, entity: EntityRef<'_>, mut map: S) -> Result<S::Ok, S::Error> {
        for &t in &self.handled {
            with_type!(t, T, row::try_serialize::<T, _, _>(&entity, &(t as u32), &mut map)?);
        }
        map.end()
    }
    fn component_count(&self, entity: EntityRef<'_>) -> Option<usize> {
        if self.count_rows {
            Some(self.handled.iter().filter(|&&t| with_type!(t, T, entity.has::<T>())).count())
        } else {
            None
        }
    }
}
impl row::DeserializeContext for Ctx {
    fn deserialize_entity<'de, M: MapAccess<'de>>(&mut self, mut map: M, entity: &mut EntityBuilder) -> Result<(), M::Error> {
        while let Some(key) = map.next_key::<u32>()? {
            let t = key as usize;
            if !self.handled.contains(&t) {
                return Err(serde::de::Error::custom("unknown component id"));
            }
            with_type!(t, T, {
                entity.add::<T>(map.next_value()?);
            });
        }
        Ok(())
    }
}
impl column::SerializeContext for Ctx {
    fn component_count(&self, archetype: &Archetype) -> usize {
        self.handled.iter().filter(|&&t| with_type!(t, T, archetype.has::<T>())).count()
    }
    fn serialize_component_ids<S: SerializeTuple>(&mut self, archetype: &Archetype, mut out: S) -> Result<S::Ok, S::Error> {
        for &t in &self.handled {
            with_type!(t, T, column::try_serialize_id::<T, _, _>(archetype, &(t as u32), &mut out)?);
        }
        out.end()
    }
    fn serialize_components<S: SerializeTuple>(&mut self, archetype: &Archetype, mut out: S) -> Result<S::Ok, S::Error> {
        for &t in &self.handled {
            with_type!(t, T, column::try_serialize::<T, _>(archetype, &mut out)?);
        }
        out.end()
    }
}
impl column::DeserializeContext for Ctx {
    fn deserialize_component_ids<'de, A: SeqAccess<'de>>(&mut self, mut seq: A) -> Result<ColumnBatchType, A::Error> {
        self.components.clear();
        let mut batch = ColumnBatchType::new();
        while let Some(id) = seq.next_element::<u32>()? {
            let t = id as usize;
            if !self.handled.contains(&t) {
                return Err(serde::de::Error::custom("unknown component id"));
            }
            with_type!(t, T, {
                batch.add::<T>();
            });
            self.components.push(t);
        }
        Ok(batch)
    }
    fn deserialize_components<'de, A: SeqAccess<'de>>(&mut self, entity_count: u32, mut seq: A, batch: &mut ColumnBatchBuilder) -> Result<(), A::Error> {
        for &t in &self.components {
            with_type!(t, T, column::deserialize_column::<T, _>(entity_count, &mut seq, batch)?);
        }
        Ok(())
    }
}

pub struct SerWorld<'a> {
    pub world: &'a World,
    pub fmt: &'a str,
    pub handled: &'a [usize],
    pub count_rows: bool,
    /// `serialize_satisfying::<Q>` with menu entry
    pub q: Option<usize>,
}
impl Serialize for SerWorld<'_> {
    fn serialize<S: Serializer>(&self, s: S) -> Result<S::Ok, S::Error> {
        let mut ctx = Ctx::new(self.handled, self.count_rows);
        match (self.fmt, self.q) {
            ("row", None) => row::serialize(self.world, &mut ctx, s),
            ("row", Some(k)) => crate::with_query!(k, QT, row::serialize_satisfying::<QT, _, _>(self.world, &mut ctx, s)),
            (_, None) => column::serialize(self.world, &mut ctx, s),
            (_, Some(k)) => crate::with_query!(k, QT, column::serialize_satisfying::<QT, _, _>(self.world, &mut ctx, s)),
        }
    }
}

/// (tree, every announced length honest)
pub fn serialize_tree(world: &World, fmt: &str, handled: &[usize], count_rows: bool, q: Option<usize>) -> (Tree, bool) {
    DISHONEST.with(|d| d.set(false));
    let t = SerWorld { world, fmt, handled, count_rows, q }.serialize(Rec).expect("harness: recording serializer failed");
    (t, !DISHONEST.with(|d| d.get()))
}

pub fn deserialize_tree(tree: &Tree, fmt: &str, handled: &[usize]) -> Result<World, TErr> {
    let mut ctx = Ctx::new(handled, false);
    if fmt == "row" {
        row::deserialize(&mut ctx, TDe(tree))
    } else {
        column::deserialize(&mut ctx, TDe(tree))
    }
}

struct DeWorld<'a> {
    fmt: &'a str,
    handled: &'a [usize],
}
impl<'de> DeserializeSeed<'de> for DeWorld<'_> {
    type Value = World;
    fn deserialize<D: Deserializer<'de>>(self, d: D) -> Result<World, D::Error> {
        let mut ctx = Ctx::new(self.handled, false);
        if self.fmt == "row" {
            row::deserialize(&mut ctx, d)
        } else {
            column::deserialize(&mut ctx, d)
        }
    }
}

pub fn to_json(world: &World, fmt: &str, handled: &[usize]) -> Vec<u8> {
    // serde_json requires string keys for maps: the row format's entity keys are numbers, which
    // serde_json writes as strings and reads back through its number-from-string key support
    serde_json::to_vec(&SerWorld { world, fmt, handled, count_rows: true, q: None }).expect("harness: json")
}
pub fn from_json(bytes: &[u8], fmt: &str, handled: &[usize]) -> Result<World, String> {
    let mut de = serde_json::Deserializer::from_slice(bytes);
    let w = DeWorld { fmt, handled }.deserialize(&mut de).map_err(|e| e.to_string())?;
    de.end().map_err(|e| e.to_string())?;
    Ok(w)
}
pub fn to_bincode(world: &World, fmt: &str, handled: &[usize]) -> Vec<u8> {
    bincode::serialize(&SerWorld { world, fmt, handled, count_rows: true, q: None }).expect("harness: bincode")
}
pub fn from_bincode(bytes: &[u8], fmt: &str, handled: &[usize]) -> Result<World, String> {
    use bincode::Options;
    let mut de = bincode::Deserializer::from_slice(bytes, bincode::DefaultOptions::new().with_fixint_encoding().allow_trailing_bytes());
    DeWorld { fmt, handled }.deserialize(&mut de).map_err(|e| e.to_string())
}

// ---------------------------------------------------------------------------------------------
// mutators

fn count_nodes(t: &Tree) -> usize {
    1 + match t {
        Tree::Num(_) => 0,
        Tree::Seq(xs) => xs.iter().map(count_nodes).sum(),
        Tree::Map(kvs) => kvs.iter().map(|(k, v)| count_nodes(k) + count_nodes(v)).sum(),
    }
}

fn mutate_at(t: &mut Tree, target: &mut usize, rng: &mut Rng) -> bool {
    if *target == 0 {
        match t {
            Tree::Num(n) => {
                let is_entity = *n >= (1 << 32);
                *n = match rng.below(if is_entity { 8 } else { 6 }) {
                    0 => 0,
                    1 => n.wrapping_add(1),
                    2 => n.saturating_sub(1),
                    3 if is_entity => (*n & 0xffff_ffff) | ((rng.below(3) as u64) << 32), // generation 0..2
                    3 => rng.below(9) as u64,
                    4 if is_entity => (*n & !0xffff_ffffu64) | rng.below(12) as u64, // another small id
                    4 => 99,
                    // a forged handle: some small id under some non-zero generation (the same id as
                    // a neighbour under another generation is the interesting case)
                    6 | 7 => rng.below(6) as u64 | ((1 + rng.below(3) as u64) << 32),
                    _ => {
                        *t = Tree::Seq(vec![]);
                        return true;
                    }
                };
            }
            Tree::Seq(xs) => match rng.below(7) {
                // an archetype block that consistently announces nothing: `[0, k, ids, [[], [], …]]`
                6 if xs.len() == 4 && matches!(xs[0], Tree::Num(_)) && matches!(xs[3], Tree::Seq(_)) => {
                    xs[0] = Tree::Num(0);
                    if let Tree::Seq(cols) = &mut xs[3] {
                        for c in cols.iter_mut() {
                            *c = Tree::Seq(vec![]);
                        }
                    }
                    if rng.chance(50) {
                        xs[1] = Tree::Num(0);
                        xs[2] = Tree::Seq(vec![]);
                        if let Tree::Seq(cols) = &mut xs[3] {
                            cols.truncate(1);
                        }
                    }
                }
                0 if !xs.is_empty() => {
                    xs.pop();
                }
                1 if !xs.is_empty() => {
                    let i = rng.below(xs.len());
                    let x = xs[i].clone();
                    xs.insert(i, x);
                }
                2 if !xs.is_empty() => {
                    let i = rng.below(xs.len());
                    xs.remove(i);
                }
                3 if xs.len() >= 2 => {
                    let i = rng.below(xs.len() - 1);
                    xs.swap(i, i + 1);
                }
                4 => xs.clear(),
                _ => *t = Tree::Num(rng.below(5) as u64),
            },
            Tree::Map(kvs) => match rng.below(5) {
                0 if !kvs.is_empty() => {
                    kvs.pop();
                }
                1 if !kvs.is_empty() => {
                    let i = rng.below(kvs.len());
                    let x = kvs[i].clone();
                    kvs.push(x);
                }
                2 if !kvs.is_empty() => {
                    let i = rng.below(kvs.len());
                    kvs.remove(i);
                }
                3 => kvs.clear(),
                _ => *t = Tree::Seq(vec![]),
            },
        }
        return true;
    }
    *target -= 1;
    match t {
        Tree::Num(_) => false,
        Tree::Seq(xs) => xs.iter_mut().any(|x| mutate_at(x, target, rng)),
        Tree::Map(kvs) => kvs.iter_mut().any(|(k, v)| mutate_at(k, target, rng) || mutate_at(v, target, rng)),
    }
}

/// 1–3 structure-aware mutations
pub fn mutate_tree(t: &Tree, rng: &mut Rng) -> Tree {
    let mut t = t.clone();
    for _ in 0..1 + rng.below(3) {
        let n = count_nodes(&t);
        let mut target = rng.below(n);
        mutate_at(&mut t, &mut target, rng);
    }
    t
}

/// entity ids named anywhere stay small, so that `alloc_at` does not allocate the whole id space
pub fn ids_bounded(t: &Tree) -> bool {
    match t {
        Tree::Num(n) => *n < (1 << 32) || (*n & 0xffff_ffff) < 5000,
        Tree::Seq(xs) => xs.iter().all(ids_bounded),
        Tree::Map(kvs) => kvs.iter().all(|(k, v)| ids_bounded(k) && ids_bounded(v)),
    }
}

pub fn mutate_json(bytes: &[u8], rng: &mut Rng) -> Vec<u8> {
    let mut b = bytes.to_vec();
    for _ in 0..1 + rng.below(3) {
        if b.is_empty() {
            break;
        }
        let i = rng.below(b.len());
        match rng.below(5) {
            0 => {
                b.remove(i);
            }
            1 => {
                let c = b[i];
                b.insert(i, c);
            }
            2 => {
                let cs = b"[]{},:\"0";
                b[i] = cs[rng.below(cs.len())];
            }
            3 if i + 1 < b.len() => b.swap(i, i + 1),
            _ => b.truncate(i),
        }
    }
    b
}

/// numbers in a JSON text that would name an entity with a large id
pub fn json_ids_bounded(bytes: &[u8]) -> bool {
    let mut cur: u128 = 0;
    let mut digits = 0;
    for &c in bytes.iter().chain(b" ".iter()) {
        if c.is_ascii_digit() {
            cur = cur.saturating_mul(10).saturating_add((c - b'0') as u128);
            digits += 1;
        } else {
            if digits > 0 {
                if cur >= (1u128 << 64) {
                    // not a u64: rejected by the parser
                } else if cur >= (1 << 32) && (cur & 0xffff_ffff) >= 5000 {
                    return false;
                } else if digits <= 9 && cur > 100_000 && cur < (1 << 32) {
                    // a count or serial, fine
                }
            }
            cur = 0;
            digits = 0;
        }
    }
    true
}
