//! Engine `world`: op histories over `hecs::World`, executed in-process, rendered as trace lines.
#![allow(dead_code)]

use crate::comps::*;
use crate::util::*;
use crate::{with_bundle, with_small_bundle, with_type};
use hecs::{ColumnBatchType, Entity, EntityBuilder, World};
use std::any::TypeId;
use std::collections::HashMap;

#[derive(Clone, Debug, PartialEq)]
pub enum HRef {
    /// j-th handle returned by op number n
    Tab(usize, usize),
    Lit(u32, u32),
}

impl HRef {
    pub fn show(&self) -> String {
        match self {
            HRef::Tab(n, j) => format!("#{}.{}", n, j),
            HRef::Lit(i, g) => format!("{}v{}", i, g),
        }
    }
    pub fn parse(s: &str) -> HRef {
        if let Some(k) = s.strip_prefix('#') {
            let (a, b) = k.split_once('.').expect("harness: bad href");
            HRef::Tab(a.parse().expect("harness: bad href"), b.parse().expect("harness: bad href"))
        } else {
            let (a, b) = s.split_once('v').expect("harness: bad href");
            HRef::Lit(a.parse().expect("harness: bad id"), b.parse().expect("harness: bad gen"))
        }
    }
}

type Bundle = Vec<(usize, u64)>;

#[derive(Clone, Debug)]
pub enum Op {
    NewWorld { w: usize },
    Spawn { w: usize, k: Option<usize>, b: Bundle },
    SpawnAt { w: usize, h: HRef, k: Option<usize>, b: Bundle },
    /// `via`: "batch" (`spawn_batch`, iterator collected), "partN" (`spawn_batch`, N handles taken, then the
    /// iterator is dropped), "extend" (`Extend<B>`), "collect" (`FromIterator<B>` when the world is
    /// pristine, `Extend` otherwise)
    SpawnBatch { w: usize, k: usize, via: String, rows: Vec<Bundle> },
    SpawnCb { w: usize, decl: Vec<usize>, rows: Vec<Bundle> },
    SpawnCbAt { w: usize, hs: Vec<HRef>, decl: Vec<usize>, rows: Vec<Bundle> },
    Insert { w: usize, h: HRef, k: Option<usize>, b: Bundle },
    Remove { w: usize, h: HRef, k: usize },
    Exchange { w: usize, h: HRef, ks: usize, k: Option<usize>, b: Bundle },
    Despawn { w: usize, h: HRef },
    Take { w: usize, h: HRef, into: Option<usize> },
    Clear { w: usize },
    Flush { w: usize },
    Reserve { w: usize, k: usize },
    ReserveEntity { w: usize },
    ReserveEntities { w: usize, n: usize },
    /// `reserve_entities(n)` with the iterator advanced `k` times only (the call itself claims all `n` ids)
    ReserveBulk { w: usize, n: u64, k: usize },
    Obs { w: usize },
    DropWorld { w: usize },
    /// `es`: the handle array of the `many_*` paths (`query_many_mut`, `get_many_mut`)
    Query { w: usize, q: usize, path: String, h: HRef, n: usize, es: Vec<HRef> },
    Cont(crate::containers::COp),
    /// `ChangeTracker<TK>::track` with the given reads: (kind 0 added / 1 changed / 2 removed, partial)
    Track { w: usize, reads: Vec<(u8, bool)> },
    /// `obs` without the archetype list (hidden snapshot components make it unobservable)
    TObs { w: usize },
    /// serialise world `w` through the recording serializer
    Ser { w: usize, fmt: String, hs: Vec<usize>, q: Option<usize>, cr: bool },
    /// serialise `from`, optionally mutate the token tree, deserialise into world `w`
    De { w: usize, from: usize, fmt: String, hs: Vec<usize>, mutseed: Option<u64> },
    /// serialise `w` to bytes (json/bincode), optionally mutate, deserialise, check, drop
    DeBytes { w: usize, fmt: String, hs: Vec<usize>, backend: String, mutseed: Option<u64> },
}

/// menu entries that are 1-tuples `(T,)` (the `*_one` methods take the component itself)
fn single_tuple(k: usize) -> bool {
    matches!(k, 1..=9 | 26 | 28 | 34)
}

fn show_reads(reads: &[(u8, bool)]) -> String {
    let v: Vec<String> = reads
        .iter()
        .map(|(k, p)| format!("{}{}", ["added", "changed", "removed"][*k as usize], if *p { "~" } else { "" }))
        .collect();
    format!("[{}]", v.join(","))
}
fn parse_reads(s: &str) -> Vec<(u8, bool)> {
    let inner = &s[1..s.len() - 1];
    if inner.is_empty() {
        return vec![];
    }
    inner
        .split(',')
        .map(|r| {
            let part = r.ends_with('~');
            let name = r.trim_end_matches('~');
            let k = match name {
                "added" => 0,
                "changed" => 1,
                "removed" => 2,
                _ => panic!("harness: bad read {}", r),
            };
            (k, part)
        })
        .collect()
}
fn kstr(k: &Option<usize>) -> String {
    match k {
        Some(k) => k.to_string(),
        None => "-".into(),
    }
}
fn parse_k(s: &str) -> Option<usize> {
    if s == "-" {
        None
    } else {
        Some(s.parse().expect("harness: bad k"))
    }
}

impl Op {
    /// abstract form (ops file): handles as `#k`
    pub fn show(&self) -> String {
        match self {
            Op::NewWorld { w } => format!("world W{}", w),
            Op::Spawn { w, k, b } => format!("spawn W{} k={} b={}", w, kstr(k), show_comps(b)),
            Op::SpawnAt { w, h, k, b } => format!("spawn_at W{} h={} k={} b={}", w, h.show(), kstr(k), show_comps(b)),
            Op::SpawnBatch { w, k, via, rows } => format!("spawn_batch W{} k={} via={} rows={}", w, k, via, show_rows(rows)),
            Op::SpawnCb { w, decl, rows } => format!("spawn_cb W{} decl={} rows={}", w, show_nats(decl), show_rows(rows)),
            Op::SpawnCbAt { w, hs, decl, rows } => format!(
                "spawn_cb_at W{} hs=[{}] decl={} rows={}",
                w,
                hs.iter().map(|h| h.show()).collect::<Vec<_>>().join(","),
                show_nats(decl),
                show_rows(rows)
            ),
            Op::Insert { w, h, k, b } => format!("insert W{} h={} k={} b={}", w, h.show(), kstr(k), show_comps(b)),
            Op::Remove { w, h, k } => format!("remove W{} h={} k={}", w, h.show(), k),
            Op::Exchange { w, h, ks, k, b } => {
                format!("exchange W{} h={} ks={} k={} b={}", w, h.show(), ks, kstr(k), show_comps(b))
            }
            Op::Despawn { w, h } => format!("despawn W{} h={}", w, h.show()),
            Op::Take { w, h, into } => format!(
                "take W{} h={} into={}",
                w,
                h.show(),
                match into {
                    Some(v) => format!("W{}", v),
                    None => "-".into(),
                }
            ),
            Op::Clear { w } => format!("clear W{}", w),
            Op::Flush { w } => format!("flush W{}", w),
            Op::Reserve { w, k } => format!("reserve W{} k={}", w, k),
            Op::ReserveEntity { w } => format!("reserve_entity W{}", w),
            Op::ReserveEntities { w, n } => format!("reserve_entities W{} n={}", w, n),
            Op::ReserveBulk { w, n, k } => format!("reserve_bulk W{} n={} k={}", w, n, k),
            Op::Obs { w } => format!("obs W{}", w),
            Op::DropWorld { w } => format!("drop W{}", w),
            Op::Query { w, q, path, h, n, es } => format!(
                "query W{} k={} path={} h={} n={} es=[{}]",
                w,
                q,
                path,
                h.show(),
                n,
                es.iter().map(|h| h.show()).collect::<Vec<_>>().join(",")
            ),
            Op::Cont(c) => c.show(),
            Op::Track { w, reads } => format!("track W{} reads={}", w, show_reads(reads)),
            Op::TObs { w } => format!("tobs W{}", w),
            Op::Ser { w, fmt, hs, q, cr } => format!("ser W{} fmt={} H={} qk={} cr={}", w, fmt, show_nats(hs), kstr(q), *cr as u8),
            Op::De { w, from, fmt, hs, mutseed } => format!(
                "de W{} from=W{} fmt={} H={} mut={}",
                w,
                from,
                fmt,
                show_nats(hs),
                mutseed.map_or("-".into(), |m| m.to_string())
            ),
            Op::DeBytes { w, fmt, hs, backend, mutseed } => format!(
                "de_bytes W{} fmt={} H={} backend={} mut={}",
                w,
                fmt,
                show_nats(hs),
                backend,
                mutseed.map_or("-".into(), |m| m.to_string())
            ),
        }
    }

    pub fn parse(line: &str) -> Op {
        if let Some(c) = crate::containers::COp::parse(line) {
            return Op::Cont(c);
        }
        let toks: Vec<&str> = line.split_whitespace().collect();
        let w: usize = toks
            .get(1)
            .and_then(|t| t.strip_prefix('W'))
            .and_then(|t| t.parse().ok())
            .expect("harness: bad world name");
        let f = |k: &str| field(&toks, k).unwrap_or_else(|| panic!("harness: missing field {} in {:?}", k, line));
        match toks[0] {
            "world" => Op::NewWorld { w },
            "spawn" => Op::Spawn { w, k: parse_k(f("k")), b: parse_comps(f("b")) },
            "spawn_at" => Op::SpawnAt { w, h: HRef::parse(f("h")), k: parse_k(f("k")), b: parse_comps(f("b")) },
            "spawn_batch" => Op::SpawnBatch {
                w,
                k: f("k").parse().unwrap(),
                via: field(&toks, "via").unwrap_or("batch").to_string(),
                rows: parse_rows(f("rows")),
            },
            "spawn_cb" => Op::SpawnCb { w, decl: parse_nats(f("decl")), rows: parse_rows(f("rows")) },
            "spawn_cb_at" => Op::SpawnCbAt {
                w,
                hs: split_top(f("hs")).iter().map(|s| HRef::parse(s)).collect(),
                decl: parse_nats(f("decl")),
                rows: parse_rows(f("rows")),
            },
            "insert" => Op::Insert { w, h: HRef::parse(f("h")), k: parse_k(f("k")), b: parse_comps(f("b")) },
            "remove" => Op::Remove { w, h: HRef::parse(f("h")), k: f("k").parse().unwrap() },
            "exchange" => Op::Exchange {
                w,
                h: HRef::parse(f("h")),
                ks: f("ks").parse().unwrap(),
                k: parse_k(f("k")),
                b: parse_comps(f("b")),
            },
            "despawn" => Op::Despawn { w, h: HRef::parse(f("h")) },
            "take" => Op::Take {
                w,
                h: HRef::parse(f("h")),
                into: match f("into") {
                    "-" => None,
                    s => Some(s.strip_prefix('W').unwrap().parse().unwrap()),
                },
            },
            "clear" => Op::Clear { w },
            "flush" => Op::Flush { w },
            "reserve" => Op::Reserve { w, k: f("k").parse().unwrap() },
            "reserve_entity" => Op::ReserveEntity { w },
            "reserve_entities" => Op::ReserveEntities { w, n: f("n").parse().unwrap() },
            "reserve_bulk" => Op::ReserveBulk { w, n: f("n").parse().unwrap(), k: f("k").parse().unwrap() },
            "obs" => Op::Obs { w },
            "drop" => Op::DropWorld { w },
            "track" => Op::Track { w, reads: parse_reads(f("reads")) },
            "tobs" => Op::TObs { w },
            "ser" => Op::Ser { w, fmt: f("fmt").to_string(), hs: parse_nats(f("H")), q: parse_k(f("qk")), cr: f("cr") == "1" },
            "de" => Op::De {
                w,
                from: f("from")[1..].parse().unwrap(),
                fmt: f("fmt").to_string(),
                hs: parse_nats(f("H")),
                mutseed: if f("mut") == "-" { None } else { Some(f("mut").parse().unwrap()) },
            },
            "de_bytes" => Op::DeBytes {
                w,
                fmt: f("fmt").to_string(),
                hs: parse_nats(f("H")),
                backend: f("backend").to_string(),
                mutseed: if f("mut") == "-" { None } else { Some(f("mut").parse().unwrap()) },
            },
            "query" => Op::Query {
                w,
                q: f("k").parse().unwrap(),
                path: f("path").to_string(),
                h: HRef::parse(f("h")),
                n: f("n").parse().unwrap(),
                es: field(&toks, "es").map_or(vec![], |l| split_top(l).iter().map(|s| HRef::parse(s)).collect()),
            },
            v => panic!("harness: unknown verb {}", v),
        }
    }
}

pub struct Ctx {
    pub worlds: Vec<Option<World>>,
    pub table: Vec<Entity>,
    /// name `(op number, sub index)` of every table entry
    pub names: Vec<(usize, usize)>,
    by_name: HashMap<(usize, usize), usize>,
    cur_op: usize,
    cur_sub: usize,
    /// one `PreparedQuery` per menu entry, shared by all worlds of the history (C17)
    prepared: HashMap<usize, Box<dyn std::any::Any>>,
    pub containers: crate::containers::Containers,
    /// one tracker per world (C18)
    trackers: HashMap<usize, hecs::ChangeTracker<TK>>,
    /// annotation lines produced by the last op (hooked container state)
    pub notes: Vec<String>,
    type_ids: HashMap<TypeId, usize>,
    pub stats: Stats,
}

#[derive(Default, Clone, Debug)]
pub struct Stats {
    pub ops: HashMap<String, usize>,
    pub results: HashMap<String, usize>,
    pub relocations: usize,
    pub max_entities: usize,
    pub max_archetypes: usize,
    pub free_list_reuse: usize,
}

pub fn type_id_table_pub() -> HashMap<TypeId, usize> {
    type_id_table()
}

fn type_id_table() -> HashMap<TypeId, usize> {
    let mut m = HashMap::new();
    for t in 0..NTYPES {
        let id = with_type!(t, T, TypeId::of::<T>());
        m.insert(id, t);
    }
    // the two fields of `PB` taken apart (hidden from per-entity observations, visible in archetype lists)
    m.insert(TypeId::of::<u64>(), 120);
    m.insert(TypeId::of::<u32>(), 121);
    m
}

fn add_to_builder(eb: &mut EntityBuilder, t: usize, s: u64) {
    with_type!(t, T, {
        eb.add(<T as Comp>::new(s));
    })
}

fn build_dynamic(b: &Bundle) -> EntityBuilder {
    let mut eb = EntityBuilder::new();
    for &(t, s) in b {
        add_to_builder(&mut eb, t, s);
    }
    eb
}

fn serials_of(b: &Bundle) -> Vec<u64> {
    b.iter().map(|x| x.1).collect()
}

fn check_menu(k: usize, b: &Bundle) {
    let ts: Vec<usize> = b.iter().map(|x| x.0).collect();
    assert_eq!(bundle_types(k), ts, "harness: bundle does not match menu entry {}", k);
}

/// declared column types -> what `ColumnBatchType::into_batch` keeps (sorted by model order, deduped)
fn canon_types(decl: &[usize]) -> Vec<usize> {
    let mut v = decl.to_vec();
    v.sort();
    v.dedup();
    v
}

fn build_column_batch(decl: &[usize], rows: &[Bundle]) -> hecs::ColumnBatch {
    let mut ty = ColumnBatchType::new();
    for &t in decl {
        with_type!(t, T, {
            ty.add::<T>();
        });
    }
    let mut builder = ty.into_batch(rows.len() as u32);
    for &t in &canon_types(decl) {
        with_type!(t, T, {
            let mut wr = builder.writer::<T>().expect("harness: writer for declared type");
            for r in rows {
                let s = r.iter().find(|c| c.0 == t).expect("harness: row lacks declared column").1;
                if wr.push(<T as Comp>::new(s)).is_err() {
                    panic!("harness: batch writer rejected a value within the declared size");
                }
            }
        });
    }
    match builder.build() {
        Ok(b) => b,
        Err(_) => panic!("harness: complete batch failed to build"),
    }
}

impl Ctx {
    pub fn new() -> Self {
        Ctx {
            worlds: Vec::new(),
            table: Vec::new(),
            names: Vec::new(),
            by_name: HashMap::new(),
            cur_op: 0,
            cur_sub: 0,
            prepared: HashMap::new(),
            containers: Default::default(),
            trackers: HashMap::new(),
            notes: Vec::new(),
            type_ids: type_id_table(),
            stats: Stats::default(),
        }
    }

    pub fn resolve(&self, h: &HRef) -> Entity {
        match h {
            HRef::Tab(n, j) => self.by_name.get(&(*n, *j)).map(|&i| self.table[i]).unwrap_or(Entity::DANGLING),
            HRef::Lit(i, g) => entity_of(*i, *g).unwrap_or(Entity::DANGLING),
        }
    }

    pub fn push_handle(&mut self, e: Entity) {
        let name = (self.cur_op, self.cur_sub);
        self.cur_sub += 1;
        self.by_name.insert(name, self.table.len());
        self.names.push(name);
        self.table.push(e);
    }

    fn push_handles(&mut self, es: &[Entity]) {
        for &e in es {
            self.push_handle(e);
        }
    }

    pub fn href(&self, i: usize) -> HRef {
        let (n, j) = self.names[i];
        HRef::Tab(n, j)
    }

    pub fn world(&mut self, w: usize) -> &mut World {
        self.worlds.get_mut(w).and_then(|x| x.as_mut()).expect("harness: no such world")
    }

    /// the containers an op needs exist and have the right kind (shrunk histories may have lost them)
    pub fn container_ready(&self, c: &crate::containers::COp) -> bool {
        use crate::containers::{BBox, COp, PBox};
        let b = |i: &usize| self.containers.builders.get(i);
        match c {
            COp::BNew { .. } | COp::QNew { .. } | COp::PNew { .. } => true,
            COp::BAdd { b: i, .. } | COp::BAddBundle { b: i, .. } | COp::BObs { b: i } | COp::BClear { b: i } => {
                matches!(b(i), Some(BBox::Plain(_)) | Some(BBox::Clone(_)))
            }
            COp::BAddBuilt { b: i, from } => {
                i != from && matches!(b(i), Some(BBox::Plain(_)) | Some(BBox::Clone(_))) && matches!(b(from), Some(BBox::Built(_)))
            }
            COp::BSpawn { b: i, w } => matches!(b(i), Some(BBox::Plain(_))) && self.has_world(*w),
            COp::BBuildDrop { b: i } => matches!(b(i), Some(BBox::Plain(_))),
            COp::BBuild { b: i, .. } => matches!(b(i), Some(BBox::Clone(_))),
            COp::CSpawn { b: i, w } => matches!(b(i), Some(BBox::Built(_))) && self.has_world(*w),
            COp::BClone { b: i, .. } => matches!(b(i), Some(BBox::Clone(_)) | Some(BBox::Built(_))),
            COp::CBack { b: i, .. } => matches!(b(i), Some(BBox::Built(_))),
            COp::BDrop { b: i } => b(i).is_some(),
            COp::QSpawn { q, .. } | COp::QInsert { q, .. } | COp::QRemove { q, .. } | COp::QDespawn { q, .. }
            | COp::QClear { q } | COp::QDrop { q } => self.containers.cmdbufs.contains_key(q),
            COp::QRun { q, w } => self.containers.cmdbufs.contains_key(q) && self.has_world(*w),
            COp::PPush { p, .. } | COp::PBuild { p } => matches!(self.containers.batches.get(p), Some(PBox::Builder(..))),
            COp::PSpawn { p, w } => matches!(self.containers.batches.get(p), Some(PBox::Batch(_))) && self.has_world(*w),
            COp::PSpawnAt { p, w, hs } => {
                matches!(self.containers.batches.get(p), Some(PBox::Batch(_)))
                    && self.has_world(*w)
                    && hs.iter().all(|h| self.resolve(h).id() < 100_000)
            }
            COp::PDrop { p } => self.containers.batches.contains_key(p),
        }
    }

    pub fn has_world(&self, w: usize) -> bool {
        self.worlds.get(w).map_or(false, |x| x.is_some())
    }

    /// handles probed by `obs`: a deterministic sample of the table plus fabricated neighbours
    pub fn probe_handles(&self, w: usize) -> Vec<Entity> {
        let mut out: Vec<Entity> = Vec::new();
        let n = self.table.len();
        let mut idxs: Vec<usize> = Vec::new();
        for i in n.saturating_sub(14)..n {
            idxs.push(i);
        }
        if n > 14 {
            let step = ((n - 14) / 8).max(1);
            let mut i = 0;
            while i < n - 14 && idxs.len() < 22 {
                idxs.push(i);
                i += step;
            }
        }
        for i in idxs {
            let e = self.table[i];
            if !out.contains(&e) {
                out.push(e);
            }
        }
        // fabricated neighbours of the three most recent handles: generation +-1
        let recent: Vec<Entity> = out.iter().take(3).copied().collect();
        for e in recent {
            let bits = e.to_bits().get();
            let (id, g) = ((bits & 0xffff_ffff) as u32, (bits >> 32) as u32);
            for g2 in [g.wrapping_add(1), g.wrapping_sub(1)] {
                if let Some(x) = entity_of(id, g2) {
                    if !out.contains(&x) {
                        out.push(x);
                    }
                }
            }
        }
        // ids just beyond the metadata (the window a fresh reservation lives in)
        if let Some(Some(world)) = self.worlds.get(w) {
            let m = world.verif_dump().entities.meta.len() as u32;
            for id in [m, m + 1, m + 2] {
                for g in [1u32, 2] {
                    let x = entity_of(id, g).unwrap();
                    if !out.contains(&x) {
                        out.push(x);
                    }
                }
            }
        }
        if !out.contains(&Entity::DANGLING) {
            out.push(Entity::DANGLING);
        }
        out
    }

    fn obs(&mut self, w: usize) -> (String, String) {
        let hs = self.probe_handles(w);
        let world = self.world(w);
        let len = world.len();
        let mut iter: Vec<(Entity, Vec<(usize, u64)>)> =
            world.iter().map(|er| (er.entity(), entity_ref_comps(&er))).collect();
        iter.sort_by_key(|x| {
            let b = x.0.to_bits().get();
            (b & 0xffff_ffff, b >> 32)
        });
        let iter_s: Vec<String> = iter.iter().map(|(e, c)| format!("{}={}", show_entity(*e), show_comps(c))).collect();
        let tmap = type_id_table();
        let mut arch: Vec<(Vec<usize>, u32)> = world
            .archetypes()
            .map(|a| {
                let mut ts: Vec<usize> = a.component_types().map(|t| *tmap.get(&t).unwrap_or(&110)).collect();
                ts.sort();
                (ts, a.len())
            })
            .collect();
        arch.sort();
        let arch_s: Vec<String> = arch.iter().map(|(ts, n)| format!("{}={}", show_nats(ts), n)).collect();
        let ag: String = format!("{:?}", world.archetypes_generation())
            .chars()
            .filter(|c| c.is_ascii_digit())
            .collect();
        let hs_s: Vec<String> = hs
            .iter()
            .map(|&h| {
                let c = if world.contains(h) { "1" } else { "0" };
                let e = match world.entity(h) {
                    Err(_) => "x".to_string(),
                    Ok(er) => show_comps(&entity_ref_comps(&er)),
                };
                format!("{}/{}", c, e)
            })
            .collect();
        // every other read accessor must tell the same story as the ones printed above
        let mut acc: Option<String> = None;
        for &h in hs.iter() {
            for t in 0..NTYPES {
                if acc.is_none() {
                    acc = accessor_disagreement(world, h, t);
                }
            }
            if acc.is_none() {
                if let Ok(er) = world.entity(h) {
                    if er.len() as usize != er.component_types().count() || er.is_empty() != (er.len() == 0) {
                        acc = Some(format!("EntityRef::len:{}", show_entity(h)));
                    }
                }
            }
        }
        if acc.is_none() {
            // (only the fresh iterator: `Iter::len` keeps returning the total while the iterator is consumed — an
            // upstream quirk of the `ExactSizeIterator` impl that none of the properties speaks about)
            let it = world.iter();
            let announced = it.len();
            if announced != iter.len() || announced != len as usize || world.is_empty() != (len == 0) {
                acc = Some(format!("World::iter().len():{}!={}", announced, iter.len()));
            }
        }
        if acc.is_none() {
            for (e, _) in iter.iter() {
                // SAFETY: `e` was just yielded by iteration, so its id is live
                let found = unsafe { world.find_entity_from_id(e.id()) };
                if found != *e {
                    acc = Some(format!("World::find_entity_from_id:{}!={}", show_entity(found), show_entity(*e)));
                    break;
                }
            }
        }
        if acc.is_none() {
            // the `&mut World` single-entity accessors answer like the shared ones (reserved handles included)
            for &h in hs.iter() {
                let c = world.contains(h);
                let one = world.query_one_mut::<()>(h).is_ok();
                let [many] = world.query_many_mut::<(), 1>([h]);
                let sat = matches!(world.query_one_mut::<hecs::Satisfies<&A>>(h), Ok(_));
                if one != c || many.is_ok() != c || sat != c {
                    acc = Some(format!("World::query_one_mut/query_many_mut:{}:{}{}{}!={}", show_entity(h), one, many.is_ok(), sat, c));
                    break;
                }
            }
        }
        let acc = acc.map_or("ok".to_string(), |m| m.replace(' ', "_"));
        (
            format!("obs W{} hs={}", w, show_entities(&hs)),
            format!("len={} iter=[{}] arch=[{}] ag={} hs=[{}] acc={}", len, iter_s.join(";"), arch_s.join(";"), ag, hs_s.join(","), acc),
        )
    }

    /// `#state` annotation: hooked internal bookkeeping of world `w`
    pub fn state_line(&self, w: usize) -> Option<String> {
        let world = self.worlds.get(w)?.as_ref()?;
        let d = world.verif_dump();
        let metas: Vec<String> = d
            .entities
            .meta
            .iter()
            .map(|&(g, a, i)| if i == u32::MAX { format!("{}:{}:-", g, a) } else { format!("{}:{}:{}", g, a, i) })
            .collect();
        let pend: Vec<String> = d.entities.pending.iter().map(|x| x.to_string()).collect();
        let archs: Vec<String> = d
            .archetypes
            .iter()
            .map(|a| {
                let ts: Vec<usize> = a.types.iter().map(|t| *self.type_ids.get(&t.0).unwrap_or(&110)).collect();
                let ids: Vec<String> = a.ids.iter().map(|x| x.to_string()).collect();
                let bw: Vec<String> = a.borrow.iter().map(|x| x.to_string()).collect();
                format!("{}=[{}]=[{}]={}", show_nats(&ts), ids.join(","), bw.join(","), a.capacity)
            })
            .collect();
        Some(format!(
            "#state W{} metas=[{}] pending=[{}] cursor={} len={} archs=[{}]",
            w,
            metas.join(","),
            pend.join(","),
            d.entities.free_cursor,
            d.entities.len,
            archs.join(";")
        ))
    }

    /// executes one op; returns (concrete lhs, rhs)
    pub fn exec(&mut self, op: &Op, opnum: usize) -> (String, String) {
        self.cur_op = opnum;
        self.cur_sub = 0;
        *self.stats.ops.entry(op.show().split(' ').next().unwrap().to_string()).or_default() += 1;
        let _ = take_drops();
        self.notes.clear();
        let (lhs, res) = self.exec_inner(op);
        let drops = take_drops();
        let rhs = match op {
            Op::Cont(crate::containers::COp::BObs { .. }) | Op::Cont(crate::containers::COp::PPush { .. }) => res,
            Op::Cont(crate::containers::COp::QRun { .. }) => {
                let new = if self.notes.first().map_or(false, |n| n.starts_with("new=")) { self.notes.remove(0) } else { "new=[]".into() };
                format!("{} d={} {}", res, show_comps(&drops), new)
            }
            Op::Obs { .. } | Op::NewWorld { .. } | Op::Query { .. } | Op::Track { .. } | Op::TObs { .. } | Op::Ser { .. }
            | Op::De { .. } | Op::DeBytes { .. } => res,
            _ => {
                if res == "panic" {
                    res
                } else {
                    format!("{} d={}", res, show_comps(&drops))
                }
            }
        };
        let key = rhs.split(|c| c == ' ' || c == '=').next().unwrap_or("").to_string();
        *self.stats.results.entry(key).or_default() += 1;
        (lhs, rhs)
    }

    fn exec_inner(&mut self, op: &Op) -> (String, String) {
        match op {
            Op::NewWorld { w } => {
                while self.worlds.len() <= *w {
                    self.worlds.push(None);
                }
                self.worlds[*w] = Some(World::new());
                (op.show(), "ok".into())
            }
            Op::Spawn { w, k, b } => {
                let world = self.world(*w);
                let e = match k {
                    Some(k) => {
                        check_menu(*k, b);
                        with_bundle!(*k, T, world.spawn(<T as StaticBundle>::make(&serials_of(b))))
                    }
                    None => {
                        let mut eb = build_dynamic(b);
                        world.spawn(eb.build())
                    }
                };
                self.push_handle(e);
                (format!("spawn W{} k={} b={}", w, kstr(k), show_comps(b)), format!("e={}", show_entity(e)))
            }
            Op::SpawnAt { w, h, k, b } => {
                let e = self.resolve(h);
                let world = self.world(*w);
                match k {
                    Some(k) => {
                        check_menu(*k, b);
                        with_bundle!(*k, T, world.spawn_at(e, <T as StaticBundle>::make(&serials_of(b))))
                    }
                    None => {
                        let mut eb = build_dynamic(b);
                        world.spawn_at(e, eb.build())
                    }
                };
                self.push_handle(e);
                (format!("spawn_at W{} h={} k={} b={}", w, show_entity(e), kstr(k), show_comps(b)), "ok".into())
            }
            Op::SpawnBatch { w, k, via, rows } => {
                for r in rows {
                    check_menu(*k, r);
                }
                let pristine = {
                    let d = self.world(*w).verif_dump();
                    d.entities.meta.is_empty() && d.archetypes.len() == 1
                };
                if via == "collect" && pristine && !self.trackers.contains_key(w) {
                    let fresh: World = with_bundle!(*k, T, {
                        let items: Vec<T> = rows.iter().map(|r| <T as StaticBundle>::make(&serials_of(r))).collect();
                        items.into_iter().collect()
                    });
                    self.worlds[*w] = Some(fresh);
                }
                let table = self.table.clone();
                let world = self.world(*w);
                let es: Vec<Entity> = if via == "collect" && pristine {
                    world.iter().map(|e| e.entity()).collect()
                } else {
                    // existing = yielded by iteration, or reserved and not yet flushed (the batch flushes them)
                    let mut before: std::collections::HashSet<Entity> = world.iter().map(|e| e.entity()).collect();
                    before.extend(table.iter().copied().filter(|e| world.contains(*e)));
                    let mut got: Vec<Entity> = with_bundle!(*k, T, {
                        let items: Vec<T> = rows.iter().map(|r| <T as StaticBundle>::make(&serials_of(r))).collect();
                        match via.as_str() {
                            "batch" => {
                                let it = world.spawn_batch(items);
                                let announced = (it.len(), it.size_hint());
                                let es: Vec<Entity> = it.collect();
                                assert!(
                                    announced == (es.len(), (es.len(), Some(es.len()))),
                                    "impl-inconsistency: spawn_batch announced {:?} and yielded {}",
                                    announced,
                                    es.len()
                                );
                                es
                            }
                            "extend" | "collect" => {
                                world.extend(items);
                                Vec::new()
                            }
                            v => {
                                let n: usize = v.strip_prefix("part").and_then(|n| n.parse().ok()).expect("harness: bad via");
                                let mut it = world.spawn_batch(items);
                                let mut got = Vec::new();
                                for _ in 0..n {
                                    if let Some(e) = it.next() {
                                        got.push(e);
                                    }
                                }
                                drop(it);
                                got
                            }
                        }
                    });
                    // what the caller was not handed is found the way a caller would: by iterating
                    if via != "batch" {
                        let rest: Vec<Entity> =
                            world.iter().map(|e| e.entity()).filter(|e| !before.contains(e) && !got.contains(e)).collect();
                        got.extend(rest);
                    }
                    got
                };
                self.push_handles(&es);
                if via == "extend" || via == "collect" {
                    // `Extend`/`FromIterator` are, by their definition, one `spawn` per item: the trace
                    // says so, with the handles a caller finds afterwards
                    if via == "collect" && pristine {
                        self.notes.push(format!("world W{} => ok", w));
                    }
                    for (i, r) in rows.iter().enumerate() {
                        let e = es.get(i).map_or("?".to_string(), |e| show_entity(*e));
                        self.notes.push(format!("spawn W{} k={} b={} => e={} d=[]", w, k, show_comps(r), e));
                    }
                    for e in es.iter().skip(rows.len()) {
                        self.notes.push(format!("spawn W{} k={} b=? => e={} d=[]", w, k, show_entity(*e)));
                    }
                    (format!("extend W{} k={} via={} n={}", w, k, via, rows.len()), "ok".into())
                } else {
                    (
                        format!("spawn_batch W{} k={} via={} ts={} rows={}", w, k, via, show_nats(&bundle_types(*k)), show_rows(rows)),
                        format!("es={}", show_entities(&es)),
                    )
                }
            }
            Op::SpawnCb { w, decl, rows } => {
                let batch = build_column_batch(decl, rows);
                let world = self.world(*w);
                let it = world.spawn_column_batch(batch);
                let announced = (it.len(), it.size_hint());
                let es: Vec<Entity> = it.collect();
                assert!(
                    announced == (es.len(), (es.len(), Some(es.len()))),
                    "impl-inconsistency: spawn_column_batch announced {:?} and yielded {}",
                    announced,
                    es.len()
                );
                self.push_handles(&es);
                (
                    format!("spawn_cb W{} ts={} rows={}", w, show_nats(&canon_types(decl)), show_rows(rows)),
                    format!("es={}", show_entities(&es)),
                )
            }
            Op::SpawnCbAt { w, hs, decl, rows } => {
                let es: Vec<Entity> = hs.iter().map(|h| self.resolve(h)).collect();
                let batch = build_column_batch(decl, rows);
                let world = self.world(*w);
                // (a repeated id is out of contract: hecs refuses by panicking, which ends the history)
                world.spawn_column_batch_at(&es, batch);
                self.push_handles(&es);
                (
                    format!(
                        "spawn_cb_at W{} hs={} ts={} rows={}",
                        w,
                        show_entities(&es),
                        show_nats(&canon_types(decl)),
                        show_rows(rows)
                    ),
                    "ok".into(),
                )
            }
            Op::Insert { w, h, k, b } => {
                let e = self.resolve(h);
                let one = self.cur_op % 2 == 1;
                let world = self.world(*w);
                let r = match k {
                    // every other single-component insert goes through `insert_one`
                    Some(k) if one && single_tuple(*k) => {
                        check_menu(*k, b);
                        with_type!(b[0].0, T, world.insert_one(e, <T as Comp>::new(b[0].1)))
                    }
                    Some(k) => {
                        check_menu(*k, b);
                        with_bundle!(*k, T, world.insert(e, <T as StaticBundle>::make(&serials_of(b))))
                    }
                    None => {
                        let mut eb = build_dynamic(b);
                        world.insert(e, eb.build())
                    }
                };
                (
                    format!("insert W{} h={} k={} b={}", w, show_entity(e), kstr(k), show_comps(b)),
                    if r.is_ok() { "ok".into() } else { "nosuch".into() },
                )
            }
            Op::Remove { w, h, k } => {
                let e = self.resolve(h);
                let one = self.cur_op % 2 == 1;
                let world = self.world(*w);
                let res = if one && single_tuple(*k) {
                    with_type!(bundle_types(*k)[0], T, {
                        match world.remove_one::<T>(e) {
                            Ok(v) => {
                                let s = format!("vals={}", show_comps(&[(<T as Comp>::IDX, v.serial())]));
                                suppressed(|| drop(v));
                                s
                            }
                            Err(hecs::ComponentError::NoSuchEntity) => "nosuch".to_string(),
                            Err(hecs::ComponentError::MissingComponent(_)) => "missing".to_string(),
                        }
                    })
                } else {
                    with_bundle!(*k, T, {
                    match world.remove::<T>(e) {
                        Ok(b) => {
                            let s = format!("vals={}", show_comps(&StaticBundle::serials(&b)));
                            suppressed(|| drop(b));
                            s
                        }
                        Err(hecs::ComponentError::NoSuchEntity) => "nosuch".to_string(),
                        Err(hecs::ComponentError::MissingComponent(_)) => "missing".to_string(),
                    }
                    })
                };
                (format!("remove W{} h={} k={} ts={}", w, show_entity(e), k, show_nats(&bundle_types(*k))), res)
            }
            Op::Exchange { w, h, ks, k, b } => {
                let e = self.resolve(h);
                let one = self.cur_op % 2 == 1 && (1..=4).contains(ks) && k.map_or(false, single_tuple);
                let world = self.world(*w);
                let res = if one {
                    check_menu(k.unwrap(), b);
                    macro_rules! ex_one {
                        ($S:ty) => {
                            with_type!(b[0].0, T, {
                                match world.exchange_one::<$S, T>(e, <T as Comp>::new(b[0].1)) {
                                    Ok(got) => {
                                        let s = format!("vals={}", show_comps(&[(<$S as Comp>::IDX, got.serial())]));
                                        suppressed(|| drop(got));
                                        s
                                    }
                                    Err(hecs::ComponentError::NoSuchEntity) => "nosuch".to_string(),
                                    Err(hecs::ComponentError::MissingComponent(_)) => "missing".to_string(),
                                }
                            })
                        };
                    }
                    match ks {
                        1 => ex_one!(A),
                        2 => ex_one!(B),
                        3 => ex_one!(E),
                        _ => ex_one!(Z),
                    }
                } else {
                    with_small_bundle!(*ks, RemB, {
                    let r = match k {
                        Some(k) => {
                            check_menu(*k, b);
                            with_bundle!(*k, T, world.exchange::<RemB, T>(e, <T as StaticBundle>::make(&serials_of(b))))
                        }
                        None => {
                            let mut eb = build_dynamic(b);
                            world.exchange::<RemB, _>(e, eb.build())
                        }
                    };
                    match r {
                        Ok(got) => {
                            let s = format!("vals={}", show_comps(&StaticBundle::serials(&got)));
                            suppressed(|| drop(got));
                            s
                        }
                        Err(hecs::ComponentError::NoSuchEntity) => "nosuch".to_string(),
                        Err(hecs::ComponentError::MissingComponent(_)) => "missing".to_string(),
                    }
                    })
                };
                (
                    format!(
                        "exchange W{} h={} ks={} ts={} k={} b={}",
                        w,
                        show_entity(e),
                        ks,
                        show_nats(&small_bundle_types(*ks)),
                        kstr(k),
                        show_comps(b)
                    ),
                    res,
                )
            }
            Op::Despawn { w, h } => {
                let e = self.resolve(h);
                let world = self.world(*w);
                let r = world.despawn(e);
                (format!("despawn W{} h={}", w, show_entity(e)), if r.is_ok() { "ok".into() } else { "nosuch".into() })
            }
            Op::Take { w, h, into } => {
                let e = self.resolve(h);
                let lhs = format!(
                    "take W{} h={} into={}",
                    w,
                    show_entity(e),
                    match into {
                        Some(v) => format!("W{}", v),
                        None => "-".into(),
                    }
                );
                match into {
                    None => {
                        let world = self.world(*w);
                        let r = world.take(e).map(drop);
                        (lhs, if r.is_ok() { "ok".into() } else { "nosuch".into() })
                    }
                    Some(v) => {
                        assert!(v != w, "harness: take into the same world");
                        let mut dst = self.worlds[*v].take().expect("harness: no such world");
                        let world = self.world(*w);
                        let r = match world.take(e) {
                            Ok(t) => Some(dst.spawn(t)),
                            Err(_) => None,
                        };
                        self.worlds[*v] = Some(dst);
                        match r {
                            Some(ne) => {
                                self.push_handle(ne);
                                (lhs, format!("e={}", show_entity(ne)))
                            }
                            None => (lhs, "nosuch".into()),
                        }
                    }
                }
            }
            Op::Clear { w } => {
                self.world(*w).clear();
                (op.show(), "ok".into())
            }
            Op::Flush { w } => {
                self.world(*w).flush();
                (op.show(), "ok".into())
            }
            Op::Reserve { w, k } => {
                let world = self.world(*w);
                with_bundle!(*k, T, world.reserve::<T>(3));
                (format!("reserve W{} k={} ts={}", w, k, show_nats(&bundle_types(*k))), "ok".into())
            }
            Op::ReserveEntity { w } => {
                let e = self.world(*w).reserve_entity();
                self.push_handle(e);
                (op.show(), format!("e={}", show_entity(e)))
            }
            Op::ReserveEntities { w, n } => {
                let it = self.world(*w).reserve_entities(*n as u32);
                let announced = (it.len(), it.size_hint());
                let es: Vec<Entity> = it.collect();
                assert!(
                    announced == (es.len(), (es.len(), Some(es.len()))),
                    "impl-inconsistency: reserve_entities({}) announced {:?} and yielded {}",
                    n, announced, es.len()
                );
                self.push_handles(&es);
                (op.show(), format!("es={}", show_entities(&es)))
            }
            Op::ReserveBulk { w, n, k } => {
                let es: Vec<Entity> = self.world(*w).reserve_entities(*n as u32).take(*k).collect();
                self.push_handles(&es);
                (op.show(), format!("es={}", show_entities(&es)))
            }
            Op::Obs { w } => self.obs(*w),
            Op::TObs { w } => {
                let (l, r) = self.obs(*w);
                let strip = |s: &str| -> String {
                    s.split(' ').filter(|t| !t.starts_with("arch=") && !t.starts_with("ag=")).collect::<Vec<_>>().join(" ")
                };
                (l.replacen("obs ", "tobs ", 1), strip(&r))
            }
            Op::Ser { w, fmt, hs, q, cr } => {
                let world = self.world(*w);
                let (tree, honest) = crate::serde_engine::serialize_tree(world, fmt, hs, *cr, *q);
                (
                    format!(
                        "ser W{} fmt={} H={} q={} cr={}",
                        w,
                        fmt,
                        show_nats(hs),
                        q.map_or("-".to_string(), crate::query_engine::query_desc),
                        *cr as u8
                    ),
                    format!("tree={} honest={}", tree.show(), honest as u8),
                )
            }
            Op::De { w, from, fmt, hs, mutseed } => {
                let (tree, _) = crate::serde_engine::serialize_tree(self.world(*from), fmt, hs, true, None);
                let mut mutated = false;
                let tree = match mutseed {
                    Some(m) => {
                        let mut rng = Rng::new(*m);
                        let t2 = crate::serde_engine::mutate_tree(&tree, &mut rng);
                        if crate::serde_engine::ids_bounded(&t2) && t2 != tree {
                            mutated = true;
                            t2
                        } else {
                            tree
                        }
                    }
                    None => tree,
                };
                while self.worlds.len() <= *w {
                    self.worlds.push(None);
                }
                let lhs = format!("de W{} fmt={} H={} tree={}", w, fmt, show_nats(hs), tree.show());
                // C15: every decoded component is either in the world that comes out or has been dropped
                if let Some(old) = self.worlds[*w].take() {
                    drop(old);
                }
                let before = live();
                match crate::serde_engine::deserialize_tree(&tree, fmt, hs) {
                    Ok(world) => {
                        let stored: i64 =
                            world.iter().map(|er| entity_ref_comps(&er).iter().filter(|c| c.0 < 10).count() as i64).sum();
                        let leak = live() - before - stored;
                        self.worlds[*w] = Some(world);
                        if !mutated {
                            self.notes.push(format!("roundtrip W{} W{} H={} => ok", from, w, show_nats(hs)));
                        }
                        (lhs, format!("ok leak={}", leak))
                    }
                    Err(_) => (lhs, format!("err leak={}", live() - before)),
                }
            }
            Op::DeBytes { w, fmt, hs, backend, mutseed } => {
                let before = live();
                let world = self.world(*w);
                let bytes = if backend == "json" { crate::serde_engine::to_json(world, fmt, hs) } else { crate::serde_engine::to_bincode(world, fmt, hs) };
                let (src_tree, _) = crate::serde_engine::serialize_tree(world, fmt, hs, true, None);
                let mut mutated = false;
                let bytes = match (mutseed, backend.as_str()) {
                    (Some(m), "json") => {
                        let mut rng = Rng::new(*m);
                        let b2 = crate::serde_engine::mutate_json(&bytes, &mut rng);
                        if crate::serde_engine::json_ids_bounded(&b2) && b2 != bytes {
                            mutated = true;
                            b2
                        } else {
                            bytes
                        }
                    }
                    _ => bytes,
                };
                let r = if backend == "json" {
                    crate::serde_engine::from_json(&bytes, fmt, hs)
                } else {
                    crate::serde_engine::from_bincode(&bytes, fmt, hs)
                };
                let mut out = match r {
                    Ok(w2) => {
                        let mut extra = String::new();
                        if !mutated {
                            let (t2, _) = crate::serde_engine::serialize_tree(&w2, fmt, hs, true, None);
                            let same = canon_tree_eq(&t2, &src_tree, fmt);
                            extra = format!(" same={}", same as u8);
                        }
                        // hooked state of the decoded world, then it is dropped
                        let mut tmp = Ctx::new();
                        tmp.worlds.push(Some(w2));
                        if let Some(s) = tmp.state_line(0) {
                            self.notes.push(s.replacen("#state W0", "#state X", 1));
                        }
                        drop(tmp);
                        format!("ok{}", extra)
                    }
                    Err(_) => "err".to_string(),
                };
                let _ = take_drops();
                out.push_str(&format!(" leak={}", live() - before));
                (format!("de_bytes W{} fmt={} H={} backend={} mutated={}", w, fmt, show_nats(hs), backend, mutated as u8), out)
            }
            Op::Track { w, reads } => {
                let mut tracker = self.trackers.remove(w).unwrap_or_else(hecs::ChangeTracker::<TK>::new);
                let world = self.world(*w);
                let mut out = ["-".to_string(), "-".to_string(), "-".to_string()];
                {
                    let mut changes = tracker.track(world);
                    for &(k, partial) in reads {
                        let srt = |v: &mut Vec<(Entity, String)>| {
                            v.sort_by_key(|x| {
                                let b = x.0.to_bits().get();
                                (b & 0xffff_ffff, b >> 32)
                            })
                        };
                        match k {
                            0 => {
                                let mut it = changes.added();
                                if partial {
                                    let n = it.by_ref().take(1).count();
                                    out[0] = format!("~{}", n);
                                } else {
                                    let mut v: Vec<(Entity, String)> = it.map(|(e, x)| (e, x.0.to_string())).collect();
                                    srt(&mut v);
                                    out[0] = format!("[{}]", v.iter().map(|(e, s)| format!("{}={}", show_entity(*e), s)).collect::<Vec<_>>().join(";"));
                                }
                            }
                            1 => {
                                let mut it = changes.changed();
                                if partial {
                                    let n = it.by_ref().take(1).count();
                                    out[1] = format!("~{}", n);
                                } else {
                                    let mut v: Vec<(Entity, String)> = it.map(|(e, old, new)| (e, format!("{}>{}", old.0, new.0))).collect();
                                    srt(&mut v);
                                    out[1] = format!("[{}]", v.iter().map(|(e, s)| format!("{}={}", show_entity(*e), s)).collect::<Vec<_>>().join(";"));
                                }
                            }
                            _ => {
                                let mut it = changes.removed();
                                if partial {
                                    let n = it.by_ref().take(1).count();
                                    out[2] = format!("~{}", n);
                                } else {
                                    let mut v: Vec<(Entity, String)> = it.map(|(e, x)| (e, x.0.to_string())).collect();
                                    srt(&mut v);
                                    out[2] = format!("[{}]", v.iter().map(|(e, s)| format!("{}={}", show_entity(*e), s)).collect::<Vec<_>>().join(";"));
                                }
                            }
                        }
                    }
                }
                self.trackers.insert(*w, tracker);
                (op.show(), format!("added={} changed={} removed={}", out[0], out[1], out[2]))
            }
            Op::Cont(c) => {
                let mut conts = std::mem::take(&mut self.containers);
                let mut worlds = std::mem::take(&mut self.worlds);
                let (lhs, res, handles, notes) = {
                    let me: &Ctx = self;
                    conts.exec(c, &mut worlds, &|h: &HRef| me.resolve(h), me.cur_op)
                };
                self.containers = conts;
                self.worlds = worlds;
                self.push_handles(&handles);
                self.notes = notes;
                (lhs, res)
            }
            Op::Query { w, q, path, h, n, es } => {
                let e = self.resolve(h);
                let hs = self.probe_handles(*w);
                let es: Vec<Entity> = es.iter().map(|h| self.resolve(h)).collect();
                if path.starts_with("many_") && !(2..=6).contains(&es.len()) {
                    return (format!("query W{} skipped", w), "ok".into());
                }
                let mut store = std::mem::take(&mut self.prepared);
                let world = self.world(*w);
                let dup = path.starts_with("many_") && (0..es.len()).any(|i| es[..i].contains(&es[i]));
                let asserting =
                    *q >= crate::query_engine::FIRST_ALIASING && crate::query_engine::ASSERTING_PATHS.contains(&path.as_str());
                // (an aliasing query on a dynamically checked path fails in the middle of its acquisition; like every
                // other panic from inside hecs that ends the history)
                let r = if (dup && *q < crate::query_engine::FIRST_ALIASING) || asserting {
                    // refused before anything is touched: the history goes on
                    match guarded(|| crate::query_engine::exec_query(world, *q, path, e, &hs, &es, (*n).max(1) as u32, &mut store)) {
                        Ok(r) => r,
                        Err(_) => "panic".into(),
                    }
                } else {
                    crate::query_engine::exec_query(world, *q, path, e, &hs, &es, (*n).max(1) as u32, &mut store)
                };
                self.prepared = store;
                (
                    format!(
                        "query W{} k={} q={} path={} h={} hs={} n={} es={}",
                        w,
                        q,
                        crate::query_engine::query_desc(*q),
                        path,
                        show_entity(e),
                        show_entities(&hs),
                        (*n).max(1),
                        show_entities(&es)
                    ),
                    r,
                )
            }
            Op::DropWorld { w } => {
                let world = self.worlds[*w].take();
                drop(world);
                (op.show(), "ok".into())
            }
        }
    }
}

// ------------------------------------------------------------------------------------------
// generator

pub struct Gen {
    pub rng: Rng,
    pub serial: u64,
    pub profile: Profile,
    /// ops of a scenario in progress (multi-step sequences random choice reaches too rarely)
    plan: std::collections::VecDeque<Op>,
    /// second stream, for deciding whether a (newer) scenario starts: asking it does not move `rng`, so
    /// adding a scenario leaves every history in which it does not start exactly as it was
    pub srng: Rng,
}

#[derive(Clone, Copy, PartialEq, Debug)]
pub enum Profile {
    /// balanced mix (C01, C02, C03, C10)
    Mixed,
    /// many failing arguments (C09)
    Malformed,
    /// reservation heavy (C16, C07 single-threaded part)
    Reserve,
    /// column batches and id-targeted spawns (C12, C14 substrate)
    Batch,
    /// world mutations interleaved with queries through every access path (C08, C17)
    Query,
    /// entity builders, command buffers and column batch builders driving a world (C11, C12, C13, C04)
    Containers,
    /// mutations of a tracked component interleaved with `ChangeTracker::track` (C18)
    Tracker,
    /// world mutations interleaved with (de)serialisation, token- and byte-level mutations (C14, C15)
    Serde,
    /// large batches and repeated merges into populated archetypes: capacity boundaries 63/64/65,
    /// doubling points, reserve-then-merge (C04, C12)
    Capacity,
}

impl Gen {
    pub fn new(seed: u64, profile: Profile) -> Self {
        Gen { rng: Rng::new(seed), serial: 1, profile, plan: Default::default(), srng: Rng::new(seed ^ 0x5ce7_a210_0000_0001) }
    }

    fn fresh(&mut self) -> u64 {
        let s = self.serial;
        self.serial += 1;
        s
    }

    fn bundle_for_types(&mut self, ts: &[usize]) -> Bundle {
        ts.iter()
            .map(|&t| (t, if t == 10 { self.rng.below(4) as u64 } else if (7..=9).contains(&t) { 0 } else { self.fresh() }))
            .collect()
    }

    fn random_types(&mut self, max: usize) -> Vec<usize> {
        let n = self.rng.below(max + 1);
        let mut all: Vec<usize> = (0..NTYPES).collect();
        self.rng.shuffle(&mut all);
        all.truncate(n);
        all
    }

    fn random_bundle(&mut self) -> (Option<usize>, Bundle) {
        if self.rng.chance(70) {
            // favour small menu entries so archetypes are shared
            let k = if self.rng.chance(60) { self.rng.below(15) } else { self.rng.below(NBUNDLES) };
            let b = self.bundle_for_types(&bundle_types(k));
            (Some(k), b)
        } else {
            let ts = self.random_types(4);
            (None, self.bundle_for_types(&ts))
        }
    }

    /// live entities of world `w` with their table index and component types
    fn live(ctx: &Ctx, w: usize) -> Vec<(usize, Entity, Vec<usize>)> {
        let mut idx: HashMap<Entity, usize> = HashMap::new();
        for (i, e) in ctx.table.iter().enumerate() {
            idx.insert(*e, i);
        }
        let world = ctx.worlds[w].as_ref().unwrap();
        world
            .iter()
            .filter_map(|er| {
                let e = er.entity();
                idx.get(&e).map(|&i| (i, e, entity_ref_comps(&er).iter().map(|c| c.0).collect()))
            })
            .collect()
    }

    fn pick_handle(&mut self, ctx: &Ctx, w: usize) -> (HRef, Vec<usize>) {
        let live = Self::live(ctx, w);
        let bad = match self.profile {
            Profile::Malformed => 45,
            _ => 12,
        };
        if !live.is_empty() && !self.rng.chance(bad) {
            let (i, _, ts) = live[self.rng.below(live.len())].clone();
            return (ctx.href(i), ts);
        }
        match self.rng.below(6) {
            0 | 1 if !ctx.table.is_empty() => (ctx.href(self.rng.below(ctx.table.len())), vec![]),
            2 if !ctx.table.is_empty() => {
                let e = ctx.table[self.rng.below(ctx.table.len())];
                let bits = e.to_bits().get();
                let (id, g) = ((bits & 0xffff_ffff) as u32, (bits >> 32) as u32);
                let g2 = if self.rng.chance(50) { g + 1 } else { g.saturating_sub(1).max(1) };
                (HRef::Lit(id, g2), vec![])
            }
            3 => (HRef::Lit(u32::MAX, u32::MAX), vec![]),
            4 => (HRef::Lit(self.rng.below(40) as u32, 1 + self.rng.below(3) as u32), vec![]),
            _ => (HRef::Tab(999_999, 0), vec![]),
        }
    }

    /// a menu entry whose types are all in `ts`, if any
    fn menu_subset(&mut self, ts: &[usize], small: bool) -> Option<usize> {
        let n = if small { NSMALL } else { NBUNDLES };
        let cands: Vec<usize> = (0..n)
            .filter(|&k| {
                let bt = if small { small_bundle_types(k) } else { bundle_types(k) };
                bt.iter().all(|t| ts.contains(t))
            })
            .collect();
        // prefer non-empty removals
        let non_empty: Vec<usize> = cands.iter().copied().filter(|&k| k != 0).collect();
        if !non_empty.is_empty() && self.rng.chance(85) {
            self.rng.pick(&non_empty).copied()
        } else {
            self.rng.pick(&cands).copied()
        }
    }

    fn spawn_at_target(&mut self, ctx: &Ctx, w: usize) -> HRef {
        let world = ctx.worlds[w].as_ref().unwrap();
        let m = world.verif_dump().entities.meta.len() as u32;
        let h = match self.rng.below(5) {
            0 => HRef::Lit(m + self.rng.below(4) as u32, 1 + self.rng.below(3) as u32),
            1 | 2 if !ctx.table.is_empty() => ctx.href(self.rng.below(ctx.table.len())),
            3 => HRef::Lit(self.rng.below(m as usize + 1) as u32, 1 + self.rng.below(4) as u32),
            _ => self.pick_handle(ctx, w).0,
        };
        // an id far beyond the metadata makes hecs allocate every id in between (by design): keep it near
        if ctx.resolve(&h).id() > m + 16 {
            HRef::Lit(m + 1, 1 + self.rng.below(2) as u32)
        } else {
            h
        }
    }

    fn batch_via(&mut self, n: usize) -> String {
        match self.rng.below(8) {
            0..=3 => "batch".into(),
            4 => format!("part{}", self.rng.below(n + 1)),
            5 => "part0".into(),
            6 => "extend".into(),
            _ => "collect".into(),
        }
    }

    fn batch_rows(&mut self, decl: &[usize], n: usize) -> Vec<Bundle> {
        let ts = canon_types(decl);
        (0..n).map(|_| self.bundle_for_types(&ts)).collect()
    }

    /// scenario: a clone-builder is built, converted back, extended, rebuilt and spawned (twice), next to an
    /// entity of the same component set spawned from a tuple-shaped dynamic bundle
    fn plan_round_trip(&mut self, ctx: &Ctx, w: usize) {
        use crate::containers::COp;
        let free: Vec<usize> = (0..6).filter(|i| !ctx.containers.builders.contains_key(i)).collect();
        if free.len() < 2 {
            return;
        }
        let (b, c) = (free[0], free[1]);
        self.plan.push_back(Op::Cont(COp::BNew { b, clone: true }));
        let mut ts: Vec<usize> = Vec::new();
        for _ in 0..1 + self.rng.below(3) {
            let t = self.rng.below(10);
            let v = if t >= 7 { 0 } else { self.fresh() };
            if !ts.contains(&t) {
                ts.push(t);
            }
            self.plan.push_back(Op::Cont(COp::BAdd { b, t, v }));
        }
        self.plan.push_back(Op::Cont(COp::BBuild { b, into: c }));
        if self.rng.chance(50) {
            self.plan.push_back(Op::Cont(COp::CSpawn { b: c, w }));
        }
        self.plan.push_back(Op::Cont(COp::CBack { b: c, into: b }));
        if self.rng.chance(50) {
            let t = self.rng.below(10);
            let v = if t >= 7 { 0 } else { self.fresh() };
            if !ts.contains(&t) {
                ts.push(t);
            }
            self.plan.push_back(Op::Cont(COp::BAdd { b, t, v }));
        }
        self.plan.push_back(Op::Cont(COp::BBuild { b, into: c }));
        if self.rng.chance(60) {
            let bundle = self.bundle_for_types(&ts);
            self.plan.push_back(Op::Spawn { w, k: None, b: bundle });
        }
        self.plan.push_back(Op::Cont(COp::CSpawn { b: c, w }));
        self.plan.push_back(Op::Cont(COp::CSpawn { b: c, w }));
        if free.len() >= 3 && self.rng.chance(60) {
            // … and the built bundle is poured into another builder, which is inspected and spawned
            let d = free[2];
            self.plan.push_back(Op::Cont(COp::BNew { b: d, clone: self.rng.chance(50) }));
            self.plan.push_back(Op::Cont(COp::BAddBuilt { b: d, from: c }));
            self.plan.push_back(Op::Cont(COp::BObs { b: d }));
        }
        self.plan.push_back(Op::Obs { w });
    }

    /// scenario ops name "the handle pushed last" by this placeholder; it is bound when the op is issued
    const LAST: HRef = HRef::Tab(usize::MAX, 0);


    fn bind_last(op: Op, ctx: &Ctx) -> Op {
        // `HRef::Tab(usize::MAX, j)` = the handle pushed j-th from last
        let bind = |h: &HRef| -> HRef {
            match h {
                HRef::Tab(n, j) if *n == usize::MAX => {
                    if ctx.table.len() > *j {
                        ctx.href(ctx.table.len() - 1 - *j)
                    } else {
                        HRef::Lit(u32::MAX, u32::MAX)
                    }
                }
                h => h.clone(),
            }
        };
        match op {
            Op::Insert { w, h, k, b } => Op::Insert { w, h: bind(&h), k, b },
            Op::Remove { w, h, k } => Op::Remove { w, h: bind(&h), k },
            Op::Exchange { w, h, ks, k, b } => Op::Exchange { w, h: bind(&h), ks, k, b },
            Op::Despawn { w, h } => Op::Despawn { w, h: bind(&h) },
            Op::SpawnAt { w, h, k, b } => Op::SpawnAt { w, h: bind(&h), k, b },
            Op::SpawnCbAt { w, hs, decl, rows } => Op::SpawnCbAt { w, hs: hs.iter().map(|h| bind(h)).collect(), decl, rows },
            Op::Take { w, h, into } => Op::Take { w, h: bind(&h), into },
            Op::Query { w, q, path, h, n, es } => Op::Query { w, q, path, h: bind(&h), n, es },
            Op::Cont(crate::containers::COp::QInsert { q, h, k, bundle }) => {
                Op::Cont(crate::containers::COp::QInsert { q, h: bind(&h), k, bundle })
            }
            Op::Cont(crate::containers::COp::QRemove { q, h, k }) => Op::Cont(crate::containers::COp::QRemove { q, h: bind(&h), k }),
            op => op,
        }
    }

    /// scenario: `PB` is a bundle type and, stored whole, a component type; the same entity set sees it added and
    /// removed in both roles, directly and through a command buffer (caches keyed by `TypeId` must not mix the roles)
    fn plan_pb_roles(&mut self, ctx: &Ctx, w: usize) {
        use crate::containers::COp;
        let e1 = HRef::Tab(usize::MAX, 1);
        let e2 = HRef::Tab(usize::MAX, 0);
        let mk = |g: &mut Gen, k: usize| g.bundle_for_types(&bundle_types(k));
        let a1 = mk(self, 1);
        let a2 = mk(self, 1);
        self.plan.push_back(Op::Spawn { w, k: Some(1), b: a1 });
        self.plan.push_back(Op::Spawn { w, k: Some(1), b: a2 });
        let buffered = self.profile == Profile::Containers;
        if buffered {
            let free = (0..2).find(|i| !ctx.containers.cmdbufs.contains_key(i));
            let q = free.unwrap_or(0);
            let (x, y) = (mk(self, 34), mk(self, 35));
            let direct = Op::Insert { w, h: e2.clone(), k: Some(35), b: y };
            if self.rng.chance(50) {
                self.plan.push_back(direct.clone());
            }
            if free.is_some() {
                self.plan.push_back(Op::Cont(COp::QNew { q }));
            }
            self.plan.push_back(Op::Cont(COp::QInsert { q, h: e1.clone(), k: Some(34), bundle: x }));
            self.plan.push_back(Op::Cont(COp::QRun { q, w }));
            self.plan.push_back(direct);
        } else {
            for h in [&e1, &e2] {
                let (x, y) = (mk(self, 34), mk(self, 35));
                self.plan.push_back(Op::Insert { w, h: h.clone(), k: Some(34), b: x });
                self.plan.push_back(Op::Insert { w, h: h.clone(), k: Some(35), b: y });
            }
            let (first, second) = if self.rng.chance(50) { (35, 34) } else { (34, 35) };
            self.plan.push_back(Op::Remove { w, h: e1.clone(), k: first });
            self.plan.push_back(Op::Remove { w, h: e2.clone(), k: second });
        }
        self.plan.push_back(Op::Obs { w });
    }

    /// scenario: two entities of one archetype; one gets a static bundle inserted, the other exchanges part
    /// of its components for the same static bundle type (in either order): whatever is cached per
    /// (archetype, bundle type) for the first must not be used for the second, which starts from a
    /// different archetype once the removed part is taken away
    fn plan_edge_cache(&mut self, w: usize) {
        let (base, out, add) = *self.rng.pick(&[(10usize, 1usize, 3usize), (10, 2, 3), (10, 1, 5), (10, 2, 6)]).unwrap();
        for _ in 0..2 {
            let b = self.bundle_for_types(&bundle_types(base));
            self.plan.push_back(Op::Spawn { w, k: Some(base), b });
        }
        let (first, second) = (HRef::Tab(usize::MAX, 1), HRef::Tab(usize::MAX, 0));
        let ins = |g: &mut Self, h: HRef| {
            let b = g.bundle_for_types(&bundle_types(add));
            g.plan.push_back(Op::Insert { w, h, k: Some(add), b });
        };
        let exch = |g: &mut Self, h: HRef| {
            let b = g.bundle_for_types(&bundle_types(add));
            g.plan.push_back(Op::Exchange { w, h, ks: out, k: Some(add), b });
        };
        if self.rng.chance(50) {
            ins(self, first);
            exch(self, second);
        } else {
            exch(self, first);
            ins(self, second);
        }
        self.plan.push_back(Op::Obs { w });
    }

    /// scenario: an id is used twice (handles `h1`, then `h2` one generation later), `spawn_at(h1)` winds
    /// the slot's generation back, and despawning `h1` again leaves the slot dead at exactly `h2`'s
    /// generation: `h2` is stale although its generation matches, every mutator must say NoSuchEntity
    fn plan_wound_back(&mut self, w: usize) {
        let last = |j: usize| HRef::Tab(usize::MAX, j);
        let (k1, b1) = self.random_bundle();
        self.plan.push_back(Op::Spawn { w, k: k1, b: b1 });
        self.plan.push_back(Op::Despawn { w, h: last(0) });
        let (k2, b2) = self.random_bundle();
        self.plan.push_back(Op::Spawn { w, k: k2, b: b2 });
        self.plan.push_back(Op::Despawn { w, h: last(0) });
        let (k3, b3) = self.random_bundle();
        self.plan.push_back(Op::SpawnAt { w, h: last(1), k: k3, b: b3 });
        self.plan.push_back(Op::Despawn { w, h: last(0) });
        // (`spawn_at` registered its handle again, so the stale `h2` is now second from last)
        self.plan.push_back(Op::Remove { w, h: last(1), k: 1 + self.rng.below(9) });
        let (k4, b4) = self.random_bundle();
        self.plan.push_back(Op::Insert { w, h: last(1), k: k4, b: b4 });
        let (k5, b5) = self.random_bundle();
        self.plan.push_back(Op::Exchange { w, h: last(1), ks: 1 + self.rng.below(4), k: k5, b: b5 });
        self.plan.push_back(Op::Despawn { w, h: last(1) });
        self.plan.push_back(Op::Obs { w });
    }

    /// scenario (out-of-contract calls that must be refused before anything is touched): a bundle naming a
    /// type twice inserted into an entity that already has that type; a column batch aimed twice at one live
    /// id that has other rows behind it in its archetype
    fn plan_refusals(&mut self, w: usize) {
        if self.srng.chance(50) {
            let b = self.bundle_for_types(&bundle_types(10));
            self.plan.push_back(Op::Spawn { w, k: Some(10), b });
            let k = NBUNDLES + self.srng.below(NBUNDLES_ALL - NBUNDLES);
            let b = self.bundle_for_types(&bundle_types(k));
            self.plan.push_back(Op::Insert { w, h: Self::LAST, k: Some(k), b });
        } else {
            let k = *self.rng.pick(&[1usize, 2, 10, 3]).unwrap();
            for _ in 0..4 {
                let b = self.bundle_for_types(&bundle_types(k));
                self.plan.push_back(Op::Spawn { w, k: Some(k), b });
            }
            let decl = self.random_types(2);
            let rows = self.batch_rows(&decl, 2);
            let victim = HRef::Tab(usize::MAX, 2 + self.srng.below(2));
            self.plan.push_back(Op::SpawnCbAt { w, hs: vec![victim.clone(), victim], decl, rows });
            for _ in 0..2 {
                let (k, b) = self.random_bundle();
                self.plan.push_back(Op::Spawn { w, k, b });
            }
        }
        self.plan.push_back(Op::Obs { w });
    }

    /// scenario: a derived bundle with a type parameter is used with two different type arguments (spawn,
    /// batch spawn, reserve), next to the tuples with the same component sets
    fn plan_generic_bundle(&mut self, w: usize) {
        let mut ks = vec![41usize, 42, 41, 42];
        if self.srng.chance(50) {
            ks.reverse();
        }
        for (i, k) in ks.into_iter().enumerate() {
            let b = self.bundle_for_types(&bundle_types(k));
            match i {
                2 => {
                    let ts = bundle_types(k);
                    let rows = (0..2).map(|_| self.bundle_for_types(&ts)).collect();
                    self.plan.push_back(Op::SpawnBatch { w, k, via: "batch".into(), rows });
                }
                3 => {
                    self.plan.push_back(Op::Reserve { w, k });
                    self.plan.push_back(Op::Spawn { w, k: Some(k), b });
                }
                _ => self.plan.push_back(Op::Spawn { w, k: Some(k), b }),
            }
        }
        self.plan.push_back(Op::Obs { w });
    }

    /// scenario: a world emptied by despawns and takes (not by `clear`): no live entity left, but the
    /// generation of every id it ever used is still on record; then it is repopulated through one of the
    /// spawn paths and must keep handing out handles it never handed out before
    fn plan_emptied_world(&mut self, ctx: &Ctx, w: usize) {
        let live = Self::live(ctx, w);
        if live.is_empty() || live.len() > 12 {
            return;
        }
        for (i, _, _) in live.iter() {
            if self.rng.chance(25) {
                self.plan.push_back(Op::Take { w, h: ctx.href(*i), into: None });
            } else {
                self.plan.push_back(Op::Despawn { w, h: ctx.href(*i) });
            }
        }
        match self.rng.below(5) {
            0 | 1 => {
                let decl = self.random_types(3);
                let n = 1 + self.rng.below(3);
                let rows = self.batch_rows(&decl, n);
                let base = 30 + self.rng.below(10) as u32;
                let hs = (0..n).map(|j| HRef::Lit(base + j as u32, 1 + self.rng.below(2) as u32)).collect();
                self.plan.push_back(Op::SpawnCbAt { w, hs, decl, rows });
            }
            2 => {
                let k = self.rng.below(15);
                let ts = bundle_types(k);
                let rows = (0..2).map(|_| self.bundle_for_types(&ts)).collect();
                self.plan.push_back(Op::SpawnBatch { w, k, via: "batch".into(), rows });
            }
            3 => self.plan.push_back(Op::ReserveEntities { w, n: 2 }),
            _ => {}
        }
        for _ in 0..3 {
            let (k, b) = self.random_bundle();
            self.plan.push_back(Op::Spawn { w, k, b });
        }
        self.plan.push_back(Op::Obs { w });
    }

    /// scenario: the end of the `u32` id space.  One `reserve_entities` call claims every id up to (or one
    /// short of, or one past) the last one without the iterator being run, then single reservations follow:
    /// the calls must hand out the remaining ids and then refuse ("too many entities"), never wrap around.
    /// Nothing may flush afterwards (four billion reservations), so the world is replaced by a new one.
    fn plan_id_limit(&mut self, ctx: &Ctx, w: usize) {
        let Some(Some(world)) = ctx.worlds.get(w) else { return };
        let d = world.verif_dump().entities;
        let (m, c) = (d.meta.len() as i64, d.free_cursor as i64);
        // end of the range of new ids = m + n - c
        let exact = u32::MAX as i64 - m + c;
        let n = exact + *self.rng.pick(&[0i64, 0, 1, -1]).unwrap();
        if n < 1 || n > u32::MAX as i64 {
            return;
        }
        self.plan.push_back(Op::ReserveBulk { w, n: n as u64, k: 2 + self.rng.below(2) });
        for _ in 0..3 {
            self.plan.push_back(Op::ReserveEntity { w });
        }
        // (replaced, not just dropped: the generator goes on addressing world `w`)
        self.plan.push_back(Op::NewWorld { w });
    }

    /// scenario: one entity grows to ten component types of four different alignments, one insert at a
    /// time, and shrinks again (lookups by type in wide archetypes)
    fn plan_wide_entity(&mut self, w: usize) {
        let first = *self.rng.pick(&[22usize, 23, 17, 21]).unwrap();
        let b = self.bundle_for_types(&bundle_types(first));
        self.plan.push_back(Op::Spawn { w, k: Some(first), b });
        let mut singles = vec![1usize, 2, 3, 4, 5, 6, 7, 8, 9, 26];
        self.rng.shuffle(&mut singles);
        for (i, k) in singles.iter().enumerate() {
            let b = self.bundle_for_types(&bundle_types(*k));
            self.plan.push_back(Op::Insert { w, h: Self::LAST, k: Some(*k), b });
            if i % 3 == 2 {
                self.plan.push_back(Op::Obs { w });
            }
        }
        self.plan.push_back(Op::Obs { w });
        for k in singles.iter().take(4) {
            self.plan.push_back(Op::Remove { w, h: Self::LAST, k: *k });
        }
        self.plan.push_back(Op::Obs { w });
    }

    /// scenario: two worlds with the same number of archetypes but different sets behind the same indices,
    /// one prepared query per shape used on them in turn: whatever a prepared query remembers about one
    /// world must not be taken for knowledge about the other
    fn plan_twin_worlds(&mut self) {
        let h = HRef::Lit(u32::MAX, u32::MAX);
        let (ka, kb) = *self.rng.pick(&[(1usize, 2usize), (2, 1), (1, 3), (10, 2)]).unwrap();
        let spawn = |g: &mut Self, w: usize, k: usize| {
            let b = g.bundle_for_types(&bundle_types(k));
            g.plan.push_back(Op::Spawn { w, k: Some(k), b });
        };
        let qs = [0usize, 1, 4, 6, 9, 10, 2, 5];
        spawn(self, 0, ka);
        spawn(self, 1, kb);
        for round in 0..2 {
            for (i, path) in ["prepared", "prepared_view", "prepared_mut"].iter().enumerate() {
                let q = qs[(self.rng.below(qs.len()) + i) % qs.len()];
                for w in [0usize, 1, 0] {
                    self.plan.push_back(Op::Query { w, q, path: path.to_string(), h: h.clone(), n: 2, es: vec![] });
                }
            }
            if round == 0 {
                spawn(self, 0, kb);
                spawn(self, 1, ka);
            }
        }
    }

    /// scenario: a world that grows past 32 archetypes (two entities walking up and down the lattice of
    /// component sets in different orders) while prepared queries are used every few steps: whatever is keyed
    /// or stamped by the number of archetypes has to keep up
    fn plan_many_archetypes(&mut self, w: usize) {
        let h = HRef::Lit(u32::MAX, u32::MAX);
        let qs = [0usize, 1, 2, 4, 5, 11, 29, 38, 40, 41, 44];
        let paths = ["prepared", "prepared_view", "prepared_mut", "prepared"];
        let mut step = 0usize;
        for _ in 0..2 {
            let mut singles = vec![1usize, 2, 3, 4, 5, 6, 7, 8, 9, 26];
            self.rng.shuffle(&mut singles);
            let first = singles[0];
            let b = self.bundle_for_types(&bundle_types(first));
            self.plan.push_back(Op::Spawn { w, k: Some(first), b });
            let mut ops: Vec<Op> = Vec::new();
            for k in singles.iter().skip(1) {
                let b = self.bundle_for_types(&bundle_types(*k));
                ops.push(Op::Insert { w, h: Self::LAST, k: Some(*k), b });
            }
            self.rng.shuffle(&mut singles);
            for k in singles.iter().take(8) {
                ops.push(Op::Remove { w, h: Self::LAST, k: *k });
            }
            for op in ops {
                self.plan.push_back(op);
                step += 1;
                if step % 3 == 0 {
                    let q = *self.rng.pick(&qs).unwrap();
                    let path = paths[(step / 3) % paths.len()].to_string();
                    self.plan.push_back(Op::Query { w, q, path, h: h.clone(), n: 2, es: vec![] });
                }
            }
        }
        self.plan.push_back(Op::Obs { w });
    }

    /// scenario: a prepared query hands out a view, the columns it looked at are reallocated (the archetype
    /// grows past its capacity, no new archetype appears), and it hands out a view again
    fn plan_prepared_growth(&mut self, w: usize) {
        let q = *self.rng.pick(&[0usize, 1, 2, 4, 5, 11, 29, 38, 40, 41, 44]).unwrap();
        let k = *self.rng.pick(&[1usize, 10, 11, 12, 17, 22]).unwrap();
        let h = HRef::Lit(u32::MAX, u32::MAX);
        let query = |path: &str| Op::Query { w, q, path: path.to_string(), h: h.clone(), n: 2, es: vec![] };
        let ts = bundle_types(k);
        let first = self.bundle_for_types(&ts);
        self.plan.push_back(Op::Spawn { w, k: Some(k), b: first });
        self.plan.push_back(query("prepared_view"));
        let n = *self.rng.pick(&[64usize, 70, 130]).unwrap();
        let rows = (0..n).map(|_| self.bundle_for_types(&ts)).collect();
        self.plan.push_back(Op::SpawnBatch { w, k, via: "batch".into(), rows });
        self.plan.push_back(query("prepared_view"));
        self.plan.push_back(query("prepared"));
        self.plan.push_back(query("prepared_mut"));
    }

    /// scenario: a prepared query is (re)built while an archetype it matches exists but is empty, the
    /// archetype is refilled without any new archetype appearing, and the prepared query is used again
    fn plan_stale_prepared(&mut self, w: usize) {
        let q = self.rng.below(crate::query_engine::NQUERIES);
        let (k1, b1) = self.random_bundle();
        let (k2, b2) = self.random_bundle();
        let h = HRef::Lit(u32::MAX, u32::MAX);
        let query = |path: &str| Op::Query { w, q, path: path.to_string(), h: h.clone(), n: 2, es: vec![] };
        self.plan.push_back(Op::Spawn { w, k: k1, b: b1.clone() });
        self.plan.push_back(query("prepared"));
        self.plan.push_back(Op::Clear { w });
        self.plan.push_back(Op::Spawn { w, k: k2, b: b2 });
        self.plan.push_back(query("prepared"));
        let b1b = self.bundle_for_types(&b1.iter().map(|c| c.0).collect::<Vec<_>>());
        self.plan.push_back(Op::Spawn { w, k: k1, b: b1b });
        self.plan.push_back(query("prepared"));
        self.plan.push_back(query("prepared_mut"));
        self.plan.push_back(query("prepared_view"));
        self.plan.push_back(query("iter"));
    }

    fn cont_op(&mut self, ctx: &Ctx, w: usize) -> Op {
        use crate::containers::{BBox, COp, PBox};
        let c = &ctx.containers;
        let pick_key = |rng: &mut Rng, keys: Vec<usize>| -> Option<usize> {
            let mut k = keys;
            k.sort();
            rng.pick(&k).copied()
        };
        for _ in 0..20 {
            let family = self.rng.weighted(&[40, 30, 30]);
            match family {
                0 => {
                    // builders
                    let plain: Vec<usize> = c.builders.iter().filter(|(_, b)| matches!(b, BBox::Plain(_))).map(|(k, _)| *k).collect();
                    let clone: Vec<usize> = c.builders.iter().filter(|(_, b)| matches!(b, BBox::Clone(_))).map(|(k, _)| *k).collect();
                    let built: Vec<usize> = c.builders.iter().filter(|(_, b)| matches!(b, BBox::Built(_))).map(|(k, _)| *k).collect();
                    let fresh = (0..6).find(|i| !c.builders.contains_key(i));
                    match self.rng.weighted(&[6, 30, 8, 14, 4, 8, 3, 6, 8, 5, 5, 3, 5]) {
                        12 => {
                            let mut all = plain.clone();
                            all.extend(clone.iter());
                            if let (Some(b), Some(from)) = (pick_key(&mut self.rng, all), pick_key(&mut self.rng, built.clone())) {
                                return Op::Cont(COp::BAddBuilt { b, from });
                            }
                        }
                        0 => {
                            if let Some(b) = fresh {
                                return Op::Cont(COp::BNew { b, clone: self.rng.chance(55) });
                            }
                        }
                        1 => {
                            let mut all = plain.clone();
                            all.extend(clone.iter());
                            if let Some(b) = pick_key(&mut self.rng, all) {
                                // the tracked value type (10) keeps its value when cloned; keep it out of builders
                                let t = self.rng.below(10);
                                let v = if t >= 7 { 0 } else { self.fresh() };
                                return Op::Cont(COp::BAdd { b, t, v });
                            }
                        }
                        2 => {
                            let mut all = plain.clone();
                            all.extend(clone.iter());
                            if let Some(b) = pick_key(&mut self.rng, all) {
                                let k = self.rng.below(28);
                                let bundle = self.bundle_for_types(&bundle_types(k));
                                return Op::Cont(COp::BAddBundle { b, k, bundle });
                            }
                        }
                        3 => {
                            let mut all = plain.clone();
                            all.extend(clone.iter());
                            if let Some(b) = pick_key(&mut self.rng, all) {
                                return Op::Cont(COp::BObs { b });
                            }
                        }
                        4 => {
                            let mut all = plain.clone();
                            all.extend(clone.iter());
                            if let Some(b) = pick_key(&mut self.rng, all) {
                                return Op::Cont(COp::BClear { b });
                            }
                        }
                        5 => {
                            if let Some(b) = pick_key(&mut self.rng, plain) {
                                return Op::Cont(COp::BSpawn { b, w });
                            }
                        }
                        6 => {
                            if let Some(b) = pick_key(&mut self.rng, plain) {
                                return Op::Cont(COp::BBuildDrop { b });
                            }
                        }
                        7 => {
                            if let (Some(b), Some(into)) = (pick_key(&mut self.rng, clone), fresh) {
                                return Op::Cont(COp::BBuild { b, into });
                            }
                        }
                        8 => {
                            if let Some(b) = pick_key(&mut self.rng, built) {
                                return Op::Cont(COp::CSpawn { b, w });
                            }
                        }
                        9 => {
                            let mut all = clone.clone();
                            all.extend(built.iter());
                            if let (Some(b), Some(into)) = (pick_key(&mut self.rng, all), fresh) {
                                return Op::Cont(COp::BClone { b, into });
                            }
                        }
                        10 => {
                            if let (Some(b), Some(into)) = (pick_key(&mut self.rng, built), fresh) {
                                return Op::Cont(COp::CBack { b, into });
                            }
                        }
                        _ => {
                            if let Some(b) = pick_key(&mut self.rng, c.builders.keys().copied().collect()) {
                                return Op::Cont(COp::BDrop { b });
                            }
                        }
                    }
                }
                1 => {
                    // command buffers
                    let qs: Vec<usize> = c.cmdbufs.keys().copied().collect();
                    let fresh = (0..2).find(|i| !c.cmdbufs.contains_key(i));
                    match self.rng.weighted(&[5, 22, 22, 14, 10, 14, 3, 2]) {
                        0 => {
                            if let Some(q) = fresh {
                                return Op::Cont(COp::QNew { q });
                            }
                        }
                        1 => {
                            if let Some(q) = pick_key(&mut self.rng, qs) {
                                let (k, bundle) = self.random_bundle();
                                return Op::Cont(COp::QSpawn { q, k, bundle });
                            }
                        }
                        2 => {
                            if let Some(q) = pick_key(&mut self.rng, qs) {
                                let (h, _) = self.pick_handle(ctx, w);
                                let (k, bundle) = self.random_bundle();
                                return Op::Cont(COp::QInsert { q, h, k, bundle });
                            }
                        }
                        3 => {
                            if let Some(q) = pick_key(&mut self.rng, qs) {
                                let (h, ts) = self.pick_handle(ctx, w);
                                let k = self.menu_subset(&ts, false).unwrap_or_else(|| self.rng.below(NBUNDLES));
                                return Op::Cont(COp::QRemove { q, h, k });
                            }
                        }
                        4 => {
                            if let Some(q) = pick_key(&mut self.rng, qs) {
                                let (h, _) = self.pick_handle(ctx, w);
                                return Op::Cont(COp::QDespawn { q, h });
                            }
                        }
                        5 => {
                            if let Some(q) = pick_key(&mut self.rng, qs) {
                                return Op::Cont(COp::QRun { q, w });
                            }
                        }
                        6 => {
                            if let Some(q) = pick_key(&mut self.rng, qs) {
                                return Op::Cont(COp::QClear { q });
                            }
                        }
                        _ => {
                            if let Some(q) = pick_key(&mut self.rng, qs) {
                                return Op::Cont(COp::QDrop { q });
                            }
                        }
                    }
                }
                _ => {
                    // column batches
                    let builders: Vec<usize> = c.batches.iter().filter(|(_, b)| matches!(b, PBox::Builder(..))).map(|(k, _)| *k).collect();
                    let built: Vec<usize> = c.batches.iter().filter(|(_, b)| matches!(b, PBox::Batch(_))).map(|(k, _)| *k).collect();
                    let fresh = (0..3).find(|i| !c.batches.contains_key(i));
                    match self.rng.weighted(&[10, 40, 16, 14, 8, 4]) {
                        0 => {
                            if let Some(p) = fresh {
                                let mut decl = self.random_types(3);
                                if self.rng.chance(15) && !decl.is_empty() {
                                    decl.push(decl[0]);
                                }
                                let n = *self.rng.pick(&[0usize, 1, 2, 2, 3, 3, 5]).unwrap();
                                return Op::Cont(COp::PNew { p, decl, n });
                            }
                        }
                        1 => {
                            if let Some(p) = pick_key(&mut self.rng, builders) {
                                if let Some(PBox::Builder(b, decl)) = c.batches.get(&p) {
                                    let (cols, target) = b.verif_dump();
                                    // mostly push to a declared column that still has room, in pieces
                                    let t = if self.rng.chance(90) && !decl.is_empty() {
                                        let open: Vec<usize> = decl
                                            .iter()
                                            .copied()
                                            .filter(|t| {
                                                let tid = crate::with_type!(*t, T, std::any::TypeId::of::<T>());
                                                cols.iter().find(|c| c.0 == tid).map_or(true, |c| c.1 < target)
                                            })
                                            .collect();
                                        if !open.is_empty() && self.rng.chance(85) { open[self.rng.below(open.len())] } else { decl[self.rng.below(decl.len())] }
                                    } else {
                                        self.rng.below(NTYPES)
                                    };
                                    let k = 1 + self.rng.below(3);
                                    let vals: Vec<u64> = (0..k).map(|_| if t >= 7 { 0 } else { self.fresh() }).collect();
                                    return Op::Cont(COp::PPush { p, t, vals });
                                }
                            }
                        }
                        2 => {
                            if let Some(p) = pick_key(&mut self.rng, builders) {
                                return Op::Cont(COp::PBuild { p });
                            }
                        }
                        3 => {
                            if let Some(p) = pick_key(&mut self.rng, built) {
                                return Op::Cont(COp::PSpawn { p, w });
                            }
                        }
                        4 => {
                            if let Some(p) = pick_key(&mut self.rng, built) {
                                if let Some(PBox::Batch(_)) = c.batches.get(&p) {
                                    // number of rows is not observable on ColumnBatch: skip unless tracked
                                    let _ = p;
                                }
                            }
                        }
                        _ => {
                            if let Some(p) = pick_key(&mut self.rng, c.batches.keys().copied().collect()) {
                                return Op::Cont(COp::PDrop { p });
                            }
                        }
                    }
                }
            }
        }
        Op::Flush { w }
    }

    pub fn next_op(&mut self, ctx: &Ctx, nworlds: usize) -> Op {
        if let Some(op) = self.plan.pop_front() {
            return Self::bind_last(op, ctx);
        }
        let w = if nworlds > 1 && self.rng.chance(25) { 1 } else { 0 };
        if matches!(self.profile, Profile::Mixed | Profile::Containers) && self.rng.chance(2) {
            self.plan_pb_roles(ctx, w);
            if let Some(op) = self.plan.pop_front() {
                return Self::bind_last(op, ctx);
            }
        }
        if matches!(self.profile, Profile::Mixed | Profile::Reserve | Profile::Malformed) && self.rng.chance(1) {
            self.plan_wound_back(w);
            if let Some(op) = self.plan.pop_front() {
                return Self::bind_last(op, ctx);
            }
        }
        if matches!(self.profile, Profile::Mixed | Profile::Reserve) && self.rng.chance(1) {
            self.plan_emptied_world(ctx, w);
            if let Some(op) = self.plan.pop_front() {
                return Self::bind_last(op, ctx);
            }
        }
        if self.profile == Profile::Reserve && self.rng.chance(1) && self.rng.chance(35) {
            self.plan_id_limit(ctx, w);
            if let Some(op) = self.plan.pop_front() {
                return Self::bind_last(op, ctx);
            }
        }
        // (rare, and decided on the second stream: most histories stay exactly as they were before this scenario existed)
        if matches!(self.profile, Profile::Mixed | Profile::Containers) && self.srng.below(1000) < 3 {
            self.plan_generic_bundle(w);
            if let Some(op) = self.plan.pop_front() {
                return Self::bind_last(op, ctx);
            }
        }
        if matches!(self.profile, Profile::Mixed | Profile::Malformed | Profile::Batch) && self.srng.below(1000) < 3 {
            self.plan_refusals(w);
            if let Some(op) = self.plan.pop_front() {
                return Self::bind_last(op, ctx);
            }
        }
        if self.profile == Profile::Mixed && self.rng.chance(2) {
            self.plan_edge_cache(w);
            if let Some(op) = self.plan.pop_front() {
                return Self::bind_last(op, ctx);
            }
        }
        if self.profile == Profile::Mixed && self.rng.chance(2) {
            self.plan_wide_entity(w);
            if let Some(op) = self.plan.pop_front() {
                return Self::bind_last(op, ctx);
            }
        }
        if self.profile == Profile::Containers && self.rng.chance(4) {
            self.plan_round_trip(ctx, w);
            if let Some(op) = self.plan.pop_front() {
                return Self::bind_last(op, ctx);
            }
        }
        if self.profile == Profile::Query && nworlds > 1 && ctx.table.is_empty() && ctx.has_world(0) && ctx.has_world(1) && self.rng.chance(10) {
            self.plan_twin_worlds();
            if let Some(op) = self.plan.pop_front() {
                return Self::bind_last(op, ctx);
            }
        }
        if self.profile == Profile::Query && ctx.table.is_empty() && self.rng.chance(8) {
            self.plan_many_archetypes(w);
            if let Some(op) = self.plan.pop_front() {
                return Self::bind_last(op, ctx);
            }
        }
        if self.profile == Profile::Query && self.rng.chance(2) {
            self.plan_prepared_growth(w);
            if let Some(op) = self.plan.pop_front() {
                return Self::bind_last(op, ctx);
            }
        }
        if self.profile == Profile::Query && self.rng.chance(3) {
            self.plan_stale_prepared(w);
            if let Some(op) = self.plan.pop_front() {
                return Self::bind_last(op, ctx);
            }
        }
        if matches!(self.profile, Profile::Mixed | Profile::Malformed) && self.rng.chance(1) {
            // out-of-contract probe: a bundle type that names a component type twice
            let k = NBUNDLES + self.rng.below(NBUNDLES_ALL - NBUNDLES);
            let b = self.bundle_for_types(&bundle_types(k));
            let (h, _) = self.pick_handle(ctx, w);
            return match self.rng.below(4) {
                0 => Op::Spawn { w, k: Some(k), b },
                1 => Op::Insert { w, h, k: Some(k), b },
                2 => Op::Remove { w, h, k },
                _ => {
                    let (k2, b2) = self.random_bundle();
                    Op::Exchange { w, h, ks: NSMALL, k: k2, b: b2 }
                }
            };
        }
        if self.profile == Profile::Containers && self.rng.chance(70) {
            return self.cont_op(ctx, w);
        }
        if self.profile == Profile::Capacity && self.rng.chance(55) {
            let pools: [&[usize]; 4] = [&[0], &[1, 3], &[7], &[0, 5]];
            let decl = pools[self.rng.below(4)].to_vec();
            let n = *self.rng.pick(&[1usize, 2, 63, 64, 65, 66, 127, 129, 200]).unwrap();
            return match self.rng.below(4) {
                0 | 1 => {
                    let rows = self.batch_rows(&decl, n);
                    Op::SpawnCb { w, decl, rows }
                }
                2 => {
                    let k = *self.rng.pick(&[1usize, 10, 8, 12]).unwrap();
                    let ts = bundle_types(k);
                    let rows = (0..n).map(|_| self.bundle_for_types(&ts)).collect();
                    let via = self.batch_via(n);
                    Op::SpawnBatch { w, k, via, rows }
                }
                _ => Op::Reserve { w, k: *self.rng.pick(&[1usize, 10, 8, 12]).unwrap() },
            };
        }
        if self.profile == Profile::Serde && self.rng.chance(30) {
            let sets: [&[usize]; 4] = [&[0, 1, 2, 3, 5, 7], &[0, 1], &[0, 1, 2, 3, 4, 5, 6, 7, 8, 9], &[1, 4, 8]];
            let hs = sets[self.rng.below(4)].to_vec();
            let fmt = if self.rng.chance(50) { "row" } else { "col" }.to_string();
            let src = if ctx.has_world(1) && self.rng.chance(30) { 1 } else { 0 };
            return match self.rng.weighted(&[25, 40, 35]) {
                0 => {
                    let q = if self.rng.chance(35) { Some(self.rng.below(crate::query_engine::NQUERIES)) } else { None };
                    Op::Ser { w: src, fmt, hs, q, cr: self.rng.chance(50) }
                }
                1 => {
                    // the decoded world replaces world 1 (dropped first when it exists)
                    if ctx.has_world(1) {
                        return Op::DropWorld { w: 1 };
                    }
                    let mutseed = if self.rng.chance(65) { Some(self.rng.next() % 1_000_000) } else { None };
                    Op::De { w: 1, from: 0, fmt, hs, mutseed }
                }
                _ => {
                    let backend = if self.rng.chance(70) { "json" } else { "bincode" }.to_string();
                    let mutseed = if backend == "json" && self.rng.chance(70) { Some(self.rng.next() % 1_000_000) } else { None };
                    Op::DeBytes { w: src, fmt, hs, backend, mutseed }
                }
            };
        }
        if self.profile == Profile::Tracker {
            let w = 0;
            match self.rng.weighted(&[22, 30, 14, 12, 8, 6, 4, 4]) {
                0 => {
                    // track with a random subset/order of reads, some abandoned early
                    let mut kinds: Vec<u8> = vec![0, 1, 2];
                    self.rng.shuffle(&mut kinds);
                    let n = self.rng.below(4);
                    let mut reads: Vec<(u8, bool)> = kinds.into_iter().take(n).map(|k| (k, self.rng.chance(25))).collect();
                    // now and then a report is asked for again (`added().len()` first, then the items, …)
                    if !reads.is_empty() && self.rng.chance(25) {
                        let again = reads[self.rng.below(reads.len())].0;
                        let at = self.rng.below(reads.len() + 1);
                        reads.insert(at, (again, self.rng.chance(25)));
                    }
                    return Op::Track { w, reads };
                }
                1 => {
                    // insert / overwrite the tracked component (equal or different value)
                    let (h, _) = self.pick_handle(ctx, w);
                    let k = *self.rng.pick(&[28usize, 28, 28, 29, 30]).unwrap();
                    let b = self.bundle_for_types(&bundle_types(k));
                    return Op::Insert { w, h, k: Some(k), b };
                }
                2 => {
                    let (h, _) = self.pick_handle(ctx, w);
                    return Op::Remove { w, h, k: 28 };
                }
                3 => {
                    let k = *self.rng.pick(&[28usize, 29, 30, 1, 0]).unwrap();
                    let b = self.bundle_for_types(&bundle_types(k));
                    return Op::Spawn { w, k: Some(k), b };
                }
                4 => return Op::Despawn { w, h: self.pick_handle(ctx, w).0 },
                5 => {
                    let h = self.spawn_at_target(ctx, w);
                    let k = *self.rng.pick(&[28usize, 29, 0]).unwrap();
                    let b = self.bundle_for_types(&bundle_types(k));
                    return Op::SpawnAt { w, h, k: Some(k), b };
                }
                6 => return Op::ReserveEntity { w },
                _ => {
                    let (h, _) = self.pick_handle(ctx, w);
                    return Op::Take { w, h, into: None };
                }
            }
        }
        let weights: [usize; 16] = match self.profile {
            //            spawn at  batch cb  cbat ins rem exch desp take clr fl  res  re  res_n obs
            Profile::Mixed => [18, 4, 3, 3, 2, 14, 10, 6, 11, 4, 1, 2, 1, 3, 2, 0],
            Profile::Malformed => [10, 3, 1, 1, 1, 16, 16, 10, 14, 8, 1, 1, 1, 2, 1, 0],
            Profile::Reserve => [8, 4, 1, 3, 3, 10, 6, 3, 10, 3, 1, 4, 1, 18, 12, 0],
            Profile::Batch => [8, 8, 4, 16, 12, 6, 5, 2, 10, 2, 1, 2, 1, 3, 3, 0],
            Profile::Query => [14, 2, 3, 3, 1, 10, 8, 4, 8, 2, 1, 2, 1, 2, 1, 60],
            Profile::Containers => [14, 3, 2, 2, 1, 10, 8, 4, 12, 3, 1, 2, 1, 4, 2, 0],
            Profile::Tracker => [1, 0, 0, 0, 0, 0, 0, 0, 0, 0, 0, 0, 0, 0, 0, 0],
            Profile::Serde => [18, 5, 3, 3, 2, 14, 10, 6, 10, 3, 0, 2, 1, 2, 1, 0],
            Profile::Capacity => [10, 2, 0, 0, 0, 4, 4, 1, 14, 2, 1, 1, 0, 1, 1, 0],
        };
        match self.rng.weighted(&weights) {
            0 => {
                let (k, b) = self.random_bundle();
                Op::Spawn { w, k, b }
            }
            1 => {
                let h = self.spawn_at_target(ctx, w);
                let (k, b) = self.random_bundle();
                Op::SpawnAt { w, h, k, b }
            }
            2 => {
                let k = self.rng.below(NBUNDLES);
                let n = *self.rng.pick(&[0usize, 1, 2, 3, 5]).unwrap();
                let ts = bundle_types(k);
                let rows = (0..n).map(|_| self.bundle_for_types(&ts)).collect();
                let via = self.batch_via(n);
                Op::SpawnBatch { w, k, via, rows }
            }
            3 => {
                let mut decl = self.random_types(3);
                if self.rng.chance(15) && !decl.is_empty() {
                    decl.push(decl[0]);
                }
                let n = *self.rng.pick(&[0usize, 1, 1, 2, 2, 3, 4, 7]).unwrap();
                let rows = self.batch_rows(&decl, n);
                Op::SpawnCb { w, decl, rows }
            }
            4 => {
                let decl = self.random_types(3);
                let n = *self.rng.pick(&[0usize, 1, 1, 2, 3]).unwrap();
                let rows = self.batch_rows(&decl, n);
                let mut hs: Vec<HRef> = Vec::new();
                let mut seen: Vec<u32> = Vec::new();
                let mut tries = 0;
                while hs.len() < n && tries < 50 {
                    tries += 1;
                    let h = self.spawn_at_target(ctx, w);
                    let id = (ctx.resolve(&h).to_bits().get() & 0xffff_ffff) as u32;
                    // keep ids distinct (repeated ids are an out-of-contract call; a separate probe covers them)
                    if seen.contains(&id) || id > 1_000_000 {
                        continue;
                    }
                    seen.push(id);
                    hs.push(h);
                }
                if hs.len() < n {
                    return Op::Flush { w };
                }
                Op::SpawnCbAt { w, hs, decl, rows }
            }
            5 => {
                let (h, _) = self.pick_handle(ctx, w);
                let (k, b) = self.random_bundle();
                Op::Insert { w, h, k, b }
            }
            6 => {
                let (h, ts) = self.pick_handle(ctx, w);
                let miss = if self.profile == Profile::Malformed { 40 } else { 15 };
                let k = if self.rng.chance(miss) { None } else { self.menu_subset(&ts, false) };
                Op::Remove { w, h, k: k.unwrap_or_else(|| self.rng.below(NBUNDLES)) }
            }
            7 => {
                let (h, ts) = self.pick_handle(ctx, w);
                let miss = if self.profile == Profile::Malformed { 40 } else { 15 };
                let ks = if self.rng.chance(miss) { None } else { self.menu_subset(&ts, true) };
                let (k, b) = self.random_bundle();
                Op::Exchange { w, h, ks: ks.unwrap_or_else(|| self.rng.below(NSMALL)), k, b }
            }
            8 => Op::Despawn { w, h: self.pick_handle(ctx, w).0 },
            9 => {
                let into = if nworlds > 1 && self.rng.chance(60) { Some(1 - w) } else { None };
                Op::Take { w, h: self.pick_handle(ctx, w).0, into }
            }
            10 => {
                if self.rng.chance(30) {
                    Op::Clear { w }
                } else {
                    Op::Flush { w }
                }
            }
            11 => Op::Flush { w },
            12 => Op::Reserve { w, k: self.rng.below(NBUNDLES) },
            13 => Op::ReserveEntity { w },
            14 => Op::ReserveEntities { w, n: self.rng.below(5) },
            _ => {
                if self.profile != Profile::Query {
                    return Op::Obs { w };
                }
                let q = self.rng.below(crate::query_engine::NQUERIES);
                let path = crate::query_engine::PATHS[self.rng.below(crate::query_engine::PATHS.len())].to_string();
                let (h, _) = self.pick_handle(ctx, w);
                let mut es: Vec<HRef> = Vec::new();
                if path.starts_with("many_") {
                    // 2..=6 handles, mostly live and distinct; now and then one of them twice (which the
                    // API must refuse by panicking)
                    let k = 2 + self.rng.below(5);
                    for _ in 0..k {
                        for _ in 0..8 {
                            let (x, _) = self.pick_handle(ctx, w);
                            if !es.iter().any(|y| y.show() == x.show()) {
                                es.push(x);
                                break;
                            }
                        }
                    }
                    while es.len() < k {
                        es.push(HRef::Lit(100 + es.len() as u32, 1));
                    }
                    if self.rng.chance(12) {
                        let (i, j) = (self.rng.below(k), self.rng.below(k));
                        if i != j {
                            es[i] = es[j].clone();
                        }
                    }
                }
                let mut n = *self.rng.pick(&[1usize, 2, 3, 7, 64]).unwrap();
                if path.ends_with("batched") && self.rng.chance(25) {
                    // "any batch size >= 1": the far end of u32 too
                    n = *self.rng.pick(&[u32::MAX as usize, u32::MAX as usize - 1, u32::MAX as usize - 2, 1usize << 31, (1usize << 31) + 1]).unwrap();
                }
                Op::Query { w, q, path, h, n, es }
            }
        }
    }
}

/// result of running one history
pub struct HistoryOut {
    pub ops: Vec<String>,
    pub trace: Vec<String>,
    pub panicked: Option<String>,
}

/// Executes `ops` (when `Some`) or generates `len` ops from `gen`; `obs_every` inserts an
/// observation after every k-th op.
pub fn run_history(
    ops_in: Option<Vec<(usize, Op)>>,
    mut gen: Option<&mut Gen>,
    len: usize,
    nworlds: usize,
    obs_every: usize,
    stats: &mut Stats,
    log: &mut dyn FnMut(&str),
) -> HistoryOut {
    reset_ledger();
    let mut ctx = Ctx::new();
    let mut out = HistoryOut { ops: Vec::new(), trace: Vec::new(), panicked: None };
    let mut queue: Vec<(usize, Op)> = Vec::new();
    let scripted = ops_in.is_some();
    let mut next_num = 0usize;
    if let Some(o) = ops_in {
        queue = o;
        queue.reverse();
    } else {
        for w in (0..nworlds).rev() {
            queue.push((usize::MAX, Op::NewWorld { w }));
        }
    }
    {
        let mut lay: Vec<String> = layouts().iter().enumerate().map(|(i, (s, a))| format!("{}:{}:{}", i, s, a)).collect();
        lay.push("120:8:8".into());
        lay.push("121:4:4".into());
        out.trace.push(format!("types [{}]", lay.join(",")));
    }
    let mut produced = 0usize;
    let mut since_obs = 0usize;
    loop {
        let (opnum, op) = if let Some((n, op)) = queue.pop() {
            if n == usize::MAX {
                next_num += 1;
                (next_num - 1, op)
            } else {
                next_num = next_num.max(n + 1);
                (n, op)
            }
        } else if scripted {
            break;
        } else if produced < len {
            produced += 1;
            let g = gen.as_mut().unwrap();
            next_num += 1;
            (next_num - 1, g.next_op(&ctx, nworlds))
        } else if produced == len {
            // epilogue: observe, then drop every world (ledger check)
            produced += 1;
            for w in (0..ctx.worlds.len().max(nworlds)).rev() {
                if !ctx.has_world(w) {
                    continue;
                }
                queue.push((usize::MAX, Op::DropWorld { w }));
                let tracked = gen.as_ref().map_or(false, |g| g.profile == Profile::Tracker);
                queue.push((usize::MAX, if tracked { Op::TObs { w } } else { Op::Obs { w } }));
            }
            // every container still alive is dropped first (ledger)
            let mut bs: Vec<usize> = ctx.containers.builders.keys().copied().collect();
            bs.sort();
            for b in bs {
                queue.push((usize::MAX, Op::Cont(crate::containers::COp::BDrop { b })));
            }
            let mut qs: Vec<usize> = ctx.containers.cmdbufs.keys().copied().collect();
            qs.sort();
            for q in qs {
                queue.push((usize::MAX, Op::Cont(crate::containers::COp::QDrop { q })));
            }
            let mut ps: Vec<usize> = ctx.containers.batches.keys().copied().collect();
            ps.sort();
            for p in ps {
                queue.push((usize::MAX, Op::Cont(crate::containers::COp::PDrop { p })));
            }
            continue;
        } else {
            break;
        };
        // ops on a world that does not exist (shrunk histories) are skipped
        let w = match &op {
            Op::NewWorld { .. } => None,
            Op::Spawn { w, .. } | Op::SpawnAt { w, .. } | Op::SpawnBatch { w, .. } | Op::SpawnCb { w, .. }
            | Op::SpawnCbAt { w, .. } | Op::Insert { w, .. } | Op::Remove { w, .. } | Op::Exchange { w, .. }
            | Op::Despawn { w, .. } | Op::Take { w, .. } | Op::Clear { w } | Op::Flush { w } | Op::Reserve { w, .. }
            | Op::ReserveEntity { w } | Op::ReserveEntities { w, .. } | Op::ReserveBulk { w, .. } | Op::Obs { w } | Op::DropWorld { w }
            | Op::Query { w, .. } => Some(*w),
            Op::Cont(c) => c.world(),
            Op::Track { w, .. } | Op::TObs { w } | Op::Ser { w, .. } | Op::DeBytes { w, .. } => Some(*w),
            Op::De { from, .. } => Some(*from),
        };
        if let Some(w) = w {
            if !ctx.has_world(w) {
                continue;
            }
            if let Op::Take { into: Some(v), .. } = &op {
                if !ctx.has_world(*v) || *v == w {
                    continue;
                }
            }
        }
        if let Op::Cont(c) = &op {
            if !ctx.container_ready(c) {
                continue;
            }
        }
        let opline = format!("@{} {}", opnum, op.show());
        log(&opline);
        out.ops.push(opline);
        let r = guarded(|| ctx.exec(&op, opnum));
        match r {
            Ok((lhs, rhs)) => {
                out.trace.push(format!("{} => {}", lhs, rhs));
                for n in ctx.notes.drain(..) {
                    out.trace.push(n);
                }
                if let (Some(w), false) = (
                    match &op {
                        Op::De { w, .. } => Some(*w),
                        _ => w,
                    },
                    matches!(op, Op::Obs { .. } | Op::DropWorld { .. } | Op::Query { .. } | Op::TObs { .. } | Op::Ser { .. } | Op::DeBytes { .. }),
                ) {
                    if let Some(s) = ctx.state_line(w) {
                        out.trace.push(s);
                    }
                }
            }
            Err(loc) => {
                // the world is in an unspecified state after a panic: end the history here and leak it
                let lhs = op.show_concrete(&ctx);
                out.trace.push(format!("{} => panic", lhs));
                out.trace.push(format!("#panic {}", loc));
                out.panicked = Some(loc);
                for wd in ctx.worlds.drain(..) {
                    std::mem::forget(wd);
                }
                std::mem::forget(std::mem::take(&mut ctx.containers));
                break;
            }
        }
        if !scripted && obs_every > 0 && !matches!(op, Op::Obs { .. } | Op::TObs { .. } | Op::DropWorld { .. } | Op::NewWorld { .. } | Op::Query { .. } | Op::Ser { .. } | Op::DeBytes { .. }) {
            since_obs += 1;
            if since_obs >= obs_every {
                since_obs = 0;
                let w = match &op {
                    Op::De { w, .. } if ctx.has_world(*w) => Some(*w),
                    Op::De { .. } => None,
                    _ => w,
                };
                if let Some(w) = w {
                    let tracked = gen.as_ref().map_or(false, |g| g.profile == Profile::Tracker);
                    queue.push((usize::MAX, if tracked { Op::TObs { w } } else { Op::Obs { w } }));
                }
            }
        }
        // track a few coverage numbers
        for wd in ctx.worlds.iter().flatten() {
            stats.max_entities = stats.max_entities.max(wd.len() as usize);
            stats.max_archetypes = stats.max_archetypes.max(wd.archetypes().len());
        }
    }
    for (k, v) in ctx.stats.ops.iter() {
        *stats.ops.entry(k.clone()).or_default() += v;
    }
    for (k, v) in ctx.stats.results.iter() {
        *stats.results.entry(k.clone()).or_default() += v;
    }
    out
}

impl Op {
    /// concrete lhs without executing (used when the op panicked)
    pub fn show_concrete(&self, ctx: &Ctx) -> String {
        let mut s = self.show();
        // replace `#k` by the resolved handle
        let mut out = String::new();
        let mut chars = s.drain(..).peekable();
        while let Some(c) = chars.next() {
            if c == '#' {
                let mut num = String::new();
                while let Some(d) = chars.peek() {
                    if d.is_ascii_digit() || *d == '.' {
                        num.push(*d);
                        chars.next();
                    } else {
                        break;
                    }
                }
                let e = ctx.resolve(&HRef::parse(&format!("#{}", num)));
                out.push_str(&show_entity(e));
            } else {
                out.push(c);
            }
        }
        // the judge wants `ts=` for menu-driven verbs
        match self {
            Op::Remove { k, .. } | Op::Reserve { k, .. } | Op::SpawnBatch { k, .. } => {
                out.push_str(&format!(" ts={}", show_nats(&bundle_types(*k))))
            }
            Op::Exchange { ks, .. } => out.push_str(&format!(" ts={}", show_nats(&small_bundle_types(*ks)))),
            Op::SpawnCb { decl, .. } | Op::SpawnCbAt { decl, .. } => {
                out.push_str(&format!(" ts={}", show_nats(&canon_types(decl))))
            }
            Op::Query { w, q, .. } => out.push_str(&format!(
                " q={} hs={}",
                crate::query_engine::query_desc(*q),
                show_entities(&ctx.probe_handles(*w))
            )),
            _ => {}
        }
        out
    }
}

/// order-insensitive comparison of two serialised forms (storage order is not part of the format's meaning)
fn canon_tree_eq(a: &crate::serde_engine::Tree, b: &crate::serde_engine::Tree, fmt: &str) -> bool {
    use crate::serde_engine::Tree;
    fn canon(t: &Tree, fmt: &str) -> String {
        match (fmt, t) {
            ("row", Tree::Map(kvs)) => {
                let mut v: Vec<String> = kvs
                    .iter()
                    .map(|(k, val)| {
                        let inner = match val {
                            Tree::Map(cs) => {
                                let mut c: Vec<String> = cs.iter().map(|(a, b)| format!("{}:{}", a.show(), b.show())).collect();
                                c.sort();
                                c.join(",")
                            }
                            o => o.show(),
                        };
                        format!("{}={}", k.show(), inner)
                    })
                    .collect();
                v.sort();
                v.join(";")
            }
            (_, Tree::Seq(blocks)) => {
                // per entity: (bits, sorted (id, value))
                let mut rows: Vec<String> = Vec::new();
                for b in blocks {
                    if let Tree::Seq(parts) = b {
                        if let (Some(Tree::Seq(ids)), Some(Tree::Seq(cols))) = (parts.get(2), parts.get(3)) {
                            if let Some(Tree::Seq(ents)) = cols.first() {
                                for (i, e) in ents.iter().enumerate() {
                                    let mut cs: Vec<String> = ids
                                        .iter()
                                        .enumerate()
                                        .map(|(j, id)| {
                                            let v = match cols.get(j + 1) {
                                                Some(Tree::Seq(xs)) => xs.get(i).map_or("?".into(), |x| x.show()),
                                                _ => "?".into(),
                                            };
                                            format!("{}:{}", id.show(), v)
                                        })
                                        .collect();
                                    cs.sort();
                                    rows.push(format!("{}={}", e.show(), cs.join(",")));
                                }
                            }
                        }
                    }
                }
                rows.sort();
                rows.join(";")
            }
            (_, o) => o.show(),
        }
    }
    canon(a, fmt) == canon(b, fmt)
}
