//! Instrumented component universe: nine types covering the layout space (sizes 0..320, aligns
//! 1..256, zero-sized, over-aligned zero-sized, heap-owning).  Every instance carries a serial number;
//! `Drop` records `(type index, serial)` in a thread-local ledger.
#![allow(dead_code)]

use std::cell::{Cell, RefCell};
use std::collections::HashSet;
use std::mem::ManuallyDrop;

thread_local! {
    pub static LEDGER: RefCell<Vec<(usize, u64)>> = RefCell::new(Vec::new());
    /// serials whose heap allocation has been freed already (so a second drop is *recorded*, not a
    /// double free inside the allocator)
    static FREED: RefCell<HashSet<(usize, u64)>> = RefCell::new(HashSet::new());
    static SUPPRESS: Cell<bool> = Cell::new(false);
    /// instances of the instrumented types (0..=9) constructed minus dropped
    pub static LIVE: Cell<i64> = Cell::new(0);
    static NEXT_CLONE_SERIAL: Cell<u64> = Cell::new(1_000_000);
    pub static CLONES: RefCell<Vec<(usize, u64, u64)>> = RefCell::new(Vec::new());
}

pub const NTYPES: usize = 12;

pub fn live_inc() {
    LIVE.with(|l| l.set(l.get() + 1));
}
pub fn live() -> i64 {
    LIVE.with(|l| l.get())
}

fn record(t: usize, serial: u64) -> bool {
    LIVE.with(|l| l.set(l.get() - 1));
    // returns true when this is the first drop of that instance
    let first = FREED.with(|f| f.borrow_mut().insert((t, serial)));
    if !SUPPRESS.with(|s| s.get()) {
        LEDGER.with(|l| l.borrow_mut().push((t, serial)));
    }
    first
}

fn record_zst(t: usize) {
    LIVE.with(|l| l.set(l.get() - 1));
    if !SUPPRESS.with(|s| s.get()) {
        LEDGER.with(|l| l.borrow_mut().push((t, 0)));
    }
}

/// drain the drop ledger (sorted)
pub fn take_drops() -> Vec<(usize, u64)> {
    let mut v = LEDGER.with(|l| std::mem::take(&mut *l.borrow_mut()));
    v.sort();
    v
}

/// run `f` with drop recording switched off (used when the harness disposes of values that hecs
/// handed back to the caller)
pub fn suppressed<R>(f: impl FnOnce() -> R) -> R {
    let old = SUPPRESS.with(|s| s.replace(true));
    let r = f();
    SUPPRESS.with(|s| s.set(old));
    r
}

pub fn reset_ledger() {
    LEDGER.with(|l| l.borrow_mut().clear());
    FREED.with(|f| f.borrow_mut().clear());
    NEXT_CLONE_SERIAL.with(|c| c.set(1_000_000));
    CLONES.with(|c| c.borrow_mut().clear());
}

/// the k-th clone of the value with serial `from` gets serial `from + 1_000_000 * k`, so that the
/// order in which hecs clones the components of a bundle is not observable
fn clone_serial(t: usize, from: u64) -> u64 {
    let k = CLONES.with(|c| {
        let mut c = c.borrow_mut();
        match c.iter_mut().find(|e| e.0 == t && e.1 == from) {
            Some(e) => {
                e.2 += 1;
                e.2
            }
            None => {
                c.push((t, from, 1));
                1
            }
        }
    });
    from + 1_000_000 * k
}

pub trait Comp: hecs::Component + Sized {
    const IDX: usize;
    fn new(serial: u64) -> Self;
    /// serial of the instance; `u64::MAX - k` style values flag corruption
    fn serial(&self) -> u64;
}

pub const CORRUPT: u64 = 999_999_999;

// ---- 0: A(u64), size 8 align 8
pub struct A(u64);
impl Comp for A {
    const IDX: usize = 0;
    fn new(s: u64) -> Self {
        live_inc();
        A(s)
    }
    fn serial(&self) -> u64 {
        self.0
    }
}
impl Drop for A {
    fn drop(&mut self) {
        record(0, self.0);
    }
}
impl Clone for A {
    fn clone(&self) -> Self {
        live_inc();
        A(clone_serial(0, self.0))
    }
}

// ---- 1: B(u32), size 4 align 4
pub struct B(u32);
impl Comp for B {
    const IDX: usize = 1;
    fn new(s: u64) -> Self {
        live_inc();
        B(s as u32)
    }
    fn serial(&self) -> u64 {
        self.0 as u64
    }
}
impl Drop for B {
    fn drop(&mut self) {
        record(1, self.0 as u64);
    }
}
impl Clone for B {
    fn clone(&self) -> Self {
        live_inc();
        B(clone_serial(1, self.0 as u64) as u32)
    }
}

// ---- 2: C, size 4 align 2
#[repr(C)]
pub struct C {
    lo: u16,
    hi: u16,
}
impl Comp for C {
    const IDX: usize = 2;
    fn new(s: u64) -> Self {
        live_inc();
        C { lo: s as u16, hi: (s >> 16) as u16 }
    }
    fn serial(&self) -> u64 {
        self.lo as u64 | ((self.hi as u64) << 16)
    }
}
impl Drop for C {
    fn drop(&mut self) {
        record(2, self.serial());
    }
}
impl Clone for C {
    fn clone(&self) -> Self {
        C::new(clone_serial(2, self.serial()))
    }
}

// ---- 3: D, size 256 align 256 (beyond one byte: alignments are not small numbers)
#[repr(C, align(256))]
pub struct D {
    serial: u64,
    pad: [u64; 7],
}
impl Comp for D {
    const IDX: usize = 3;
    fn new(s: u64) -> Self {
        live_inc();
        D { serial: s, pad: [s ^ 0x5555; 7] }
    }
    fn serial(&self) -> u64 {
        if (self as *const D as usize) % 256 != 0 || self.pad.iter().any(|&p| p != self.serial ^ 0x5555) {
            CORRUPT
        } else {
            self.serial
        }
    }
}
impl Drop for D {
    fn drop(&mut self) {
        record(3, self.serial);
    }
}
impl Clone for D {
    fn clone(&self) -> Self {
        D::new(clone_serial(3, self.serial))
    }
}

// ---- 4: E(Box<u64>), heap-owning
pub struct E(ManuallyDrop<Box<u64>>, u64);
impl Comp for E {
    const IDX: usize = 4;
    fn new(s: u64) -> Self {
        live_inc();
        E(ManuallyDrop::new(Box::new(s)), s)
    }
    fn serial(&self) -> u64 {
        self.1
    }
}
impl Drop for E {
    fn drop(&mut self) {
        if record(4, self.1) {
            unsafe { ManuallyDrop::drop(&mut self.0) }
        }
    }
}
impl Clone for E {
    fn clone(&self) -> Self {
        E::new(clone_serial(4, self.1))
    }
}

// ---- 5: S(String), heap-owning, 24+8 bytes
pub struct S(ManuallyDrop<String>, u64);
impl Comp for S {
    const IDX: usize = 5;
    fn new(s: u64) -> Self {
        live_inc();
        S(ManuallyDrop::new(format!("serial-{}", s)), s)
    }
    fn serial(&self) -> u64 {
        self.1
    }
}
impl Drop for S {
    fn drop(&mut self) {
        if record(5, self.1) {
            unsafe { ManuallyDrop::drop(&mut self.0) }
        }
    }
}
impl Clone for S {
    fn clone(&self) -> Self {
        S::new(clone_serial(5, self.1))
    }
}

// ---- 6: L([u64; 40]), large
pub struct L([u64; 40]);
impl Comp for L {
    const IDX: usize = 6;
    fn new(s: u64) -> Self {
        live_inc();
        let mut a = [0u64; 40];
        for (i, x) in a.iter_mut().enumerate() {
            *x = s.wrapping_add(i as u64 * 7919);
        }
        L(a)
    }
    fn serial(&self) -> u64 {
        let s = self.0[0];
        if self.0.iter().enumerate().any(|(i, &x)| x != s.wrapping_add(i as u64 * 7919)) {
            CORRUPT
        } else {
            s
        }
    }
}
impl Drop for L {
    fn drop(&mut self) {
        record(6, self.0[0]);
    }
}
impl Clone for L {
    fn clone(&self) -> Self {
        L::new(clone_serial(6, self.0[0]))
    }
}

// ---- 7: Z, zero-sized
pub struct Z;
impl Comp for Z {
    const IDX: usize = 7;
    fn new(_: u64) -> Self {
        live_inc();
        Z
    }
    fn serial(&self) -> u64 {
        0
    }
}
impl Drop for Z {
    fn drop(&mut self) {
        record_zst(7);
    }
}
impl Clone for Z {
    fn clone(&self) -> Self {
        live_inc();
        Z
    }
}

// ---- 8: ZA, zero-sized, align 16
#[repr(align(16))]
pub struct ZA;
impl Comp for ZA {
    const IDX: usize = 8;
    fn new(_: u64) -> Self {
        live_inc();
        ZA
    }
    fn serial(&self) -> u64 {
        if (self as *const ZA as usize) % 16 != 0 {
            CORRUPT
        } else {
            0
        }
    }
}
impl Drop for ZA {
    fn drop(&mut self) {
        record_zst(8);
    }
}
impl Clone for ZA {
    fn clone(&self) -> Self {
        live_inc();
        ZA
    }
}

// ---- 9: ZB, zero-sized, align 8
#[repr(align(8))]
pub struct ZB;
impl Comp for ZB {
    const IDX: usize = 9;
    fn new(_: u64) -> Self {
        live_inc();
        ZB
    }
    fn serial(&self) -> u64 {
        if (self as *const ZB as usize) % 8 != 0 {
            CORRUPT
        } else {
            0
        }
    }
}
impl Drop for ZB {
    fn drop(&mut self) {
        record_zst(9);
    }
}
impl Clone for ZB {
    fn clone(&self) -> Self {
        live_inc();
        ZB
    }
}

// ---- 10: TK(u64): the value type tracked by `ChangeTracker` (C18).  `Clone` keeps the value,
// `PartialEq` compares it, and it has no destructor (so it does not take part in the drop ledger).
// (size 16, alignment 8: a row stride that differs from the alignment)
#[derive(Clone, PartialEq, Debug)]
#[repr(C)]
pub struct TK(pub u64, pub u32);
impl Comp for TK {
    const IDX: usize = 10;
    fn new(s: u64) -> Self {
        TK(s, 0)
    }
    fn serial(&self) -> u64 {
        self.0
    }
}

/// `(size, align)` of every universe type, as hecs sees it
pub fn layouts() -> Vec<(usize, usize)> {
    use std::alloc::Layout;
    vec![
        (Layout::new::<A>().size(), Layout::new::<A>().align()),
        (Layout::new::<B>().size(), Layout::new::<B>().align()),
        (Layout::new::<C>().size(), Layout::new::<C>().align()),
        (Layout::new::<D>().size(), Layout::new::<D>().align()),
        (Layout::new::<E>().size(), Layout::new::<E>().align()),
        (Layout::new::<S>().size(), Layout::new::<S>().align()),
        (Layout::new::<L>().size(), Layout::new::<L>().align()),
        (Layout::new::<Z>().size(), Layout::new::<Z>().align()),
        (Layout::new::<ZA>().size(), Layout::new::<ZA>().align()),
        (Layout::new::<ZB>().size(), Layout::new::<ZB>().align()),
        (Layout::new::<TK>().size(), Layout::new::<TK>().align()),
        (Layout::new::<PB>().size(), Layout::new::<PB>().align()),
    ]
}

/// expands `$body` once per universe type with `$T` bound to it, selected by runtime index
#[macro_export]
macro_rules! with_type {
    ($idx:expr, $T:ident, $body:expr) => {
        match $idx {
            0 => { type $T = $crate::comps::A; $body }
            1 => { type $T = $crate::comps::B; $body }
            2 => { type $T = $crate::comps::C; $body }
            3 => { type $T = $crate::comps::D; $body }
            4 => { type $T = $crate::comps::E; $body }
            5 => { type $T = $crate::comps::S; $body }
            6 => { type $T = $crate::comps::L; $body }
            7 => { type $T = $crate::comps::Z; $body }
            8 => { type $T = $crate::comps::ZA; $body }
            9 => { type $T = $crate::comps::ZB; $body }
            10 => { type $T = $crate::comps::TK; $body }
            11 => { type $T = $crate::comps::PB; $body }
            _ => panic!("harness: bad type index"),
        }
    };
}

/// `Some(serial)` of component type `t` of the entity, through `EntityRef::get`
pub fn entity_ref_serial(e: &hecs::EntityRef<'_>, t: usize) -> Option<u64> {
    with_type!(t, T, e.get::<&T>().map(|r| r.serial()))
}

/// sorted `(type, serial)` list of an entity, read through `EntityRef::get::<&T>` for every type
pub fn entity_ref_comps(e: &hecs::EntityRef<'_>) -> Vec<(usize, u64)> {
    (0..NTYPES).filter_map(|t| entity_ref_serial(e, t).map(|s| (t, s))).collect()
}


/// C01 "through every read accessor": the component of type `t` of `h` as each accessor reports it,
/// compared with `EntityRef::get::<&T>` (what `obs` prints).  `None` = all agree.
pub fn accessor_disagreement(world: &hecs::World, h: hecs::Entity, t: usize) -> Option<String> {
    with_type!(t, T, {
        let er = world.entity(h);
        let base: Option<Option<u64>> = er.as_ref().ok().map(|e| e.get::<&T>().map(|r| r.serial()));
        let mut seen: Vec<(&'static str, Option<Option<u64>>)> = Vec::new();
        let comp = |r: Result<u64, hecs::ComponentError>| match r {
            Ok(v) => Some(Some(v)),
            Err(hecs::ComponentError::MissingComponent(_)) => Some(None),
            Err(hecs::ComponentError::NoSuchEntity) => None,
        };
        seen.push(("World::get::<&T>", comp(world.get::<&T>(h).map(|r| r.serial()))));
        seen.push(("World::get::<&mut T>", comp(world.get::<&mut T>(h).map(|r| r.serial()))));
        seen.push(("World::get_unchecked::<&T>", comp(unsafe { world.get_unchecked::<&T>(h) }.map(|r| r.serial()))));
        if let Ok(e) = er.as_ref() {
            seen.push(("EntityRef::get::<&mut T>", Some(e.get::<&mut T>().map(|r| r.serial()))));
            seen.push(("EntityRef::has::<T>", Some(if e.has::<T>() { base.unwrap() } else { None })));
            let listed = e.component_types().any(|ty| ty == std::any::TypeId::of::<T>());
            seen.push(("EntityRef::component_types", Some(if listed { base.unwrap() } else { None })));
            seen.push(("EntityRef::satisfies::<&T>", Some(if e.satisfies::<&T>() { base.unwrap() } else { None })));
            seen.push(("EntityRef::query::<&T>", Some(e.query::<&T>().get().map(|r| r.serial()))));
        }
        seen.push((
            "World::satisfies::<&T>",
            match world.satisfies::<&T>(h) {
                Ok(true) => match base {
                    Some(Some(v)) => Some(Some(v)),
                    _ => Some(Some(CORRUPT)),
                },
                Ok(false) => Some(None),
                Err(_) => None,
            },
        ));
        seen.push((
            "World::query_one::<&T>",
            match world.query_one::<&T>(h) {
                Ok(mut q) => Some(q.get().map(|r| r.serial())),
                Err(_) => None,
            },
        ));
        // a query every entity satisfies (C16: reserved ids included) answers for exactly the existing ones
        seen.push((
            "World::query_one::<Option<&T>>",
            match world.query_one::<Option<&T>>(h) {
                Ok(mut q) => match q.get() {
                    Some(o) => Some(o.map(|r| r.serial())),
                    None => Some(Some(CORRUPT)),
                },
                Err(_) => None,
            },
        ));
        if let Ok(e) = er.as_ref() {
            seen.push((
                "EntityRef::query::<Option<&T>>",
                match e.query::<Option<&T>>().get() {
                    Some(o) => Some(o.map(|r| r.serial())),
                    None => Some(Some(CORRUPT)),
                },
            ));
        }
        seen.into_iter().find(|(_, v)| *v != base).map(|(name, v)| format!("{}:type{}:{:?}!={:?}", name, t, v, base))
    })
}

/// a static bundle type of the menu
pub trait StaticBundle: hecs::Bundle + 'static {
    fn types() -> Vec<usize>;
    fn make(serials: &[u64]) -> Self;
    fn serials(&self) -> Vec<(usize, u64)>;
}

macro_rules! tuple_bundle {
    ($($T:ident $i:tt),*) => {
        impl<$($T: Comp),*> StaticBundle for ($($T,)*) {
            fn types() -> Vec<usize> { vec![$($T::IDX),*] }
            #[allow(unused_variables)]
            fn make(serials: &[u64]) -> Self { ($($T::new(serials[$i]),)*) }
            fn serials(&self) -> Vec<(usize, u64)> { vec![$(($T::IDX, self.$i.serial())),*] }
        }
    };
}
tuple_bundle!();
tuple_bundle!(T0 0);
tuple_bundle!(T0 0, T1 1);
tuple_bundle!(T0 0, T1 1, T2 2);
tuple_bundle!(T0 0, T1 1, T2 2, T3 3);
tuple_bundle!(T0 0, T1 1, T2 2, T3 3, T4 4);

// ---- 11: PB — a type that is BOTH a bundle (two plain fields: hidden component types 120 = u64 and
// 121 = u32) and, stored whole, a component.  hecs keys several caches by `TypeId`s of bundle types
// and of component types; a type living in both namespaces is where those may collide.  No
// destructor (a derived bundle is taken apart field by field), so like TK it is outside the ledger.
#[derive(hecs::Bundle, hecs::DynamicBundleClone, Clone)]
pub struct PB {
    pub x: u64,
    pub y: u32,
}
impl Comp for PB {
    const IDX: usize = 11;
    fn new(s: u64) -> Self {
        PB { x: s, y: (s as u32) ^ 0x5a5a }
    }
    fn serial(&self) -> u64 {
        if self.y == (self.x as u32) ^ 0x5a5a {
            self.x
        } else {
            CORRUPT
        }
    }
}
impl StaticBundle for PB {
    fn types() -> Vec<usize> {
        vec![120, 121]
    }
    fn make(serials: &[u64]) -> Self {
        PB { x: serials[0], y: serials[1] as u32 }
    }
    fn serials(&self) -> Vec<(usize, u64)> {
        vec![(120, self.x), (121, self.y as u64)]
    }
}

// ---- derived bundles (macros/src/bundle.rs): same meaning as the tuple of their fields
#[derive(hecs::Bundle, hecs::DynamicBundleClone, Clone)]
pub struct DAB {
    pub a: A,
    pub b: B,
}
#[derive(hecs::Bundle, hecs::DynamicBundleClone, Clone)]
pub struct DESZ {
    pub e: E,
    pub s: S,
    pub z: Z,
}
#[derive(hecs::Bundle, hecs::DynamicBundleClone, Clone)]
pub struct DBA {
    pub b: B,
    pub a: A,
}
/// size order and alignment order of the fields differ (L: 320 bytes aligned to 8, D: 256 bytes aligned
/// to 256), whatever the `TypeId`s are
#[derive(hecs::Bundle, hecs::DynamicBundleClone, Clone)]
pub struct DLD {
    pub l: L,
    pub d: D,
}
impl StaticBundle for DLD {
    fn types() -> Vec<usize> {
        vec![6, 3]
    }
    fn make(s: &[u64]) -> Self {
        DLD { l: L::new(s[0]), d: D::new(s[1]) }
    }
    fn serials(&self) -> Vec<(usize, u64)> {
        vec![(6, self.l.serial()), (3, self.d.serial())]
    }
}
/// a derived bundle with a type parameter, used with two different arguments in one process (whatever the
/// derive computes once per *struct* rather than once per *instantiation* shows here)
#[derive(hecs::Bundle, hecs::DynamicBundleClone, Clone)]
pub struct GB<T: Comp + Clone> {
    pub v: T,
    pub a: A,
}
impl<T: Comp + Clone> StaticBundle for GB<T> {
    fn types() -> Vec<usize> {
        vec![T::IDX, 0]
    }
    fn make(s: &[u64]) -> Self {
        GB { v: T::new(s[0]), a: A::new(s[1]) }
    }
    fn serials(&self) -> Vec<(usize, u64)> {
        vec![(T::IDX, self.v.serial()), (0, self.a.serial())]
    }
}
impl StaticBundle for DAB {
    fn types() -> Vec<usize> {
        vec![0, 1]
    }
    fn make(s: &[u64]) -> Self {
        DAB { a: A::new(s[0]), b: B::new(s[1]) }
    }
    fn serials(&self) -> Vec<(usize, u64)> {
        vec![(0, self.a.serial()), (1, self.b.serial())]
    }
}
impl StaticBundle for DESZ {
    fn types() -> Vec<usize> {
        vec![4, 5, 7]
    }
    fn make(s: &[u64]) -> Self {
        DESZ { e: E::new(s[0]), s: S::new(s[1]), z: Z::new(s[2]) }
    }
    fn serials(&self) -> Vec<(usize, u64)> {
        vec![(4, self.e.serial()), (5, self.s.serial()), (7, self.z.serial())]
    }
}
impl StaticBundle for DBA {
    fn types() -> Vec<usize> {
        vec![1, 0]
    }
    fn make(s: &[u64]) -> Self {
        DBA { b: B::new(s[0]), a: A::new(s[1]) }
    }
    fn serials(&self) -> Vec<(usize, u64)> {
        vec![(1, self.b.serial()), (0, self.a.serial())]
    }
}

/// static bundle menu: `$body` is expanded with `$T` bound to menu entry `$k`
#[macro_export]
macro_rules! with_bundle {
    ($k:expr, $T:ident, $body:expr) => {{
        use $crate::comps::*;
        match $k {
            0 => { type $T = (); $body }
            1 => { type $T = (A,); $body }
            2 => { type $T = (B,); $body }
            3 => { type $T = (C,); $body }
            4 => { type $T = (D,); $body }
            5 => { type $T = (E,); $body }
            6 => { type $T = (S,); $body }
            7 => { type $T = (L,); $body }
            8 => { type $T = (Z,); $body }
            9 => { type $T = (ZA,); $body }
            10 => { type $T = (A, B); $body }
            11 => { type $T = (B, A); $body }
            12 => { type $T = (A, D); $body }
            13 => { type $T = (D, A); $body }
            14 => { type $T = (B, Z); $body }
            15 => { type $T = (E, S); $body }
            16 => { type $T = (S, E); $body }
            17 => { type $T = (A, B, C); $body }
            18 => { type $T = (C, A, B); $body }
            19 => { type $T = (B, C, A); $body }
            20 => { type $T = (ZA, A, Z); $body }
            21 => { type $T = (L, D, E); $body }
            22 => { type $T = (A, B, C, D); $body }
            23 => { type $T = (D, C, B, A); $body }
            24 => { type $T = (S, Z, B, ZA, L); $body }
            25 => { type $T = (C, E); $body }
            26 => { type $T = (ZB,); $body }
            27 => { type $T = (ZB, B); $body }
            28 => { type $T = (TK,); $body }
            29 => { type $T = (A, TK); $body }
            30 => { type $T = (TK, B, Z); $body }
            31 => { type $T = DAB; $body }
            32 => { type $T = DESZ; $body }
            33 => { type $T = DBA; $body }
            // PB stored whole (a component), PB taken apart (a bundle of two hidden types), and both mixed
            34 => { type $T = (PB,); $body }
            35 => { type $T = PB; $body }
            36 => { type $T = (A, PB); $body }
            37 => { type $T = DLD; $body }
            38 => { type $T = (L, D); $body }
            // out-of-contract: a component type named twice (must be rejected by hecs)
            39 => { type $T = (A, A); $body }
            40 => { type $T = (B, A, B); $body }
            // (beyond `NBUNDLES_ALL`: reached by a scripted scenario only)
            41 => { type $T = GB<B>; $body }
            42 => { type $T = GB<C>; $body }
            _ => panic!("harness: bad bundle menu index"),
        }
    }};
}
pub const NBUNDLES: usize = 39;
/// menu entries at and above `NBUNDLES` repeat a type
pub const NBUNDLES_ALL: usize = 41;

/// smaller menu for the removed side of `exchange` (keeps monomorphisation count down)
#[macro_export]
macro_rules! with_small_bundle {
    ($k:expr, $T:ident, $body:expr) => {{
        use $crate::comps::*;
        match $k {
            0 => { type $T = (); $body }
            1 => { type $T = (A,); $body }
            2 => { type $T = (B,); $body }
            3 => { type $T = (E,); $body }
            4 => { type $T = (Z,); $body }
            5 => { type $T = (A, B); $body }
            6 => { type $T = (B, A); $body }
            7 => { type $T = (D, A); $body }
            8 => { type $T = (S, E); $body }
            9 => { type $T = (C, A, B); $body }
            10 => { type $T = DAB; $body }
            11 => { type $T = DESZ; $body }
            12 => { type $T = (A, A); $body }
            _ => panic!("harness: bad small bundle menu index"),
        }
    }};
}
pub const NSMALL: usize = 12;
pub const NSMALL_ALL: usize = 13;

pub fn bundle_types(k: usize) -> Vec<usize> {
    with_bundle!(k, T, <T as StaticBundle>::types())
}
pub fn small_bundle_types(k: usize) -> Vec<usize> {
    with_small_bundle!(k, T, <T as StaticBundle>::types())
}
