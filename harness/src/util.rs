//! PRNG, line-protocol printing/parsing, panic classification.
#![allow(dead_code)]

use std::cell::RefCell;

/// splitmix64: every random choice of a run derives from one seed
#[derive(Clone)]
pub struct Rng(pub u64);
impl Rng {
    pub fn new(seed: u64) -> Self {
        Rng(seed.wrapping_mul(0x9E3779B97F4A7C15) ^ 0xD1B54A32D192ED03)
    }
    pub fn next(&mut self) -> u64 {
        self.0 = self.0.wrapping_add(0x9E3779B97F4A7C15);
        let mut z = self.0;
        z = (z ^ (z >> 30)).wrapping_mul(0xBF58476D1CE4E5B9);
        z = (z ^ (z >> 27)).wrapping_mul(0x94D049BB133111EB);
        z ^ (z >> 31)
    }
    pub fn below(&mut self, n: usize) -> usize {
        if n == 0 {
            0
        } else {
            (self.next() % n as u64) as usize
        }
    }
    pub fn chance(&mut self, percent: usize) -> bool {
        self.below(100) < percent
    }
    pub fn pick<'a, T>(&mut self, xs: &'a [T]) -> Option<&'a T> {
        if xs.is_empty() {
            None
        } else {
            Some(&xs[self.below(xs.len())])
        }
    }
    /// weighted choice: returns index
    pub fn weighted(&mut self, ws: &[usize]) -> usize {
        let total: usize = ws.iter().sum();
        let mut x = self.below(total.max(1));
        for (i, &w) in ws.iter().enumerate() {
            if x < w {
                return i;
            }
            x -= w;
        }
        ws.len() - 1
    }
    pub fn shuffle<T>(&mut self, xs: &mut [T]) {
        for i in (1..xs.len()).rev() {
            let j = self.below(i + 1);
            xs.swap(i, j);
        }
    }
}

pub fn show_comps(cs: &[(usize, u64)]) -> String {
    let v: Vec<String> = cs.iter().map(|(t, s)| format!("{}:{}", t, s)).collect();
    format!("[{}]", v.join(","))
}
pub fn show_nats(ns: &[usize]) -> String {
    let v: Vec<String> = ns.iter().map(|n| n.to_string()).collect();
    format!("[{}]", v.join(","))
}
pub fn show_rows(rows: &[Vec<(usize, u64)>]) -> String {
    let v: Vec<String> = rows.iter().map(|r| show_comps(r)).collect();
    format!("[{}]", v.join(","))
}
pub fn show_entity(e: hecs::Entity) -> String {
    let bits = e.to_bits().get();
    format!("{}v{}", bits & 0xffff_ffff, bits >> 32)
}
pub fn show_entities(es: &[hecs::Entity]) -> String {
    let v: Vec<String> = es.iter().map(|e| show_entity(*e)).collect();
    format!("[{}]", v.join(","))
}

pub fn entity_of(id: u32, gen: u32) -> Option<hecs::Entity> {
    hecs::Entity::from_bits(((gen as u64) << 32) | id as u64)
}

/// split `[a,b,[c,d]]` at top level
pub fn split_top(s: &str) -> Vec<String> {
    let s = s.trim();
    assert!(s.starts_with('[') && s.ends_with(']'), "harness: bad list {:?}", s);
    let inner = &s[1..s.len() - 1];
    let mut out = Vec::new();
    let mut depth = 0;
    let mut cur = String::new();
    for c in inner.chars() {
        match c {
            '[' => {
                depth += 1;
                cur.push(c)
            }
            ']' => {
                depth -= 1;
                cur.push(c)
            }
            ',' | ';' if depth == 0 => {
                out.push(std::mem::take(&mut cur));
            }
            _ => cur.push(c),
        }
    }
    if !cur.is_empty() {
        out.push(cur);
    }
    out
}
pub fn parse_nats(s: &str) -> Vec<usize> {
    split_top(s).iter().map(|x| x.parse().expect("harness: bad nat")).collect()
}
pub fn parse_comps(s: &str) -> Vec<(usize, u64)> {
    split_top(s)
        .iter()
        .map(|x| {
            let (a, b) = x.split_once(':').expect("harness: bad comp");
            (a.parse().expect("harness: bad comp type"), b.parse().expect("harness: bad comp serial"))
        })
        .collect()
}
pub fn parse_rows(s: &str) -> Vec<Vec<(usize, u64)>> {
    split_top(s).iter().map(|x| parse_comps(x)).collect()
}
pub fn field<'a>(toks: &'a [&'a str], k: &str) -> Option<&'a str> {
    toks.iter().find_map(|t| t.strip_prefix(k).and_then(|r| r.strip_prefix('=')))
}

thread_local! {
    /// location of the most recent panic on this thread
    pub static LAST_PANIC: RefCell<Option<(String, String)>> = RefCell::new(None);
}

pub fn install_panic_hook() {
    std::panic::set_hook(Box::new(|info| {
        let loc = info.location().map(|l| format!("{}:{}", l.file(), l.line())).unwrap_or_default();
        let msg = if let Some(s) = info.payload().downcast_ref::<&str>() {
            s.to_string()
        } else if let Some(s) = info.payload().downcast_ref::<String>() {
            s.clone()
        } else {
            String::from("<non-string panic>")
        };
        LAST_PANIC.with(|p| *p.borrow_mut() = Some((loc, msg)));
    }));
}

/// Runs `f`; a panic raised from hecs' own sources (or from core/alloc on its behalf) is an
/// outcome (`Err(location)`); a panic raised from harness code is a harness bug and aborts the run
/// as inconclusive (exit code 3).
pub fn guarded<R>(f: impl FnOnce() -> R) -> Result<R, String> {
    LAST_PANIC.with(|p| *p.borrow_mut() = None);
    match std::panic::catch_unwind(std::panic::AssertUnwindSafe(f)) {
        Ok(r) => Ok(r),
        Err(_) => {
            let (loc, msg) = LAST_PANIC.with(|p| p.borrow_mut().take()).unwrap_or_default();
            // the harness crate's own locations are relative (`src/…`); hecs is a path dependency and
            // reports absolute ones
            // two accessors of the implementation contradicting each other is an outcome, not a harness bug
            let inconsistency = msg.contains("impl-inconsistency:");
            if !inconsistency && (loc.starts_with("src/") || loc.contains("/harness/src/") || msg.starts_with("harness:")) {
                eprintln!("HARNESS-BUG panic at {}: {}", loc, msg);
                std::process::exit(3);
            }
            Err(format!("{} {}", loc, msg.replace('\n', " ")))
        }
    }
}
