//! Cooperative scheduler over the `hecs_verif` yield points: real threads, exactly one of which runs
//! between two consecutive yield points, so that every interleaving at atomic-operation
//! granularity can be enumerated (C06, C07).
#![allow(dead_code)]

use std::cell::Cell;
use std::sync::{Condvar, Mutex};

const MAIN: usize = usize::MAX;

struct State {
    turn: usize,
    /// yield site each thread is parked at (None: not started / running / finished)
    parked: Vec<Option<u32>>,
    finished: Vec<bool>,
    events: Vec<Vec<String>>,
    yields: Vec<usize>,
}

pub struct Sched {
    st: Mutex<State>,
    cv: Condvar,
}

thread_local! {
    static ME: Cell<Option<(usize, *const Sched)>> = Cell::new(None);
}

/// installed through `hecs::verif::set_yield_fn`
pub fn on_yield(site: u32) {
    let me = ME.with(|m| m.get());
    if let Some((id, sched)) = me {
        let sched = unsafe { &*sched };
        let mut st = sched.st.lock().unwrap();
        st.parked[id] = Some(site);
        st.yields[id] += 1;
        st.turn = MAIN;
        sched.cv.notify_all();
        while st.turn != id {
            st = sched.cv.wait(st).unwrap();
        }
        st.parked[id] = None;
    }
}

/// record something observed by the current scheduled thread (e.g. a return value)
pub fn emit(s: String) {
    let me = ME.with(|m| m.get());
    if let Some((id, sched)) = me {
        let sched = unsafe { &*sched };
        sched.st.lock().unwrap().events[id].push(s);
    }
}

/// number of yield points the current thread has passed so far
pub fn my_yields() -> usize {
    let me = ME.with(|m| m.get());
    match me {
        Some((id, sched)) => unsafe { &*sched }.st.lock().unwrap().yields[id],
        None => 0,
    }
}

pub struct StepRec {
    pub thread: usize,
    pub site: u32,
    pub events: Vec<String>,
}

/// Runs `bodies` as threads under the baton.  `choose(enabled)` picks the thread to advance among
/// those parked at a yield point; `after_step` is called on the main thread after every step
/// (while every thread is parked) and may inspect shared state.
/// Returns the sequence of decisions as (chosen thread, number of enabled threads).
pub fn run_schedule<'a>(
    bodies: Vec<Box<dyn FnOnce() + Send + 'a>>,
    choose: &mut dyn FnMut(&[usize]) -> usize,
    after_step: &mut dyn FnMut(&StepRec),
) -> Vec<(usize, usize)> {
    let n = bodies.len();
    let sched = Sched {
        st: Mutex::new(State {
            turn: MAIN,
            parked: vec![None; n],
            finished: vec![false; n],
            events: vec![Vec::new(); n],
            yields: vec![0; n],
        }),
        cv: Condvar::new(),
    };
    let mut decisions = Vec::new();
    let sched_ref = &sched;
    std::thread::scope(|scope| {
        // start the threads one at a time; each runs up to its first yield point
        for (id, body) in bodies.into_iter().enumerate() {
            {
                let mut st = sched_ref.st.lock().unwrap();
                st.turn = id;
            }
            let ptr = sched_ref as *const Sched as usize;
            scope.spawn(move || {
                ME.with(|m| m.set(Some((id, ptr as *const Sched))));
                let sched = unsafe { &*(ptr as *const Sched) };
                {
                    let mut st = sched.st.lock().unwrap();
                    while st.turn != id {
                        st = sched.cv.wait(st).unwrap();
                    }
                }
                let r = std::panic::catch_unwind(std::panic::AssertUnwindSafe(body));
                let mut st = sched.st.lock().unwrap();
                if r.is_err() {
                    st.events[id].push("panic".into());
                }
                st.finished[id] = true;
                st.parked[id] = None;
                st.turn = MAIN;
                sched.cv.notify_all();
                ME.with(|m| m.set(None));
            });
            let mut st = sched_ref.st.lock().unwrap();
            while st.turn != MAIN {
                st = sched_ref.cv.wait(st).unwrap();
            }
            // whatever the thread did before its first yield point touched no shared atomic
            let ev = std::mem::take(&mut st.events[id]);
            if !ev.is_empty() {
                drop(st);
                after_step(&StepRec { thread: id, site: u32::MAX, events: ev });
            }
        }
        loop {
            let (enabled, sites): (Vec<usize>, Vec<u32>) = {
                let st = sched_ref.st.lock().unwrap();
                let en: Vec<usize> = (0..n).filter(|&i| !st.finished[i] && st.parked[i].is_some()).collect();
                let si = en.iter().map(|&i| st.parked[i].unwrap()).collect();
                (en, si)
            };
            if enabled.is_empty() {
                break;
            }
            let k = choose(&enabled).min(enabled.len() - 1);
            let t = enabled[k];
            decisions.push((k, enabled.len()));
            let site = sites[k];
            let mut st = sched_ref.st.lock().unwrap();
            st.turn = t;
            sched_ref.cv.notify_all();
            while st.turn != MAIN {
                st = sched_ref.cv.wait(st).unwrap();
            }
            let ev = std::mem::take(&mut st.events[t]);
            drop(st);
            after_step(&StepRec { thread: t, site, events: ev });
        }
    });
    decisions
}

/// next choice vector in depth-first order, or None when the space is exhausted
pub fn next_choices(decisions: &[(usize, usize)]) -> Option<Vec<usize>> {
    let mut v: Vec<usize> = decisions.iter().map(|d| d.0).collect();
    let mut i = v.len();
    while i > 0 {
        i -= 1;
        if decisions[i].0 + 1 < decisions[i].1 {
            v[i] += 1;
            v.truncate(i + 1);
            return Some(v);
        }
    }
    None
}
