//! Engine `bits` (C19): `Entity::{to_bits, from_bits, id}`, `==`, `cmp`, `Hash`, serde form.
use crate::util::*;
use hecs::Entity;
use std::collections::hash_map::DefaultHasher;
use std::hash::{Hash, Hasher};

fn parse_debug(e: Entity) -> (u32, u32) {
    // `Debug` prints "<id>v<generation>"; the generation has no public accessor
    let s = format!("{:?}", e);
    let (a, b) = s.split_once('v').expect("harness: Entity Debug format");
    (a.parse().expect("harness: id"), b.parse().expect("harness: gen"))
}

fn hash_of(e: Entity) -> u64 {
    let mut h = DefaultHasher::new();
    e.hash(&mut h);
    h.finish()
}

pub fn exec(line: &str) -> String {
    let toks: Vec<&str> = line.split_whitespace().collect();
    let num = |k: &str| -> u64 { field(&toks, k).expect("harness: missing field").parse().expect("harness: bad number") };
    match toks[0] {
        "frombits" => match Entity::from_bits(num("bits")) {
            None => "none".into(),
            Some(e) => {
                let (id, g) = parse_debug(e);
                assert_eq!(id, e.id(), "impl-inconsistency: Debug id differs from id()");
                format!("id={} gen={} tobits={}", e.id(), g, e.to_bits().get())
            }
        },
        "cmp" => match (Entity::from_bits(num("a")), Entity::from_bits(num("b"))) {
            (Some(a), Some(b)) => {
                let ord = match a.cmp(&b) {
                    std::cmp::Ordering::Less => -1,
                    std::cmp::Ordering::Equal => 0,
                    std::cmp::Ordering::Greater => 1,
                };
                let pord = a.partial_cmp(&b).map(|o| match o {
                    std::cmp::Ordering::Less => -1,
                    std::cmp::Ordering::Equal => 0,
                    std::cmp::Ordering::Greater => 1,
                });
                assert_eq!(Some(ord), pord, "impl-inconsistency: cmp and partial_cmp disagree");
                format!("eq={} ord={} hasheq={}", (a == b) as u8, ord, (hash_of(a) == hash_of(b)) as u8)
            }
            _ => "invalid".into(),
        },
        "serde" => {
            let bits = num("bits");
            // deserialize the bit pattern through serde_json and bincode
            let j: Result<Entity, _> = serde_json::from_str(&bits.to_string());
            let b: Result<Entity, _> = bincode::deserialize(&bits.to_le_bytes());
            match (j, b) {
                (Err(_), Err(_)) => "de=err".into(),
                (Ok(ej), Ok(eb)) => {
                    let sj: u64 = match serde_json::to_string(&ej).unwrap().parse() {
                        Ok(v) => v,
                        Err(_) => return "ser=not-a-number".into(),
                    };
                    let sb = bincode::serialize(&eb).unwrap();
                    let sbv = match <[u8; 8]>::try_from(sb.as_slice()) {
                        Ok(a) => u64::from_le_bytes(a),
                        Err(_) => return "ser=not-8-bytes".into(),
                    };
                    if ej != eb || sj != sbv {
                        format!("de={} ser={} backends-disagree", ej.to_bits().get(), sj)
                    } else {
                        format!("de={} ser={}", ej.to_bits().get(), sj)
                    }
                }
                _ => "de=backends-disagree".into(),
            }
        }
        v => panic!("harness: unknown verb {}", v),
    }
}

const EDGE: [u64; 9] = [0, 1, 2, 0x7fff_ffff, 0x8000_0000, 0x8000_0001, 0xffff_fffe, 0xffff_ffff, 0xdead_beef];

pub fn gen_lines(seed: u64, count: usize) -> Vec<String> {
    let mut out = Vec::new();
    let mut rng = Rng::new(seed);
    let mut pats: Vec<u64> = Vec::new();
    for &hi in &EDGE {
        for &lo in &EDGE {
            pats.push((hi << 32) | lo);
        }
    }
    for &p in &pats {
        out.push(format!("frombits bits={}", p));
        out.push(format!("serde bits={}", p));
    }
    for &a in &pats {
        for &b in &pats {
            out.push(format!("cmp a={} b={}", a, b));
        }
    }
    for _ in 0..count {
        let r = rng.next();
        // mix uniformly random patterns with patterns that differ in one half only
        let p = match rng.below(4) {
            0 => r,
            1 => r & 0xffff_ffff,
            2 => (r & 0xffff_ffff_0000_0000) | (rng.below(3) as u64),
            _ => r | (1 << 32),
        };
        out.push(format!("frombits bits={}", p));
        if rng.chance(30) {
            out.push(format!("serde bits={}", p));
        }
        let q = match rng.below(3) {
            0 => rng.next() | (1 << 32),
            1 => p ^ (1 << rng.below(64)),
            _ => (p & 0xffff_ffff) | ((rng.next() | 1) << 32),
        };
        out.push(format!("cmp a={} b={}", p, q));
    }
    out
}
