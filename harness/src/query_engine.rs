//! Query menu and access paths (C08, C17, parts of C05): every query type prints the shape term the
//! Lean model parses (`ModelDesc`) and every item a canonical tree of serials (`Canon`).
#![allow(dead_code)]

use crate::comps::*;
use crate::util::*;
use hecs::{Entity, Or, PreparedQuery, Query, Satisfies, With, Without, World};
use std::any::Any;
use std::collections::HashMap;

pub trait Canon {
    fn canon(&self) -> String;
}
impl<T: Comp> Canon for &T {
    fn canon(&self) -> String {
        format!("{}:{}", T::IDX, self.serial())
    }
}
impl<T: Comp> Canon for &mut T {
    fn canon(&self) -> String {
        format!("{}:{}", T::IDX, self.serial())
    }
}
impl<I: Canon> Canon for Option<I> {
    fn canon(&self) -> String {
        match self {
            None => "None".into(),
            Some(i) => format!("Some({})", i.canon()),
        }
    }
}
impl<L: Canon, R: Canon> Canon for Or<L, R> {
    fn canon(&self) -> String {
        match self {
            Or::Left(l) => format!("L({})", l.canon()),
            Or::Right(r) => format!("R({})", r.canon()),
            Or::Both(l, r) => format!("B({},{})", l.canon(), r.canon()),
        }
    }
}
impl Canon for bool {
    fn canon(&self) -> String {
        if *self { "true".into() } else { "false".into() }
    }
}
impl Canon for () {
    fn canon(&self) -> String {
        "()".into()
    }
}
impl<A: Canon> Canon for (A,) {
    fn canon(&self) -> String {
        format!("({},())", self.0.canon())
    }
}
impl<A: Canon, B: Canon> Canon for (A, B) {
    fn canon(&self) -> String {
        format!("({},({},()))", self.0.canon(), self.1.canon())
    }
}
impl<A: Canon, B: Canon, C: Canon> Canon for (A, B, C) {
    fn canon(&self) -> String {
        format!("({},({},({},())))", self.0.canon(), self.1.canon(), self.2.canon())
    }
}

pub trait ModelDesc {
    fn desc() -> String;
}
impl<T: Comp> ModelDesc for &'static T {
    fn desc() -> String {
        format!("read({})", T::IDX)
    }
}
impl<T: Comp> ModelDesc for &'static mut T {
    fn desc() -> String {
        format!("write({})", T::IDX)
    }
}
impl<Q: ModelDesc> ModelDesc for Option<Q> {
    fn desc() -> String {
        format!("opt({})", Q::desc())
    }
}
impl<L: ModelDesc, R: ModelDesc> ModelDesc for Or<L, R> {
    fn desc() -> String {
        format!("or({},{})", L::desc(), R::desc())
    }
}
impl<Q: ModelDesc, R: ModelDesc> ModelDesc for With<Q, R> {
    fn desc() -> String {
        format!("with({},{})", Q::desc(), R::desc())
    }
}
impl<Q: ModelDesc, R: ModelDesc> ModelDesc for Without<Q, R> {
    fn desc() -> String {
        format!("without({},{})", Q::desc(), R::desc())
    }
}
impl<Q: ModelDesc> ModelDesc for Satisfies<Q> {
    fn desc() -> String {
        format!("satisfies({})", Q::desc())
    }
}
impl ModelDesc for () {
    fn desc() -> String {
        "unit".into()
    }
}
impl<A: ModelDesc> ModelDesc for (A,) {
    fn desc() -> String {
        format!("pair({},unit)", A::desc())
    }
}
impl<A: ModelDesc, B: ModelDesc> ModelDesc for (A, B) {
    fn desc() -> String {
        format!("pair({},pair({},unit))", A::desc(), B::desc())
    }
}
impl<A: ModelDesc, B: ModelDesc, C: ModelDesc> ModelDesc for (A, B, C) {
    fn desc() -> String {
        format!("pair({},pair({},pair({},unit)))", A::desc(), B::desc(), C::desc())
    }
}

// derived queries (`#[derive(Query)]`, macros/src/query.rs).  A derived struct is the tuple of its
// fields; a derived enum yields the first variant all of whose fields match, which is
// `Or<V1, Without<V2, V1>>` with `Both` impossible — that is the shape handed to the model.

#[derive(hecs::Query)]
pub struct DStruct<'a> {
    a: &'a A,
    b: &'a mut B,
}
impl Canon for DStruct<'_> {
    fn canon(&self) -> String {
        (self.a, &*self.b).canon()
    }
}
impl ModelDesc for DStruct<'static> {
    fn desc() -> String {
        <(&'static A, &'static mut B) as ModelDesc>::desc()
    }
}

#[derive(hecs::Query)]
pub struct DTuple<'a>(&'a A, Option<&'a B>, Or<&'a C, &'a mut D>);
impl Canon for DTuple<'_> {
    fn canon(&self) -> String {
        let third: Or<&C, &D> = match &self.2 {
            Or::Left(c) => Or::Left(*c),
            Or::Right(d) => Or::Right(&**d),
            Or::Both(c, d) => Or::Both(*c, &**d),
        };
        (self.0, self.1, third).canon()
    }
}
impl ModelDesc for DTuple<'static> {
    fn desc() -> String {
        <(&'static A, Option<&'static B>, Or<&'static C, &'static mut D>) as ModelDesc>::desc()
    }
}

#[derive(hecs::Query)]
pub enum DEnum<'a> {
    One(&'a A),
    Two(&'a mut B),
}
impl Canon for DEnum<'_> {
    fn canon(&self) -> String {
        match self {
            DEnum::One(a) => format!("L({})", a.canon()),
            DEnum::Two(b) => format!("R({})", b.canon()),
        }
    }
}
impl ModelDesc for DEnum<'static> {
    fn desc() -> String {
        <Or<&'static A, Without<&'static mut B, &'static A>> as ModelDesc>::desc()
    }
}

#[derive(hecs::Query)]
pub enum DEnum3<'a> {
    Both { a: &'a A, b: &'a B },
    Third(&'a mut C),
    Rest,
}
impl Canon for DEnum3<'_> {
    fn canon(&self) -> String {
        match self {
            DEnum3::Both { a, b } => format!("L({})", (*a, *b).canon()),
            DEnum3::Third(c) => format!("R(L({}))", c.canon()),
            DEnum3::Rest => "R(R(()))".into(),
        }
    }
}
impl ModelDesc for DEnum3<'static> {
    fn desc() -> String {
        type V1 = (&'static A, &'static B);
        <Or<V1, Without<Or<&'static mut C, Without<(), &'static mut C>>, V1>> as ModelDesc>::desc()
    }
}

#[derive(hecs::Query)]
pub enum DEnum2<'a> {
    Pair(&'a A, &'a mut B),
    Solo { c: &'a C, d: Option<&'a D> },
}
impl Canon for DEnum2<'_> {
    fn canon(&self) -> String {
        match self {
            DEnum2::Pair(a, b) => format!("L({})", (*a, &**b).canon()),
            DEnum2::Solo { c, d } => format!("R({})", (*c, *d).canon()),
        }
    }
}
impl ModelDesc for DEnum2<'static> {
    fn desc() -> String {
        type V1 = (&'static A, &'static mut B);
        <Or<V1, Without<(&'static C, Option<&'static D>), V1>> as ModelDesc>::desc()
    }
}

#[macro_export]
macro_rules! with_query {
    ($k:expr, $Q:ident, $body:expr) => {{
        use hecs::{Or, Satisfies, With, Without};
        use $crate::comps::*;
        match $k {
            0 => { type $Q = &'static A; $body }
            1 => { type $Q = &'static mut A; $body }
            2 => { type $Q = (&'static A, &'static B); $body }
            3 => { type $Q = (&'static mut A, &'static B); $body }
            4 => { type $Q = Option<&'static A>; $body }
            5 => { type $Q = (&'static A, Option<&'static B>); $body }
            6 => { type $Q = Or<&'static A, &'static B>; $body }
            7 => { type $Q = Or<&'static A, &'static mut B>; $body }
            8 => { type $Q = With<&'static A, &'static B>; $body }
            9 => { type $Q = Without<&'static A, &'static B>; $body }
            10 => { type $Q = Satisfies<&'static A>; $body }
            11 => { type $Q = (); $body }
            12 => { type $Q = (&'static A, Satisfies<&'static B>); $body }
            13 => { type $Q = Without<(&'static A, &'static B), &'static C>; $body }
            14 => { type $Q = Or<(&'static A, &'static B), &'static C>; $body }
            15 => { type $Q = Option<(&'static A, &'static B)>; $body }
            16 => { type $Q = With<Option<&'static A>, &'static B>; $body }
            17 => { type $Q = Without<Or<&'static A, &'static B>, &'static C>; $body }
            18 => { type $Q = Or<&'static A, Without<&'static B, &'static A>>; $body }
            19 => { type $Q = (&'static Z, &'static A); $body }
            20 => { type $Q = &'static D; $body }
            21 => { type $Q = (&'static E, &'static S); $body }
            22 => { type $Q = (&'static L, Option<&'static ZA>); $body }
            23 => { type $Q = Or<Option<&'static A>, &'static B>; $body }
            24 => { type $Q = With<&'static A, Or<&'static B, &'static C>>; $body }
            25 => { type $Q = Without<&'static A, Option<&'static B>>; $body }
            26 => { type $Q = Satisfies<Without<&'static A, &'static B>>; $body }
            27 => { type $Q = ((&'static A, &'static B), (&'static C,)); $body }
            28 => { type $Q = Option<Or<&'static A, &'static B>>; $body }
            29 => { type $Q = (Option<&'static mut A>, Option<&'static mut B>); $body }
            30 => { type $Q = With<With<&'static A, &'static B>, &'static C>; $body }
            31 => { type $Q = Without<Without<&'static A, &'static B>, &'static C>; $body }
            32 => { type $Q = (&'static A, &'static A); $body }
            33 => { type $Q = Or<&'static Z, &'static ZA>; $body }
            34 => { type $Q = With<(), &'static A>; $body }
            35 => { type $Q = Without<(), &'static A>; $body }
            36 => { type $Q = (&'static mut D, Option<&'static E>, Satisfies<&'static L>); $body }
            37 => { type $Q = Or<Satisfies<&'static A>, &'static B>; $body }
            38 => { type $Q = $crate::query_engine::DStruct<'static>; $body }
            39 => { type $Q = $crate::query_engine::DTuple<'static>; $body }
            40 => { type $Q = $crate::query_engine::DEnum<'static>; $body }
            41 => { type $Q = $crate::query_engine::DEnum3<'static>; $body }
            42 => { type $Q = (&'static C, $crate::query_engine::DEnum<'static>); $body }
            43 => { type $Q = Option<$crate::query_engine::DStruct<'static>>; $body }
            44 => { type $Q = $crate::query_engine::DEnum2<'static>; $body }
            45 => { type $Q = Or<$crate::query_engine::DEnum2<'static>, &'static E>; $body }
            // queries that alias a unique borrow within themselves: rejected statically by `assert_borrow` where
            // there is no dynamic check, dynamically where there is one
            46 => { type $Q = (&'static mut A, &'static A); $body }
            47 => { type $Q = (&'static mut B, Option<&'static mut B>); $body }
            _ => panic!("harness: bad query menu index"),
        }
    }};
}
pub const NQUERIES: usize = 48;
/// menu entries from here on alias a unique borrow within themselves
pub const FIRST_ALIASING: usize = 46;
/// access paths that reject such a query by `assert_borrow`, before touching anything
pub const ASSERTING_PATHS: [&str; 12] = [
    "mut", "mut_batched", "view_mut", "many_v", "one", "one_mut", "eref", "many", "many_w", "prepared_mut", "prepared_view",
    "many_pv",
];

pub fn query_desc(k: usize) -> String {
    with_query!(k, QT, <QT as ModelDesc>::desc())
}

fn sorted_pairs(mut v: Vec<(Entity, String)>) -> String {
    v.sort_by_key(|x| {
        let b = x.0.to_bits().get();
        (b & 0xffff_ffff, b >> 32)
    });
    let s: Vec<String> = v.iter().map(|(e, i)| format!("{}={}", show_entity(*e), i)).collect();
    format!("[{}]", s.join(";"))
}

pub const PATHS: [&str; 19] = [
    "iter", "mut", "prepared", "prepared_mut", "view", "view_mut", "prepared_view", "batched", "one", "one_mut", "sat",
    "eref", "many", "mut_batched", "many_w", "many_v", "many_vb", "many_pv", "arch",
];

/// walks an `ExactSizeIterator` to its end and checks, before every step, that `len()` and
/// `size_hint()` are exactly the number of items still to come
macro_rules! exact_len_walk {
    ($mk:expr, $name:literal) => {{
        let mut it = $mk;
        let total = it.len();
        let mut seen = 0usize;
        loop {
            let rem = it.len();
            let (lo, hi) = it.size_hint();
            assert!(
                rem + seen == total && lo == rem && hi == Some(rem),
                "impl-inconsistency: {} after {} of {} items: len()={} size_hint=({}, {:?})",
                $name,
                seen,
                total,
                rem,
                lo,
                hi
            );
            if it.next().is_none() {
                break;
            }
            seen += 1;
        }
        assert!(seen == total, "impl-inconsistency: {} announced {} items and yielded {}", $name, total, seen);
    }};
}

#[allow(clippy::too_many_arguments)]
fn run<Q>(
    world: &mut World,
    path: &str,
    h: Entity,
    hs: &[Entity],
    es: &[Entity],
    n: u32,
    store: &mut HashMap<usize, Box<dyn Any>>,
    k: usize,
) -> String
where
    Q: Query + 'static,
    for<'a> Q::Item<'a>: Canon,
{
    match path {
        "iter" => {
            {
                let mut qb = world.query::<Q>();
                exact_len_walk!(qb.iter(), "QueryIter");
            }
            let mut qb = world.query::<Q>();
            let it = qb.iter();
            let len = it.len();
            let items: Vec<(Entity, String)> = it.map(|(e, i)| (e, i.canon())).collect();
            format!("len={} items={}", len, sorted_pairs(items))
        }
        "mut" => {
            exact_len_walk!(world.query_mut::<Q>().into_iter(), "QueryMut's QueryIter");
            let it = world.query_mut::<Q>().into_iter();
            let len = it.len();
            let items: Vec<(Entity, String)> = it.map(|(e, i)| (e, i.canon())).collect();
            format!("len={} items={}", len, sorted_pairs(items))
        }
        "prepared" => {
            let pq = store.entry(k).or_insert_with(|| Box::new(PreparedQuery::<Q>::new())).downcast_mut::<PreparedQuery<Q>>().unwrap();
            {
                let mut b = pq.query(world);
                exact_len_walk!(b.iter(), "PreparedQueryIter");
            }
            let mut b = pq.query(world);
            let it = b.iter();
            let len = it.len();
            let items: Vec<(Entity, String)> = it.map(|(e, i)| (e, i.canon())).collect();
            format!("len={} items={}", len, sorted_pairs(items))
        }
        "prepared_mut" => {
            let pq = store.entry(k).or_insert_with(|| Box::new(PreparedQuery::<Q>::new())).downcast_mut::<PreparedQuery<Q>>().unwrap();
            exact_len_walk!(pq.query_mut(world), "PreparedQueryIter (query_mut)");
            let it = pq.query_mut(world);
            let len = it.len();
            let items: Vec<(Entity, String)> = it.map(|(e, i)| (e, i.canon())).collect();
            format!("len={} items={}", len, sorted_pairs(items))
        }
        "view" => {
            let mut v = world.view::<Q>();
            let items: Vec<(Entity, String)> = v.iter_mut().map(|(e, i)| (e, i.canon())).collect();
            let g: Vec<String> = hs
                .iter()
                .map(|&e| {
                    let c = v.contains(e);
                    let r = v.get_mut(e).map(|i| i.canon());
                    assert_eq!(c, r.is_some(), "impl-inconsistency: View::contains and get_mut disagree");
                    r.unwrap_or_else(|| "-".into())
                })
                .collect();
            format!("items={} g=[{}]", sorted_pairs(items), g.join(","))
        }
        "view_mut" => {
            let mut v = world.view_mut::<Q>();
            let items: Vec<(Entity, String)> = v.iter_mut().map(|(e, i)| (e, i.canon())).collect();
            let g: Vec<String> = hs
                .iter()
                .map(|&e| {
                    let c = v.contains(e);
                    let r = v.get_mut(e).map(|i| i.canon());
                    assert_eq!(c, r.is_some(), "impl-inconsistency: View::contains and get_mut disagree");
                    r.unwrap_or_else(|| "-".into())
                })
                .collect();
            format!("items={} g=[{}]", sorted_pairs(items), g.join(","))
        }
        "prepared_view" => {
            let pq = store.entry(k).or_insert_with(|| Box::new(PreparedQuery::<Q>::new())).downcast_mut::<PreparedQuery<Q>>().unwrap();
            let mut v = pq.view_mut(world);
            let items: Vec<(Entity, String)> = v.iter_mut().map(|(e, i)| (e, i.canon())).collect();
            let g: Vec<String> = hs
                .iter()
                .map(|&e| {
                    let c = v.contains(e);
                    let r = v.get_mut(e).map(|i| i.canon());
                    assert_eq!(c, r.is_some(), "impl-inconsistency: PreparedView::contains and get_mut disagree");
                    r.unwrap_or_else(|| "-".into())
                })
                .collect();
            format!("items={} g=[{}]", sorted_pairs(items), g.join(","))
        }
        "batched" => {
            let mut qb = world.query::<Q>();
            let bs: Vec<String> = qb
                .iter_batched(n)
                .map(|b| sorted_pairs(b.map(|(e, i)| (e, i.canon())).collect()))
                .collect();
            format!("batches=[{}]", bs.join(";"))
        }
        "mut_batched" => {
            let bs: Vec<String> = world
                .query_mut::<Q>()
                .into_iter_batched(n)
                .map(|b| sorted_pairs(b.map(|(e, i)| (e, i.canon())).collect()))
                .collect();
            format!("batches=[{}]", bs.join(";"))
        }
        "one" => match world.query_one::<Q>(h) {
            Err(_) => "nosuch".into(),
            Ok(mut q1) => {
                let r = q1.get().map(|i| i.canon());
                match r {
                    None => "unsat".into(),
                    Some(i) => format!("item={}", i),
                }
            }
        },
        "one_mut" => match world.query_one_mut::<Q>(h) {
            Err(hecs::QueryOneError::NoSuchEntity) => "nosuch".into(),
            Err(hecs::QueryOneError::Unsatisfied) => "unsat".into(),
            Ok(i) => format!("item={}", i.canon()),
        },
        "many" => {
            let [r] = world.query_many_mut::<Q, 1>([h]);
            match r {
                Err(hecs::QueryOneError::NoSuchEntity) => "nosuch".into(),
                Err(hecs::QueryOneError::Unsatisfied) => "unsat".into(),
                Ok(i) => format!("item={}", i.canon()),
            }
        }
        "many_w" | "many_v" | "many_vb" | "many_pv" => {
            let opt = |o: Option<Q::Item<'_>>| o.map_or("-".to_string(), |i| i.canon());
            macro_rules! many {
                ($N:literal) => {{
                    let arr: [Entity; $N] = core::array::from_fn(|i| es[i]);
                    match path {
                        "many_w" => {
                            let rs = world.query_many_mut::<Q, $N>(arr);
                            let v: Vec<String> = rs
                                .into_iter()
                                .map(|r| match r {
                                    Err(hecs::QueryOneError::NoSuchEntity) => "nosuch".to_string(),
                                    Err(hecs::QueryOneError::Unsatisfied) => "unsat".to_string(),
                                    Ok(i) => format!("item={}", i.canon()),
                                })
                                .collect();
                            format!("r=[{}]", v.join(","))
                        }
                        "many_v" => {
                            let mut v = world.view_mut::<Q>();
                            let rs = v.get_many_mut(arr);
                            format!("g=[{}]", rs.into_iter().map(opt).collect::<Vec<_>>().join(","))
                        }
                        "many_vb" => {
                            let mut v = world.view::<Q>();
                            let rs = v.get_many_mut(arr);
                            format!("g=[{}]", rs.into_iter().map(opt).collect::<Vec<_>>().join(","))
                        }
                        _ => {
                            let pq = store
                                .entry(k)
                                .or_insert_with(|| Box::new(PreparedQuery::<Q>::new()))
                                .downcast_mut::<PreparedQuery<Q>>()
                                .unwrap();
                            let mut v = pq.view_mut(world);
                            let rs = v.get_many_mut(arr);
                            format!("g=[{}]", rs.into_iter().map(opt).collect::<Vec<_>>().join(","))
                        }
                    }
                }};
            }
            match es.len() {
                2 => many!(2),
                3 => many!(3),
                4 => many!(4),
                5 => many!(5),
                6 => many!(6),
                _ => panic!("harness: many_* needs 2..=6 handles"),
            }
        }
        "arch" => {
            // `Archetype::access::<Q>` / `satisfies::<Q>` / `has_dynamic` of every archetype
            let tm = crate::world_engine::type_id_table_pub();
            let mut v: Vec<(Vec<usize>, String)> = world
                .archetypes()
                .map(|a| {
                    let mut ts: Vec<usize> = a.component_types().map(|t| *tm.get(&t).unwrap_or(&110)).collect();
                    ts.sort();
                    let acc = match a.access::<Q>() {
                        None => "x",
                        Some(hecs::Access::Iterate) => "0",
                        Some(hecs::Access::Read) => "1",
                        Some(hecs::Access::Write) => "2",
                    };
                    let sat = a.satisfies::<Q>();
                    let dynamic_ok = a.component_types().all(|t| a.has_dynamic(t)) && !a.has_dynamic(std::any::TypeId::of::<u128>());
                    (ts, format!("{}{}{}", acc, if sat == (acc != "x") { "" } else { "!sat" }, if dynamic_ok { "" } else { "!dyn" }))
                })
                .collect();
            v.sort();
            format!("aa=[{}]", v.iter().map(|(ts, a)| format!("{}:{}", show_nats(ts), a)).collect::<Vec<_>>().join(";"))
        }
        "sat" => match world.satisfies::<Q>(h) {
            Err(_) => "nosuch".into(),
            Ok(b) => format!("{}", b),
        },
        "eref" => match world.entity(h) {
            Err(_) => "nosuch".into(),
            Ok(er) => {
                let s = er.satisfies::<Q>();
                let mut q1 = er.query::<Q>();
                let r = q1.get().map(|i| i.canon());
                match r {
                    None => {
                        assert!(!s, "impl-inconsistency: EntityRef::satisfies true but query yields nothing");
                        "unsat".into()
                    }
                    Some(i) => {
                        assert!(s, "impl-inconsistency: EntityRef::satisfies false but query yields an item");
                        format!("item={}", i)
                    }
                }
            }
        },
        p => panic!("harness: unknown query path {}", p),
    }
}

/// executes query `k` through `path`
pub fn exec_query(
    world: &mut World,
    k: usize,
    path: &str,
    h: Entity,
    hs: &[Entity],
    es: &[Entity],
    n: u32,
    store: &mut HashMap<usize, Box<dyn Any>>,
) -> String {
    with_query!(k, QT, run::<QT>(world, path, h, hs, es, n, store, k))
}
