//! hecs verification harness: executes operation histories on the real hecs (built with
//! `--cfg hecs_verif`) and renders them in the line protocol understood by the Lean judge.
//!
//!   harness <engine> gen --seed S --count N [--len L] [--profile P] --out DIR
//!   harness <engine> replay FILE        (ops file -> trace on stdout)

mod bits_engine;
mod comps;
mod guard_engine;
mod guard_gen;
mod containers;
mod query_engine;
mod sched;
mod serde_engine;
mod sched_borrow;
mod sched_reserve;
mod util;
mod world_engine;

use std::collections::HashMap;
use std::io::Write;

fn arg(args: &[String], k: &str) -> Option<String> {
    args.iter().position(|a| a == k).and_then(|i| args.get(i + 1).cloned())
}

fn json_map(m: &HashMap<String, usize>) -> String {
    let mut v: Vec<_> = m.iter().collect();
    v.sort();
    let items: Vec<String> = v.iter().map(|(k, n)| format!("\"{}\": {}", k, n)).collect();
    format!("{{{}}}", items.join(", "))
}

#[repr(C)]
struct RLimit {
    cur: u64,
    max: u64,
}
extern "C" {
    fn setrlimit(resource: i32, rlim: *const RLimit) -> i32;
}

fn main() {
    // a corrupted world can ask for absurd allocations; fail fast instead of exhausting the machine
    #[cfg(not(miri))]
    unsafe {
        let lim = RLimit { cur: 8 << 30, max: 8 << 30 };
        setrlimit(9 /* RLIMIT_AS */, &lim);
    }
    util::install_panic_hook();
    let args: Vec<String> = std::env::args().collect();
    if args.len() < 3 {
        eprintln!("usage: harness <engine> gen|replay ...");
        std::process::exit(2);
    }
    let engine = args[1].as_str();
    let mode = args[2].as_str();
    match (engine, mode) {
        ("layouts", _) => {
            for (i, (s, a)) in comps::layouts().iter().enumerate() {
                println!("{}:{}:{}", i, s, a);
            }
        }
        ("world", "gen") => {
            let seed: u64 = arg(&args, "--seed").and_then(|s| s.parse().ok()).unwrap_or(1);
            let count: usize = arg(&args, "--count").and_then(|s| s.parse().ok()).unwrap_or(10);
            let len: usize = arg(&args, "--len").and_then(|s| s.parse().ok()).unwrap_or(60);
            let obs_every: usize = arg(&args, "--obs-every").and_then(|s| s.parse().ok()).unwrap_or(1);
            let profile = match arg(&args, "--profile").as_deref() {
                Some("malformed") => world_engine::Profile::Malformed,
                Some("reserve") => world_engine::Profile::Reserve,
                Some("batch") => world_engine::Profile::Batch,
                Some("query") => world_engine::Profile::Query,
                Some("containers") => world_engine::Profile::Containers,
                Some("tracker") => world_engine::Profile::Tracker,
                Some("serde") => world_engine::Profile::Serde,
                Some("capacity") => world_engine::Profile::Capacity,
                _ => world_engine::Profile::Mixed,
            };
            let out = arg(&args, "--out").expect("--out DIR");
            std::fs::create_dir_all(&out).unwrap();
            let mut trace = std::io::BufWriter::new(std::fs::File::create(format!("{}/trace.txt", out)).unwrap());
            let mut ops = std::io::BufWriter::new(std::fs::File::create(format!("{}/ops.txt", out)).unwrap());
            let mut stats = world_engine::Stats::default();
            let mut panics = 0usize;
            for k in 0..count {
                let hseed = seed.wrapping_mul(1_000_003).wrapping_add(k as u64);
                let mut g = world_engine::Gen::new(hseed, profile);
                let l = len / 2 + g.rng.below(len + 1);
                let single = matches!(profile, world_engine::Profile::Tracker | world_engine::Profile::Serde);
                let nworlds = if !single && g.rng.chance(35) { 2 } else { 1 };
                writeln!(trace, "history world {}", hseed).unwrap();
                writeln!(ops, "history world {}", hseed).unwrap();
                trace.flush().unwrap();
                let h = world_engine::run_history(None, Some(&mut g), l, nworlds, obs_every, &mut stats, &mut |o: &str| {
                    writeln!(ops, "{}", o).unwrap();
                    ops.flush().unwrap();
                });
                for t in &h.trace {
                    writeln!(trace, "{}", t).unwrap();
                }
                if h.panicked.is_some() {
                    panics += 1;
                }
            }
            trace.flush().unwrap();
            ops.flush().unwrap();
            let mut f = std::fs::File::create(format!("{}/stats.json", out)).unwrap();
            writeln!(
                f,
                "{{\"histories\": {}, \"panics\": {}, \"ops\": {}, \"results\": {}, \"max_entities\": {}, \"max_archetypes\": {}}}",
                count,
                panics,
                json_map(&stats.ops),
                json_map(&stats.results),
                stats.max_entities,
                stats.max_archetypes
            )
            .unwrap();
        }
        ("bits", "gen") => {
            let seed: u64 = arg(&args, "--seed").and_then(|s| s.parse().ok()).unwrap_or(1);
            let count: usize = arg(&args, "--count").and_then(|s| s.parse().ok()).unwrap_or(1000);
            let out = arg(&args, "--out").expect("--out DIR");
            std::fs::create_dir_all(&out).unwrap();
            let mut trace = std::io::BufWriter::new(std::fs::File::create(format!("{}/trace.txt", out)).unwrap());
            let mut ops = std::io::BufWriter::new(std::fs::File::create(format!("{}/ops.txt", out)).unwrap());
            let lines = bits_engine::gen_lines(seed, count);
            // one history per 64 requests so that a failure is isolated
            for (k, chunk) in lines.chunks(64).enumerate() {
                writeln!(trace, "history bits {}", k).unwrap();
                writeln!(ops, "history bits {}", k).unwrap();
                for l in chunk {
                    writeln!(ops, "{}", l).unwrap();
                    let r = util::guarded(|| bits_engine::exec(l)).unwrap_or_else(|e| format!("panic {}", e));
                    writeln!(trace, "{} => {}", l, r).unwrap();
                }
            }
            let mut f = std::fs::File::create(format!("{}/stats.json", out)).unwrap();
            writeln!(f, "{{\"requests\": {}}}", lines.len()).unwrap();
        }
        ("bits", "replay") => {
            let file = args.get(3).expect("ops file");
            for line in std::fs::read_to_string(file).unwrap().lines() {
                let line = line.trim();
                if line.is_empty() || line.starts_with('#') {
                    continue;
                }
                if line.starts_with("history ") {
                    println!("{}", line);
                    continue;
                }
                let lhs = line.split(" => ").next().unwrap();
                let r = util::guarded(|| bits_engine::exec(lhs)).unwrap_or_else(|e| format!("panic {}", e));
                println!("{} => {}", lhs, r);
            }
        }
        ("sched-borrow", "gen") => {
            let out = arg(&args, "--out").expect("--out DIR");
            let threads: usize = arg(&args, "--threads").and_then(|s| s.parse().ok()).unwrap_or(2);
            let maxlen: usize = arg(&args, "--maxlen").and_then(|s| s.parse().ok()).unwrap_or(2);
            let shard: usize = arg(&args, "--shard").and_then(|s| s.parse().ok()).unwrap_or(0);
            let nshards: usize = arg(&args, "--nshards").and_then(|s| s.parse().ok()).unwrap_or(1);
            let cap: usize = arg(&args, "--cap").and_then(|s| s.parse().ok()).unwrap_or(usize::MAX);
            sched_borrow::gen(&out, threads, maxlen, shard, nshards, cap);
        }
        ("sched-reserve", "gen") => {
            let out = arg(&args, "--out").expect("--out DIR");
            let threads: usize = arg(&args, "--threads").and_then(|s| s.parse().ok()).unwrap_or(2);
            let maxlen: usize = arg(&args, "--maxlen").and_then(|s| s.parse().ok()).unwrap_or(2);
            let shard: usize = arg(&args, "--shard").and_then(|s| s.parse().ok()).unwrap_or(0);
            let nshards: usize = arg(&args, "--nshards").and_then(|s| s.parse().ok()).unwrap_or(1);
            let cap: usize = arg(&args, "--cap").and_then(|s| s.parse().ok()).unwrap_or(usize::MAX);
            sched_reserve::gen(&out, threads, maxlen, shard, nshards, cap);
        }
        ("sched-reserve", "replay") => sched_reserve::replay(args.get(3).expect("ops file")),
        ("borrow", "gen") => {
            let seed: u64 = arg(&args, "--seed").and_then(|s| s.parse().ok()).unwrap_or(1);
            let count: usize = arg(&args, "--count").and_then(|s| s.parse().ok()).unwrap_or(100);
            let len: usize = arg(&args, "--len").and_then(|s| s.parse().ok()).unwrap_or(16);
            let out = arg(&args, "--out").expect("--out DIR");
            guard_engine::gen(&out, seed, count, len);
        }
        ("borrow", "replay") => guard_engine::replay(args.get(3).expect("ops file")),
        ("sched-borrow", "replay") => sched_borrow::replay(args.get(3).expect("ops file")),
        ("world", "replay") => {
            let file = args.get(3).expect("ops file");
            let text = std::fs::read_to_string(file).unwrap();
            let mut cur: Vec<(usize, world_engine::Op)> = Vec::new();
            let mut header: Option<String> = None;
            let mut stats = world_engine::Stats::default();
            let flush = |header: &Option<String>, cur: &mut Vec<(usize, world_engine::Op)>, stats: &mut world_engine::Stats| {
                if let Some(h) = header {
                    println!("{}", h);
                    let ops = std::mem::take(cur);
                    let out = world_engine::run_history(Some(ops), None, 0, 0, 0, stats, &mut |_| {});
                    for t in &out.trace {
                        println!("{}", t);
                    }
                }
            };
            for line in text.lines() {
                let line = line.trim();
                if line.is_empty() || line.starts_with('#') {
                    continue;
                }
                if line.starts_with("history ") {
                    flush(&header, &mut cur, &mut stats);
                    header = Some(line.to_string());
                } else {
                    if header.is_none() {
                        header = Some("history world 0".to_string());
                    }
                    // a trace line can be replayed too: drop the recorded outcome
                    let lhs = line.split(" => ").next().unwrap();
                    let (num, rest) = match lhs.strip_prefix('@') {
                        Some(r) => {
                            let (n, rest) = r.split_once(' ').expect("harness: bad op number");
                            (n.parse().expect("harness: bad op number"), rest)
                        }
                        None => (usize::MAX, lhs),
                    };
                    cur.push((num, world_engine::Op::parse(rest)));
                }
            }
            flush(&header, &mut cur, &mut stats);
        }
        _ => {
            eprintln!("unknown engine/mode {} {}", engine, mode);
            std::process::exit(2);
        }
    }
}
