//! Container verbs of engine `world`: entity builders (C13), command buffers (C11), column batch
//! builders (C12), with hooked arena dumps (C04).
#![allow(dead_code)]

use crate::comps::*;
use crate::util::*;
use crate::world_engine::HRef;
use crate::{with_bundle, with_type};
use hecs::{
    BuiltEntityClone, ColumnBatch, ColumnBatchBuilder, ColumnBatchType, CommandBuffer, DynamicBundle, Entity,
    EntityBuilder, EntityBuilderClone, World,
};
use std::any::TypeId;
use std::collections::HashMap;

type Bundle = Vec<(usize, u64)>;

pub enum BBox {
    Plain(EntityBuilder),
    Clone(EntityBuilderClone),
    Built(BuiltEntityClone),
}

pub enum PBox {
    Builder(ColumnBatchBuilder, Vec<usize>),
    Batch(ColumnBatch),
}

#[derive(Default)]
pub struct Containers {
    pub builders: HashMap<usize, BBox>,
    pub cmdbufs: HashMap<usize, CommandBuffer>,
    pub batches: HashMap<usize, PBox>,
}

#[derive(Clone, Debug)]
pub enum COp {
    BNew { b: usize, clone: bool },
    BAdd { b: usize, t: usize, v: u64 },
    BAddBundle { b: usize, k: usize, bundle: Bundle },
    /// `builder.add_bundle(&built_clone_bundle)`
    BAddBuilt { b: usize, from: usize },
    BObs { b: usize },
    BClear { b: usize },
    BSpawn { b: usize, w: usize },
    BBuildDrop { b: usize },
    BBuild { b: usize, into: usize },
    CSpawn { b: usize, w: usize },
    BClone { b: usize, into: usize },
    CBack { b: usize, into: usize },
    BDrop { b: usize },
    QNew { q: usize },
    QSpawn { q: usize, k: Option<usize>, bundle: Bundle },
    QInsert { q: usize, h: HRef, k: Option<usize>, bundle: Bundle },
    QRemove { q: usize, h: HRef, k: usize },
    QDespawn { q: usize, h: HRef },
    QRun { q: usize, w: usize },
    QClear { q: usize },
    QDrop { q: usize },
    PNew { p: usize, decl: Vec<usize>, n: usize },
    PPush { p: usize, t: usize, vals: Vec<u64> },
    PBuild { p: usize },
    PSpawn { p: usize, w: usize },
    PSpawnAt { p: usize, w: usize, hs: Vec<HRef> },
    PDrop { p: usize },
}

fn kstr(k: &Option<usize>) -> String {
    k.map_or("-".into(), |k| k.to_string())
}
fn parse_k(s: &str) -> Option<usize> {
    if s == "-" {
        None
    } else {
        Some(s.parse().expect("harness: bad k"))
    }
}
fn nats_u64(v: &[u64]) -> String {
    format!("[{}]", v.iter().map(|x| x.to_string()).collect::<Vec<_>>().join(","))
}

impl COp {
    pub fn show(&self) -> String {
        match self {
            COp::BNew { b, clone } => format!("bnew B{} kind={}", b, if *clone { "clone" } else { "plain" }),
            COp::BAdd { b, t, v } => format!("badd B{} t={} v={}", b, t, v),
            COp::BAddBundle { b, k, bundle } => format!("badd_bundle B{} k={} b={}", b, k, show_comps(bundle)),
            COp::BAddBuilt { b, from } => format!("badd_built B{} from=B{}", b, from),
            COp::BObs { b } => format!("bobs B{}", b),
            COp::BClear { b } => format!("bclear B{}", b),
            COp::BSpawn { b, w } => format!("bspawn B{} W{}", b, w),
            COp::BBuildDrop { b } => format!("bbuild_drop B{}", b),
            COp::BBuild { b, into } => format!("bbuild B{} into=B{}", b, into),
            COp::CSpawn { b, w } => format!("cspawn B{} W{}", b, w),
            COp::BClone { b, into } => format!("bclone B{} into=B{}", b, into),
            COp::CBack { b, into } => format!("cback B{} into=B{}", b, into),
            COp::BDrop { b } => format!("bdrop B{}", b),
            COp::QNew { q } => format!("qnew Q{}", q),
            COp::QSpawn { q, k, bundle } => format!("qspawn Q{} k={} b={}", q, kstr(k), show_comps(bundle)),
            COp::QInsert { q, h, k, bundle } => {
                format!("qinsert Q{} h={} k={} b={}", q, h.show(), kstr(k), show_comps(bundle))
            }
            COp::QRemove { q, h, k } => format!("qremove Q{} h={} k={}", q, h.show(), k),
            COp::QDespawn { q, h } => format!("qdespawn Q{} h={}", q, h.show()),
            COp::QRun { q, w } => format!("qrun Q{} W{}", q, w),
            COp::QClear { q } => format!("qclear Q{}", q),
            COp::QDrop { q } => format!("qdrop Q{}", q),
            COp::PNew { p, decl, n } => format!("pnew P{} decl={} n={}", p, show_nats(decl), n),
            COp::PPush { p, t, vals } => format!("ppush P{} t={} vals={}", p, t, nats_u64(vals)),
            COp::PBuild { p } => format!("pbuild P{}", p),
            COp::PSpawn { p, w } => format!("pspawn P{} W{}", p, w),
            COp::PSpawnAt { p, w, hs } => format!(
                "pspawn_at P{} W{} hs=[{}]",
                p,
                w,
                hs.iter().map(|h| h.show()).collect::<Vec<_>>().join(",")
            ),
            COp::PDrop { p } => format!("pdrop P{}", p),
        }
    }

    pub fn parse(line: &str) -> Option<COp> {
        let toks: Vec<&str> = line.split_whitespace().collect();
        let idx = |i: usize| -> usize { toks[i][1..].parse().expect("harness: bad container name") };
        let f = |k: &str| field(&toks, k).unwrap_or_else(|| panic!("harness: missing field {} in {:?}", k, line));
        Some(match toks[0] {
            "bnew" => COp::BNew { b: idx(1), clone: f("kind") == "clone" },
            "badd" => COp::BAdd { b: idx(1), t: f("t").parse().unwrap(), v: f("v").parse().unwrap() },
            "badd_bundle" => COp::BAddBundle { b: idx(1), k: f("k").parse().unwrap(), bundle: parse_comps(f("b")) },
            "badd_built" => COp::BAddBuilt { b: idx(1), from: f("from")[1..].parse().unwrap() },
            "bobs" => COp::BObs { b: idx(1) },
            "bclear" => COp::BClear { b: idx(1) },
            "bspawn" => COp::BSpawn { b: idx(1), w: idx(2) },
            "bbuild_drop" => COp::BBuildDrop { b: idx(1) },
            "bbuild" => COp::BBuild { b: idx(1), into: f("into")[1..].parse().unwrap() },
            "cspawn" => COp::CSpawn { b: idx(1), w: idx(2) },
            "bclone" => COp::BClone { b: idx(1), into: f("into")[1..].parse().unwrap() },
            "cback" => COp::CBack { b: idx(1), into: f("into")[1..].parse().unwrap() },
            "bdrop" => COp::BDrop { b: idx(1) },
            "qnew" => COp::QNew { q: idx(1) },
            "qspawn" => COp::QSpawn { q: idx(1), k: parse_k(f("k")), bundle: parse_comps(f("b")) },
            "qinsert" => COp::QInsert { q: idx(1), h: HRef::parse(f("h")), k: parse_k(f("k")), bundle: parse_comps(f("b")) },
            "qremove" => COp::QRemove { q: idx(1), h: HRef::parse(f("h")), k: f("k").parse().unwrap() },
            "qdespawn" => COp::QDespawn { q: idx(1), h: HRef::parse(f("h")) },
            "qrun" => COp::QRun { q: idx(1), w: idx(2) },
            "qclear" => COp::QClear { q: idx(1) },
            "qdrop" => COp::QDrop { q: idx(1) },
            "pnew" => COp::PNew { p: idx(1), decl: parse_nats(f("decl")), n: f("n").parse().unwrap() },
            "ppush" => COp::PPush {
                p: idx(1),
                t: f("t").parse().unwrap(),
                vals: split_top(f("vals")).iter().map(|x| x.parse().unwrap()).collect(),
            },
            "pbuild" => COp::PBuild { p: idx(1) },
            "pspawn" => COp::PSpawn { p: idx(1), w: idx(2) },
            "pspawn_at" => COp::PSpawnAt {
                p: idx(1),
                w: idx(2),
                hs: split_top(f("hs")).iter().map(|s| HRef::parse(s)).collect(),
            },
            "pdrop" => COp::PDrop { p: idx(1) },
            _ => return None,
        })
    }

    pub fn world(&self) -> Option<usize> {
        match self {
            COp::BSpawn { w, .. } | COp::CSpawn { w, .. } | COp::QRun { w, .. } | COp::PSpawn { w, .. }
            | COp::PSpawnAt { w, .. } => Some(*w),
            _ => None,
        }
    }
}

fn tmap() -> HashMap<TypeId, usize> {
    let mut m = HashMap::new();
    for t in 0..NTYPES {
        m.insert(with_type!(t, T, TypeId::of::<T>()), t);
    }
    m.insert(TypeId::of::<u64>(), 120);
    m.insert(TypeId::of::<u32>(), 121);
    m
}

pub fn arena_line(name: &str, d: &hecs::verif::ArenaDump, with_idx: bool) -> String {
    let tm = tmap();
    let slots: Vec<String> = d
        .slots
        .iter()
        .map(|(ty, sz, al, off)| format!("{}:{}:{}:{}", tm.get(ty).expect("harness: unknown TypeId"), sz, al, off))
        .collect();
    let mut s = format!(
        "#arena {} base={} lay={}:{} cursor={} slots=[{}]",
        name,
        d.base,
        d.layout_size,
        d.layout_align,
        d.cursor,
        slots.join(",")
    );
    if with_idx {
        let mut idx: Vec<(usize, usize)> = d.indices.iter().map(|(ty, p)| (*tm.get(ty).expect("harness: unknown TypeId"), *p)).collect();
        idx.sort();
        let idx_s: Vec<String> = idx.iter().map(|(t, p)| format!("{}:{}", t, p)).collect();
        s.push_str(&format!(" idx=[{}]", idx_s.join(",")));
    } else {
        let cmds: Vec<String> = d.cmds.iter().map(|(k, a, b)| format!("{}:{}:{}", k, a, b)).collect();
        s.push_str(&format!(" cmds=[{}]", cmds.join(",")));
    }
    s
}

fn make_builder(b: &Bundle) -> EntityBuilder {
    let mut eb = EntityBuilder::new();
    for &(t, s) in b {
        with_type!(t, T, {
            eb.add(<T as Comp>::new(s));
        });
    }
    eb
}

fn bobs_plain(eb: &EntityBuilder) -> String {
    let tm = tmap();
    let mut types: Vec<usize> = eb.component_types().map(|t| *tm.get(&t).expect("harness: unknown TypeId")).collect();
    types.sort();
    let mut vals = Vec::new();
    for t in 0..NTYPES {
        with_type!(t, T, {
            let has = eb.has::<T>();
            let got = eb.get::<&T>().map(|r| r.serial());
            assert_eq!(has, got.is_some(), "impl-inconsistency: EntityBuilder::has and get disagree");
            if let Some(s) = got {
                vals.push((t, s));
            }
        });
    }
    format!("types={} vals={}", show_nats(&types), show_comps(&vals))
}

fn bobs_clone(eb: &mut EntityBuilderClone) -> String {
    let tm = tmap();
    let mut types: Vec<usize> = eb.component_types().map(|t| *tm.get(&t).expect("harness: unknown TypeId")).collect();
    types.sort();
    let mut vals = Vec::new();
    for t in 0..NTYPES {
        with_type!(t, T, {
            let has = eb.has::<T>();
            let got = eb.get::<&T>().map(|r| r.serial());
            let got_mut = eb.get_mut::<&mut T>().map(|r| r.serial());
            assert_eq!(got, got_mut, "impl-inconsistency: EntityBuilderClone::get and get_mut disagree");
            assert_eq!(has, got.is_some(), "impl-inconsistency: EntityBuilderClone::has and get disagree");
            if let Some(s) = got {
                vals.push((t, s));
            }
        });
    }
    format!("types={} vals={}", show_nats(&types), show_comps(&vals))
}

impl Containers {
    /// returns (concrete lhs, result string without drops, handles to register, annotation lines)
    pub fn exec(
        &mut self,
        op: &COp,
        worlds: &mut Vec<Option<World>>,
        resolve: &dyn Fn(&HRef) -> Entity,
        opnum: usize,
    ) -> (String, String, Vec<Entity>, Vec<String>) {
        // every other op takes the single-component / dynamic flavour of the API where there is one
        let alt = opnum % 2 == 1;
        let single = |k: usize| matches!(k, 1..=9 | 26 | 28 | 34);
        let mut handles = Vec::new();
        let mut notes = Vec::new();
        let mut lhs = op.show();
        let res: String = match op {
            COp::BNew { b, clone } => {
                self.builders.insert(*b, if *clone { BBox::Clone(EntityBuilderClone::new()) } else { BBox::Plain(EntityBuilder::new()) });
                "ok".into()
            }
            COp::BAdd { b, t, v } => {
                match self.builders.get_mut(b).expect("harness: no such builder") {
                    BBox::Plain(eb) => with_type!(*t, T, {
                        eb.add(<T as Comp>::new(*v));
                    }),
                    BBox::Clone(eb) => with_type!(*t, T, {
                        eb.add(<T as Comp>::new(*v));
                    }),
                    BBox::Built(_) => panic!("harness: add on a built bundle"),
                }
                "ok".into()
            }
            COp::BAddBundle { b, k, bundle } => {
                let serials: Vec<u64> = bundle.iter().map(|x| x.1).collect();
                match self.builders.get_mut(b).expect("harness: no such builder") {
                    BBox::Plain(eb) => with_bundle!(*k, T, {
                        eb.add_bundle(<T as StaticBundle>::make(&serials));
                    }),
                    BBox::Clone(eb) => with_bundle!(*k, T, {
                        eb.add_bundle(<T as StaticBundle>::make(&serials));
                    }),
                    BBox::Built(_) => panic!("harness: add on a built bundle"),
                }
                "ok".into()
            }
            COp::BAddBuilt { b, from } => {
                let src = self.builders.remove(from).expect("harness: no such built bundle");
                if let BBox::Built(c) = &src {
                    match self.builders.get_mut(b).expect("harness: no such builder") {
                        BBox::Plain(eb) => {
                            eb.add_bundle(c);
                        }
                        BBox::Clone(eb) => {
                            eb.add_bundle(c);
                        }
                        BBox::Built(_) => panic!("harness: add on a built bundle"),
                    }
                } else {
                    panic!("harness: badd_built from a builder");
                }
                self.builders.insert(*from, src);
                "ok".into()
            }
            COp::BObs { b } => match self.builders.get_mut(b).expect("harness: no such builder") {
                BBox::Plain(eb) => bobs_plain(eb),
                BBox::Clone(eb) => bobs_clone(eb),
                BBox::Built(_) => panic!("harness: bobs on a built bundle"),
            },
            COp::BClear { b } => {
                match self.builders.get_mut(b).expect("harness: no such builder") {
                    BBox::Plain(eb) => eb.clear(),
                    BBox::Clone(eb) => eb.clear(),
                    BBox::Built(_) => panic!("harness: clear on a built bundle"),
                }
                "ok".into()
            }
            COp::BSpawn { b, w } => {
                let world = worlds[*w].as_mut().expect("harness: no such world");
                match self.builders.get_mut(b).expect("harness: no such builder") {
                    BBox::Plain(eb) => {
                        let e = world.spawn(eb.build());
                        handles.push(e);
                        format!("e={}", show_entity(e))
                    }
                    _ => panic!("harness: bspawn on a non-plain builder"),
                }
            }
            COp::BBuildDrop { b } => {
                match self.builders.get_mut(b).expect("harness: no such builder") {
                    BBox::Plain(eb) => drop(eb.build()),
                    _ => panic!("harness: bbuild_drop on a non-plain builder"),
                }
                "ok".into()
            }
            COp::BBuild { b, into } => {
                match self.builders.remove(b).expect("harness: no such builder") {
                    BBox::Clone(eb) => {
                        self.builders.insert(*into, BBox::Built(eb.build()));
                    }
                    _ => panic!("harness: bbuild on a non-clone builder"),
                }
                "ok".into()
            }
            COp::CSpawn { b, w } => {
                let world = worlds[*w].as_mut().expect("harness: no such world");
                match self.builders.get(b).expect("harness: no such builder") {
                    BBox::Built(c) => {
                        let e = world.spawn(c);
                        handles.push(e);
                        format!("e={}", show_entity(e))
                    }
                    _ => panic!("harness: cspawn on a builder"),
                }
            }
            COp::BClone { b, into } => {
                let c = match self.builders.get(b).expect("harness: no such builder") {
                    BBox::Clone(eb) => BBox::Clone(eb.clone()),
                    BBox::Built(c) => BBox::Built(c.clone()),
                    BBox::Plain(_) => panic!("harness: clone of a plain builder"),
                };
                self.builders.insert(*into, c);
                "ok".into()
            }
            COp::CBack { b, into } => {
                match self.builders.remove(b).expect("harness: no such builder") {
                    BBox::Built(c) => {
                        self.builders.insert(*into, BBox::Clone(EntityBuilderClone::from(c)));
                    }
                    _ => panic!("harness: cback on a builder"),
                }
                "ok".into()
            }
            COp::BDrop { b } => {
                drop(self.builders.remove(b));
                "ok".into()
            }
            COp::QNew { q } => {
                self.cmdbufs.insert(*q, CommandBuffer::new());
                "ok".into()
            }
            COp::QSpawn { q, k, bundle } => {
                let cb = self.cmdbufs.get_mut(q).expect("harness: no such command buffer");
                let serials: Vec<u64> = bundle.iter().map(|x| x.1).collect();
                match k {
                    Some(k) => with_bundle!(*k, T, cb.spawn(<T as StaticBundle>::make(&serials))),
                    None => {
                        let mut eb = make_builder(bundle);
                        cb.spawn(eb.build())
                    }
                }
                lhs = format!("qspawn Q{} k={} b={}", q, kstr(k), show_comps(bundle));
                "ok".into()
            }
            COp::QInsert { q, h, k, bundle } => {
                let e = resolve(h);
                let cb = self.cmdbufs.get_mut(q).expect("harness: no such command buffer");
                let serials: Vec<u64> = bundle.iter().map(|x| x.1).collect();
                match k {
                    Some(k) if alt && single(*k) => with_type!(bundle[0].0, T, cb.insert_one(e, <T as Comp>::new(bundle[0].1))),
                    Some(k) => with_bundle!(*k, T, cb.insert(e, <T as StaticBundle>::make(&serials))),
                    None => {
                        let mut eb = make_builder(bundle);
                        cb.insert(e, eb.build())
                    }
                }
                lhs = format!("qinsert Q{} h={} k={} b={}", q, show_entity(e), kstr(k), show_comps(bundle));
                "ok".into()
            }
            COp::QRemove { q, h, k } => {
                let e = resolve(h);
                let cb = self.cmdbufs.get_mut(q).expect("harness: no such command buffer");
                if alt && single(*k) {
                    with_type!(bundle_types(*k)[0], T, cb.remove_one::<T>(e));
                } else {
                    with_bundle!(*k, T, cb.remove::<T>(e));
                }
                lhs = format!("qremove Q{} h={} k={} ts={}", q, show_entity(e), k, show_nats(&bundle_types(*k)));
                "ok".into()
            }
            COp::QDespawn { q, h } => {
                let e = resolve(h);
                self.cmdbufs.get_mut(q).expect("harness: no such command buffer").despawn(e);
                lhs = format!("qdespawn Q{} h={}", q, show_entity(e));
                "ok".into()
            }
            COp::QRun { q, w } => {
                let world = worlds[*w].as_mut().expect("harness: no such world");
                let before: Vec<Entity> = world.iter().map(|e| e.entity()).collect();
                self.cmdbufs.get_mut(q).expect("harness: no such command buffer").run_on(world);
                let mut new: Vec<(Entity, Vec<(usize, u64)>)> = world
                    .iter()
                    .filter(|er| !before.contains(&er.entity()))
                    .map(|er| (er.entity(), entity_ref_comps(&er)))
                    .collect();
                new.sort_by_key(|x| x.0.to_bits().get());
                for (e, _) in &new {
                    handles.push(*e);
                }
                let s: Vec<String> = new.iter().map(|(e, c)| format!("{}={}", show_entity(*e), show_comps(c))).collect();
                notes.push(format!("new=[{}]", s.join(";")));
                "ok".into()
            }
            COp::QClear { q } => {
                self.cmdbufs.get_mut(q).expect("harness: no such command buffer").clear();
                "ok".into()
            }
            COp::QDrop { q } => {
                drop(self.cmdbufs.remove(q));
                "ok".into()
            }
            COp::PNew { p, decl, n } => {
                let mut ty = ColumnBatchType::new();
                for &t in decl {
                    with_type!(t, T, {
                        if alt {
                            ty.add_dynamic(hecs::TypeInfo::of::<T>());
                        } else {
                            ty.add::<T>();
                        }
                    });
                }
                let mut d = decl.clone();
                d.sort();
                d.dedup();
                self.batches.insert(*p, PBox::Builder(ty.into_batch(*n as u32), d));
                "ok".into()
            }
            COp::PPush { p, t, vals } => match self.batches.get_mut(p).expect("harness: no such batch") {
                PBox::Builder(b, _) => with_type!(*t, T, {
                    match b.writer::<T>() {
                        None => "nowriter".to_string(),
                        Some(mut wr) => {
                            let mut pushed = 0;
                            let mut rejected = 0;
                            for &v in vals {
                                match wr.push(<T as Comp>::new(v)) {
                                    Ok(()) => pushed += 1,
                                    Err(x) => {
                                        rejected += 1;
                                        suppressed(|| drop(x));
                                    }
                                }
                            }
                            format!("pushed={} rejected={}", pushed, rejected)
                        }
                    }
                }),
                PBox::Batch(_) => panic!("harness: push on a built batch"),
            },
            COp::PBuild { p } => match self.batches.remove(p).expect("harness: no such batch") {
                PBox::Builder(b, _) => match b.build() {
                    Ok(batch) => {
                        self.batches.insert(*p, PBox::Batch(batch));
                        "ok".into()
                    }
                    Err(_) => "incomplete".into(),
                },
                PBox::Batch(_) => panic!("harness: build on a built batch"),
            },
            COp::PSpawn { p, w } => {
                let world = worlds[*w].as_mut().expect("harness: no such world");
                match self.batches.remove(p).expect("harness: no such batch") {
                    PBox::Batch(batch) => {
                        let es: Vec<Entity> = world.spawn_column_batch(batch).collect();
                        handles.extend(es.iter().copied());
                        format!("es={}", show_entities(&es))
                    }
                    PBox::Builder(..) => panic!("harness: spawn of an unbuilt batch"),
                }
            }
            COp::PSpawnAt { p, w, hs } => {
                let es: Vec<Entity> = hs.iter().map(|h| resolve(h)).collect();
                lhs = format!("pspawn_at P{} W{} hs={}", p, w, show_entities(&es));
                let world = worlds[*w].as_mut().expect("harness: no such world");
                match self.batches.remove(p).expect("harness: no such batch") {
                    PBox::Batch(batch) => {
                        world.spawn_column_batch_at(&es, batch);
                        handles.extend(es.iter().copied());
                        "ok".into()
                    }
                    PBox::Builder(..) => panic!("harness: spawn of an unbuilt batch"),
                }
            }
            COp::PDrop { p } => {
                drop(self.batches.remove(p));
                "ok".into()
            }
        };
        // hooked state of the container the op touched
        match op {
            COp::BNew { b, .. } | COp::BAdd { b, .. } | COp::BAddBundle { b, .. } | COp::BAddBuilt { b, .. } | COp::BClear { b }
            | COp::BSpawn { b, .. }
            | COp::BBuildDrop { b } | COp::CSpawn { b, .. } => {
                if let Some(bb) = self.builders.get(b) {
                    let d = match bb {
                        BBox::Plain(x) => x.verif_dump(),
                        BBox::Clone(x) => x.verif_dump(),
                        BBox::Built(x) => x.verif_dump(),
                    };
                    notes.push(arena_line(&format!("B{}", b), &d, true));
                }
            }
            COp::BBuild { into, .. } | COp::BClone { into, .. } | COp::CBack { into, .. } => {
                if let Some(bb) = self.builders.get(into) {
                    let d = match bb {
                        BBox::Plain(x) => x.verif_dump(),
                        BBox::Clone(x) => x.verif_dump(),
                        BBox::Built(x) => x.verif_dump(),
                    };
                    notes.push(arena_line(&format!("B{}", into), &d, true));
                }
            }
            COp::QNew { q } | COp::QSpawn { q, .. } | COp::QInsert { q, .. } | COp::QRemove { q, .. } | COp::QDespawn { q, .. }
            | COp::QRun { q, .. } | COp::QClear { q } => {
                if let Some(cb) = self.cmdbufs.get(q) {
                    notes.push(arena_line(&format!("Q{}", q), &cb.verif_dump(), false));
                }
            }
            COp::PNew { p, .. } | COp::PPush { p, .. } => {
                if let Some(PBox::Builder(b, _)) = self.batches.get(p) {
                    let tm = tmap();
                    let (cols, target) = b.verif_dump();
                    let s: Vec<String> = cols.iter().map(|(ty, f)| format!("{}:{}", tm.get(ty).expect("harness: unknown TypeId"), f)).collect();
                    notes.push(format!("#fill P{} cols=[{}] target={}", p, s.join(","), target));
                }
            }
            _ => {}
        }
        (lhs, res, handles, notes)
    }
}

// keep `DynamicBundle` in scope for `(&BuiltEntityClone)` spawns
#[allow(unused)]
fn _assert_bundle<T: DynamicBundle>(_: T) {}
