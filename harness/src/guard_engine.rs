//! Engine `borrow` (C05): scripts of guard acquisitions / transformations / clones / drops over a
//! fixed world, with the raw borrow words of every column observed after every action.
use crate::comps::*;
use crate::guard_gen::*;
use crate::util::*;
use hecs::{Entity, World};
use std::any::TypeId;
use std::collections::HashMap;
use std::io::Write;

fn build_world(seed: u64) -> (World, Vec<Entity>) {
    let mut rng = Rng::new(seed ^ 0xabcdef);
    let mut world = World::new();
    let mut es = Vec::new();
    let n = 3 + rng.below(6);
    let mut serial = 1u64;
    let mut next = || {
        serial += 1;
        serial
    };
    for _ in 0..n {
        let e = match rng.below(8) {
            0 => world.spawn(()),
            1 => world.spawn((A::new(next()),)),
            2 => world.spawn((B::new(next()),)),
            3 => world.spawn((A::new(next()), B::new(next()))),
            4 => world.spawn((A::new(next()), B::new(next()), C::new(next()))),
            5 => world.spawn((C::new(next()),)),
            6 => world.spawn((A::new(next()), C::new(next()))),
            _ => world.spawn((B::new(next()), C::new(next()))),
        };
        es.push(e);
    }
    // empty some archetypes again
    let mut live = Vec::new();
    for e in es {
        if rng.chance(30) {
            suppressed(|| world.despawn(e).unwrap());
        } else {
            live.push(e);
        }
    }
    (world, live)
}

fn tmap() -> HashMap<TypeId, usize> {
    let mut m = HashMap::new();
    m.insert(TypeId::of::<A>(), 0);
    m.insert(TypeId::of::<B>(), 1);
    m.insert(TypeId::of::<C>(), 2);
    m
}

fn words(world: &World) -> String {
    let tm = tmap();
    let d = world.verif_dump();
    let mut v: Vec<(usize, usize, usize)> = Vec::new();
    for (ai, a) in d.archetypes.iter().enumerate() {
        for (ci, t) in a.types.iter().enumerate() {
            if a.borrow[ci] != 0 {
                v.push((ai, *tm.get(&t.0).expect("harness: unknown TypeId"), a.borrow[ci]));
            }
        }
    }
    v.sort();
    format!("[{}]", v.iter().map(|(a, t, w)| format!("{}:{}:{}", a, t, w)).collect::<Vec<_>>().join(","))
}

fn gworld_line(world: &World) -> String {
    let tm = tmap();
    let v: Vec<String> = world
        .archetypes()
        .map(|a| {
            let mut ts: Vec<usize> = a.component_types().map(|t| *tm.get(&t).expect("harness: unknown TypeId")).collect();
            ts.sort();
            format!("{}={}", show_nats(&ts), a.len())
        })
        .collect();
    format!("gworld archs=[{}]", v.join(";"))
}

fn arch_of(world: &World, e: Entity) -> usize {
    let d = world.verif_dump();
    d.entities.meta.get(e.id() as usize).map_or(0, |m| m.1 as usize)
}

/// executes a script (ops-file lines after `gsetup`); returns the trace
pub fn run_script(seed: u64, script: &[String]) -> Vec<String> {
    reset_ledger();
    let (world, live) = build_world(seed);
    let mut trace = vec![gworld_line(&world)];
    {
        let mut guards: HashMap<String, G<'_>> = HashMap::new();
        for line in script {
            let toks: Vec<&str> = line.split_whitespace().collect();
            if toks.is_empty() {
                continue;
            }
            let f = |k: &str| field(&toks, k);
            let ent = |k: &str| -> Entity {
                let i: usize = f(k).and_then(|x| x.parse().ok()).unwrap_or(0);
                if live.is_empty() { Entity::DANGLING } else { live[i % live.len()] }
            };
            match toks[0] {
                "gnew" => {
                    let name = toks[1].to_string();
                    let kind = f("kind").expect("harness: kind");
                    if guards.contains_key(&name) {
                        continue;
                    }
                    if live.is_empty() && matches!(kind, "one" | "ref" | "refmut") {
                        continue;
                    }
                    match kind {
                        "query" | "view" | "prepared" | "one" => {
                            let m: usize = f("m").expect("harness: m").parse().unwrap();
                            let e = ent("e");
                            let a = arch_of(&world, e);
                            let lhs = format!("gnew {} kind={} q={} a={}", name, kind, menu_desc(m), a);
                            let r = guarded(|| new_query_guard(&world, kind, m, e));
                            let out = match r {
                                Ok(Some(g)) => {
                                    guards.insert(name, g);
                                    "ok"
                                }
                                Ok(None) => "none",
                                Err(_) => "panic",
                            };
                            trace.push(format!("{} => {} w={}", lhs, out, words(&world)));
                        }
                        _ => {
                            let t: usize = f("t").expect("harness: t").parse().unwrap();
                            let e = ent("e");
                            // column guards address an archetype directly — empty ones included
                            let a = if kind.starts_with("col") {
                                let i: usize = f("e").and_then(|x| x.parse().ok()).unwrap_or(0);
                                i % world.archetypes().len()
                            } else {
                                arch_of(&world, e)
                            };
                            let lhs = format!("gnew {} kind={} a={} t={}", name, kind, a, t);
                            let r = guarded(|| new_comp_guard(&world, kind, t, e, a));
                            let out = match r {
                                Ok(Ok(g)) => {
                                    let _ = g.peek();
                                    guards.insert(name, g);
                                    "ok"
                                }
                                Ok(Err(())) => "missing",
                                Err(_) => "panic",
                            };
                            trace.push(format!("{} => {} w={}", lhs, out, words(&world)));
                        }
                    }
                }
                "gact" => {
                    let name = toks[1].to_string();
                    if !guards.contains_key(&name) {
                        continue;
                    }
                    let verb = toks[2];
                    match verb {
                        "iter" => {
                            let how: usize = f("how").and_then(|x| x.parse().ok()).unwrap_or(0);
                            let g = guards.get_mut(&name).unwrap();
                            let ok = matches!(g, G::RefA(_) | G::RefB(_) | G::RefC(_) | G::RefMutA(_) | G::RefMutB(_) | G::RefMutC(_)
                                | G::ColA(_) | G::ColB(_) | G::ColC(_) | G::ColMutA(_) | G::ColMutB(_) | G::ColMutC(_));
                            if ok || is_one(g) {
                                continue;
                            }
                            let r = guarded(|| g.iter(how));
                            trace.push(format!("gact {} iter => {} w={}", name, if r.is_ok() { "ok" } else { "panic" }, words(&world)));
                        }
                        "get" => {
                            let g = guards.get_mut(&name).unwrap();
                            if !is_one(g) {
                                continue;
                            }
                            let r = guarded(|| g.get());
                            let out = match r {
                                Ok(true) => "ok",
                                Ok(false) => "none",
                                Err(_) => "panic",
                            };
                            trace.push(format!("gact {} get => {} w={}", name, out, words(&world)));
                        }
                        "with" | "without" => {
                            if !guards.get(&name).unwrap().can_transform() {
                                continue;
                            }
                            let g = guards.remove(&name).unwrap();
                            let r = guarded(|| if verb == "with" { g.with() } else { g.without() });
                            let out = match r {
                                Ok(g2) => {
                                    guards.insert(name.clone(), g2);
                                    "ok"
                                }
                                Err(_) => "panic",
                            };
                            trace.push(format!("gact {} {} q={} => {} w={}", name, verb, RDESC, out, words(&world)));
                        }
                        "clone" => {
                            let into = f("into").expect("harness: into").to_string();
                            if guards.contains_key(&into) {
                                continue;
                            }
                            let g = guards.get(&name).unwrap();
                            let r = guarded(|| g.try_clone());
                            match r {
                                Ok(Some(g2)) => {
                                    guards.insert(into.clone(), g2);
                                    trace.push(format!("gact {} clone into={} => ok w={}", name, into, words(&world)));
                                }
                                Ok(None) => {}
                                Err(_) => trace.push(format!("gact {} clone into={} => panic w={}", name, into, words(&world))),
                            }
                        }
                        "drop" => {
                            let g = guards.remove(&name).unwrap();
                            let r = guarded(|| drop(g));
                            trace.push(format!("gact {} drop => {} w={}", name, if r.is_ok() { "ok" } else { "panic" }, words(&world)));
                        }
                        v => panic!("harness: unknown guard action {}", v),
                    }
                }
                "gend" => {
                    let mut names: Vec<String> = guards.keys().cloned().collect();
                    names.sort();
                    for n in names {
                        let g = guards.remove(&n).unwrap();
                        let r = guarded(|| drop(g));
                        trace.push(format!("gact {} drop => {} w={}", n, if r.is_ok() { "ok" } else { "panic" }, words(&world)));
                    }
                }
                v => panic!("harness: unknown guard verb {}", v),
            }
        }
    }
    let mutok = all_mutably_borrowable(&world);
    trace.push(format!("gend => w={} mut={}", words(&world), if mutok { "ok" } else { "fail" }));
    suppressed(|| drop(world));
    trace
}

fn is_one(g: &G<'_>) -> bool {
    g.is_one()
}

pub fn gen_script(rng: &mut Rng, len: usize) -> Vec<String> {
    let mut out = Vec::new();
    let mut names: Vec<String> = Vec::new();
    let mut next = 0usize;
    for _ in 0..len {
        match rng.weighted(&[34, 30, 8, 6, 22]) {
            0 => {
                let name = format!("G{}", next);
                next += 1;
                let kind = *rng.pick(&["query", "query", "view", "prepared", "one", "one"]).unwrap();
                out.push(format!("gnew {} kind={} m={} e={}", name, kind, rng.below(NMENU), rng.below(8)));
                if kind == "one" && rng.chance(35) {
                    // scenario: a single-entity query that already yielded is narrowed, used again and dropped
                    out.push(format!("gact {} get", name));
                    out.push(format!("gact {} {}", name, if rng.chance(50) { "with" } else { "without" }));
                    if rng.chance(50) {
                        out.push(format!("gact {} get", name));
                    }
                    if rng.chance(70) {
                        out.push(format!("gact {} drop", name));
                    }
                }
                names.push(name);
            }
            1 => {
                let name = format!("G{}", next);
                next += 1;
                let kind = *rng.pick(&["ref", "refmut", "col", "colmut"]).unwrap();
                out.push(format!("gnew {} kind={} t={} e={}", name, kind, rng.below(3), rng.below(8)));
                names.push(name);
            }
            2 if !names.is_empty() => {
                let n = names[rng.below(names.len())].clone();
                out.push(format!("gact {} {}", n, if rng.chance(50) { "with" } else { "without" }));
            }
            3 if !names.is_empty() => {
                let n = names[rng.below(names.len())].clone();
                let into = format!("G{}", next);
                next += 1;
                out.push(format!("gact {} clone into={}", n, into));
                names.push(into);
            }
            _ if !names.is_empty() => {
                let n = names[rng.below(names.len())].clone();
                match rng.below(10) {
                    0..=3 => out.push(format!("gact {} iter how={}", n, rng.below(3))),
                    4..=5 => out.push(format!("gact {} get", n)),
                    _ => out.push(format!("gact {} drop", n)),
                }
            }
            _ => {}
        }
    }
    out.push("gend".to_string());
    out
}

pub fn gen(out_dir: &str, seed: u64, count: usize, len: usize) {
    std::fs::create_dir_all(out_dir).unwrap();
    let mut trace = std::io::BufWriter::new(std::fs::File::create(format!("{}/trace.txt", out_dir)).unwrap());
    let mut ops = std::io::BufWriter::new(std::fs::File::create(format!("{}/ops.txt", out_dir)).unwrap());
    let mut panics = 0usize;
    let mut actions = 0usize;
    for k in 0..count {
        let hseed = seed.wrapping_mul(1_000_003).wrapping_add(k as u64);
        let mut rng = Rng::new(hseed);
        let l = len / 2 + rng.below(len + 1);
        let script = gen_script(&mut rng, l);
        writeln!(ops, "history borrow {}", hseed).unwrap();
        writeln!(ops, "gsetup n={}", hseed).unwrap();
        for s in &script {
            writeln!(ops, "{}", s).unwrap();
        }
        ops.flush().unwrap();
        let t = run_script(hseed, &script);
        writeln!(trace, "history borrow {}", hseed).unwrap();
        for l in &t {
            if l.contains("=> panic") {
                panics += 1;
            }
            actions += 1;
            writeln!(trace, "{}", l).unwrap();
        }
    }
    let mut f = std::fs::File::create(format!("{}/stats.json", out_dir)).unwrap();
    writeln!(f, "{{\"scripts\": {}, \"actions\": {}, \"refused_acquisitions\": {}}}", count, actions, panics).unwrap();
}

pub fn replay(file: &str) {
    let text = std::fs::read_to_string(file).unwrap();
    let mut header: Option<String> = None;
    let mut seed = 0u64;
    let mut script: Vec<String> = Vec::new();
    let flush = |header: &Option<String>, seed: u64, script: &mut Vec<String>| {
        if let Some(h) = header {
            println!("{}", h);
            if !script.iter().any(|s| s.starts_with("gend")) {
                script.push("gend".into());
            }
            for l in run_script(seed, script) {
                println!("{}", l);
            }
            script.clear();
        }
    };
    for line in text.lines() {
        let line = line.trim();
        if line.is_empty() || line.starts_with('#') {
            continue;
        }
        if line.starts_with("history ") {
            flush(&header, seed, &mut script);
            header = Some(line.to_string());
            seed = line.split_whitespace().last().and_then(|x| x.parse().ok()).unwrap_or(0);
        } else if let Some(rest) = line.strip_prefix("gsetup ") {
            let toks: Vec<&str> = rest.split_whitespace().collect();
            seed = field(&toks, "n").and_then(|x| x.parse().ok()).unwrap_or(seed);
        } else {
            script.push(line.split(" => ").next().unwrap().to_string());
        }
    }
    flush(&header, seed, &mut script);
}
