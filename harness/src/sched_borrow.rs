//! Engine `sched-borrow` (C06): the real `AtomicBorrow` under every interleaving of small programs.
use crate::sched::*;
use hecs::verif::AtomicBorrow;
use std::io::Write;

fn body(ab: &AtomicBorrow, prog: &[char]) {
    let mut shared = 0usize;
    let mut uniq = false;
    for &c in prog {
        match c {
            'B' => {
                let r = ab.borrow();
                emit(format!("ret={}", r as u8));
                if r {
                    shared += 1;
                }
            }
            'M' => {
                let r = ab.borrow_mut();
                emit(format!("ret={}", r as u8));
                if r {
                    uniq = true;
                }
            }
            'R' => {
                if shared > 0 {
                    ab.release();
                    shared -= 1;
                }
            }
            'X' => {
                if uniq {
                    ab.release_mut();
                    uniq = false;
                }
            }
            _ => panic!("harness: bad program letter"),
        }
    }
    while shared > 0 {
        ab.release();
        shared -= 1;
    }
    if uniq {
        ab.release_mut();
    }
}

/// runs one schedule; `order` = thread ids to prefer at each decision (replay) or `choices` = indices
pub fn run_one(progs: &[Vec<char>], choices: &[usize], by_thread: bool) -> (Vec<String>, Vec<(usize, usize)>) {
    let ab = AtomicBorrow::new();
    let mut lines = vec![format!("init n={}", progs.len())];
    let mut k = 0usize;
    let bodies: Vec<Box<dyn FnOnce() + Send + '_>> = progs
        .iter()
        .map(|p| {
            let ab = &ab;
            let p = p.clone();
            Box::new(move || body(ab, &p)) as Box<dyn FnOnce() + Send + '_>
        })
        .collect();
    let mut choose = |enabled: &[usize]| -> usize {
        let c = choices.get(k).copied();
        k += 1;
        match c {
            None => 0,
            Some(c) if by_thread => enabled.iter().position(|&t| t == c).unwrap_or(0),
            Some(c) => c,
        }
    };
    let mut order: Vec<usize> = Vec::new();
    let abr = &ab;
    let mut after = |s: &StepRec| {
        if s.site == u32::MAX {
            return;
        }
        order.push(s.thread);
        let ret = s.events.iter().find_map(|e| e.strip_prefix("ret=")).unwrap_or("-").to_string();
        let ret = if s.events.iter().any(|e| e == "panic") { "panic".to_string() } else { ret };
        lines.push(format!("step t={} site={} => word={} ret={}", s.thread, s.site, abr.verif_raw(), ret));
    };
    let decisions = run_schedule(bodies, &mut choose, &mut after);
    lines.push(format!("final => word={}", ab.verif_raw()));
    let progs_s: Vec<String> = progs.iter().map(|p| p.iter().collect::<String>()).collect();
    let order_s: Vec<String> = order.iter().map(|t| t.to_string()).collect();
    lines.insert(0, format!("#sched n={} progs=[{}] order=[{}]", progs.len(), progs_s.join(";"), order_s.join(",")));
    (lines, decisions)
}

pub fn all_programs(maxlen: usize) -> Vec<Vec<char>> {
    let letters = ['B', 'M', 'R', 'X'];
    let mut out: Vec<Vec<char>> = vec![vec![]];
    let mut frontier: Vec<Vec<char>> = vec![vec![]];
    for _ in 0..maxlen {
        let mut next = Vec::new();
        for p in &frontier {
            for &l in &letters {
                let mut q = p.clone();
                q.push(l);
                next.push(q);
            }
        }
        out.extend(next.iter().cloned());
        frontier = next;
    }
    out
}

pub fn gen(out_dir: &str, threads: usize, maxlen: usize, shard: usize, nshards: usize, cap_per_tuple: usize) {
    hecs::verif::set_yield_fn(Some(on_yield));
    std::fs::create_dir_all(out_dir).unwrap();
    let mut trace = std::io::BufWriter::new(std::fs::File::create(format!("{}/trace.txt", out_dir)).unwrap());
    let mut ops = std::io::BufWriter::new(std::fs::File::create(format!("{}/ops.txt", out_dir)).unwrap());
    let progs = all_programs(maxlen);
    let np = progs.len();
    let total: usize = np.pow(threads as u32);
    let mut schedules = 0usize;
    let mut tuples = 0usize;
    let mut steps = 0usize;
    let mut capped = 0usize;
    for idx in 0..total {
        if idx % nshards != shard {
            continue;
        }
        let mut tuple = Vec::new();
        let mut x = idx;
        for _ in 0..threads {
            tuple.push(progs[x % np].clone());
            x /= np;
        }
        tuples += 1;
        let mut choices: Vec<usize> = Vec::new();
        let mut n_this = 0usize;
        loop {
            let (lines, decisions) = run_one(&tuple, &choices, false);
            let hid = idx * 1_000_000 + n_this;
            writeln!(trace, "history sched-borrow {}", hid).unwrap();
            writeln!(ops, "history sched-borrow {}", hid).unwrap();
            writeln!(ops, "{}", &lines[0][1..]).unwrap();
            steps += lines.len() - 3;
            for l in &lines {
                writeln!(trace, "{}", l).unwrap();
            }
            schedules += 1;
            n_this += 1;
            if n_this >= cap_per_tuple {
                capped += 1;
                break;
            }
            match next_choices(&decisions) {
                Some(c) => choices = c,
                None => break,
            }
        }
    }
    let mut f = std::fs::File::create(format!("{}/stats.json", out_dir)).unwrap();
    writeln!(
        f,
        "{{\"schedules\": {}, \"program_tuples\": {}, \"atomic_steps\": {}, \"threads\": {}, \"max_program_len\": {}, \"tuples_capped\": {}}}",
        schedules, tuples, steps, threads, maxlen, capped
    )
    .unwrap();
    hecs::verif::set_yield_fn(None);
}

pub fn replay(file: &str) {
    hecs::verif::set_yield_fn(Some(on_yield));
    for line in std::fs::read_to_string(file).unwrap().lines() {
        let line = line.trim();
        if line.starts_with("history ") {
            println!("{}", line);
            continue;
        }
        let line = line.trim_start_matches('#');
        if !line.starts_with("sched ") {
            continue;
        }
        let toks: Vec<&str> = line.split_whitespace().collect();
        let progs_s = crate::util::field(&toks, "progs").expect("harness: progs");
        let order_s = crate::util::field(&toks, "order").expect("harness: order");
        let progs: Vec<Vec<char>> = progs_s[1..progs_s.len() - 1].split(';').map(|p| p.chars().collect()).collect();
        let order: Vec<usize> = if order_s.len() > 2 {
            order_s[1..order_s.len() - 1].split(',').map(|x| x.parse().expect("harness: order")).collect()
        } else {
            vec![]
        };
        let (lines, _) = run_one(&progs, &order, true);
        for l in &lines {
            println!("{}", l);
        }
    }
    hecs::verif::set_yield_fn(None);
}
