#!/bin/bash
# false-alarm sweep on the unchanged tree: every quick check under several seeds
cd "$(dirname "$0")/.."
for seed in "$@"; do
  for p in C01 C02 C03 C04 C05 C06 C07 C08 C09 C10 C11 C12 C13 C14 C15 C16 C17 C18 C19; do
    out=$(VERIF_SEED=$seed ./check $p 2>&1 | grep -E "^(VIOLATION|INCONCLUSIVE|violation|INCONCLUSIVE:)" | head -3 | cut -c1-300)
    if [ -n "$out" ]; then echo "seed=$seed $p: $out"; cp -r replays replays_seed${seed}_$p 2>/dev/null; fi
  done
  echo "seed $seed done"
done
