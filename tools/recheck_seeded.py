#!/usr/bin/env python3
"""Regression run of the seeded changes: apply seeded/<name>/patch.diff to /repo, run the quick
check of the property it breaks (or the checks given), undo the patch, record the outcome in
seeded/<name>/meta.json under "recheck" (the first evaluation stays under "checks").

usage: recheck_seeded.py [--all | <name> [<check>...]]
Never run while anything else builds from /repo (the patch is applied to its working tree).
"""
import sys, os, json, subprocess, time, glob

SEEDED = os.path.join(os.path.dirname(os.path.dirname(os.path.abspath(__file__))), "seeded")
VERIF = os.path.dirname(SEEDED)


def sh(cmd, cwd=None, timeout=7200):
    p = subprocess.run(cmd, shell=True, cwd=cwd, stdout=subprocess.PIPE, stderr=subprocess.STDOUT, text=True, timeout=timeout)
    return p.returncode, p.stdout


def recheck(name, checks):
    d = os.path.join(SEEDED, name)
    meta = json.load(open(os.path.join(d, "meta.json")))
    checks = checks or [meta["property"]]
    rc, st = sh("git status --porcelain -- src macros", cwd="/repo")
    assert st.strip() == "", "/repo has uncommitted source changes"
    rc, o = sh(f"git apply {d}/patch.diff", cwd="/repo")
    assert rc == 0, o
    res = {}
    try:
        for c in checks:
            t0 = time.time()
            rc, o = sh(f"./check {c}", cwd=VERIF)
            lines = [l for l in o.splitlines() if l.startswith(("VIOLATION", "INCONCLUSIVE"))]
            detail = [l[:400] for l in o.splitlines() if l.startswith("violation:")][:1]
            res[c] = {"exit": rc, "verdict_lines": lines[:2], "first_violations": detail, "wall_s": round(time.time() - t0, 1)}
    finally:
        sh("git checkout -- .", cwd="/repo")
    meta["recheck"] = res
    first = meta.get("detected_by", [])
    meta["detected_by_now"] = [c for c, r in res.items() if r["exit"] == 1]
    json.dump(meta, open(os.path.join(d, "meta.json"), "w"), indent=1)
    ok = meta["property"] in meta["detected_by_now"] or (meta["property"] not in res and meta["detected_by_now"])
    print(f"{name}: first={first} now={meta['detected_by_now']} {'OK' if ok else 'MISSED'}", flush=True)
    return ok


if __name__ == "__main__":
    if sys.argv[1:] == ["--all"]:
        names = sorted(os.path.basename(p) for p in glob.glob(os.path.join(SEEDED, "*")) if os.path.isdir(p))
        bad = [n for n in names if not recheck(n, [])]
        print("missed:", bad)
        sys.exit(1 if bad else 0)
    sys.exit(0 if recheck(sys.argv[1], sys.argv[2:]) else 1)
