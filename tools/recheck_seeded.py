#!/usr/bin/env python3
"""Regression run of the seeded changes: apply seeded/<name>/patch.diff to a scratch worktree of /repo
(/tmp/wt/recheck, created on demand), run the quick check of the property it breaks (or the checks
given) against that worktree (VERIF_REPO), record the outcome in seeded/<name>/meta.json under
"recheck" (the first evaluation stays under "checks").  /repo itself and the registered evidence
files are not touched.  Remove the worktree afterwards: git -C /repo worktree remove --force /tmp/wt/recheck

usage: recheck_seeded.py [--all | <name> [<check>...]]
"""
import sys, os, json, subprocess, time, glob

SEEDED = os.path.join(os.path.dirname(os.path.dirname(os.path.abspath(__file__))), "seeded")
VERIF = os.path.dirname(SEEDED)


def sh(cmd, cwd=None, timeout=7200):
    p = subprocess.run(cmd, shell=True, cwd=cwd, stdout=subprocess.PIPE, stderr=subprocess.STDOUT, text=True, timeout=timeout)
    return p.returncode, p.stdout


WT = "/tmp/wt/recheck"


def ensure_worktree():
    if not os.path.isdir(WT):
        os.makedirs(os.path.dirname(WT), exist_ok=True)
        rc, o = sh(f"git -C /repo worktree add --detach {WT} HEAD")
        assert rc == 0, o
    sh("git checkout -- . && git clean -fdq -- src macros tests", cwd=WT)
    rc, head = sh("git -C /repo rev-parse HEAD")
    sh(f"git checkout -q --detach {head.strip()}", cwd=WT)


def recheck(name, checks):
    d = os.path.join(SEEDED, name)
    meta = json.load(open(os.path.join(d, "meta.json")))
    # the property's own check, plus the checks that caught it first when its own never did
    own_ever = meta["property"] in (meta.get("detected_by") or []) or meta["property"] in (meta.get("detected_by_now") or [])
    checks = checks or ([meta["property"]] + ([] if own_ever else [c for c in meta.get("detected_by", []) if c != meta["property"]]))
    ensure_worktree()
    rc, o = sh(f"git apply {d}/patch.diff", cwd=WT)
    assert rc == 0, o
    res = {}
    try:
        for c in checks:
            t0 = time.time()
            rc, o = sh(f"VERIF_REPO={WT} ./check {c}", cwd=VERIF)
            lines = [l for l in o.splitlines() if l.startswith(("VIOLATION", "INCONCLUSIVE"))]
            detail = [l[:400] for l in o.splitlines() if l.startswith("violation:")][:1]
            res[c] = {"exit": rc, "verdict_lines": lines[:2], "first_violations": detail, "wall_s": round(time.time() - t0, 1)}
    finally:
        sh("git checkout -- .", cwd=WT)
    meta["recheck"] = res
    first = meta.get("detected_by", [])
    meta["detected_by_now"] = [c for c, r in res.items() if r["exit"] == 1]
    json.dump(meta, open(os.path.join(d, "meta.json"), "w"), indent=1)
    ok = bool(meta["detected_by_now"]) and (meta["property"] in meta["detected_by_now"] or not own_ever)
    if meta.get("not_detected_reason"):
        # recorded blind spot: expected to stay undetected (reported if that ever changes)
        print(f"{name}: recorded as not detected ({meta['not_detected_reason'][:80]}…) now={meta['detected_by_now']}", flush=True)
        return True
    print(f"{name}: first={first} now={meta['detected_by_now']} {'OK' if ok else 'MISSED'}", flush=True)
    return ok


if __name__ == "__main__":
    if sys.argv[1:] == ["--all"]:
        names = sorted(os.path.basename(p) for p in glob.glob(os.path.join(SEEDED, "*")) if os.path.isdir(p))
        bad = [n for n in names if not recheck(n, [])]
        print("missed:", bad)
        sys.exit(1 if bad else 0)
    sys.exit(0 if recheck(sys.argv[1], sys.argv[2:]) else 1)
