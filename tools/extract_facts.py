#!/usr/bin/env python3
"""Translator for the small pure fragments of hecs (DESIGN §3.4).

Regenerates lean/HecsModel/Generated/Facts.lean from the *current* Rust sources:

  * Entity::to_bits / Entity::from_bits bodies        -> BitVec terms          (C19)
  * lib.rs::align body                                -> BitVec term           (C04)
  * borrow.rs constants and atomic call sites         -> constants + site list (C06)
  * entities.rs atomic call sites of the &self paths  -> site list             (C07)

usage: extract_facts.py <repo> <outdir>      prints one JSON status line
The Rust expression subset understood: integer literals, identifiers, `a.b.c()` paths, unary `!`,
binary `+ - & | << >>`, `as uN`, parentheses, `uN::MAX`.
"""
import sys, os, re, json


class ParseError(Exception):
    pass


TOK = re.compile(r"\s*(?:(\d[\d_]*)|([A-Za-z_][A-Za-z0-9_]*(?:::[A-Za-z_][A-Za-z0-9_]*)*(?:\.[A-Za-z_][A-Za-z0-9_]*(?:\(\))?)*)|(<<|>>|[()+\-&|!]))")


def tokenize(s):
    out, i = [], 0
    s = s.strip()
    while i < len(s):
        m = TOK.match(s, i)
        if not m or m.end() == i:
            raise ParseError(f"cannot tokenize at {s[i:i+20]!r}")
        if m.group(1):
            out.append(("num", int(m.group(1).replace("_", ""))))
        elif m.group(2):
            out.append(("id", m.group(2)))
        else:
            out.append(("op", m.group(3)))
        i = m.end()
        while i < len(s) and s[i].isspace():
            i += 1
    return out


class Expr:
    """(lean term builder, width or None for an untyped literal)"""

    def __init__(self, kind, **kw):
        self.kind = kind
        self.__dict__.update(kw)


class Parser:
    # precedence (Rust): unary ! - ; as ; * / ; + - ; << >> ; & ; ^ ; |
    def __init__(self, toks, env):
        self.t = toks
        self.i = 0
        self.env = env  # identifier -> (lean name, width)

    def peek(self):
        return self.t[self.i] if self.i < len(self.t) else None

    def eat(self, kind=None, val=None):
        tok = self.peek()
        if tok is None or (kind and tok[0] != kind) or (val is not None and tok[1] != val):
            raise ParseError(f"expected {kind} {val}, got {tok}")
        self.i += 1
        return tok

    def parse(self):
        e = self.p_or()
        if self.peek() is not None:
            raise ParseError(f"trailing tokens {self.t[self.i:]}")
        return e

    def binlevel(self, sub, ops):
        e = sub()
        while self.peek() and self.peek()[0] == "op" and self.peek()[1] in ops:
            op = self.eat()[1]
            r = sub()
            e = Expr("bin", op=op, l=e, r=r)
        return e

    def p_or(self):
        return self.binlevel(self.p_and, ("|",))

    def p_and(self):
        return self.binlevel(self.p_shift, ("&",))

    def p_shift(self):
        return self.binlevel(self.p_add, ("<<", ">>"))

    def p_add(self):
        return self.binlevel(self.p_cast, ("+", "-"))

    def p_cast(self):
        e = self.p_unary()
        while self.peek() == ("id", "as"):
            self.eat()
            ty = self.eat("id")[1]
            e = Expr("cast", e=e, ty=ty)
        return e

    def p_unary(self):
        if self.peek() == ("op", "!"):
            self.eat()
            return Expr("not", e=self.p_unary())
        return self.p_atom()

    def p_atom(self):
        tok = self.peek()
        if tok is None:
            raise ParseError("unexpected end")
        if tok == ("op", "("):
            self.eat()
            e = self.p_or()
            self.eat("op", ")")
            return e
        if tok[0] == "num":
            self.eat()
            return Expr("num", v=tok[1])
        if tok[0] == "id":
            self.eat()
            return Expr("id", name=tok[1])
        raise ParseError(f"unexpected token {tok}")


WIDTH = {"u64": 64, "u32": 32, "usize": 64, "isize": 64, "u16": 16, "u8": 8}


def lean_of(e, env, want=None):
    """returns (lean term, width)"""
    if e.kind == "num":
        if want is None:
            raise ParseError("untyped literal")
        return f"({e.v}#{want})", want
    if e.kind == "id":
        if e.name in env:
            return env[e.name]
        m = re.fullmatch(r"(u64|u32|usize)::MAX", e.name)
        if m:
            w = WIDTH[m.group(1)]
            return f"(BitVec.allOnes {w})", w
        raise ParseError(f"unknown identifier {e.name}")
    if e.kind == "not":
        t, w = lean_of(e.e, env, want)
        return f"(~~~ {t})", w
    if e.kind == "cast":
        t, w = lean_of(e.e, env, None if e.e.kind != "num" else WIDTH.get(e.ty))
        if e.ty not in WIDTH:
            raise ParseError(f"unsupported cast {e.ty}")
        return f"(BitVec.setWidth {WIDTH[e.ty]} {t})", WIDTH[e.ty]
    if e.kind == "bin":
        if e.op in ("<<", ">>"):
            l, w = lean_of(e.l, env, want)
            if e.r.kind != "num":
                raise ParseError("non-literal shift amount")
            return f"({l} {'<<<' if e.op == '<<' else '>>>'} {e.r.v})", w
        # determine width from whichever side is typed
        try:
            l, w = lean_of(e.l, env, want)
            r, w2 = lean_of(e.r, env, w)
        except ParseError:
            r, w = lean_of(e.r, env, want)
            l, w2 = lean_of(e.l, env, w)
        if w != w2:
            raise ParseError(f"width mismatch {w} vs {w2}")
        op = {"|": "|||", "&": "&&&", "+": "+", "-": "-"}[e.op]
        return f"({l} {op} {r})", w
    raise ParseError(e.kind)


def translate(src, env, want=None):
    e = Parser(tokenize(src), env).parse()
    return lean_of(e, env, want)


def fn_body(text, signature_re):
    m = re.search(signature_re, text)
    if not m:
        raise ParseError(f"function not found: {signature_re}")
    i = text.index("{", m.end() - 1)
    depth, j = 0, i
    while j < len(text):
        if text[j] == "{":
            depth += 1
        elif text[j] == "}":
            depth -= 1
            if depth == 0:
                return text[i + 1:j]
        j += 1
    raise ParseError("unbalanced braces")


def strip_comments(s):
    return re.sub(r"//[^\n]*", "", s)


def balanced_arg(text, start):
    """text[start] == '('; returns the content up to the matching ')'"""
    depth = 0
    for j in range(start, len(text)):
        if text[j] == "(":
            depth += 1
        elif text[j] == ")":
            depth -= 1
            if depth == 0:
                return text[start + 1:j]
    raise ParseError("unbalanced parens")


def atomic_sites(body, recv_re):
    """ordered list of (method, first operand, [orderings]) of atomic calls on the receiver"""
    sites = []
    for m in re.finditer(recv_re + r"\s*\.\s*(fetch_add|fetch_sub|fetch_and|fetch_or|compare_exchange|compare_exchange_weak|load|store|swap)\s*\(", body):
        args = balanced_arg(body, m.end() - 1)
        ords = re.findall(r"Ordering::(\w+)", args)
        operand = re.sub(r"Ordering::\w+", "", args)
        operand = " ".join(operand.replace(",", " ").split())
        sites.append((m.group(1), operand, ords))
    return sites


FN = {"borrow": ".borrow", "borrow_mut": ".borrowMut", "release": ".release", "release_mut": ".releaseMut",
      "reserve_entities": ".reserveEntities", "reserve_entity": ".reserveEntity", "contains": ".contains",
      "get": ".get", "resolve_unknown_gen": ".resolveUnknownGen"}
METH = {"fetch_add": ".fetchAdd", "fetch_sub": ".fetchSub", "fetch_and": ".fetchAnd", "fetch_or": ".fetchOr",
        "compare_exchange": ".compareExchange", "compare_exchange_weak": ".compareExchangeWeak", "load": ".load",
        "store": ".store", "swap": ".swap"}
ORD = {"Relaxed": ".relaxed", "Acquire": ".acquire", "Release": ".release", "AcqRel": ".acqRel", "SeqCst": ".seqCst"}
OPERAND = {"1": ".one", "0 UNIQUE_BIT": ".zeroToUnique", "!UNIQUE_BIT": ".notUnique", "count as isize": ".count", "": ".none"}


def lean_site(f, m, o, r):
    ords = "[" + ", ".join(ORD.get(x, ".unknown") for x in r) + "]"
    return f"⟨{FN[f]}, {METH[m]}, {OPERAND.get(o, '.other')}, {ords}⟩"


def main():
    repo, outdir = sys.argv[1], sys.argv[2]
    status = {"status": "ok", "fragments": {}}
    lines = ["/- GENERATED by tools/extract_facts.py from /repo sources — do not edit. -/",
             "import HecsModel.Model.Atomics", "namespace Hecs.Generated", "open Hecs.Atomics", ""]
    try:
        ent = strip_comments(open(os.path.join(repo, "src/entities.rs")).read())
        # ---- to_bits
        body = fn_body(ent, r"pub\s+const\s+fn\s+to_bits\s*\(\s*self\s*\)\s*->\s*NonZeroU64\s*\{")
        m = re.search(r"NonZeroU64::new_unchecked\s*\(", body)
        if not m:
            raise ParseError("to_bits: NonZeroU64::new_unchecked(..) not found")
        expr = balanced_arg(body, m.end() - 1)
        env = {"self.generation.get()": ("gen", 32), "self.id": ("id", 32)}
        t, w = translate(expr, env)
        if w != 64:
            raise ParseError("to_bits: result is not 64 bits wide")
        lines += [f"/-- `Entity::to_bits`: `{' '.join(expr.split())}` -/",
                  f"def toBits (id gen : BitVec 32) : BitVec 64 := {t}", ""]
        status["fragments"]["to_bits"] = " ".join(expr.split())
        # ---- from_bits
        body = fn_body(ent, r"pub\s+const\s+fn\s+from_bits\s*\(\s*bits\s*:\s*u64\s*\)\s*->\s*Option<Self>\s*\{")
        m = re.search(r"generation\s*:\s*match\s+NonZeroU32::new\s*\(", body)
        if not m:
            raise ParseError("from_bits: generation: match NonZeroU32::new(..) not found")
        gexpr = balanced_arg(body, m.end() - 1)
        if not re.search(r"None\s*=>\s*return\s+None", body):
            raise ParseError("from_bits: `None => return None` arm not found")
        m = re.search(r"\bid\s*:\s*([^,\n]+),", body)
        if not m:
            raise ParseError("from_bits: id field not found")
        iexpr = m.group(1)
        env = {"bits": ("bits", 64)}
        tg, wg = translate(gexpr, env)
        ti, wi = translate(iexpr, env)
        if wg != 32 or wi != 32:
            raise ParseError("from_bits: halves are not 32 bits wide")
        lines += [f"/-- `Entity::from_bits`, generation half: `{' '.join(gexpr.split())}` (zero is rejected) -/",
                  f"def fromBitsGen (bits : BitVec 64) : BitVec 32 := {tg}",
                  f"/-- `Entity::from_bits`, id half: `{' '.join(iexpr.split())}` -/",
                  f"def fromBitsId (bits : BitVec 64) : BitVec 32 := {ti}", ""]
        status["fragments"]["from_bits"] = [" ".join(gexpr.split()), " ".join(iexpr.split())]
        # ---- align
        lib = strip_comments(open(os.path.join(repo, "src/lib.rs")).read())
        body = fn_body(lib, r"fn\s+align\s*\(\s*x\s*:\s*usize\s*,\s*alignment\s*:\s*usize\s*\)\s*->\s*usize\s*\{")
        stmts = [s.strip() for s in body.split(";") if s.strip()]
        aexpr = stmts[-1]
        env = {"x": ("x", 64), "alignment": ("alignment", 64)}
        ta, wa = translate(aexpr, env)
        lines += [f"/-- `lib.rs::align`: `{' '.join(aexpr.split())}` -/",
                  f"def alignExpr (x alignment : BitVec 64) : BitVec 64 := {ta}", ""]
        status["fragments"]["align"] = " ".join(aexpr.split())
        # ---- borrow.rs
        bor = strip_comments(open(os.path.join(repo, "src/borrow.rs")).read())
        consts = {}
        for name in ("UNIQUE_BIT", "COUNTER_MASK"):
            m = re.search(r"const\s+" + name + r"\s*:\s*usize\s*=\s*([^;]+);", bor)
            if not m:
                raise ParseError(f"borrow.rs: const {name} not found")
            t, w = translate(m.group(1), {})
            consts[name] = t
            status["fragments"][name] = " ".join(m.group(1).split())
        lines += [f"def uniqueBit : BitVec 64 := {consts['UNIQUE_BIT']}",
                  f"def counterMask : BitVec 64 := {consts['COUNTER_MASK']}", ""]
        bsites = []
        for fn in ("borrow", "borrow_mut", "release", "release_mut"):
            body = fn_body(bor, r"pub\s+fn\s+" + fn + r"\s*\(\s*&self\s*\)(\s*->\s*bool)?\s*\{")
            for (meth, operand, ords) in atomic_sites(body, r"self\s*\.\s*0"):
                bsites.append((fn, meth, operand, ords))
        status["fragments"]["borrow_sites"] = bsites
        lines += ["/-- atomic call sites of `AtomicBorrow`, in source order -/",
                  "def borrowSites : List Site := ["]
        lines += [",\n".join("  " + lean_site(f, m, o, r) for f, m, o, r in bsites), "]", ""]
        # ---- entities.rs shared-path atomic sites
        esites = []
        sigs = {
            "reserve_entities": r"pub\s+fn\s+reserve_entities\s*\(\s*&self\s*,\s*count\s*:\s*u32\s*\)\s*->\s*ReserveEntitiesIterator(<'_>)?\s*\{",
            "reserve_entity": r"pub\s+fn\s+reserve_entity\s*\(\s*&self\s*\)\s*->\s*Entity\s*\{",
            "contains": r"pub\s+fn\s+contains\s*\(\s*&self\s*,\s*entity\s*:\s*Entity\s*\)\s*->\s*bool\s*\{",
            "get": r"pub\s+fn\s+get\s*\(\s*&self\s*,\s*entity\s*:\s*Entity\s*\)\s*->\s*Result<Location,\s*NoSuchEntity>\s*\{",
            "resolve_unknown_gen": r"pub\s+unsafe\s+fn\s+resolve_unknown_gen\s*\(\s*&self\s*,\s*id\s*:\s*u32\s*\)\s*->\s*Entity\s*\{",
        }
        for fn, sig in sigs.items():
            body = fn_body(ent, sig)
            for (meth, operand, ords) in atomic_sites(body, r"free_cursor"):
                esites.append((fn, meth, operand, ords))
        status["fragments"]["reserve_sites"] = esites
        lines += ["/-- atomic accesses to `free_cursor` on the `&self` paths of `Entities` -/",
                  "def reserveSites : List Site := ["]
        lines += [",\n".join("  " + lean_site(f, m, o, r) for f, m, o, r in esites), "]", ""]
        # ---- world.rs: Extend / FromIterator are thin loops over `spawn` (the trace desugars them so)
        wsrc = strip_comments(open(os.path.join(repo, "src/world.rs")).read())
        def norm_body(sig):
            b = fn_body(wsrc, sig)
            return [" ".join(x.split()) for x in re.split(r"[;{}]", b) if x.strip()]
        ext = norm_body(r"fn\s+extend\s*<\s*T\s*>\s*\(\s*&mut\s+self\s*,\s*iter\s*:\s*T\s*\)\s*where\s+T\s*:\s*IntoIterator<Item\s*=\s*A>\s*,?\s*\{")
        fri = norm_body(r"fn\s+from_iter\s*<\s*I\s*:\s*IntoIterator<Item\s*=\s*A>\s*>\s*\(\s*iter\s*:\s*I\s*\)\s*->\s*Self\s*\{")
        status["fragments"]["extend"] = ext
        status["fragments"]["from_iter"] = fri
        q = lambda xs: "[" + ", ".join(json.dumps(x) for x in xs) + "]"
        lines += ["/-- statements of `<World as Extend<A>>::extend` -/",
                  f"def extendBody : List String := {q(ext)}", "",
                  "/-- statements of `<World as FromIterator<A>>::from_iter` -/",
                  f"def fromIterBody : List String := {q(fri)}", ""]
    except (ParseError, OSError, KeyError, IndexError) as ex:
        status = {"status": "unavailable", "detail": str(ex)}
        print(json.dumps(status))
        return 0
    lines += ["end Hecs.Generated", ""]
    text = "\n".join(lines)
    os.makedirs(outdir, exist_ok=True)
    path = os.path.join(outdir, "Facts.lean")
    old = open(path).read() if os.path.exists(path) else None
    if old != text:
        with open(path, "w") as f:
            f.write(text)
        status["changed"] = True
    print(json.dumps(status))
    return 0


if __name__ == "__main__":
    sys.exit(main())
