#!/usr/bin/env python3
"""validate MANIFEST.json and evidence/*.json against the schemas (needs python3-vt's jsonschema)"""
import json, sys, glob, jsonschema
ok = True
jsonschema.validate(json.load(open('/verif/MANIFEST.json')), json.load(open('/root/.vp/MANIFEST.schema.json')))
print('manifest ok')
es = json.load(open('/root/.vp/EVIDENCE.schema.json'))
for f in sorted(glob.glob('/verif/evidence/*.json')):
    try:
        jsonschema.validate(json.load(open(f)), es); print(f, 'ok')
    except Exception as e:
        ok = False; print(f, 'INVALID', str(e)[:300])
sys.exit(0 if ok else 1)
