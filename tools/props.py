"""Per-property check plans: which Lean module holds the theorems, which harness jobs tie the
model to the code."""

NSHARD_THOROUGH = 14


def world_jobs(profiles, tier, seed, quick_count, thorough_count, length=60, also_release=True):
    # (every world job also runs against a release build of hecs and the harness: code whose effect hides
    # inside `debug_assert!` behaves differently there)
    jobs = []
    for p in profiles:
        if tier == "quick":
            jobs.append({"engine": "world", "name": f"world-{p}", "also_release": also_release,
                         "args": ["--seed", seed * 7919 + hash_s(p) % 1000, "--count", quick_count, "--len", length,
                                  "--profile", p]})
        else:
            per = max(1, thorough_count // NSHARD_THOROUGH)
            for s in range(NSHARD_THOROUGH):
                jobs.append({"engine": "world", "name": f"world-{p}-{s}", "also_release": also_release and s == 0,
                             "args": ["--seed", seed * 7919 + hash_s(p) % 1000 + 104729 * (s + 1), "--count", per,
                                      "--len", length if s % 2 == 0 else length * 3, "--profile", p,
                                      "--obs-every", 1 if s % 2 == 0 else 4]})
    return jobs


def miri_jobs(tier, seed):
    """thorough tier only: a few short histories per profile interpreted by Miri (about 5 minutes each)"""
    if tier != "thorough":
        return []
    profs = ["containers", "mixed", "batch", "query", "serde", "malformed", "reserve", "containers", "mixed", "batch", "containers", "serde"]
    return [{"engine": "world", "name": f"miri-{p}-{i}", "miri": True, "timeout": 2400,
             "args": ["--seed", seed * 7919 + 500 + i, "--count", 4, "--len", 40, "--profile", p]}
            for i, p in enumerate(profs)]


def capacity_jobs(tier, seed):
    """large batches / merges across capacity boundaries (observations thinned: worlds get big)"""
    if tier == "quick":
        return [{"engine": "world", "name": "world-capacity", "also_release": True,
                 "args": ["--seed", seed * 7919 + 77, "--count", 40, "--len", 30, "--profile", "capacity", "--obs-every", 5]}]
    return [{"engine": "world", "name": f"world-capacity-{s}", "also_release": s == 0,
             "args": ["--seed", seed * 7919 + 77 + 104729 * (s + 1), "--count", 150, "--len", 40, "--profile", "capacity", "--obs-every", 5]}
            for s in range(NSHARD_THOROUGH)]


def hash_s(s):
    h = 0
    for c in s:
        h = (h * 131 + ord(c)) % 1000003
    return h


WORLD_TRUST = [
    "modelled, not verified: Rust's move semantics of ptr::copy_nonoverlapping/read/drop_in_place (value-level rows), "
    "the global allocator, hashbrown::HashMap (finite map), Vec, sort_unstable, TypeId injectivity",
]


def plan(pid, tier, seed):
    q = tier == "quick"
    if pid == "C01":
        return {"jobs": world_jobs(["mixed", "batch"], tier, seed, 120, 40000, also_release=True) + capacity_jobs(tier, seed), "release": True,
                "trusted_base": WORLD_TRUST,
                "assumptions": ["fewer than 2^32 entities; no generation wrap; no panics out of user code"]}
    if pid == "C02":
        return {"jobs": world_jobs(["mixed", "reserve"], tier, seed, 120, 40000), "trusted_base": WORLD_TRUST,
                "assumptions": ["ids resurrected by spawn_at with a lower generation are excepted (documented hazard)"]}
    if pid == "C03":
        return {"jobs": world_jobs(["mixed", "malformed", "batch", "containers"], tier, seed, 100, 40000), "trusted_base": WORLD_TRUST}
    if pid == "C10":
        return {"jobs": world_jobs(["mixed", "containers"], tier, seed, 400, 40000), "trusted_base": WORLD_TRUST,
                "assumptions": ["bundle representations are exercised through tuples in several field orders, dynamic EntityBuilder bundles, "
                                "EntityBuilderClone results, taken entities and command-buffer recordings; derived Bundle structs only via tuples"]}
    if pid == "C09":
        # the query profile asks every access path about stale, dangling and foreign handles too
        # … and a command buffer replays inserts on handles that died in the meantime (rejected in the middle
        # of a run, with further commands behind them)
        return {"jobs": world_jobs(["malformed"], tier, seed, 200, 40000) + world_jobs(["query"], tier, seed + 9, 150, 20000)
                + world_jobs(["containers"], tier, seed + 4, 120, 16000, length=80),
                "trusted_base": WORLD_TRUST}
    if pid == "C16":
        return {"jobs": world_jobs(["reserve"], tier, seed, 200, 40000, also_release=True), "release": True,
                "trusted_base": WORLD_TRUST}
    if pid == "C08":
        return {"jobs": world_jobs(["query"], tier, seed, 250, 40000, also_release=True), "release": True,
                "trusted_base": WORLD_TRUST + ["query menu: 38 monomorphised query types x 13 access paths (harness/src/query_engine.rs)"],
                "assumptions": ["batch_size >= 1 (batch_size 0 never terminates and is outside the property)"]}
    if pid == "C17":
        return {"jobs": world_jobs(["query"], tier, seed, 250, 40000), "trusted_base": WORLD_TRUST,
                "assumptions": ["world ids are unique (global counter behind a mutex)"]}
    CONT_TRUST = WORLD_TRUST + ["hooked arena/fill dumps (verif_dump) of EntityBuilder(Clone), BuiltEntityClone, CommandBuffer, ColumnBatchBuilder"]
    if pid == "C13":
        return {"jobs": world_jobs(["containers"], tier, seed, 250, 40000, length=80, also_release=True), "release": True,
                "trusted_base": CONT_TRUST}
    if pid == "C11":
        return {"jobs": world_jobs(["containers"], tier, seed, 250, 40000, length=80), "trusted_base": CONT_TRUST}
    if pid == "C12":
        return {"jobs": world_jobs(["containers", "batch"], tier, seed, 200, 40000, length=80, also_release=True) + capacity_jobs(tier, seed), "release": True,
                "trusted_base": CONT_TRUST}
    if pid == "C04":
        return {"jobs": world_jobs(["containers", "mixed", "query"], tier, seed, 150, 30000, length=80, also_release=True) + capacity_jobs(tier, seed)
                        + miri_jobs(tier, seed), "release": True,
                "trusted_base": CONT_TRUST + ["the allocator returns aligned, disjoint blocks; provenance and the actual reads/writes of the "
                                              "unsafe code are runtime facts outside the model (partial)"],
                "assumptions": ["partial: Lean proves the layout arithmetic the unsafe code relies on; that the code performs exactly "
                                "those accesses is tied only by the correspondence (alignment/integrity-checking component types, arena invariant on hooked state)"]}
    SER_TRUST = WORLD_TRUST + ["recording Serializer and token-tree Deserializer of the harness (harness/src/serde_engine.rs)",
                                "serde_json / bincode byte<->token layers and the components' own Serialize/Deserialize are exercised, not modelled"]
    if pid == "C14":
        return {"jobs": world_jobs(["serde"], tier, seed, 200, 30000, also_release=True), "release": True, "trusted_base": SER_TRUST,
                "assumptions": ["the user context is the one of the crate documentation (numeric component ids, handled-type list H)"]}
    if pid == "C15":
        return {"jobs": world_jobs(["serde"], tier, seed + 17, 250, 40000, also_release=True), "release": True, "trusted_base": SER_TRUST,
                "assumptions": ["mutations keep announced sizes and entity ids small enough to allocate (ids < 5000, counts < 100)",
                                "bincode inputs are not mutated (a flipped length prefix asks hecs to reserve gigabytes, outside the property's bound)"]}
    if pid == "C18":
        return {"jobs": world_jobs(["tracker"], tier, seed, 300, 40000), "trusted_base": WORLD_TRUST,
                "assumptions": ["one tracker per world; entities are not moved between worlds while tracked; T: Clone keeps the value"]}
    if pid == "C19":
        n = 3000 if q else 2_000_000
        jobs = [{"engine": "bits", "name": f"bits-{i}", "args": ["--seed", seed * 31 + i, "--count", n // (1 if q else NSHARD_THOROUGH)]}
                for i in range(1 if q else NSHARD_THOROUGH)]
        return {"jobs": jobs, "nontrivial_min_lines": 2,
                "rule": "requests: 9x9 boundary grid of both halves (frombits/serde), all 81x81 ordered pairs (cmp), plus seeded "
                        "random patterns; one 'history' = 64 requests; distinct = distinct request chunks",
                "trusted_base": ["translator tools/extract_facts.py (Rust expression subset -> BitVec terms)",
                                 "derive(Hash, Eq, Ord) expansion and serde_json/bincode are exercised, not modelled"]}
    if pid == "C05":
        n = 600 if q else 60000
        ns = 1 if q else NSHARD_THOROUGH
        jobs = [{"engine": "borrow", "name": f"borrow-{i}", "args": ["--seed", seed * 131 + i * 7 + 3, "--count", n // ns, "--len", 16 if i % 2 == 0 else 30]}
                for i in range(ns)]
        # the array accessors (`query_many_mut`, `get_many_mut` of the three view kinds) hand out several unique
        # references at once; their refusal of a repeated handle is part of this property
        jobs += world_jobs(["query"], tier, seed + 5, 400, 20000)
        return {"jobs": jobs, "nontrivial_min_lines": 6,
                "rule": "one case = one guard script (8-45 actions: create query/view/prepared/single-entity/Ref/RefMut/column guards, "
                        "iterate, get, with/without, clone, drop in any order) over a seeded world with empty and non-empty archetypes; "
                        "distinct = distinct script seed; non-trivial = at least 5 actions",
                "trusted_base": ["hooked raw borrow words (verif_dump)", "guard menu: 15 query types (3 derived) x 8 guard kinds + Ref/RefMut/Column(Mut) on 3 component types",
                                 "world engine, query profile: query_many_mut / get_many_mut with 2..6 handles, 12% with a repeated handle"],
                "assumptions": ["Archetype::get::<&mut T>() borrows the named column even on an empty archetype (interpretive choice, DESIGN §5.C05)"]}
    if pid == "C06":
        jobs = []
        ns = NSHARD_THOROUGH
        for i in range(ns):
            jobs.append({"engine": "sched-borrow", "name": f"sb-2x3-{i}",
                         "args": ["--threads", 2, "--maxlen", 3, "--shard", i, "--nshards", ns]})
        if q:
            jobs.append({"engine": "sched-borrow", "name": "sb-3x1", "args": ["--threads", 3, "--maxlen", 1]})
        else:
            for i in range(ns):
                jobs.append({"engine": "sched-borrow", "name": f"sb-3x2-{i}",
                             "args": ["--threads", 3, "--maxlen", 2, "--shard", i, "--nshards", ns, "--cap", 400]})
        return {"jobs": jobs, "nontrivial_min_lines": 5, "exhaustive": True, "exhaustive_note":
                "all interleavings (atomic-step granularity) of all program tuples over {borrow, borrow_mut, release, release_mut}",
                "rule": "one case = one schedule (interleaving) of one tuple of per-thread programs over "
                        "{borrow, borrow_mut, release, release_mut}, enumerated depth-first; distinct = distinct "
                        "(program tuple, schedule); non-trivial = at least 3 atomic steps",
                "trusted_base": ["cooperative scheduler harness/src/sched.rs driving the yield hooks in borrow.rs",
                                 "translator tools/extract_facts.py for the call sites and orderings",
                                 "C++/Rust memory model: the model is sequentially consistent per location; the "
                                 "release/acquire sufficiency is argued from the extracted orderings (DESIGN §5.C06)"],
                "assumptions": ["fewer than 2^63 simultaneous shared borrows (counter-overflow panics out of scope)",
                                "hardware reordering is not exhibited; orderings are checked syntactically (orderings_sufficient)"]}
    if pid == "C07":
        jobs = []
        ns = NSHARD_THOROUGH
        for i in range(ns):
            jobs.append({"engine": "sched-reserve", "name": f"sr-2x2-{i}",
                         "args": ["--threads", 2, "--maxlen", 2, "--shard", i, "--nshards", ns]})
        if not q:
            for i in range(ns):
                jobs.append({"engine": "sched-reserve", "name": f"sr-3x1-{i}",
                             "args": ["--threads", 3, "--maxlen", 1, "--shard", i, "--nshards", ns]})
                jobs.append({"engine": "sched-reserve", "name": f"sr-2x3-{i}",
                             "args": ["--threads", 2, "--maxlen", 3, "--shard", i, "--nshards", ns, "--cap", 60]})
        jobs += world_jobs(["reserve"], tier, seed, 60, 20000)
        return {"jobs": jobs, "nontrivial_min_lines": 8, "exhaustive": True, "exhaustive_note":
                "all interleavings of all 2-thread program tuples (length <= 2) over {reserve_entity, reserve_entities(0/2/3), "
                "contains(own/live), contains(dead)} on worlds with free lists of 0,0,1,2,4 ids; the single-threaded "
                "mixed histories (engine world, profile reserve) are sampled",
                "rule": "one case = one schedule of one program tuple on one initial world, enumerated depth-first, or one "
                        "seeded single-threaded history mixing reservation with all world operations; non-trivial = at "
                        "least 2 calls before the flush",
                "trusted_base": WORLD_TRUST + ["cooperative scheduler harness/src/sched.rs driving the yield hooks in entities.rs",
                                               "translator tools/extract_facts.py for the atomic call sites"],
                "assumptions": ["one atomic access per call (checked: yield count per call == 1) makes every interleaving a "
                                "sequential order of calls; Relaxed ordering suffices because nothing else is published"]}
    raise SystemExit(f"no plan for property {pid}")
