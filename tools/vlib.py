"""Driver library for ./check (see DESIGN.md §2, §3.5)."""
import sys, os, re, json, time, subprocess, shutil, hashlib, fcntl, glob, random
from concurrent.futures import ThreadPoolExecutor

VERIF = os.path.dirname(os.path.dirname(os.path.abspath(__file__)))
LEAN = os.path.join(VERIF, "lean")
HARNESS_SRC = os.path.join(VERIF, "harness")
# The registered commands always check /repo.  VERIF_REPO points the same machinery at another
# checkout (a scratch worktree holding a seeded change) without touching /repo; the harness crate is
# then built from a scratch copy whose path dependency names that checkout.
REPO = os.environ.get("VERIF_REPO", "/repo")
TMP = os.path.join(VERIF, "tmp")


def _harness_dir():
    if REPO == "/repo":
        return HARNESS_SRC
    d = os.path.join(TMP, "harness-" + hashlib.sha1(REPO.encode()).hexdigest()[:10])
    os.makedirs(d, exist_ok=True)
    for f in ("Cargo.lock", ".cargo", "src"):
        src, dst = os.path.join(HARNESS_SRC, f), os.path.join(d, f)
        if os.path.isdir(src):
            shutil.copytree(src, dst, dirs_exist_ok=True)
        else:
            shutil.copy(src, dst)
    toml = open(os.path.join(HARNESS_SRC, "Cargo.toml")).read().replace('path = "/repo"', 'path = "%s"' % REPO)
    with open(os.path.join(d, "Cargo.toml"), "w") as f:
        f.write(toml)
    return d


HARNESS = _harness_dir()
# evidence and replay files of the registered runs live in /verif; runs against another checkout keep theirs
# apart (they describe that checkout, not /repo)
OUTROOT = VERIF if REPO == "/repo" else os.path.join(TMP, "alt-" + hashlib.sha1(REPO.encode()).hexdigest()[:10])
JUDGE = os.path.join(LEAN, ".lake", "build", "bin", "hecs_judge")
ALLOWED_AXIOMS = {"propext", "Classical.choice", "Quot.sound"}
# a harness job or a replay that does not come back is reported, not waited for
JOB_TIMEOUT = int(os.environ.get("VERIF_JOB_TIMEOUT", "5400"))
REPLAY_TIMEOUT = int(os.environ.get("VERIF_REPLAY_TIMEOUT", "180"))
SHRINK_SECONDS = int(os.environ.get("VERIF_SHRINK_SECONDS", "900"))
MIRI_ENV = {"RUSTFLAGS": "--cfg hecs_verif", "CARGO_NET_OFFLINE": "true",
            "MIRIFLAGS": "-Zmiri-disable-isolation -Zmiri-ignore-leaks -Zmiri-permissive-provenance",
            "CARGO_TARGET_DIR": os.path.join(HARNESS, "target", "miri")}
NCPU = os.cpu_count() or 4

sys.path.insert(0, os.path.join(VERIF, "tools"))
import props as PROPS  # noqa: E402  per-property plans


def log(*a):
    print(*a, file=sys.stderr, flush=True)


class Lock:
    def __init__(self, path):
        self.path = path

    def __enter__(self):
        os.makedirs(os.path.dirname(self.path), exist_ok=True)
        self.f = open(self.path, "w")
        fcntl.flock(self.f, fcntl.LOCK_EX)

    def __exit__(self, *a):
        fcntl.flock(self.f, fcntl.LOCK_UN)
        self.f.close()


def run(cmd, cwd=None, env=None, timeout=None, stdin=None):
    e = dict(os.environ)
    e.update({"CARGO_NET_OFFLINE": "true"})
    if env:
        e.update(env)
    p = subprocess.run(cmd, cwd=cwd, env=e, stdout=subprocess.PIPE, stderr=subprocess.STDOUT,
                       timeout=timeout, input=stdin, text=True)
    return p.returncode, p.stdout


# ------------------------------------------------------------------------------------------
# (P) proof obligations

def lean_generate():
    """translator: regenerate HecsModel/Generated/*.lean from /repo sources"""
    tool = os.path.join(VERIF, "tools", "extract_facts.py")
    if not os.path.exists(tool):
        return {"status": "absent"}
    rc, out = run([sys.executable, tool, REPO, os.path.join(LEAN, "HecsModel", "Generated")])
    try:
        return json.loads(out.strip().splitlines()[-1])
    except Exception:
        return {"status": "error", "detail": out[-2000:]}


def lean_build(targets):
    with Lock(os.path.join(TMP, "lean.lock")):
        t0 = time.time()
        rc, out = run(["lake", "build"] + targets, cwd=LEAN, timeout=3600)
        return rc, out, time.time() - t0


def strip_comments(src):
    # remove /- ... -/ (nested) and -- ... comments
    out, i, depth = [], 0, 0
    while i < len(src):
        if src.startswith("/-", i):
            depth += 1
            i += 2
        elif depth and src.startswith("-/", i):
            depth -= 1
            i += 2
        elif depth:
            i += 1
        elif src.startswith("--", i):
            while i < len(src) and src[i] != "\n":
                i += 1
        else:
            out.append(src[i])
            i += 1
    return "".join(out)


FORBIDDEN = re.compile(r"\b(sorry|admit|native_decide|implemented_by|unsafe)\b|^\s*axiom\s|maxHeartbeats\s+0")


def lean_scan_forbidden():
    hits = []
    for path in glob.glob(os.path.join(LEAN, "**", "*.lean"), recursive=True):
        if "/.lake/" in path:
            continue
        src = strip_comments(open(path).read())
        for n, line in enumerate(src.splitlines(), 1):
            if FORBIDDEN.search(line):
                hits.append(f"{os.path.relpath(path, LEAN)}:{n}: {line.strip()[:120]}")
    return hits


def prop_theorems(pid):
    """(fully qualified name, statement) of the theorems in Props/<pid>.lean"""
    paths = prop_files(pid)
    if not paths:
        return []
    res = []
    for path in paths:
        res += theorems_of(path)
    return res


def prop_files(pid):
    """Props/<pid>.lean plus companion files Props/<pid><Suffix>.lean (suffix starts with a letter)"""
    out = []
    for f in sorted(glob.glob(os.path.join(LEAN, "HecsModel", "Props", pid + "*.lean"))):
        rest = os.path.basename(f)[len(pid):-5]
        if rest == "" or rest[0].isalpha():
            out.append(f)
    return out


def theorems_of(path):
    src = strip_comments(open(path).read())
    res = []
    stack = []
    for m in re.finditer(r"^(namespace\s+(\S+)|end\s+(\S+)|theorem\s+([A-Za-z0-9_.'!?]+)([\s\S]*?):=)", src, re.M):
        if m.group(2):
            stack.append(m.group(2))
        elif m.group(3):
            if stack and stack[-1] == m.group(3):
                stack.pop()
        elif m.group(4):
            stmt = " ".join(m.group(5).split())
            res.append((".".join(stack + [m.group(4)]), stmt[:400]))
    return res


def lean_audit(pid, names):
    """#print axioms for every property theorem -> {name: [axioms]}"""
    os.makedirs(TMP, exist_ok=True)
    f = os.path.join(TMP, f"audit_{pid}.lean")
    with open(f, "w") as fh:
        for pf in prop_files(pid):
            fh.write(f"import HecsModel.Props.{os.path.basename(pf)[:-5]}\n")
        for n in names:
            fh.write(f"#print axioms {n}\n")
    rc, out = run(["lake", "env", "lean", f], cwd=LEAN, timeout=1800)
    res = {}
    # messages may wrap over several lines
    text = out.replace("\n  ", " ")
    for m in re.finditer(r"'(\S+)' depends on axioms: \[([^\]]*)\]", text):
        res[m.group(1)] = [a.strip() for a in m.group(2).split(",") if a.strip()]
    for m in re.finditer(r"'(\S+)' does not depend on any axioms", text):
        res[m.group(1)] = []
    return rc, res, out


def proof_obligations(pid, thorough=False):
    """returns dict(ok, obligations, discharged, theorems, failures, checker_cmd, wall)"""
    t0 = time.time()
    gen = lean_generate()
    mods = [f"HecsModel.Props.{os.path.basename(pf)[:-5]}" for pf in prop_files(pid)] or [f"HecsModel.Props.{pid}"]
    mod = mods[0]
    targets = mods + ["hecs_judge"]
    rc, out, _ = lean_build(targets)
    thms = prop_theorems(pid)
    info = {"checker_cmd": "cd /verif/lean && lake build " + " ".join(targets) +
            " && lake env lean <#print axioms of every property theorem>",
            "translator": gen, "theorems": [], "failures": [], "obligations": len(thms), "discharged": 0}
    if rc != 0:
        errs = [l for l in out.splitlines() if l.startswith("error")]
        info["failures"].append({"kind": "build", "detail": errs[:20] or out[-1500:]})
        # which theorems still check? unknown when the module fails: count none
        info["ok"] = False
        info["wall"] = time.time() - t0
        info["build_log"] = out[-4000:]
        return info
    forb = lean_scan_forbidden()
    if forb:
        info["failures"].append({"kind": "forbidden-token", "detail": forb[:20]})
    rc2, ax, aout = lean_audit(pid, [n for n, _ in thms])
    for n, stmt in thms:
        a = ax.get(n)
        entry = {"name": n, "statement": stmt, "axioms": a}
        if a is None:
            info["failures"].append({"kind": "audit-missing", "detail": n})
        elif not set(a) <= ALLOWED_AXIOMS:
            info["failures"].append({"kind": "axioms", "detail": f"{n}: {a}"})
        else:
            info["discharged"] += 1
        info["theorems"].append(entry)
    if thorough:
        rc3, o3 = run(["lake", "env", "leanchecker", mod], cwd=LEAN, timeout=3600)
        info["leanchecker_rc"] = rc3
        if rc3 != 0:
            info["failures"].append({"kind": "leanchecker", "detail": o3[-1000:]})
    info["ok"] = not info["failures"] and info["obligations"] > 0 and info["discharged"] == info["obligations"]
    info["wall"] = time.time() - t0
    return info


# ------------------------------------------------------------------------------------------
# harness

def harness_build(release=False):
    """build the harness (and hecs from /repo's working tree, hooks on)"""
    with Lock(os.path.join(TMP, "cargo.lock")):
        cmd = ["cargo", "build", "--offline"] + (["--release"] if release else [])
        rc, out = run(cmd, cwd=HARNESS, env={"RUSTFLAGS": "--cfg hecs_verif"}, timeout=3600)
    exe = os.path.join(HARNESS, "target", "release" if release else "debug", "hecs-verif-harness")
    repo_broken = rc != 0 and re.search(r"could not compile `hecs(-macros)?`", out) is not None
    return rc, out, exe, repo_broken


def judge(trace_path, out_path):
    with open(trace_path) as fi, open(out_path, "w") as fo:
        p = subprocess.run([JUDGE], stdin=fi, stdout=fo, stderr=subprocess.PIPE, text=True)
    return p.returncode, p.stderr


def classify(trace_path, judge_path):
    """per history: status in ok|DIFF|SPEC|INV|ERR plus the first offending line"""
    res = []
    cur = None
    with open(trace_path) as ft, open(judge_path) as fj:
        tl = ft.read().splitlines()
        jl = fj.read().splitlines()
    n_lines = len(tl)
    if len(jl) < len(tl):
        jl += ["ERR judge produced no answer"] * (len(tl) - len(jl))
    advisory = 0
    for i, (t, j) in enumerate(zip(tl, jl)):
        if t.startswith("history "):
            cur = {"header": t, "status": "ok", "line": None, "judge": None, "first": i, "n": 0, "panic": None}
            res.append(cur)
            continue
        if cur is None:
            continue
        cur["n"] += 1
        if t.startswith("#panic"):
            cur["panic"] = t
        if j.startswith("IDIFF"):
            advisory += 1
            continue
        kind = j.split(" ")[0]
        if kind in ("DIFF", "SPEC", "INV", "ERR"):
            cur.setdefault("events", []).append((kind, t, j))
        if kind in ("DIFF", "SPEC", "INV", "ERR") and (
                cur["status"] == "ok" or (kind in ("SPEC", "INV") and cur["status"] == "DIFF")):
            # a specification/invariant failure later in the history outranks the model difference
            cur["status"] = kind
            cur["line"] = t
            cur["judge"] = j
            cur["at"] = i - cur["first"]
    return res, n_lines, advisory


CURRENT_PID = [None]


def effective(h, eng):
    """status of a history once lines explained by listed known findings are set aside:
    returns (status, line, judge); status KNOWN when nothing else fails"""
    pid = CURRENT_PID[0]
    evs = h.get("events", [])
    if h["status"] == "ok" or not evs or pid is None:
        return h["status"], h.get("line"), h.get("judge")
    unmatched = [e for e in evs if not match_known(pid, f"{eng} {e[0]} {e[1][:200]} :: {e[2][:300]}")]
    if not unmatched:
        return "KNOWN", evs[0][1], evs[0][2]
    if len(unmatched) == len(evs):
        return h["status"], h.get("line"), h.get("judge")
    pref = [e for e in unmatched if e[0] in ("SPEC", "INV")] or unmatched
    return pref[0][0], pref[0][1], pref[0][2]


def history_ops(ops_path, header):
    """op lines of one history from an ops file"""
    out, on = [], False
    for line in open(ops_path).read().splitlines():
        if line.startswith("history "):
            on = (line == header)
            continue
        if on:
            out.append(line)
    return out


def replay(exe, engine, header, ops, workdir, tag="r"):
    """run an op list through harness+judge; returns (status, detail dict)"""
    os.makedirs(workdir, exist_ok=True)
    opsf = os.path.join(workdir, f"{tag}.ops")
    with open(opsf, "w") as f:
        f.write(header + "\n" + "\n".join(ops) + "\n")
    tr = os.path.join(workdir, f"{tag}.trace")
    with open(tr, "w") as fo:
        try:
            p = subprocess.run([exe, engine, "replay", opsf], stdout=fo, stderr=subprocess.PIPE, text=True,
                               timeout=REPLAY_TIMEOUT)
        except subprocess.TimeoutExpired:
            # a replay that does not come back is a failure of its own kind (non-termination inside hecs)
            return "CRASH", {"rc": -999, "stderr": f"no result within {REPLAY_TIMEOUT}s (non-termination?)", "hist": None}
    if p.returncode == 3:
        return "HARNESS", {"stderr": p.stderr[-2000:]}
    crashed = p.returncode != 0
    jo = os.path.join(workdir, f"{tag}.judge")
    judge(tr, jo)
    hs, _, _ = classify(tr, jo)
    if crashed:
        return "CRASH", {"rc": p.returncode, "stderr": p.stderr[-1500:], "hist": hs[-1] if hs else None}
    if not hs:
        return "ok", {}
    h = hs[-1]
    st, line, jl = effective(h, engine)
    h = dict(h)
    h["status"], h["line"], h["judge"] = st, line, jl
    return st, h


def shrink(exe, engine, header, ops, want, workdir, budget=400):
    """delta debugging: smallest op list that still yields status `want`"""
    cur = list(ops)
    n = 2
    tries = 0
    t_end = time.time() + SHRINK_SECONDS
    while len(cur) >= 2 and tries < budget and time.time() < t_end:
        chunk = max(1, len(cur) // n)
        reduced = False
        i = 0
        while i < len(cur) and tries < budget and time.time() < t_end:
            cand = cur[:i] + cur[i + chunk:]
            tries += 1
            st, _ = replay(exe, engine, header, cand, workdir, "s")
            if st == want:
                cur = cand
                n = max(n - 1, 2)
                reduced = True
            else:
                i += chunk
        if not reduced:
            if chunk == 1:
                break
            n = min(n * 2, len(cur))
    return cur


def run_job(exe, job, workdir):
    """one harness invocation + judge; returns dict"""
    os.makedirs(workdir, exist_ok=True)
    for f in ("trace.txt", "ops.txt", "stats.json", "judge.txt"):
        try:
            os.remove(os.path.join(workdir, f))
        except FileNotFoundError:
            pass
    cmd = [exe, job["engine"], "gen", "--out", workdir] + [str(x) for x in job["args"]]
    t0 = time.time()
    if job.get("miri"):
        # the same harness, interpreted by Miri: undefined behaviour in hecs' unsafe code that happens to
        # produce plausible values is visible only here (supports the search for a failing input; C04)
        env = dict(os.environ)
        env.update(MIRI_ENV)
        cmd = ["cargo", "+nightly", "miri", "run", "--offline", "--"] + cmd[1:]
        try:
            p = subprocess.run(cmd, cwd=HARNESS, env=env, stdout=subprocess.PIPE, stderr=subprocess.PIPE, text=True,
                               timeout=job.get("timeout", 3600))
        except subprocess.TimeoutExpired:
            return {"job": job, "rc": 0, "stderr": "", "workdir": workdir, "histories": [], "lines": 0, "miri": "timeout"}
        ub = re.search(r"error: Undefined Behavior: [^\n]*", p.stderr)
        res = {"job": job, "rc": 0, "stderr": p.stderr[-3000:], "workdir": workdir,
               "miri": "ub" if ub else ("ok" if p.returncode == 0 else "unavailable"),
               "miri_message": (ub.group(0) + " @ " + " | ".join([x for x in re.findall(r"--> ([^\n]*)", p.stderr) if "/rustlib/" not in x][:2])) if ub else p.stderr[-400:]}
    else:
        try:
            p = subprocess.run(cmd, stdout=subprocess.PIPE, stderr=subprocess.PIPE, text=True, timeout=JOB_TIMEOUT)
            res = {"job": job, "rc": p.returncode, "stderr": p.stderr[-3000:], "workdir": workdir}
        except subprocess.TimeoutExpired:
            # handled like a crash: the last history in ops.txt is replayed (with its own timeout) and reported
            res = {"job": job, "rc": -999, "stderr": f"harness job produced no result within {JOB_TIMEOUT}s (non-termination?)",
                   "workdir": workdir}
    tr = os.path.join(workdir, "trace.txt")
    if not os.path.exists(tr):
        res["histories"] = []
        res["lines"] = 0
        return res
    judge(tr, os.path.join(workdir, "judge.txt"))
    hs, n, adv = classify(tr, os.path.join(workdir, "judge.txt"))
    res["histories"] = hs
    res["lines"] = n
    res["advisory"] = adv
    try:
        res["stats"] = json.load(open(os.path.join(workdir, "stats.json")))
    except Exception:
        res["stats"] = None
    res["wall"] = time.time() - t0
    return res


# ------------------------------------------------------------------------------------------
# known findings

def load_known():
    try:
        return json.load(open(os.path.join(VERIF, "known_findings.json")))
    except Exception:
        return {"fixed": [], "open": []}


def match_known(pid, text):
    for k in load_known().get("open", []):
        if k.get("property") == pid and re.search(k["signature"], text):
            return k
    return None


# ------------------------------------------------------------------------------------------
# evidence

def write_evidence(pid, ev):
    os.makedirs(os.path.join(OUTROOT, "evidence"), exist_ok=True)
    path = os.path.join(OUTROOT, "evidence", pid + ".json")
    with open(path, "w") as f:
        json.dump(ev, f, indent=1, sort_keys=True)
    return path


def sample_lines(path, k=3, maxlen=300):
    out = []
    try:
        lines = [l for l in open(path).read().splitlines() if not l.startswith("#")]
    except Exception:
        return out
    if not lines:
        return out
    rnd = random.Random(len(lines))
    for _ in range(k):
        i = rnd.randrange(len(lines))
        out.append(lines[i][:maxlen])
    return out


# ------------------------------------------------------------------------------------------
# main check

def check(pid, tier, seed, replay_file=None):
    t0 = time.time()
    CURRENT_PID[0] = pid
    plan = PROPS.plan(pid, tier, seed)
    os.makedirs(TMP, exist_ok=True)
    work = os.path.join(TMP, pid)
    shutil.rmtree(work, ignore_errors=True)
    os.makedirs(work, exist_ok=True)
    os.makedirs(os.path.join(OUTROOT, "replays"), exist_ok=True)
    if not replay_file:
        for old in glob.glob(os.path.join(OUTROOT, "replays", pid + "-*")):
            os.remove(old)
    violations = []   # (replay path, suffix, description)
    known_hits = []
    inconclusive = []

    # ---- (P)
    P = proof_obligations(pid, thorough=(tier == "thorough"))
    log(f"[{pid}] proof obligations: {P['discharged']}/{P['obligations']} ok={P['ok']} ({P['wall']:.1f}s)")
    if not os.path.exists(JUDGE):
        print(f"INCONCLUSIVE property={pid} judge binary missing")
        return 2

    # ---- harness build
    rc, out, exe, repo_broken = harness_build(release=False)
    exe_rel = None
    if rc != 0:
        if repo_broken:
            rp = os.path.join(OUTROOT, "replays", f"{pid}-build.txt")
            with open(rp, "w") as f:
                f.write("hecs does not build with --cfg hecs_verif; nothing can be shown about it.\n"
                        f"correspondence: engine(s) {[j['engine'] for j in plan['jobs']]}\n\n" + out[-6000:])
            violations.append((rp, "no-failing-input-found", "repo does not build"))
            return finish(pid, tier, seed, t0, P, [], violations, known_hits, plan)
        print(f"INCONCLUSIVE property={pid} harness build failed")
        log(out[-3000:])
        return 2
    if plan.get("release") or any(j.get("also_release") for j in plan.get("jobs", [])):
        rc, out, exe_rel, _ = harness_build(release=True)
        if rc != 0:
            exe_rel = None

    # ---- replay mode
    if replay_file:
        text = open(replay_file).read().splitlines()
        header = next((l for l in text if l.startswith("history ")), "history %s 0" % plan["jobs"][0]["engine"])
        ops = [l for l in text if l and not l.startswith("history ") and not l.startswith("#") and not l.startswith("//")]
        engine = header.split()[1]
        st, d = replay(exe, engine, header, ops, work, "replay")
        tr = os.path.join(work, "replay.trace")
        jo = os.path.join(work, "replay.judge")
        if os.path.exists(tr) and os.path.exists(jo):
            for t, j in zip(open(tr).read().splitlines(), open(jo).read().splitlines()):
                if j != "ok":
                    print(f"{j[:300]}   <= {t[:300]}")
        print(f"replay status: {st}")
        if st in ("ok",):
            return 0
        print(f"VIOLATION property={pid} replay={replay_file}")
        return 1

    # ---- corpus first, then generated jobs
    jobs = []
    for j in plan["jobs"]:
        jobs.append((exe, j))
        if exe_rel and j.get("also_release"):
            jr = dict(j)
            jr["name"] = j["name"] + "-release"
            jobs.append((exe_rel, jr))
    results = []
    if any(j.get("miri") for _, j in jobs):
        env = dict(os.environ)
        env.update(MIRI_ENV)
        with Lock(os.path.join(TMP, "cargo-miri.lock")):
            pm = subprocess.run(["cargo", "+nightly", "miri", "run", "--offline", "--", "bits", "gen", "--seed", "1", "--count", "1",
                                 "--out", os.path.join(work, "miri-warmup")], cwd=HARNESS, env=env,
                                stdout=subprocess.PIPE, stderr=subprocess.PIPE, text=True)
        if pm.returncode != 0:
            log(f"[{pid}] Miri is not usable here ({pm.stderr[-200:].strip()}); its jobs are skipped")
            jobs = [(e, j) for e, j in jobs if not j.get("miri")]
    with ThreadPoolExecutor(max_workers=min(NCPU, max(1, len(jobs)))) as ex:
        futs = [ex.submit(run_job, e, j, os.path.join(work, j["name"])) for e, j in jobs]
        for f in futs:
            results.append(f.result())
    corpus_dir = os.path.join(VERIF, "corpus", pid)
    corpus_results = []
    for cf in sorted(glob.glob(os.path.join(corpus_dir, "*.ops"))):
        text = open(cf).read().splitlines()
        header = next((l for l in text if l.startswith("history ")), None)
        if not header:
            continue
        ops = [l for l in text if l and not l.startswith("history ") and not l.startswith("#")]
        st, d = replay(exe, header.split()[1], header, ops, os.path.join(work, "corpus"), os.path.basename(cf))
        corpus_results.append((cf, st, d))

    # ---- verdicts
    for cf, st, d in corpus_results:
        if st == "ok":
            continue
        if st == "HARNESS":
            inconclusive.append(f"harness bug on corpus {cf}: {d}")
            continue
        desc = f"corpus {os.path.basename(cf)} status={st} {json.dumps(d)[:300]}"
        k = match_known(pid, desc)
        if k:
            known_hits.append((k, desc))
        else:
            violations.append((cf, "" if st in ("SPEC", "CRASH", "INV") else "no-failing-input-found", desc))

    shrunk = 0
    seen_headers = set()
    for r in results:
        job = r["job"]
        eng = job["engine"]
        if r["rc"] == 3:
            inconclusive.append(f"harness bug in job {job['name']}: {r['stderr'][-500:]}")
            continue
        if r.get("miri") == "ub":
            opsf = os.path.join(r["workdir"], "ops.txt")
            hdrs = [l for l in open(opsf).read().splitlines() if l.startswith("history ")] if os.path.exists(opsf) else []
            rp = os.path.join(OUTROOT, "replays", f"{pid}-{eng}-miri-{hdrs[-1].split()[-1] if hdrs else 'none'}.ops")
            with open(rp, "w") as f:
                f.write(f"# property {pid}; Miri reported undefined behaviour while executing this history\n")
                f.write(f"# {r['miri_message'][:600]}\n")
                f.write("# replay: cd harness && RUSTFLAGS='--cfg hecs_verif' MIRIFLAGS='%s' cargo +nightly miri run --offline -- %s replay <this file>\n"
                        % (MIRI_ENV["MIRIFLAGS"], eng))
                if hdrs:
                    f.write(hdrs[-1] + "\n" + "\n".join(history_ops(opsf, hdrs[-1])) + "\n")
            desc = f"{eng} MIRI {r['miri_message'][:300]}"
            k = match_known(pid, desc)
            if k:
                known_hits.append((k, desc))
            else:
                violations.append((rp, "", desc))
        bad = []
        for h in r["histories"]:
            if h["status"] == "ok":
                continue
            st, line, jl = effective(h, eng)
            if st == "KNOWN":
                k = match_known(pid, f"{eng} {h['events'][0][0]} {line[:200]} :: {jl[:300]}")
                known_hits.append((k, f"{eng} {h['header']} {jl[:200]}"))
                continue
            h["status"], h["line"], h["judge"] = st, line, jl
            bad.append(h)
        crashed = r["rc"] != 0
        exe_j = exe_rel if job["name"].endswith("-release") and exe_rel else exe
        handled = 0
        # specification failures first
        bad.sort(key=lambda h: 0 if h["status"] in ("SPEC", "INV") else 1)
        for h in bad[:2]:
            if h["status"] == "ERR":
                inconclusive.append(f"judge error in {job['name']}: {h['judge']} on {h['line']}")
                continue
            if (eng, h["header"]) in seen_headers or shrunk >= 3:
                continue
            seen_headers.add((eng, h["header"]))
            shrunk += 1
            ops = history_ops(os.path.join(r["workdir"], "ops.txt"), h["header"])
            small = shrink(exe_j, eng, h["header"], ops, h["status"], os.path.join(work, "shrink")) if ops else ops
            st, d = replay(exe_j, eng, h["header"], small, os.path.join(work, "shrink"), "final")
            if st != h["status"]:
                small = ops
                st, d = replay(exe_j, eng, h["header"], small, os.path.join(work, "shrink"), "final")
            hid = h["header"].split()[-1]
            rp = os.path.join(OUTROOT, "replays", f"{pid}-{eng}-{hid}.ops")
            with open(rp, "w") as f:
                f.write(f"# property {pid}; engine {eng}; job {job['name']}; status {st}\n")
                f.write(f"# first offending line: {str(d.get('line'))[:500]}\n")
                f.write(f"# judge: {str(d.get('judge'))[:500]}\n")
                f.write(h["header"] + "\n" + "\n".join(small) + "\n")
            desc = f"{eng} {st} {str(d.get('line'))[:200]} :: {str(d.get('judge'))[:200]}"
            k = match_known(pid, desc)
            if k:
                known_hits.append((k, desc))
                continue
            handled += 1
            if st in ("SPEC", "INV", "CRASH"):
                violations.append((rp, "", desc))
            else:
                # correspondence broke but the property's own predicate was not seen to fail
                with open(rp, "a") as f:
                    f.write("# correspondence `model = implementation` (engine %s) no longer checks on this history;\n"
                            "# the specification oracle accepted the implementation's behaviour on everything searched.\n" % eng)
                violations.append((rp, "no-failing-input-found", desc))
        if crashed and not bad:
            # the process died inside a history: the last header in ops.txt names it
            opsf = os.path.join(r["workdir"], "ops.txt")
            hdrs = [l for l in open(opsf).read().splitlines() if l.startswith("history ")] if os.path.exists(opsf) else []
            if hdrs:
                ops = history_ops(opsf, hdrs[-1])
                st, d = replay(exe_j, eng, hdrs[-1], ops, os.path.join(work, "crash"), "crash")
                if st == "CRASH":
                    small = shrink(exe_j, eng, hdrs[-1], ops, "CRASH", os.path.join(work, "crash"))
                    rp = os.path.join(OUTROOT, "replays", f"{pid}-{eng}-crash-{hdrs[-1].split()[-1]}.ops")
                    with open(rp, "w") as f:
                        f.write(f"# property {pid}; process aborted (signal/alloc failure) while executing this history\n")
                        f.write(hdrs[-1] + "\n" + "\n".join(small) + "\n")
                    desc = f"{eng} CRASH rc={r['rc']} {r['stderr'][-300:]}"
                    k = match_known(pid, desc)
                    if k:
                        known_hits.append((k, desc))
                    else:
                        violations.append((rp, "", desc))
                else:
                    inconclusive.append(f"job {job['name']} died (rc={r['rc']}) but the history does not reproduce: {r['stderr'][-300:]}")
            else:
                inconclusive.append(f"job {job['name']} died before any history: {r['stderr'][-300:]}")

    # ---- (P) failure without any concrete failing input
    if not P["ok"] and not [v for v in violations if v[1] == ""]:
        rp = os.path.join(OUTROOT, "replays", f"{pid}-proof.txt")
        with open(rp, "w") as f:
            f.write(f"property {pid}: proof obligations no longer check ({P['discharged']}/{P['obligations']}).\n")
            for fl in P["failures"]:
                f.write(json.dumps(fl)[:3000] + "\n")
            f.write("\nThe correspondence/specification search of this run found no failing input.\n")
        violations.append((rp, "no-failing-input-found", "proof obligations failed"))

    if inconclusive and not violations:
        for m in inconclusive:
            log("INCONCLUSIVE:", m)
        print(f"INCONCLUSIVE property={pid} ({len(inconclusive)} harness/judge problems)")
        finish(pid, tier, seed, t0, P, results, violations, known_hits, plan, note="inconclusive: " + "; ".join(inconclusive)[:500])
        return 2
    return finish(pid, tier, seed, t0, P, results, violations, known_hits, plan)


def finish(pid, tier, seed, t0, P, results, violations, known_hits, plan, note=None):
    evals = sum(len(r.get("histories", [])) for r in results)
    lines = sum(r.get("lines", 0) for r in results)
    # distinct non-trivial: distinct history headers whose trace has > 5 executed ops and which passed
    seen = set()
    nontrivial = 0
    for r in results:
        for h in r.get("histories", []):
            key = (r["job"]["engine"], r["job"]["name"].replace("-release", ""), h["header"])
            if key in seen:
                continue
            seen.add(key)
            if h["n"] >= plan.get("nontrivial_min_lines", 6):
                nontrivial += 1
    samples = []
    for r in results[:3]:
        samples += sample_lines(os.path.join(r["workdir"], "trace.txt"), 2)
    for t in P["theorems"][:6]:
        samples.append({"theorem": t["name"], "statement": t["statement"][:300], "axioms": t["axioms"]})
    stats = {}
    for r in results:
        s = r.get("stats") or {}
        for k, v in s.items():
            if isinstance(v, dict):
                d = stats.setdefault(k, {})
                for kk, vv in v.items():
                    d[kk] = d.get(kk, 0) + vv
            elif isinstance(v, (int, float)):
                stats[k] = max(stats.get(k, 0), v) if k.startswith("max") else stats.get(k, 0) + v
    cov = {
        "obligations": max(P["obligations"], 0),
        "discharged": P["discharged"],
        "checker_cmd": P["checker_cmd"],
        "trusted_base": plan.get("trusted_base", []) + [
            "Lean 4.33 kernel; axioms allowed in property theorems: propext, Classical.choice, Quot.sound",
            "correspondence check: harness generators, canonicalisation, hooks' dumps, judge parser",
        ],
        "evaluations": max(evals, 0),
        "distinct_nontrivial": nontrivial,
        "rule": plan.get("rule", "histories generated from VERIF_SEED by the engine's structured generator; "
                          "distinct = distinct per-history seed; non-trivial = at least 6 executed operations"),
        "traces_validated_against_impl": evals,
        "trace_lines_compared": lines,
        "samples": samples or ["(no samples)"],
        "theorems": P["theorems"],
        "proof_failures": P["failures"],
        "translator": P.get("translator"),
        "jobs": [{"name": r["job"]["name"], "engine": r["job"]["engine"], "args": r["job"]["args"],
                  "histories": len(r.get("histories", [])), "lines": r.get("lines", 0),
                  "failed": len([h for h in r.get("histories", []) if h["status"] != "ok"]),
                  "advisory_internal_differences": r.get("advisory", 0),
                  **({"miri": r["miri"]} if r.get("miri") else {})} for r in results],
        "input_distribution": stats,
        "known_findings_hit": [k["signature"] for k, _ in known_hits],
        "exhaustive": bool(plan.get("exhaustive", False)),
    }
    if plan.get("exhaustive_note"):
        cov["exhaustive_scope"] = plan["exhaustive_note"]
    if note:
        cov["note"] = note
    ev = {
        "property_id": pid, "tier": tier, "seed": seed, "level": "proof", "coverage": cov,
        "assumptions": plan.get("assumptions", []),
        "wall_s": round(time.time() - t0, 2),
        "violations": len(violations),
    }
    write_evidence(pid, ev)
    printed = set()
    for k, desc in known_hits:
        if k["signature"] in printed:
            continue
        printed.add(k["signature"])
        print(f"KNOWN-FINDING: property={pid} {k['what']}")
    for rp, suffix, desc in violations:
        log(f"violation: {desc}")
        print(f"VIOLATION property={pid} replay={rp}" + (f" {suffix}" if suffix else ""))
    # disk is limited: the traces of jobs in which nothing failed are of no further use (the evidence file keeps
    # samples and counts; failing histories have been copied to replays/)
    for r in results:
        clean = r.get("rc", 0) == 0 and all(h["status"] == "ok" for h in r.get("histories", [])) and r.get("miri") != "ub"
        if clean and (tier == "thorough" or os.environ.get("VERIF_KEEP_TRACES") != "1"):
            for f in ("trace.txt", "judge.txt", "ops.txt"):
                try:
                    if tier == "thorough" or os.path.getsize(os.path.join(r["workdir"], f)) > 64 * 1024 * 1024:
                        os.remove(os.path.join(r["workdir"], f))
                except OSError:
                    pass
    if violations:
        return 1
    log(f"[{pid}] ok: {evals} histories, {lines} lines compared, {P['discharged']}/{P['obligations']} theorems, {time.time()-t0:.1f}s")
    return 0


def setup():
    os.makedirs(TMP, exist_ok=True)
    lean_generate()
    rc, out, dt = lean_build([])
    log(out[-3000:])
    if rc != 0:
        return rc
    rc, out, exe, _ = harness_build(False)
    if rc != 0:
        log(out[-3000:])
        return rc
    rc, out, exe, _ = harness_build(True)
    if rc != 0:
        log(out[-3000:])
    return rc


def main(argv):
    if not argv:
        print(__doc__)
        return 2
    if argv[0] == "setup":
        return setup()
    pid = argv[0]
    tier = os.environ.get("VERIF_TIER", "quick")
    seed = int(os.environ.get("VERIF_SEED", "1"))
    replay_file = None
    i = 1
    while i < len(argv):
        if argv[i] == "--tier":
            tier = argv[i + 1]
            i += 2
        elif argv[i] == "--seed":
            seed = int(argv[i + 1])
            i += 2
        elif argv[i] == "--replay":
            replay_file = argv[i + 1]
            i += 2
        else:
            i += 1
    if tier not in ("quick", "thorough"):
        tier = "quick"
    return check(pid, tier, seed, replay_file)
