#!/usr/bin/env python3
"""Confirm a seeded change in a scratch worktree and run checks against it.

  eval_mutant.py <name> <worktree> <property> <check ids...>

1. extracts the patch (git diff -- src macros) and the demonstration,
2. confirms: demo fails with the change, passes without; baseline suite passes with the change,
3. runs the given checks against the worktree (VERIF_REPO=<worktree>; /repo is not touched),
4. writes /verif/seeded/<name>/{patch.diff, demo.rs, README.md, meta.json}.
"""
import sys, os, subprocess, json, shutil, time

def sh(cmd, cwd=None, timeout=3600):
    p = subprocess.run(cmd, cwd=cwd, shell=True, stdout=subprocess.PIPE, stderr=subprocess.STDOUT, text=True, timeout=timeout)
    return p.returncode, p.stdout

name, wt, prop = sys.argv[1:4]
checks = sys.argv[4:]
out = f"/verif/seeded/{name}"
os.makedirs(out, exist_ok=True)
FEAT = "--features macros,column-serialize,row-serialize"
rc, patch = sh("git diff -- src macros", cwd=wt)
open(f"{out}/patch.diff", "w").write(patch)
for f in ("demo.rs", "README.md"):
    if os.path.exists(f"{wt}/DEMO/{f}"):
        shutil.copy(f"{wt}/DEMO/{f}", f"{out}/{f}")
meta = {"property": prop, "name": name, "ran": []}
# --- confirm the demonstration
if os.path.exists(f"{wt}/DEMO/demo.rs"):
    shutil.copy(f"{wt}/DEMO/demo.rs", f"{wt}/tests/demo.rs")
    rc1, o1 = sh(f"cargo test --offline {FEAT} --test demo 2>&1 | tail -n 15", cwd=wt)
    fails_with = "test result: FAILED" in o1 or "panicked" in o1 or "error: test failed" in o1 or "SIGABRT" in o1
    # (no `git stash`: the stash is shared by all worktrees of one repository)
    rcr, orr = sh(f"git apply -R {out}/patch.diff", cwd=wt)
    assert rcr == 0, orr
    rc2, o2 = sh(f"cargo test --offline {FEAT} --test demo 2>&1 | tail -n 8", cwd=wt)
    passes_without = "test result: ok" in o2
    rca, oa = sh(f"git apply {out}/patch.diff", cwd=wt)
    assert rca == 0, oa
    meta["demo_fails_with_change"] = fails_with
    meta["demo_passes_without_change"] = passes_without
    meta["ran"].append(f"cargo test --offline {FEAT} --test demo (with the change: {'fails' if fails_with else 'passes'}; reverted with git apply -R: {'passes' if passes_without else 'fails'})")
    os.remove(f"{wt}/tests/demo.rs")
# --- baseline suite with the change (demo removed)
rc3, o3 = sh("(cargo nextest run --workspace --no-fail-fast --test-threads 8 --offline 2>&1 || cargo test --workspace --no-fail-fast --offline 2>&1) | tail -n 6", cwd=wt)
meta["baseline_with_change"] = o3.strip().splitlines()[-3:]
meta["baseline_passes_with_change"] = ("88 passed" in o3 and "0 failed" not in o3.replace("0 failed", "")) or ("88 tests run: 88 passed" in o3)
meta["ran"].append("cargo nextest run --workspace --no-fail-fast --offline (with the change, demo removed)")
# --- run the checks against the worktree itself (VERIF_REPO); /repo is not touched, and the run's evidence and
# replay files are kept apart from the registered ones (tmp/alt-*)
results = {}
env_prefix = f"VERIF_REPO={wt} "
for c in checks:
    t0 = time.time()
    rc, o = sh(env_prefix + f"./check {c}", cwd="/verif", timeout=7200)
    lines = [l for l in o.splitlines() if l.startswith("VIOLATION") or l.startswith("KNOWN-FINDING") or l.startswith("INCONCLUSIVE")]
    detail = [l[:400] for l in o.splitlines() if l.startswith("violation:")][:2]
    results[c] = {"exit": rc, "verdict_lines": lines[:4], "first_violations": detail, "wall_s": round(time.time() - t0, 1)}
    # keep the replay of the first violation next to the seed
    for l in lines:
        if l.startswith("VIOLATION") and "replay=" in l:
            rp = l.split("replay=")[1].split()[0]
            if os.path.exists(rp):
                shutil.copy(rp, f"{out}/replay_{c}_{os.path.basename(rp)}")
            break
meta["checks"] = results
meta["detected_by"] = [c for c, r in results.items() if r["exit"] == 1]
meta["needs"] = ""
json.dump(meta, open(f"{out}/meta.json", "w"), indent=1)
print(json.dumps({k: meta[k] for k in ("demo_fails_with_change", "demo_passes_without_change", "baseline_passes_with_change", "detected_by") if k in meta}))
for c, r in results.items():
    print(c, r["exit"], r["verdict_lines"][:2], r["first_violations"][:1])
