import HecsModel.Model.World
/-
  Abstract specification of a world (C01, C02, C03-at-the-world, C09, C16): a plain finite map from
  entity handles to at-most-one-value-per-type component lists, plus the set of reserved handles and
  the ghost history C02 speaks about.  Transitions take the implementation's *choices* (which handle a
  spawn returned) as inputs and constrain them; everything else is determined.

  `Spec.apply s op res dropped` answers whether an operation `op` that returned `res` and dropped
  the values `dropped` is an allowed transition from `s`, and gives the successor state.
-/
namespace Hecs.Spec
open Hecs

structure SpecW where
  /-- live entities with their components, sorted by type -/
  live : List (Entity × List Comp) := []
  /-- reserved, not yet flushed -/
  reserved : List Entity := []
  /-- handles handed out since the last `clear` -/
  issued : List Entity := []
  /-- ids named by an id-targeted spawn since the last `clear` -/
  targeted : List Nat := []
  /-- ghost for C17: archetype generations observed so far with the archetype sets they stood for -/
  gens : List (Nat × String) := []
  /-- ghost for C18: the tracked component's value per entity at the previous `track` -/
  tprev : List (Entity × Nat) := []
  /-- a bulk reservation whose handles were not enumerated is outstanding (end of the id space): the
  reserved set is known only in part, so whole-world observations are not compared -/
  bulkOutstanding : Bool := false
  deriving Repr, Inhabited

namespace SpecW

def lookup (s : SpecW) (e : Entity) : Option (List Comp) := (s.live.find? (·.1 == e)).map (·.2)
def isLive (s : SpecW) (e : Entity) : Bool := s.live.any (·.1 == e)
def idLive (s : SpecW) (id : Nat) : Bool := s.live.any (·.1.id == id)
def erase (s : SpecW) (e : Entity) : SpecW := { s with live := s.live.filter (·.1 != e) }
def eraseId (s : SpecW) (id : Nat) : SpecW := { s with live := s.live.filter (·.1.id != id) }
def put (s : SpecW) (e : Entity) (cs : List Comp) : SpecW :=
  if s.isLive e then { s with live := s.live.map (fun p => if p.1 == e then (e, cs) else p) }
  else { s with live := s.live ++ [(e, cs)] }

/-- every outstanding reservation becomes a live entity without components -/
def flush (s : SpecW) : SpecW :=
  { s with live := s.live ++ s.reserved.map (fun e => (e, [])), reserved := [] }

/-- `contains` -/
def contains (s : SpecW) (e : Entity) : Bool := s.isLive e || s.reserved.contains e

/-- a handle a spawn-like call may return: not live, no live entity shares its id, not reserved, and
never handed out before (ids resurrected by an id-targeted spawn excepted) -/
def freshOk (s : SpecW) (e : Entity) : Bool :=
  !s.idLive e.id && !(s.reserved.any (·.id == e.id)) && (!s.issued.contains e || s.targeted.contains e.id)
    && e.gen ≥ 1

end SpecW

/-- components after inserting `b` over `old` (both at most one per type); result sorted by type -/
def overrideComps (old b : List Comp) : List Comp :=
  canon (b ++ old.filter (fun c => !(b.map (·.1)).contains c.1))

/-- multiset equality of component lists, over the component types that are instrumented with a drop
ledger (types 0–9 of the harness universe; the tracked value type 10 of C18 has no destructor) -/
def sameComps (a b : List Comp) : Bool :=
  let a := a.filter (fun c => c.1 < 10)
  let b := b.filter (fun c => c.1 < 10)
  let lt (x y : Comp) : Bool := x.1 < y.1 || (x.1 == y.1 && x.2 < y.2)
  let ins (x : Comp) (l : List Comp) : List Comp :=
    (l.takeWhile (fun y => lt y x)) ++ x :: (l.dropWhile (fun y => lt y x))
  a.foldr ins [] == b.foldr ins []

def noDupTypes (b : List Comp) : Bool := (b.map (·.1)).eraseDups.length == b.length

def check (c : Bool) (msg : String) : Except String Unit := if c then .ok () else .error msg

/-- spawn a list of rows whose handles the implementation chose -/
def spawnMany (s : SpecW) : List Entity → List (List Comp) → Except String SpecW
  | [], [] => .ok s
  | e :: es, b :: bs => do
    check (s.freshOk e) s!"spawned handle {e.id}v{e.gen} is not fresh"
    spawnMany ({ s with live := s.live ++ [(e, canon b)], issued := e :: s.issued }) es bs
  | _, _ => .error "number of handles differs from number of rows"

def spawnAtOne (s : SpecW) (h : Entity) (b : List Comp) : SpecW × List Comp :=
  let evicted := (s.live.filter (·.1.id == h.id)).flatMap (·.2)
  let s1 := s.eraseId h.id
  ({ s1 with live := s1.live ++ [(h, canon b)], targeted := h.id :: s1.targeted }, evicted)

def spawnAtMany (s : SpecW) : List Entity → List (List Comp) → List Comp → SpecW × List Comp
  | h :: hs, b :: bs, d => let (s', d') := spawnAtOne s h b; spawnAtMany s' hs bs (d ++ d')
  | _, _, d => (s, d)

/-- the transition relation, executable -/
def apply (s : SpecW) (op : Op) (res : Res) (dropped : List Comp) : Except String SpecW :=
  match op with
  | .spawn b => do
    let s := s.flush
    match res with
    | .ent e =>
      check (dropped == []) "spawn dropped something"
      spawnMany s [e] [b]
    | _ => .error "spawn must return a handle"
  | .spawnAt h b => do
    let s := s.flush
    check (res == .ok) "spawn_at must succeed"
    let (s', d) := spawnAtOne s h b
    check (sameComps d dropped) "spawn_at must drop exactly the evicted entity's components"
    pure s'
  | .spawnBatch _ rows | .spawnColumnBatch _ rows => do
    let s := s.flush
    match res with
    | .ents es =>
      check (dropped == []) "batch spawn dropped something"
      spawnMany s es rows
    | _ => .error "batch spawn must return handles"
  | .spawnColumnBatchAt hs _ rows =>
    if hs.length ≠ rows.length ∨ ¬ (hs.map (·.id)).Nodup then
      -- out-of-contract call: must be rejected; nothing is specified about the state afterwards
      (do check (res == .panic) "spawn_column_batch_at with repeated ids must be rejected"; pure s)
    else do
      let s := s.flush
      check (res == .ok) "spawn_column_batch_at must succeed"
      let (s', d) := spawnAtMany s hs rows []
      check (sameComps d dropped) "spawn_column_batch_at must drop exactly the evicted components"
      pure s'
  | .insert e b => do
    let s := s.flush
    match s.lookup e with
    | none =>
      check (res == .nosuch) "insert on a handle that is not live must report NoSuchEntity"
      check (sameComps dropped b) "rejected bundle must be dropped exactly once"
      pure s
    | some old =>
      check (res == .ok) "insert on a live entity must succeed"
      let bt := b.map (·.1)
      check (sameComps dropped (old.filter (fun c => bt.contains c.1))) "insert must drop exactly the replaced values"
      pure (s.put e (overrideComps old b))
  | .remove e ts => do
    let s := s.flush
    match s.lookup e with
    | none =>
      check (res == .nosuch) "remove on a handle that is not live must report NoSuchEntity"
      check (dropped == []) "failed remove dropped something"
      pure s
    | some old =>
      match World.bundleGet old ts with
      | none =>
        check (res == .missing) "remove of an absent component must report MissingComponent"
        check (dropped == []) "failed remove dropped something"
        pure s
      | some got =>
        check (res == .vals got) "remove must hand back exactly the named components"
        check (dropped == []) "remove dropped something"
        pure (s.put e (old.filter (fun c => !ts.contains c.1)))
  | .exchange e ts b => do
    let s := s.flush
    match s.lookup e with
    | none =>
      check (res == .nosuch) "exchange on a handle that is not live must report NoSuchEntity"
      check (sameComps dropped b) "rejected bundle must be dropped exactly once"
      pure s
    | some old =>
      match World.bundleGet old ts with
      | none =>
        check (res == .missing) "exchange of an absent component must report MissingComponent"
        check (sameComps dropped b) "rejected bundle must be dropped exactly once"
        pure s
      | some got =>
        check (res == .vals got) "exchange must hand back exactly the named components"
        let mid := old.filter (fun c => !ts.contains c.1)
        let bt := b.map (·.1)
        check (sameComps dropped (mid.filter (fun c => bt.contains c.1))) "exchange must drop exactly the replaced values"
        pure (s.put e (overrideComps mid b))
  | .despawn e => do
    let s := s.flush
    match s.lookup e with
    | none =>
      check (res == .nosuch) "despawn of a handle that is not live must report NoSuchEntity"
      check (dropped == []) "failed despawn dropped something"
      pure s
    | some old =>
      check (res == .ok) "despawn of a live entity must succeed"
      check (sameComps dropped old) "despawn must drop exactly the entity's components"
      pure (s.erase e)
  | .takeDrop e => do
    let s := s.flush
    match s.lookup e with
    | none =>
      check (res == .nosuch) "take of a handle that is not live must report NoSuchEntity"
      check (dropped == []) "failed take dropped something"
      pure s
    | some old =>
      check (res == .ok) "take of a live entity must succeed"
      check (sameComps dropped old) "a dropped TakenEntity must drop exactly the entity's components"
      pure (s.erase e)
  | .clear => do
    check (res == .ok) "clear"
    check (sameComps dropped (s.live.flatMap (·.2))) "clear must drop every stored component"
    pure { gens := s.gens, tprev := [] }
  | .flush => do
    check (res == .ok && dropped == []) "flush"
    pure s.flush
  | .reserve _ => do
    check (res == .ok && dropped == []) "reserve"
    pure s.flush
  | .reserveEntity =>
    match res with
    | .ent e => do
      check (s.freshOk e && dropped == []) s!"reserved handle {e.id}v{e.gen} is not fresh"
      pure { s with reserved := s.reserved ++ [e], issued := e :: s.issued }
    | _ => .error "reserve_entity must return a handle"
  | .reserveEntities n =>
    match res with
    | .ents es => do
      check (es.length == n && dropped == []) "reserve_entities must return the requested number of handles"
      es.foldlM (fun s e => do
        check (s.freshOk e) s!"reserved handle {e.id}v{e.gen} is not fresh"
        pure { s with reserved := s.reserved ++ [e], issued := e :: s.issued }) s
    | _ => .error "reserve_entities must return handles"

end Hecs.Spec
