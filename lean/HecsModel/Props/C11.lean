import HecsModel.Model.Containers
/-
  C11 — CommandBuffer replay equals direct application, in recorded order. (interim)
-/
namespace Hecs.Props.C11
open Hecs

/-- after `run_on` the buffer is empty and reusable -/
theorem runOn_empties (c : CmdBuf) (w : World) :
    (c.runOn w).1.cmds = [] ∧ (c.runOn w).1.arena.slots = [] ∧ (c.runOn w).1.arena.cursor = 0 := by
  simp [CmdBuf.runOn]

/-- a cleared or dropped buffer drops exactly the recorded components -/
theorem clear_drops_recorded (c : CmdBuf) : (c.clear).2 = c.arena.vals ∧ (c.clear).1.cmds = [] := by
  simp [CmdBuf.clear]

end Hecs.Props.C11
