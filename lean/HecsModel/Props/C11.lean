import HecsModel.Model.Containers
import HecsModel.Lemmas.CmdBuf
/-
  C11 — CommandBuffer replay equals direct application, in recorded order.

  Definitions (in `Lemmas/CmdBuf.lean`):
    `HCmd`                 the high-level log entry (`spawn b | insert e b | remove e ts | despawn e`)
    `HCmd.bundle`          the component values a log entry owns
    `HCmd.ofBundle e b`    `spawn b` for `e = none`, `insert e' b` for `e = some e'`
    `CmdBuf.recorded c`    the log: every `Cmd` with its range read out through `rangeVals`
    `RangesOk c`           every recorded range `[f, l)` has `f ≤ l ≤ slots.length`
    `RangesPartition c`    the recorded ranges are consecutive and cover `[0, slots.length)`
    `applyDirect w h`      the direct `World` call for a log entry: (world, dropped, spawned)
    `applyAll hs w`        left fold of `applyDirect`, concatenating drops and handles in order
-/
namespace Hecs.Props.C11
open Hecs Hecs.CmdBufLemmas

/-- after `run_on` the buffer is empty and reusable -/
theorem runOn_empties (c : CmdBuf) (w : World) :
    (c.runOn w).1.cmds = [] ∧ (c.runOn w).1.arena.slots = [] ∧ (c.runOn w).1.arena.cursor = 0 := by
  simp [CmdBuf.runOn]

/-- a cleared or dropped buffer drops exactly the recorded components -/
theorem clear_drops_recorded (c : CmdBuf) : (c.clear).2 = c.arena.vals ∧ (c.clear).1.cmds = [] := by
  simp [CmdBuf.clear]

/-! ### 9. recording -/

theorem rangesOk_empty : RangesOk {} := CmdBufLemmas.rangesOk_empty

theorem rangesOk_record (lay : Nat → TyLayout) (c : CmdBuf) (e : Option Entity) (b : List Comp)
    (h : RangesOk c) : RangesOk (c.record lay e b) :=
  CmdBufLemmas.rangesOk_record lay c e b h

theorem rangesOk_recRemove (c : CmdBuf) (e : Entity) (ts : List Nat) (h : RangesOk c) :
    RangesOk (c.recRemove e ts) :=
  CmdBufLemmas.rangesOk_recRemove c e ts h

theorem rangesOk_recDespawn (c : CmdBuf) (e : Entity) (h : RangesOk c) : RangesOk (c.recDespawn e) :=
  CmdBufLemmas.rangesOk_recDespawn c e h

/-- the command pushed by `record` and the size of the new range -/
theorem record_cmds (lay : Nat → TyLayout) (c : CmdBuf) (e : Option Entity) (b : List Comp) :
    (c.record lay e b).cmds =
        c.cmds ++ [.spawnOrInsert e c.arena.slots.length (c.arena.slots.length + b.length)] ∧
      (c.record lay e b).arena.slots.length = c.arena.slots.length + b.length ∧
      (c.record lay e b).arena.slots.take c.arena.slots.length = c.arena.slots :=
  ⟨CmdBufLemmas.record_cmds lay c e b, record_slots_length lay c e b, record_slots_prefix lay c e b⟩

/-- earlier ranges are untouched by `record` -/
theorem record_rangeVals_old (lay : Nat → TyLayout) (c : CmdBuf) (e : Option Entity) (b : List Comp)
    (f l : Nat) (h : l ≤ c.arena.slots.length) :
    (c.record lay e b).rangeVals f l = c.rangeVals f l :=
  CmdBufLemmas.record_rangeVals_old lay c e b f l h

/-- the new range holds the bundle sorted by type: exactly `canon b` -/
theorem record_rangeVals_new (lay : Nat → TyLayout) (c : CmdBuf) (e : Option Entity) (b : List Comp) :
    (c.record lay e b).rangeVals c.arena.slots.length (c.arena.slots.length + b.length) = canon b :=
  CmdBufLemmas.record_rangeVals_new lay c e b

/-- `canon b` is a copy of `b` permuted into type order -/
theorem canon_perm_sorted (b : List Comp) :
    (canon b).Perm b ∧ (canon b).Pairwise (fun x y => x.1 ≤ y.1) :=
  ⟨canon_perm b, canon_sorted_le b⟩

/-- recording a bundle appends one entry to the log and leaves the earlier entries alone -/
theorem record_recorded (lay : Nat → TyLayout) (c : CmdBuf) (e : Option Entity) (b : List Comp)
    (h : RangesOk c) :
    (c.record lay e b).recorded = c.recorded ++ [HCmd.ofBundle e (canon b)] :=
  CmdBufLemmas.record_recorded lay c e b h

theorem recRemove_recorded (c : CmdBuf) (e : Entity) (ts : List Nat) :
    (c.recRemove e ts).recorded = c.recorded ++ [.remove e ts] :=
  CmdBufLemmas.recRemove_recorded c e ts

theorem recDespawn_recorded (c : CmdBuf) (e : Entity) :
    (c.recDespawn e).recorded = c.recorded ++ [.despawn e] :=
  CmdBufLemmas.recDespawn_recorded c e

theorem recorded_empty : ({} : CmdBuf).recorded = [] := rfl

/-! ### 10. replay -/

/-- replay = the fold of direct application over the log: world, drops (in order) and spawned
handles (in order) all coincide; the buffer comes back empty with its allocation -/
theorem runOn_eq_fold (c : CmdBuf) (w : World) :
    c.runOn w =
      ({ cmds := [], arena := { c.arena with slots := [], cursor := 0 } }, applyAll c.recorded w) :=
  CmdBufLemmas.runOn_eq_fold c w

/-- component-wise form -/
theorem runOn_components (c : CmdBuf) (w : World) :
    (c.runOn w).2.1 = (applyAll c.recorded w).1 ∧
      (c.runOn w).2.2.1 = (applyAll c.recorded w).2.1 ∧
      (c.runOn w).2.2.2 = (applyAll c.recorded w).2.2 ∧
      (c.runOn w).1.arena.laySize = c.arena.laySize ∧ (c.runOn w).1.arena.layAlign = c.arena.layAlign := by
  rw [runOn_eq_fold]; exact ⟨rfl, rfl, rfl, rfl, rfl⟩

theorem applyAll_nil (w : World) : applyAll [] w = (w, [], []) := rfl

/-- the fold processes the log front to back -/
theorem applyAll_snoc (hs : List HCmd) (h : HCmd) (w : World) :
    applyAll (hs ++ [h]) w = applyStep (applyAll hs w) h := by
  simp [applyAll, List.foldl_append]

/-- a spawned bundle may equally be applied unsorted: `World::spawn` canonicalises it itself -/
theorem spawn_canon (w : World) (b : List Comp) :
    applyDirect w (.spawn (canon b)) = applyDirect w (.spawn b) :=
  applyDirect_spawn_canon w b

/-- recording a duplicate-free bundle keeps the log well-formed (`LogWF`: every recorded bundle
names each component type once) -/
theorem record_logWF (lay : Nat → TyLayout) (c : CmdBuf) (e : Option Entity) (b : List Comp)
    (h : RangesOk c) (hl : LogWF c.recorded) (hb : (b.map (·.1)).Nodup) :
    LogWF (c.record lay e b).recorded := by
  rw [record_recorded lay c e b h]
  apply logWF_snoc _ _ hl
  rw [ofBundle_bundle]
  exact (((canon_perm b).map (·.1)).nodup_iff).2 hb

theorem recRemove_logWF (c : CmdBuf) (e : Entity) (ts : List Nat) (hl : LogWF c.recorded) :
    LogWF (c.recRemove e ts).recorded := by
  rw [recRemove_recorded]; exact logWF_snoc _ _ hl (by simp [HCmd.bundle])

theorem recDespawn_logWF (c : CmdBuf) (e : Entity) (hl : LogWF c.recorded) :
    LogWF (c.recDespawn e).recorded := by
  rw [recDespawn_recorded]; exact logWF_snoc _ _ hl (by simp [HCmd.bundle])

/-- the world keeps its representation invariant through a replay -/
theorem runOn_inv (c : CmdBuf) (w : World) (hl : LogWF c.recorded) (hw : w.Inv) :
    (c.runOn w).2.1.Inv := by
  rw [runOn_eq_fold]
  exact applyAll_inv c.recorded hl w hw

theorem runOn_reusable (c : CmdBuf) (w : World) :
    RangesOk (c.runOn w).1 ∧ RangesPartition (c.runOn w).1 ∧ (c.runOn w).1.recorded = [] :=
  ⟨rangesOk_runOn c w, rangesPartition_runOn c w, rfl⟩

/-! ### 11. the ledger -/

theorem clear_ledger (c : CmdBuf) : (c.clear).2 = c.arena.vals := rfl

theorem clear_reusable (c : CmdBuf) :
    RangesOk (c.clear).1 ∧ RangesPartition (c.clear).1 ∧ (c.clear).1.recorded = [] :=
  ⟨rangesOk_clear c, rangesPartition_clear c, rfl⟩

theorem rangesPartition_empty : RangesPartition {} := CmdBufLemmas.rangesPartition_empty

theorem rangesPartition_record (lay : Nat → TyLayout) (c : CmdBuf) (e : Option Entity) (b : List Comp)
    (h : RangesPartition c) : RangesPartition (c.record lay e b) :=
  CmdBufLemmas.rangesPartition_record lay c e b h

theorem rangesPartition_recRemove (c : CmdBuf) (e : Entity) (ts : List Nat) (h : RangesPartition c) :
    RangesPartition (c.recRemove e ts) :=
  CmdBufLemmas.rangesPartition_recRemove c e ts h

theorem rangesPartition_recDespawn (c : CmdBuf) (e : Entity) (h : RangesPartition c) :
    RangesPartition (c.recDespawn e) :=
  CmdBufLemmas.rangesPartition_recDespawn c e h

/-- the partition invariant implies the range bound -/
theorem rangesPartition_rangesOk (c : CmdBuf) (h : RangesPartition c) : RangesOk c :=
  CmdBufLemmas.rangesPartition_rangesOk c h

/-- the stored values are exactly the bundles of the log, in order: every recorded component is
in exactly one range (nothing is dropped twice, nothing leaks) -/
theorem recorded_ledger (c : CmdBuf) (h : RangesPartition c) :
    c.arena.vals = c.recorded.flatMap HCmd.bundle :=
  CmdBufLemmas.recorded_ledger c h

/-- hence `clear`/drop releases exactly the bundles of the log -/
theorem clear_drops_log (c : CmdBuf) (h : RangesPartition c) :
    (c.clear).2 = c.recorded.flatMap HCmd.bundle :=
  CmdBufLemmas.recorded_ledger c h

end Hecs.Props.C11
