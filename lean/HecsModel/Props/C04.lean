import HecsModel.Model.Builder
import HecsModel.Generated.Facts
import HecsModel.Lemmas.Layout
import HecsModel.Lemmas.Arena
import HecsModel.Lemmas.CmdBuf
/-
  C04 — Type-erased column storage is memory-safe for every component layout.

  Definitions (in `Lemmas/Arena.lean`):
    `SlotDisjoint lay s u := s.off + (lay s.ty).size ≤ u.off ∨ u.off + (lay u.ty).size ≤ s.off`
    `SlotOk lay a s := s.off % (lay s.ty).align = 0 ∧ s.off + (lay s.ty).size ≤ a.cursor ∧
                       (lay s.ty).align ≤ a.layAlign ∧ s.off + (lay s.ty).size ≤ a.laySize`
    `ArenaInv lay a := (∀ s ∈ a.slots, SlotOk lay a s) ∧ a.slots.Pairwise (SlotDisjoint lay)`
  (`SlotDisjoint` is symmetric, so the invariant does not depend on the order of the slot list.)
-/
namespace Hecs.Props.C04
open Hecs Hecs.ArenaLemmas Hecs.CmdBufLemmas

/-- rounding up to a multiple: the result is a multiple of `a`, not below `x`, and less than `x + a` -/
theorem alignUp_spec (x a : Nat) (ha : 0 < a) :
    alignUp x a % a = 0 ∧ x ≤ alignUp x a ∧ alignUp x a < x + a := by
  unfold alignUp
  refine ⟨Nat.mul_mod_left _ _, ?_, ?_⟩
  · have := Nat.div_add_mod (x + a - 1) a
    have hm := Nat.mod_lt (x + a - 1) ha
    rw [Nat.mul_comm] at this
    omega
  · have := Nat.div_add_mod (x + a - 1) a
    rw [Nat.mul_comm] at this
    omega

/-! ### 6. the arena invariant -/

/-- `usize::next_power_of_two` does not shrink its argument -/
theorem le_nextPow2 (n : Nat) (h : n ≤ 2 ^ 63) : n ≤ nextPow2 n := LayoutLemmas.le_nextPow2 n h

/-- the model of `next_power_of_two` is good up to `2^64` -/
theorem le_nextPow2' (n : Nat) (h : n ≤ 2 ^ 64) : n ≤ nextPow2 n := LayoutLemmas.le_nextPow2' n h

theorem nextPow2_isPow2 (n : Nat) : ∃ k, nextPow2 n = 2 ^ k := LayoutLemmas.nextPow2_isPow2 n

theorem arenaInv_empty (lay : Nat → TyLayout) : ArenaInv lay {} := arenaInv_default lay

/-- `Common::add` keeps the invariant: replace branch and append branch -/
theorem arenaInv_add (lay : Nat → TyLayout) (a : Arena) (t v : Nat) (h : ArenaInv lay a)
    (hal : 0 < (lay t).align)
    (hstop : alignUp a.cursor (lay t).align + (lay t).size ≤ 2 ^ 63) :
    ArenaInv lay (a.add lay t v).1 :=
  ArenaLemmas.arenaInv_add lay a t v h hal hstop

/-- a whole script of `add`s, as long as the arena stays (comfortably) below `2^63` bytes -/
theorem arenaInv_addAll (lay : Nat → TyLayout) (a : Arena) (cs d : List Comp) (h : ArenaInv lay a)
    (hal : ∀ c, c ∈ cs → 0 < (lay c.1).align)
    (hb : ∀ c, c ∈ cs → (lay c.1).size + (lay c.1).align + (a.addAll lay cs d).1.cursor ≤ 2 ^ 63) :
    ArenaInv lay (a.addAll lay cs d).1 :=
  ArenaLemmas.arenaInv_addAll lay a cs d h hal hb

theorem arenaInv_clear (lay : Nat → TyLayout) (a : Arena) : ArenaInv lay (a.clear).1 :=
  ArenaLemmas.arenaInv_clear lay a

/-- `CommandBuffer::add_inner` (always a fresh slot) -/
theorem arenaInv_addInner (lay : Nat → TyLayout) (a : Arena) (t v : Nat) (h : ArenaInv lay a)
    (hal : 0 < (lay t).align)
    (hstop : alignUp a.cursor (lay t).align + (lay t).size ≤ 2 ^ 63) :
    ArenaInv lay (CmdBuf.addInner lay a t v) :=
  ArenaLemmas.arenaInv_addInner lay a t v h hal (LayoutLemmas.le_nextPow2 _ hstop)

/-- `CommandBuffer::insert`/`spawn`: pushing the bundle and sorting the new tail of the slot list -/
theorem arenaInv_record (lay : Nat → TyLayout) (c : CmdBuf) (e : Option Entity) (b : List Comp)
    (h : ArenaInv lay c.arena) (hal : ∀ x, x ∈ b → 0 < (lay x.1).align)
    (hb : (c.record lay e b).arena.cursor ≤ 2 ^ 63) :
    ArenaInv lay (c.record lay e b).arena :=
  CmdBufLemmas.arenaInv_record lay c e b h hal hb

theorem arenaInv_recRemove (lay : Nat → TyLayout) (c : CmdBuf) (e : Entity) (ts : List Nat)
    (h : ArenaInv lay c.arena) : ArenaInv lay (c.recRemove e ts).arena := h

theorem arenaInv_recDespawn (lay : Nat → TyLayout) (c : CmdBuf) (e : Entity)
    (h : ArenaInv lay c.arena) : ArenaInv lay (c.recDespawn e).arena := h

theorem arenaInv_runOn (lay : Nat → TyLayout) (c : CmdBuf) (w : World) :
    ArenaInv lay (c.runOn w).1.arena :=
  CmdBufLemmas.arenaInv_runOn lay c w

theorem arenaInv_cmdClear (lay : Nat → TyLayout) (c : CmdBuf) : ArenaInv lay (c.clear).1.arena :=
  CmdBufLemmas.arenaInv_cmdClear lay c

/-- the invariant does not depend on the order of the slot list (sorting is harmless) -/
theorem arenaInv_perm (lay : Nat → TyLayout) (a : Arena) (l : List Slot) (hp : l.Perm a.slots)
    (h : ArenaInv lay a) : ArenaInv lay { a with slots := l } :=
  ArenaLemmas.arenaInv_perm lay a l hp h

theorem arenaInv_sortSlots (lay : Nat → TyLayout) (a : Arena) (h : ArenaInv lay a) :
    ArenaInv lay { a with slots := CmdBuf.sortSlots a.slots } :=
  ArenaLemmas.arenaInv_perm lay a _ (sortSlots_perm a.slots) h

/-- cloning a builder keeps the layout (same types and offsets, same cursor and allocation) -/
theorem arenaInv_cloneB (lay : Nat → TyLayout) (cc : CloneCounts) (b : Builder)
    (h : ArenaInv lay b.arena) : ArenaInv lay (b.cloneB cc).2.arena := by
  rw [cloneB_arena]
  exact arenaInv_reval lay b.arena _ (by rw [cloneVals_length]; simp [Arena.vals]) h

/-- two different slots never overlap -/
theorem slots_disjoint (lay : Nat → TyLayout) (a : Arena) (h : ArenaInv lay a) (i j : Nat)
    (hi : i < a.slots.length) (hj : j < a.slots.length) (hij : i ≠ j) :
    SlotDisjoint lay a.slots[i] a.slots[j] :=
  arenaInv_disjoint lay a h i j hi hj hij

/-- every slot lies inside the allocation -/
theorem slot_in_bounds (lay : Nat → TyLayout) (a : Arena) (h : ArenaInv lay a) (s : Slot)
    (hs : s ∈ a.slots) : s.off + (lay s.ty).size ≤ a.laySize ∧ s.off + (lay s.ty).size ≤ a.cursor :=
  ⟨(h.1 s hs).2.2.2, (h.1 s hs).2.1⟩

/-- every slot address is aligned for its type -/
theorem slot_address_aligned (lay : Nat → TyLayout) (a : Arena) (base : Nat) (s : Slot)
    (h : ArenaInv lay a) (hb : base % a.layAlign = 0) (hd : (lay s.ty).align ∣ a.layAlign)
    (hs : s ∈ a.slots) : (base + s.off) % (lay s.ty).align = 0 :=
  ArenaLemmas.slot_address_aligned lay a base s h hb hd hs

/-! ### 7. the Rust alignment expression -/

/-- `(x + alignment - 1) & (!alignment + 1)` is `alignUp` for a power-of-two alignment when the
addition does not wrap -/
theorem alignExpr_eq_alignUp (x a : BitVec 64) (k : Nat) (hk : k < 64) (ha : a.toNat = 2 ^ k)
    (hx : x.toNat + a.toNat ≤ 2 ^ 64) :
    (Hecs.Generated.alignExpr x a).toNat = alignUp x.toNat a.toNat :=
  LayoutLemmas.alignExpr_eq_alignUp x a k hk ha hx

theorem alignExpr_spec (x a : BitVec 64) (k : Nat) (hk : k < 64) (ha : a.toNat = 2 ^ k)
    (hx : x.toNat + a.toNat ≤ 2 ^ 64) :
    (Hecs.Generated.alignExpr x a).toNat % a.toNat = 0 ∧
      x.toNat ≤ (Hecs.Generated.alignExpr x a).toNat ∧
      (Hecs.Generated.alignExpr x a).toNat < x.toNat + a.toNat :=
  LayoutLemmas.alignExpr_spec x a k hk ha hx

/-! ### 8. column arithmetic -/

theorem col_in_bounds (size i cap : Nat) (h : i < cap) : size * i + size ≤ size * cap :=
  LayoutLemmas.col_in_bounds size i cap h

theorem col_aligned (base size align i : Nat) (hb : base % align = 0) (hs : size % align = 0) :
    (base + size * i) % align = 0 :=
  LayoutLemmas.col_aligned base size align i hb hs

theorem grow_copy_in_bounds (size count oldCap newCap : Nat) (h1 : count ≤ oldCap)
    (h2 : oldCap ≤ newCap) : size * count ≤ size * newCap :=
  LayoutLemmas.grow_copy_in_bounds size count oldCap newCap h1 h2

/-- `Archetype::reserve` (`LayoutLemmas.reserveCap` transcribes `reserve`/`grow`/`grow_exact`) -/
theorem reserve_enough (cap len additional : Nat) (h : len ≤ cap) :
    len + additional ≤ LayoutLemmas.reserveCap cap len additional :=
  LayoutLemmas.reserve_enough cap len additional h

/-- `Archetype::allocate` grows by `max cap 64` when full -/
theorem allocate_grows (cap len : Nat) (h : len ≤ cap) : len < LayoutLemmas.allocateCap cap len :=
  LayoutLemmas.allocate_grows cap len h

/-- the dangling pointer `max_align` of an empty archetype is aligned for every column -/
theorem zst_ptr_aligned (m : Nat) (rest : List Nat) (hs : (m :: rest).Pairwise (· ≥ ·))
    (hp : ∀ a ∈ m :: rest, ∃ k, a = 2 ^ k) : ∀ a ∈ m :: rest, m % a = 0 :=
  LayoutLemmas.zst_ptr_aligned m rest hs hp

theorem batched_bounds (offset batch len : Nat) (h : offset < len) :
    offset + min batch (len - offset) ≤ len :=
  LayoutLemmas.batched_bounds offset batch len h

theorem chunk_iter_in_bounds (size position len : Nat) (h : position < len) :
    size * position + size ≤ size * len :=
  LayoutLemmas.chunk_iter_in_bounds size position len h

end Hecs.Props.C04
