import HecsModel.Model.Builder
import HecsModel.Generated.Facts
/-
  C04 — Type-erased column storage is memory-safe for every component layout. (interim)
-/
namespace Hecs.Props.C04
open Hecs

/-- rounding up to a multiple: the result is a multiple of `a`, not below `x`, and less than `x + a` -/
theorem alignUp_spec (x a : Nat) (ha : 0 < a) :
    alignUp x a % a = 0 ∧ x ≤ alignUp x a ∧ alignUp x a < x + a := by
  unfold alignUp
  refine ⟨Nat.mul_mod_left _ _, ?_, ?_⟩
  · have := Nat.div_add_mod (x + a - 1) a
    have hm := Nat.mod_lt (x + a - 1) ha
    rw [Nat.mul_comm] at this
    omega
  · have := Nat.div_add_mod (x + a - 1) a
    rw [Nat.mul_comm] at this
    omega

end Hecs.Props.C04
