import HecsModel.Lemmas.SpecBatchAt
/-
  C01 — refinement to the abstract specification.

  `Spec.apply s op res dropped` (Spec/World.lean) is the transition relation of the plain map
  "entity handle ↦ at most one value per component type" that C01 speaks about, in executable form: it
  says whether an operation `op` that returned `res` and dropped the values `dropped` is allowed from the
  abstract state `s`, and gives the successor.  The checks run it on the *implementation's* answers
  (oracle (S)).  The theorems here run it on the *model's* answers: every step of the concrete model —
  archetypes, rows, free list, generations — is an allowed step of the map, and the two stay related
  (`Rel`: same answer for every handle; the recorded history of handed-out handles is true of the world).
  So on any history on which implementation and model agree (oracle (O)), oracle (S) cannot fire either,
  and every per-operation theorem of `C01Effects` is a corollary of one simulation.

  Statement: `∀ op, op.WF → op.gensOk → ...` for all 15 operations, proved in full
  (`spec_accepts_step`, `spec_accepts_run`).  `clear`: the values it drops are a permutation of the
  values the abstract state lists (`Lemmas/SpecClear.lean`, from one-row-per-live-handle).
  `spawn_column_batch_at`: refused calls (unequal lengths, repeated id) change nothing; accepted calls
  evict exactly the occupants of the named ids (`Lemmas/SpecBatchAt.lean`).
  `Op.gensOk`: handles named by `spawn_at` have a generation ≥ 1 (they are `NonZeroU32` in hecs).

  Property theorems only; helper lemmas live in `Lemmas/SpecRefine.lean`.
-/
namespace Hecs

namespace Spec

/-- `spawn_column_batch_at`, the refused half:
a call whose handle list and column batch differ in length, or that names an id twice, is answered by a
panic in the model, that answer is what the specification demands, and nothing changes on either side —
the states stay related.  -/
theorem spec_accepts_refused_batch_at (s : SpecW) (w : World) (h : Rel s w) (hs : List Entity) (ts : List Nat)
    (rows : List (List Comp)) (hbad : hs.length ≠ rows.length ∨ ¬ (hs.map (·.id)).Nodup) :
    (Hecs.step w (.spawnColumnBatchAt hs ts rows)).2.res = .panic ∧
    apply s (.spawnColumnBatchAt hs ts rows) (Hecs.step w (.spawnColumnBatchAt hs ts rows)).2.res
      (Hecs.step w (.spawnColumnBatchAt hs ts rows)).2.dropped = .ok s ∧
    Rel s (Hecs.step w (.spawnColumnBatchAt hs ts rows)).1 := by
  have h1 : Hecs.step w (.spawnColumnBatchAt hs ts rows) = (w, { res := .panic, dropped := rows.flatten }) := by
    simp only [Hecs.step, World.spawnColumnBatchAt, if_pos hbad]
  rw [h1]
  refine ⟨rfl, ?_, h⟩
  simp only [apply, if_pos hbad]
  rfl

/-- the hypothesis is satisfiable: a repeated id -/
example : (2 : Nat) ≠ 2 ∨ ¬ (([⟨3,1⟩, ⟨3,2⟩] : List Entity).map (·.id)).Nodup := by decide

/-- One step of refinement: whatever the model does is an allowed transition of the abstract map
specification (the result it returns and the values it drops pass every check of `Spec.apply`), and
the successor states are related again. -/
theorem spec_accepts_step (s : SpecW) (w : World) (h : Rel s w) (hw : w.Inv) (op : Op)
    (hop : op.WF) (hgo : op.gensOk) :
    ∃ s', apply s op (Hecs.step w op).2.res (Hecs.step w op).2.dropped = .ok s' ∧ Rel s' (Hecs.step w op).1 := by
  have hrel := h
  obtain ⟨hs, hh⟩ := h
  cases op with
  | spawn b =>
    obtain ⟨s', a, b', c⟩ := accepts_spawn s w hs hh hw b hop; exact ⟨s', a, b', c⟩
  | reserveEntity =>
    obtain ⟨s', a, b', c⟩ := accepts_reserveEntity s w hs hh hw; exact ⟨s', a, b', c⟩
  | insert e b =>
    obtain ⟨s', a, b', i, t⟩ := accepts_insert s w hs hw e b hop
    exact ⟨s', a, b', hh.keep hw _ hop (fun _ => rfl) (World.no_handles w _ trivial) i t⟩
  | remove e ts =>
    obtain ⟨s', a, b', i, t⟩ := accepts_remove s w hs hw e ts
    exact ⟨s', a, b', hh.keep hw _ hop (fun _ => rfl) (World.no_handles w _ trivial) i t⟩
  | exchange e ts b =>
    obtain ⟨s', a, b', i, t⟩ := accepts_exchange s w hs hw e ts b hop
    exact ⟨s', a, b', hh.keep hw _ hop (fun _ => rfl) (World.no_handles w _ trivial) i t⟩
  | despawn e =>
    obtain ⟨s', a, b', i, t⟩ := accepts_despawn s w hs hw e
    exact ⟨s', a, b', hh.keep hw _ hop (fun _ => rfl) (World.no_handles w _ trivial) i t⟩
  | takeDrop e =>
    obtain ⟨s', a, b', i, t⟩ := accepts_takeDrop s w hs hw e
    exact ⟨s', a, b', hh.keep hw _ hop (fun _ => rfl) (World.no_handles w _ trivial) i t⟩
  | flush =>
    obtain ⟨s', a, b', i, t⟩ := accepts_flush s w hs hw
    exact ⟨s', a, b', hh.keep hw _ hop (fun _ => rfl) (World.no_handles w _ trivial) i t⟩
  | reserve ts =>
    obtain ⟨s', a, b', i, t⟩ := accepts_reserve s w hs hw ts hop
    exact ⟨s', a, b', hh.keep hw _ hop (fun _ => rfl) (World.no_handles w _ trivial) i t⟩
  | spawnAt h b =>
    obtain ⟨s', a, b', c⟩ := accepts_spawnAt s w hs hh hw h b hop hgo; exact ⟨s', a, b', c⟩
  | spawnBatch ts rows =>
    obtain ⟨s', a, b', c⟩ := accepts_spawnBatch s w hs hh hw ts rows hop; exact ⟨s', a, b', c⟩
  | spawnColumnBatch ts rows =>
    obtain ⟨s', a, b', c⟩ := accepts_spawnColumnBatch s w hs hh hw ts rows hop; exact ⟨s', a, b', c⟩
  | spawnColumnBatchAt es ts rows =>
    by_cases hbad : es.length ≠ rows.length ∨ ¬ (es.map (·.id)).Nodup
    · obtain ⟨_, a, b'⟩ := spec_accepts_refused_batch_at s w hrel es ts rows hbad; exact ⟨s, a, b'⟩
    · simp only [not_or, Decidable.not_not] at hbad
      obtain ⟨s', a, b', c⟩ := accepts_spawnColumnBatchAt s w hs hh hw es ts rows hop hgo hbad.1 hbad.2
      exact ⟨s', a, b', c⟩
  | clear =>
    obtain ⟨s', a, b'⟩ := accepts_clear s w hs hw; exact ⟨s', a, b'⟩
  | reserveEntities n =>
    obtain ⟨s', a, b', c⟩ := accepts_reserveEntities s w hs hh hw n; exact ⟨s', a, b', c⟩

/-- the specification run alongside the model: every step judged on the model's own output -/
def specRun : SpecW → World → List Op → Except String SpecW
  | s, _, [] => .ok s
  | s, w, op :: ops =>
    match apply s op (Hecs.step w op).2.res (Hecs.step w op).2.dropped with
    | .ok s' => specRun s' (Hecs.step w op).1 ops
    | .error m => .error m

/-- Whole histories: started from `World::new()`, the abstract specification accepts everything the
model does, for histories of any length over all fifteen operations. -/
theorem spec_accepts_run (ops : List Op) (hwf : ∀ op, op ∈ ops → op.WF)
    (hgo : ∀ op, op ∈ ops → op.gensOk) :
    ∃ s', specRun {} World.new ops = .ok s' ∧ Rel s' (run ops) := by
  have gen : ∀ (ops : List Op) (s : SpecW) (w : World), Rel s w → w.Inv → (∀ op, op ∈ ops → op.WF) →
      (∀ op, op ∈ ops → op.gensOk) →
      ∃ s', specRun s w ops = .ok s' ∧ Rel s' (ops.foldl (fun w op => (Hecs.step w op).1) w) := by
    intro ops
    induction ops with
    | nil => intro s w h _ _ _; exact ⟨s, rfl, h⟩
    | cons op ops ih =>
      intro s w h hw hwf hgo
      obtain ⟨s1, a, r⟩ := spec_accepts_step s w h hw op (hwf op (by simp)) (hgo op (by simp))
      obtain ⟨s2, a2, r2⟩ := ih s1 (Hecs.step w op).1 r (World.inv_step w op (hwf op (by simp)) hw)
        (fun o ho => hwf o (by simp [ho])) (fun o ho => hgo o (by simp [ho]))
      exact ⟨s2, by simp only [specRun, a]; exact a2, r2⟩
  exact gen ops {} World.new rel_new World.inv_new hwf hgo

/-- the hypotheses are satisfiable and the conclusion is not vacuous: a history through every kind
of operation (free-list reuse, reservations, a batch, an id-targeted spawn that evicts a live entity) is
well formed and accepted by the specification run -/
example :
    let ops : List Op :=
      [.spawn [(0,1)], .spawn [(1,2),(0,3)], .insert ⟨0,1⟩ [(1,4)], .reserveEntities 2, .despawn ⟨1,1⟩,
       .spawnBatch [0] [[(0,5)],[(0,6)]], .exchange ⟨0,1⟩ [0] [(2,7)], .remove ⟨0,1⟩ [2], .reserveEntity,
       .spawnAt ⟨2,5⟩ [(0,8)], .spawnColumnBatch [0,1] [[(0,9),(1,10)]], .takeDrop ⟨0,1⟩, .reserve [3], .flush,
       .reserveEntity, .clear, .spawn [(0,11)], .spawn [(0,12),(1,13)], .reserveEntity,
       .spawnColumnBatchAt [⟨1,4⟩, ⟨0,9⟩, ⟨7,2⟩] [0,1] [[(0,20),(1,21)],[(0,22),(1,23)],[(0,24),(1,25)]],
       .spawnColumnBatchAt [⟨1,4⟩, ⟨1,5⟩] [0] [[(0,1)],[(0,2)]], .clear]
    (ops.all (fun op => decide op.WF)) = true ∧
    (match specRun {} World.new ops with | .ok _ => true | .error _ => false) = true := by
  decide +kernel

/-- the oracle's comparison of dropped values is order-insensitive: lists that are permutations of each
other are accepted as the same multiset (used wherever the order of drops is an implementation detail) -/
theorem sameComps_accepts_perm (a b : List Comp) (h : a.Perm b) : sameComps a b = true :=
  sameComps_of_perm a b h

end Spec
end Hecs
