import HecsModel.Lemmas.Query
import HecsModel.Model.QueryJudge
/-
  C08 — for any query type, iterating yields each live entity whose component set satisfies the
  query exactly once, with its own values; reported lengths match; every access path gives the
  same answer.  All statements are for every query shape `Q` (structural induction) and every world.
  Property theorems only; helper lemmas live in `Lemmas/Query.lean`.
-/
namespace Hecs.Props.C08
open Hecs Hecs.World

/-! ### 1. `access`, `prepare` and the meaning of the query agree -/

/-- `Fetch::access(..).is_some()` is exactly "the component set satisfies the query" -/
theorem access_isSome_iff_sat (q : Q) (ts : List Nat) : (q.access ts).isSome = q.sat ts :=
  Q.access_isSome_eq_sat q ts

/-- `Fetch::prepare(..).is_some()` is exactly "the component set satisfies the query" -/
theorem prepares_eq_sat (q : Q) (ts : List Nat) : q.prepares ts = q.sat ts :=
  Q.prepares_eq_sat q ts

theorem access_isSome_eq_prepares (q : Q) (ts : List Nat) : (q.access ts).isSome = q.prepares ts := by
  rw [access_isSome_iff_sat, prepares_eq_sat]

/-- the spec item used here is the judge's -/
theorem specItem_eq_judge : specItem = Hecs.QueryJudge.specItem := by
  funext q vals
  induction q with
  | or l r ihl ihr =>
    simp only [specItem, QueryJudge.specItem, ihl, ihr]
    cases l.sat (vals.map (·.1)) <;> cases r.sat (vals.map (·.1)) <;> rfl
  | _ => simp [specItem, QueryJudge.specItem, *]

/-- on a row of an archetype with type list `ts`, the fetched item is determined by the row's own
values -/
theorem item_eq_specItem (q : Q) (ts : List Nat) (vals : List Comp) (h : vals.map (·.1) = ts) :
    q.item ts vals = specItem q vals :=
  Q.item_eq_specItem q ts vals h

/-! ### 2. reported lengths -/

theorem queryLen_eq_length (w : World) (q : Q) : w.queryLen q = (w.queryIter q).length :=
  World.queryLen_eq_length w q

theorem preparedLen_eq_length (w : World) (q : Q) : w.preparedLen q = (w.queryIter q).length :=
  World.preparedLen_eq_length w q

/-! ### 3. iteration = the live rows that satisfy the query, in storage order, with their own values -/

theorem queryIter_spec (w : World) (q : Q)
    (hT : ∀ (a : Nat) (ar : Arch) (i : Nat) (r : Row), w.archs[a]? = some ar → ar.rows[i]? = some r →
      r.vals.map (·.1) = ar.types) :
    w.queryIter q =
      (w.liveRows.filter (fun p => q.sat (p.2.map (·.1)))).map (fun p => (p.1, specItem q p.2)) :=
  World.queryIter_spec w q hT

theorem queryIter_spec_core (w : World) (hc : w.Core) (q : Q) :
    w.queryIter q =
      (w.liveRows.filter (fun p => q.sat (p.2.map (·.1)))).map (fun p => (p.1, specItem q p.2)) :=
  World.queryIter_spec w q hc.row_types

/-- membership form: `(e, it)` is yielded iff `e` is a live row whose own component set satisfies
the query and `it` is computed from that row's values -/
theorem mem_queryIter_iff (w : World) (hc : w.Core) (q : Q) (e : Entity) (it : Item) :
    (e, it) ∈ w.queryIter q ↔
      ∃ vals, (e, vals) ∈ w.liveRows ∧ q.sat (vals.map (·.1)) = true ∧ it = specItem q vals := by
  rw [queryIter_spec_core w hc q]
  simp only [List.mem_map, List.mem_filter, Prod.mk.injEq]
  constructor
  · rintro ⟨⟨e', vals⟩, ⟨hm, hs⟩, rfl, rfl⟩
    exact ⟨vals, hm, hs, rfl⟩
  · rintro ⟨vals, hm, hs, rfl⟩
    exact ⟨(e, vals), ⟨hm, hs⟩, rfl, rfl⟩

/-! ### 4. batches -/

theorem chunks_flatten {α} (n : Nat) (hn : 1 ≤ n) (l : List α) :
    (chunks n l l.length).flatten = l :=
  World.chunks_flatten n hn l.length l (Nat.le_refl _)

theorem chunks_sizes {α} (n : Nat) (hn : 1 ≤ n) (fuel : Nat) (l : List α) :
    ∀ b ∈ chunks n l fuel, 0 < b.length ∧ b.length ≤ n :=
  World.chunks_sizes n hn fuel l

/-- the batches concatenate to the plain iteration -/
theorem batched_concat (w : World) (q : Q) (n : Nat) (hn : 1 ≤ n) :
    (w.queryBatched q n).flatten = w.queryIter q :=
  World.batched_concat w q n hn

/-- no batch is empty or longer than `batch_size` -/
theorem batched_sizes (w : World) (q : Q) (n : Nat) (hn : 1 ≤ n) :
    ∀ b ∈ w.queryBatched q n, 0 < b.length ∧ b.length ≤ n :=
  World.batched_sizes w q n hn

/-! ### 5. random access agrees with iteration -/

/-- the view returns an item for `e` iff iteration yields that item for `e` -/
theorem viewGet_some_iff_mem (w : World) (hc : w.Core) (q : Q) (e : Entity) (it : Item) :
    w.viewGet q e = some it ↔ (e, it) ∈ w.queryIter q :=
  World.viewGet_some_iff_mem w hc q e it

/-- … and then `e` is genuinely located with a matching generation -/
theorem viewGet_some_iff (w : World) (hc : w.Core) (q : Q) (e : Entity) (it : Item) :
    w.viewGet q e = some it ↔
      (e, it) ∈ w.queryIter q ∧ ∃ a i, w.locOf e.id = some (a, i) ∧ w.genOf e.id = e.gen := by
  constructor
  · intro h
    refine ⟨(viewGet_some_iff_mem w hc q e it).1 h, ?_⟩
    obtain ⟨a, i, _, _, hl, hg, _⟩ := (World.viewGet_eq_some w q e it).1 h
    exact ⟨a, i, hl, hg⟩
  · intro h
    exact (viewGet_some_iff_mem w hc q e it).2 h.1

/-- explicit form: a live located entity with matching generation whose archetype satisfies the
query, and the item is computed from that entity's own row -/
theorem viewGet_spec (w : World) (hc : w.Core) (q : Q) (e : Entity) (it : Item) :
    w.viewGet q e = some it ↔
      ∃ a i ar r, w.locOf e.id = some (a, i) ∧ w.genOf e.id = e.gen ∧ w.archs[a]? = some ar ∧
        ar.rows[i]? = some r ∧ r.id = e.id ∧ q.sat (r.vals.map (·.1)) = true ∧
        it = specItem q r.vals := by
  rw [World.viewGet_eq_some]
  constructor
  · rintro ⟨a, i, ar, r, hl, hg, ha, hr, hs, rfl⟩
    have ht := hc.row_types a ar i r ha hr
    obtain ⟨r', hr', hid⟩ := hc.loc_row _ _ _ hl
    rw [World.rowAt_eq_archs ha hr] at hr'
    cases hr'
    exact ⟨a, i, ar, r, hl, hg, ha, hr, hid, ht ▸ hs, Q.item_eq_specItem q _ _ ht⟩
  · rintro ⟨a, i, ar, r, hl, hg, ha, hr, -, hs, rfl⟩
    have ht := hc.row_types a ar i r ha hr
    exact ⟨a, i, ar, r, hl, hg, ha, hr, ht ▸ hs, (Q.item_eq_specItem q _ _ ht).symm⟩

/-- the view is a function: iteration never yields two different items for one handle -/
theorem queryIter_functional (w : World) (hc : w.Core) (q : Q) (e : Entity) (it₁ it₂ : Item)
    (h₁ : (e, it₁) ∈ w.queryIter q) (h₂ : (e, it₂) ∈ w.queryIter q) : it₁ = it₂ := by
  have a := (viewGet_some_iff_mem w hc q e it₁).2 h₁
  have b := (viewGet_some_iff_mem w hc q e it₂).2 h₂
  rw [a] at b
  exact Option.some.inj b

/-- `Entities::get` answers "located at `(a, i)`" exactly for located ids of matching generation -/
theorem get_located_iff (w : World) (e : Entity) (a i : Nat) :
    w.get e = some (some (a, i)) ↔ w.locOf e.id = some (a, i) ∧ w.genOf e.id = e.gen :=
  World.get_located_iff w e a i

/-- `query_one` on a located entity is the view's answer (`some none` = unsatisfied) -/
theorem queryOne_located (w : World) (hc : w.Core) (q : Q) (e : Entity) (a i : Nat)
    (h : w.get e = some (some (a, i))) : w.queryOne q e = some (w.viewGet q e) :=
  World.queryOne_located w hc q e a i h

/-- `query_one` on a reserved (not yet flushed) entity sees the empty component set -/
theorem queryOne_reserved (w : World) (q : Q) (e : Entity) (h : w.get e = some none) :
    w.queryOne q e = some (if q.sat [] then some (specItem q []) else none) :=
  World.queryOne_reserved w q e h

theorem queryOne_nosuch (w : World) (q : Q) (e : Entity) (h : w.get e = none) :
    w.queryOne q e = none :=
  World.queryOne_nosuch w q e h

/-- `World::satisfies` answers `sat` of the entity's archetype types (`[]` for a reserved entity) -/
theorem satisfiesQ_eq (w : World) (q : Q) (e : Entity) (b : Bool) (h : w.satisfiesQ q e = some b) :
    (w.get e = some none ∧ b = q.sat []) ∨
    (∃ a i ar, w.get e = some (some (a, i)) ∧ w.archs[a]? = some ar ∧ b = q.sat ar.types) :=
  World.satisfiesQ_eq w q e b h

/-- `satisfies` (built on `access`) is "the single-entity query (built on `prepare`) yields an item" -/
theorem satisfiesQ_eq_queryOne_isSome (w : World) (hc : w.Core) (q : Q) (e : Entity) :
    w.satisfiesQ q e = (w.queryOne q e).map Option.isSome :=
  World.satisfiesQ_eq_queryOne_isSome w hc q e

/-! ### 6. `assert_borrow` -/

/-- if the check passes, a uniquely borrowed type is not borrowed by any other field -/
theorem assertBorrowOk_sound (q : Q) (h : q.assertBorrowOk = true) (i j : Nat) (hij : i ≠ j)
    (hi : i < q.borrows.length) (hj : j < q.borrows.length) (hu : (q.borrows[i]!).2 = true) :
    (q.borrows[i]!).1 ≠ (q.borrows[j]!).1 := by
  have := Q.assertBorrowOk_sound q h i j hij hi hj
  simp only [List.getD_eq_getElem?_getD, List.getElem?_eq_getElem hi, List.getElem?_eq_getElem hj,
    Option.getD_some] at this
  simp only [getElem!_pos, hi, hj] at hu ⊢
  exact this hu

/-! ### 7. each entity once -/

/-- the ids of the live rows are pairwise distinct -/
theorem liveRows_nodup (w : World) (hc : w.Core) : (w.liveRows.map (·.1.id)).Nodup :=
  World.liveRows_nodup w hc

/-- hence no query yields an entity twice -/
theorem queryIter_nodup (w : World) (hc : w.Core) (q : Q) : ((w.queryIter q).map (·.1.id)).Nodup :=
  World.queryIter_nodup w hc q

/-! ### 8. non-vacuity on a concrete world -/

open Hecs.QueryExample (qEx wEx)

/-- `wEx` is the world after two spawns -/
theorem wEx_eq_run : Hecs.run [.spawn [(0, 1), (1, 2)], .spawn [(0, 3)]] = wEx := by
  with_unfolding_all rfl

/-- … and it satisfies the representation invariant, so the `Core` hypotheses above are satisfiable
by a world with matching and non-matching rows -/
theorem wEx_core : wEx.Core := Hecs.QueryExample.wEx_core

example : ((wEx.queryIter qEx).map (·.1.id)).Nodup := queryIter_nodup wEx wEx_core qEx
example : (⟨1, 1⟩, .pair (.val 0 3) (.pair .none .unit)) ∈ wEx.queryIter qEx :=
  (viewGet_some_iff_mem wEx wEx_core qEx _ _).1 (by decide)

example : wEx.queryIter qEx =
    [(⟨0, 1⟩, .pair (.val 0 1) (.pair (.some (.val 1 2)) .unit)),
     (⟨1, 1⟩, .pair (.val 0 3) (.pair .none .unit))] := by decide
example : wEx.liveRows = [(⟨0, 1⟩, [(0, 1), (1, 2)]), (⟨1, 1⟩, [(0, 3)])] := by decide
example : wEx.queryLen qEx = 2 ∧ wEx.preparedLen qEx = 2 := by decide
example : wEx.queryIter (.pair (.write 1) .unit) = [(⟨0, 1⟩, .pair (.val 1 2) .unit)] := by decide
example : wEx.queryIter (.without (.read 0) (.read 1)) = [(⟨1, 1⟩, .val 0 3)] := by decide
example : wEx.queryBatched qEx 1 =
    [[(⟨0, 1⟩, .pair (.val 0 1) (.pair (.some (.val 1 2)) .unit))],
     [(⟨1, 1⟩, .pair (.val 0 3) (.pair .none .unit))]] := by decide
example : wEx.viewGet qEx ⟨1, 1⟩ = some (.pair (.val 0 3) (.pair .none .unit)) := by decide
example : wEx.viewGet qEx ⟨1, 2⟩ = none := by decide
example : wEx.queryOne qEx ⟨1, 1⟩ = some (some (.pair (.val 0 3) (.pair .none .unit))) := by decide
example : wEx.queryOne (.write 1) ⟨1, 1⟩ = some none := by decide
example : wEx.satisfiesQ (.write 1) ⟨0, 1⟩ = some true := by decide
example : (Q.pair (.write 0) (.pair (.read 1) .unit)).assertBorrowOk = true := by decide
example : (Q.pair (.write 0) (.pair (.read 0) .unit)).assertBorrowOk = false := by decide

/-! ### derived queries (`#[derive(Query)]`, macros/src/query.rs)

A derived struct is the tuple of its fields (`pair`).  A derived enum prepares the *first* variant all
of whose fields prepare and yields that variant; in the shapes of this model that is
`or V₁ (without V₂ V₁)`, the form under which the harness presents derived enums. -/

/-- first-match choice between two variants -/
def firstOf (l r : Q) : Q := .or l (.without r l)

/-- it matches exactly the component sets matching some variant -/
theorem firstOf_sat (l r : Q) (ts : List Nat) : (firstOf l r).sat ts = (l.sat ts || r.sat ts) := by
  simp only [firstOf, Q.sat]; cases l.sat ts <;> simp

/-- it yields the first variant if that one matches, else the second — never both -/
theorem firstOf_item (l r : Q) (ts : List Nat) (vals : List Comp) :
    (firstOf l r).item ts vals =
      if l.prepares ts then .left (l.item ts vals)
      else if r.prepares ts then .right (r.item ts vals) else .none := by
  have ha : (l.access ts).isSome = l.sat ts := Q.access_isSome_eq_sat l ts
  have hl : l.prepares ts = l.sat ts := Q.prepares_eq_sat l ts
  have hr : r.prepares ts = r.sat ts := Q.prepares_eq_sat r ts
  unfold firstOf
  simp only [Q.item, Q.prepares, ha, hl, hr]
  cases l.sat ts <;> cases r.sat ts <;> rfl

example : (firstOf (.read 0) (.write 1)).item [0, 1] [(0, 5), (1, 6)] = .left (.val 0 5) := by decide
example : (firstOf (.read 0) (.write 1)).item [1] [(1, 6)] = .right (.val 1 6) := by decide

end Hecs.Props.C08
