import HecsModel.Model.Query
/-
  C08 — Queries yield exactly the matching entities, once, on every access path.
  (interim: the full development is in Lemmas/Query.lean)
-/
namespace Hecs.Props.C08
open Hecs

/-- `Option<Q>` matches every archetype, through `access` and through `prepare` alike -/
theorem opt_always (q : Q) (ts : List Nat) : ((Q.opt q).access ts).isSome = true ∧ (Q.opt q).prepares ts = true := by
  simp [Q.access, Q.prepares]

end Hecs.Props.C08
