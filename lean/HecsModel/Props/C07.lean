import HecsModel.Lemmas.IdLimit
import HecsModel.Model.World
import HecsModel.Model.Atomics
import HecsModel.Generated.Facts
import HecsModel.Lemmas.Reserved
/-
  C07 — Concurrent entity reservation hands out distinct, valid handles.

  Under `&World` only `free_cursor` is mutated, and every `&self` function of `Entities` performs at
  most one atomic access to it per control path, followed by computation on data that is frozen
  while the world is shared.  Hence every interleaving of calls from any number of threads is a
  sequential order of the model operations `reserveEntity`, `reserveEntities`, `contains`
  (checked at run time: exactly one yield point per call), and the statements below — about
  arbitrary sequences of those operations — cover every schedule.
-/
namespace Hecs.Props.C07
open Hecs Hecs.Atomics

/-- the atomic accesses to `free_cursor` on the shared paths, as extracted from entities.rs on this
run: one `fetch_sub` per reservation call; loads only in the read-only functions -/
theorem reserve_sites :
    Hecs.Generated.reserveSites.map (fun s => (s.fn, s.meth, s.operand)) =
      [(.reserveEntities, .fetchSub, .count), (.reserveEntity, .fetchSub, .one),
       (.contains, .load, .none), (.contains, .load, .none),
       (.get, .load, .none), (.get, .load, .none), (.resolveUnknownGen, .load, .none)] := by
  decide

/-- a reservation is one subtraction on the cursor and touches nothing else -/
theorem reserveEntity_frame (w : World) :
    (w.reserveEntity).1.cursor = w.cursor - 1 ∧ (w.reserveEntity).1.metas = w.metas ∧
    (w.reserveEntity).1.pending = w.pending ∧ (w.reserveEntity).1.len = w.len ∧
    (w.reserveEntity).1.archs = w.archs := by
  by_cases h : w.cursor > 0 <;> simp [World.reserveEntity, h]

theorem reserveEntities_frame (w : World) (n : Nat) :
    (w.reserveEntities n).1.cursor = w.cursor - n ∧ (w.reserveEntities n).1.metas = w.metas ∧
    (w.reserveEntities n).1.pending = w.pending ∧ (w.reserveEntities n).1.len = w.len ∧
    (w.reserveEntities n).1.archs = w.archs := by
  simp [World.reserveEntities]

/-- a handle reserved beyond the metadata (free list exhausted) is immediately contained -/
theorem reserveEntity_fresh_contains (w : World) (h : w.cursor ≤ 0) :
    (w.reserveEntity).1.contains (w.reserveEntity).2 = true := by
  have hc : ¬ w.cursor > 0 := by omega
  simp only [World.reserveEntity, hc, if_false, World.contains]
  have hid : ¬ ((w.metas.size : Int) + -w.cursor).toNat < w.metas.size := by omega
  rw [Array.getElem?_eq_none (by omega)]
  simp
  omega

/-- two successive single reservations beyond the metadata get different ids -/
theorem reserveEntity_twice_distinct (w : World) (h : w.cursor ≤ 0) :
    ((w.reserveEntity).1.reserveEntity).2.id ≠ (w.reserveEntity).2.id := by
  have hc : ¬ w.cursor > 0 := by omega
  have hc' : ¬ w.cursor - 1 > 0 := by omega
  simp only [World.reserveEntity, hc, hc', if_false]
  omega

/-! ### arbitrary sequences of reservation calls -/

/-- `RCall.one` / `RCall.many n` are the model operations `reserveEntity` / `reserveEntities n`:
same successor state, and the handles are those carried by the operation's result -/
theorem rcall_is_step (w : World) (c : RCall) :
    (step w c.toOp).1 = (c.apply w).1 ∧ (step w c.toOp).2.res.handles = (c.apply w).2 :=
  World.RCall.apply_eq_step w c

/-- Any sequence of `reserve_entity` / `reserve_entities(n)` calls (hence, by the argument at the top
of this file, any interleaving of such calls from any number of threads), started in a world that
satisfies the invariant: all handles handed out over the whole sequence have pairwise distinct ids;
each of them is contained in the final state and answered as "exists, no components"; none of them is
the id of a row; the rows are untouched and the invariant still holds. -/
theorem reserve_sequence_distinct (w : World) (hi : w.Inv) (cs : List RCall) :
    ((reserveSeq cs w).2.map (·.id)).Nodup ∧
    (∀ e, e ∈ (reserveSeq cs w).2 →
      (reserveSeq cs w).1.contains e = true ∧ (reserveSeq cs w).1.get e = some none ∧
      (∀ a i r, (reserveSeq cs w).1.rowAt a i = some r → r.id ≠ e.id) ∧
      (∀ a i r, w.rowAt a i = some r → r.id ≠ e.id)) ∧
    (reserveSeq cs w).1.archs = w.archs ∧ (reserveSeq cs w).1.Inv := by
  obtain ⟨s1, s2, s3, _, s5⟩ :=
    World.reserveSeq_spec cs w ((World.inv_iff_good w).1 hi) [] (by simp)
  have hinv := (World.inv_iff_good _).2 s1
  refine ⟨s3, ?_, s2, hinv⟩
  intro e he
  have hr := s5 e (by simpa using he)
  have hnr := hr.no_row hinv.core
  refine ⟨hr.contains, hr.get, hnr, ?_⟩
  intro a i r hrow
  apply hnr a i r
  simp only [World.rowAt] at hrow ⊢
  rw [s2]; exact hrow

/-- handles reserved before the sequence stay reserved and are never handed out again -/
theorem reserve_sequence_avoids_outstanding (w : World) (hi : w.Inv) (cs : List RCall)
    (prev : List Entity) (hprev : ∀ e, e ∈ prev → w.isReserved e) :
    (∀ e, e ∈ (reserveSeq cs w).2 → ∀ p, p ∈ prev → e.id ≠ p.id) ∧
    (∀ p, p ∈ prev → (reserveSeq cs w).1.isReserved p) := by
  obtain ⟨_, _, _, s4, s5⟩ := World.reserveSeq_spec cs w ((World.inv_iff_good w).1 hi) prev hprev
  exact ⟨s4, fun p hp => s5 p (List.mem_append_left _ hp)⟩

/-- The cursor-position view: `reserve_entity` claims position `cursor - 1`, `reserve_entities(n)`
positions in `[cursor - n, cursor)`; the cursor only decreases, so successive calls claim disjoint
position intervals, and positions map injectively to ids. -/
theorem reserve_positions (w : World) (hi : w.Inv) :
    (w.reserveEntity).2.id = w.posId (w.cursor - 1) ∧
    (∀ n e, e ∈ (w.reserveEntities n).2 → ∃ p : Int, w.cursor - n ≤ p ∧ p < w.cursor ∧ e.id = w.posId p) ∧
    (∀ p q : Int, p < w.pending.size → q < w.pending.size → w.posId p = w.posId q → p = q) :=
  ⟨World.reserveEntity_pos w,
   fun n e he => World.reserveEntities_pos w n ((World.inv_iff_good w).1 hi) e he,
   World.posId_inj w ((World.inv_iff_good w).1 hi)⟩

/-! ### the end of the `u32` id space

The calls refuse ("too many entities") to hand out an id ≥ 2^32 instead of wrapping around.  The judge
runs the checked forms; whenever they answer, the answer is the unchecked call's, about which the
theorems above speak. -/

theorem reserveEntityChecked_some (w : World) (r : World × Entity) (h : w.reserveEntityChecked = some r) :
    r = w.reserveEntity ∧ r.2.id < World.idLimit := by
  refine ⟨World.reserveEntityChecked_some w r h, ?_⟩
  unfold World.reserveEntityChecked at h
  split at h
  · rename_i hlt; cases h; exact hlt
  · cases h

/-- `reserve_entities(count)` with its iterator advanced `k` times: same world, the first `k` handles -/
theorem reserveEntitiesPrefix_some (w : World) (count k : Nat) (r : World × List Entity)
    (h : w.reserveEntitiesPrefix count k = some r) :
    r.1 = (w.reserveEntities count).1 ∧ r.2 = (w.reserveEntities count).2.take k :=
  World.reserveEntitiesPrefix_some w count k r h

/-- at the boundary: one live entity, ids 1 … 2^32-2 claimed by one call; the next single reservation
gets the last id, the one after that is refused -/
example :
    let w0 := (step World.new (.spawn [])).1
    (match w0.reserveEntitiesPrefix 4294967294 2 with
      | some (w1, es) =>
        es == [⟨1,1⟩, ⟨2,1⟩] &&
        (match w1.reserveEntityChecked with
          | some (w2, e) => e == ⟨4294967295, 1⟩ && w2.reserveEntityChecked.isNone
          | none => false)
      | none => false) = true ∧
    (w0.reserveEntitiesPrefix 4294967295 2).isNone = true := by
  decide +kernel

end Hecs.Props.C07
