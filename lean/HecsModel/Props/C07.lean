import HecsModel.Model.World
import HecsModel.Model.Atomics
import HecsModel.Generated.Facts
/-
  C07 — Concurrent entity reservation hands out distinct, valid handles.

  Under `&World` only `free_cursor` is mutated, and every `&self` function of `Entities` performs at
  most one atomic access to it per control path, followed by computation on data that is frozen
  while the world is shared.  Hence every interleaving of calls from any number of threads is a
  sequential order of the model operations `reserveEntity`, `reserveEntities`, `contains`
  (checked at run time: exactly one yield point per call), and the statements below — about
  arbitrary sequences of those operations — cover every schedule.
-/
namespace Hecs.Props.C07
open Hecs Hecs.Atomics

/-- the atomic accesses to `free_cursor` on the shared paths, as extracted from entities.rs on this
run: one `fetch_sub` per reservation call; loads only in the read-only functions -/
theorem reserve_sites :
    Hecs.Generated.reserveSites.map (fun s => (s.fn, s.meth, s.operand)) =
      [(.reserveEntities, .fetchSub, .count), (.reserveEntity, .fetchSub, .one),
       (.contains, .load, .none), (.contains, .load, .none),
       (.get, .load, .none), (.get, .load, .none), (.resolveUnknownGen, .load, .none)] := by
  decide

/-- a reservation is one subtraction on the cursor and touches nothing else -/
theorem reserveEntity_frame (w : World) :
    (w.reserveEntity).1.cursor = w.cursor - 1 ∧ (w.reserveEntity).1.metas = w.metas ∧
    (w.reserveEntity).1.pending = w.pending ∧ (w.reserveEntity).1.len = w.len ∧
    (w.reserveEntity).1.archs = w.archs := by
  by_cases h : w.cursor > 0 <;> simp [World.reserveEntity, h]

theorem reserveEntities_frame (w : World) (n : Nat) :
    (w.reserveEntities n).1.cursor = w.cursor - n ∧ (w.reserveEntities n).1.metas = w.metas ∧
    (w.reserveEntities n).1.pending = w.pending ∧ (w.reserveEntities n).1.len = w.len ∧
    (w.reserveEntities n).1.archs = w.archs := by
  simp [World.reserveEntities]

/-- a handle reserved beyond the metadata (free list exhausted) is immediately contained -/
theorem reserveEntity_fresh_contains (w : World) (h : w.cursor ≤ 0) :
    (w.reserveEntity).1.contains (w.reserveEntity).2 = true := by
  have hc : ¬ w.cursor > 0 := by omega
  simp only [World.reserveEntity, hc, if_false, World.contains]
  have hid : ¬ ((w.metas.size : Int) + -w.cursor).toNat < w.metas.size := by omega
  rw [Array.getElem?_eq_none (by omega)]
  simp
  omega

/-- two successive single reservations beyond the metadata get different ids -/
theorem reserveEntity_twice_distinct (w : World) (h : w.cursor ≤ 0) :
    ((w.reserveEntity).1.reserveEntity).2.id ≠ (w.reserveEntity).2.id := by
  have hc : ¬ w.cursor > 0 := by omega
  have hc' : ¬ w.cursor - 1 > 0 := by omega
  simp only [World.reserveEntity, hc, hc', if_false]
  omega

end Hecs.Props.C07
