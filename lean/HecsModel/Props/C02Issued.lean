import HecsModel.Lemmas.Issued
/-
  C02, history form — "every handle returned by a spawn-like call differs from every handle the world
  has returned before (since the last clear, ids not resurrected with spawn_at excepted)".

  `issuedFrom w ops` is the list of all handles handed out, in order, by `spawn`, `spawn_batch`,
  `spawn_column_batch`, `reserve_entity` and `reserve_entities` along the history `ops` started in `w`.
  `R` is the set of exempt ids: an operation may resurrect (`spawn_at`, `spawn_column_batch_at`) or wipe
  (`clear`, which resurrects every id) only ids in `R`; `keepId R` keeps the handles whose id is not
  exempt.  With `R = []` the history contains no `clear` and no id-targeted spawn and the statement is
  plain `Nodup`.  Starting points: `World.new` (`issued_nodup`) or any world satisfying the invariant,
  e.g. the one right after a `clear` (`issued_nodup_since`).

  Property theorems only; helper lemmas are in `Lemmas/Issued.lean`.
-/
namespace Hecs.Props.C02
open Hecs

/-- the handles one operation returns are pairwise distinct, were not contained before the operation,
are contained after it, and carry the generation that was stored for their id -/
theorem returned_handles_fresh (w : World) (op : Op) (hw : w.Inv) (hop : op.WF) :
    (step w op).2.res.handles_eff.Nodup ∧
    ∀ e, e ∈ (step w op).2.res.handles_eff →
      w.contains e = false ∧ (step w op).1.contains e = true ∧ e.gen = w.genOf e.id :=
  World.handles_fresh w op hw hop

/-- a contained handle stays contained through every operation that does not resurrect its id; the
only way out is being despawned or taken itself, and then the stored generation has moved past it
(so, by `dead_forever`, it is never accepted again) -/
theorem contained_until_despawned (w : World) (op : Op) (hw : w.Inv) (hop : op.WF) (e : Entity)
    (hr : op.resurrects e.id = false) (hc : w.contains e = true) :
    (step w op).1.contains e = true ∨ e.gen < (step w op).1.genOf e.id :=
  World.contains_after w op hw hop e hr hc

/-- at most one handle per id is contained at any time -/
theorem contained_unique_per_id (w : World) (e e' : Entity) (h : w.contains e = true)
    (h' : w.contains e' = true) (hid : e'.id = e.id) : e' = e :=
  World.contains_unique w e e' h h' hid

/-- started in any world satisfying the invariant (e.g. right after a `clear`), the handles handed out
from then on are pairwise distinct, exempt ids aside -/
theorem issued_nodup_since (R : List Nat) (w : World) (hw : w.Inv) (ops : List Op)
    (hwf : ∀ op, op ∈ ops → op.WF)
    (hr : ∀ op, op ∈ ops → ∀ id, op.resurrects id = true → id ∈ R) :
    ((issuedFrom w ops).filter (keepId R)).Nodup := by
  have := (World.issued_nodup_from R ops w [] hw hwf hr (World.issuedOk_nil R w) List.nodup_nil).1
  simpa using this

/-- the whole life of a world: every handle is handed out at most once, exempt ids aside -/
theorem issued_nodup (R : List Nat) (ops : List Op) (hwf : ∀ op, op ∈ ops → op.WF)
    (hr : ∀ op, op ∈ ops → ∀ id, op.resurrects id = true → id ∈ R) :
    ((issuedFrom World.new ops).filter (keepId R)).Nodup :=
  issued_nodup_since R World.new World.inv_new ops hwf hr

/-- no `clear`, no id-targeted spawn: all handles ever handed out are pairwise distinct -/
theorem issued_nodup_plain (ops : List Op) (hwf : ∀ op, op ∈ ops → op.WF)
    (hr : ∀ op, op ∈ ops → ∀ id, op.resurrects id = false) :
    (issuedFrom World.new ops).Nodup := by
  have := issued_nodup [] ops hwf (fun op hop id h => by rw [hr op hop id] at h; cases h)
  have hk : (issuedFrom World.new ops).filter (keepId []) = issuedFrom World.new ops := by
    apply List.filter_eq_self.2; intro e _; simp [keepId]
  rwa [hk] at this

/-- the statement as C02 words it: what the next spawn-like call returns differs from every handle
returned earlier in the history (and from every handle in `I`, a record of handles known to have been
handed out before the history started) -/
theorem new_handle_differs (R : List Nat) (pre : List Op) (op : Op)
    (hwf : ∀ o, o ∈ pre → o.WF) (hop : op.WF)
    (hr : ∀ o, o ∈ pre → ∀ id, o.resurrects id = true → id ∈ R)
    (hro : ∀ id, op.resurrects id = true → id ∈ R) (e : Entity)
    (he : e ∈ (step (run pre) op).2.res.handles_eff) (hid : e.id ∉ R) :
    e ∉ issuedFrom World.new pre := by
  have h := (World.issued_nodup_from R pre World.new [] World.inv_new hwf hr
    (World.issuedOk_nil R _) List.nodup_nil).2
  have hinv : (run pre).Inv := by
    have : ∀ (l : List Op) (w : World), w.Inv → (∀ o, o ∈ l → o.WF) →
        (l.foldl (fun w op => (step w op).1) w).Inv := by
      intro l
      induction l with
      | nil => intro w hw _; exact hw
      | cons o os ih =>
        intro w hw hl
        exact ih _ (World.inv_step w o (hl o (by simp)) hw) (fun o' ho' => hl o' (by simp [ho']))
    exact this pre World.new World.inv_new hwf
  have := (World.issued_step R (run pre) op ([] ++ issuedFrom World.new pre) hinv hop hro h).1 e he hid
  simpa using this

/-! ### the statements are not vacuous -/

/-- a history that recycles ids (despawn then spawn, reservations served from the free list, a batch):
seven handles handed out, two of them on id 0 and two on id 1, all different -/
example :
    issuedFrom World.new
      [.spawn [], .spawn [], .despawn ⟨0,1⟩, .spawn [], .despawn ⟨1,1⟩, .reserveEntities 2, .flush,
       .spawnBatch [] [[], []]]
      = [⟨0,1⟩, ⟨1,1⟩, ⟨0,2⟩, ⟨1,2⟩, ⟨2,1⟩, ⟨3,1⟩, ⟨4,1⟩] := by decide +kernel

/-- the exemption is needed (see `resurrection_reissues_old_handle`): with `spawn_at` lowering the
generation of id 0, the handle `0v2` is handed out twice; it is exactly the handles on id 0 that
repeat — filtered by `keepId [0]` the list is duplicate-free, as `issued_nodup [0]` says -/
example :
    let h : List Op := [.spawn [], .despawn ⟨0,1⟩, .spawn [], .despawn ⟨0,2⟩, .spawnAt ⟨0,1⟩ [],
                        .despawn ⟨0,1⟩, .spawn [], .spawn []]
    issuedFrom World.new h = [⟨0,1⟩, ⟨0,2⟩, ⟨0,2⟩, ⟨1,1⟩] ∧
    (issuedFrom World.new h).filter (keepId [0]) = [⟨1,1⟩] := by decide +kernel

end Hecs.Props.C02
