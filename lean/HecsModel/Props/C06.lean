import HecsModel.Lemmas.BorrowSites
/-
  C06 — Borrow flag protocol is exclusive under every thread interleaving.
-/
namespace Hecs.Props.C06
open Hecs.Borrow Hecs.Atomics

/-- The atomic operations of borrow.rs (extracted from the source on this run) are exactly the five
actions of the model, with the same read-modify-write methods and operands, in the same order. -/
theorem sites_are_model_actions :
    Hecs.Generated.borrowSites.map siteShape =
      [Act.borrowAdd, .borrowUndo, .borrowMut, .release, .releaseMut].map (fun a => siteShape a.site) := by
  decide

/-- Every read-modify-write on a granting path acquires, every one on a releasing or rollback path
releases; all accesses to the word are read-modify-writes (no plain load/store). -/
theorem orderings_sufficient :
    Hecs.Generated.borrowSites.all siteOrderingOk = true ∧
    Hecs.Generated.borrowSites.all (fun s => s.meth ≠ .load ∧ s.meth ≠ .store) = true := by
  decide

/-- `UNIQUE_BIT` and `COUNTER_MASK` as written in borrow.rs are the constants of the model -/
theorem constants :
    Hecs.Generated.uniqueBit.toNat = UNIQUE ∧ Hecs.Generated.counterMask.toNat = UNIQUE - 1 := by
  decide

end Hecs.Props.C06
