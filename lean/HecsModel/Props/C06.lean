import HecsModel.Lemmas.Borrow
import HecsModel.Lemmas.BorrowSites
/-
  C06 — the reader/writer borrow flag is sound for any number of threads and any interleaving of
  its atomic actions.

  `Inv` ties the lock word to what the threads hold:
    word = UNIQUE · (#unique holders) + (#shared borrows) + (#pending roll-backs),
  with at most one unique holder, who excludes every shared borrow.  It holds initially and is
  preserved by every step of every thread, hence along every schedule of unbounded length.

  The word of the model is a natural number, so `Inv` needs no overflow hypothesis; the documented
  out-of-scope overflow (2^63 simultaneous shared borrows/attempts) appears only as `Bounded`,
  which is what makes the natural-number word coincide with the 64-bit word of the real code
  (`word_fits`) and what makes a refusal of a shared borrow imply a unique holder
  (`deny_shared_only_if_unique`).
-/
namespace Hecs.Props.C06
open Hecs.Borrow

/-! ### 1–3: the invariant holds on every reachable state -/

theorem inv_init (n : Nat) : Inv (Sys.init n) := inv_init' n

/-- every thread index (in range or not), every action (enabled or not) -/
theorem inv_step (s : Sys) (i : Nat) (a : Act) (h : Inv s) : Inv (s.step i a).1 :=
  inv_step' s i a h

theorem inv_run (n : Nat) (steps : List (Nat × Act)) : Inv (run (Sys.init n) steps) :=
  inv_run' steps _ (inv_init' n)

/-- each step adds at most one unit to the word besides the unique bit -/
theorem bounded_step (s : Sys) (i : Nat) (a : Act)
    (h : sumShared s + numRollback s + 1 < UNIQUE) : Bounded (s.step i a).1 := by
  have := load_step s i a
  unfold load at this
  unfold Bounded
  omega

/-- a schedule shorter than 2^63 steps stays inside the overflow bound, and there the model word
is a faithful image of the 64-bit word -/
theorem bounded_run (n : Nat) (steps : List (Nat × Act)) (h : steps.length < UNIQUE) :
    Bounded (run (Sys.init n) steps) ∧ (run (Sys.init n) steps).word < 2 * UNIQUE := by
  have h1 := load_run steps (Sys.init n)
  rw [load_init] at h1
  have hb : Bounded (run (Sys.init n) steps) := by
    unfold load at h1
    unfold Bounded
    omega
  exact ⟨hb, word_lt_two_unique _ (inv_run n steps) hb⟩

theorem word_fits (s : Sys) (h : Inv s) (hb : Bounded s) : s.word < 2 * UNIQUE :=
  word_lt_two_unique s h hb

/-! ### 4: mutual exclusion -/

/-- while a thread holds the unique borrow, no other thread holds anything -/
theorem never_unique_with_other (s : Sys) (h : Inv s) (i j : Nat) (ti tj : Thread)
    (hi : s.threads[i]? = some ti) (hj : s.threads[j]? = some tj) (hne : i ≠ j)
    (hu : ti.uniq = true) : tj.uniq = false ∧ tj.shared = 0 :=
  uniq_excludes_other s h i j ti tj hi hj hne hu

/-! ### 5: a grant is justified by the state it was issued in -/

/-- `borrow_mut` succeeds only when nobody holds or is attempting anything -/
theorem grant_unique_sound (s : Sys) (i : Nat) (h : Inv s)
    (hg : (s.step i .borrowMut).2 = some true) :
    sumShared s = 0 ∧ numUniq s = 0 ∧ numRollback s = 0 := by
  have hz := word_zero_of_borrowMut_true s i hg
  obtain ⟨h1, h2, h3⟩ := all_zero_of_word_zero UNIQUE_pos h.1 hz
  exact ⟨h2, h1, h3⟩

/-- `borrow` succeeds only when nobody holds the unique borrow -/
theorem grant_shared_sound (s : Sys) (i : Nat) (h : Inv s)
    (hg : (s.step i .borrowAdd).2 = some true) : numUniq s = 0 :=
  nu_zero_of_lt h.1 (word_lt_of_borrowAdd_true s i hg)

/-- converse, inside the overflow bound: `borrow` is refused only because of a unique holder -/
theorem deny_shared_only_if_unique (s : Sys) (i : Nat) (t : Thread) (h : Inv s) (hb : Bounded s)
    (ht : s.threads[i]? = some t) (he : enabled t .borrowAdd = true)
    (hd : (s.step i .borrowAdd).2 = none) : numUniq s = 1 :=
  uniq_of_word_ge s h hb (word_ge_of_borrowAdd_none s i t ht he hd)

/-! ### 6: nothing held, nothing pending ⇒ the word is back to zero -/

theorem quiescent_zero (s : Sys) (h : Inv s)
    (hq : ∀ t ∈ s.threads, t.shared = 0 ∧ t.uniq = false ∧ t.rollback = false) : s.word = 0 := by
  have hs : sumShared s = 0 := sum_map_eq_zero _ _ (fun t ht => (hq t ht).1)
  have hu : numUniq s = 0 := sum_map_eq_zero _ _ (fun t ht => by simp [uBit, (hq t ht).2.1])
  have hr : numRollback s = 0 := sum_map_eq_zero _ _ (fun t ht => by simp [rBit, (hq t ht).2.2])
  have hw := h.1
  rw [hs, hu, hr] at hw
  simpa using hw

/-! ### 7: frame and roll-back -/

/-- a step of thread `i` never changes another thread's record -/
theorem failed_attempt_frame (s : Sys) (i j : Nat) (a : Act) (hne : j ≠ i) :
    (s.step i a).1.threads[j]? = s.threads[j]? := step_frame s i j a hne

/-- a failed `borrow` (the refused `fetch_add`, then the compensating `fetch_sub` with no step in
between) restores the word -/
theorem failed_attempt_restores_word (s : Sys) (i : Nat) (t : Thread)
    (ht : s.threads[i]? = some t) (he : enabled t .borrowAdd = true)
    (hn : (s.step i .borrowAdd).2 = none) :
    ((s.step i .borrowAdd).1.step i .borrowUndo).1.word = s.word := by
  rw [failed_borrow_restores s i t ht he hn]

/-- …and in fact the whole state, every thread record included -/
theorem failed_attempt_restores_state (s : Sys) (i : Nat) (t : Thread)
    (ht : s.threads[i]? = some t) (he : enabled t .borrowAdd = true)
    (hn : (s.step i .borrowAdd).2 = none) :
    ((s.step i .borrowAdd).1.step i .borrowUndo).1 = s := failed_borrow_restores s i t ht he hn

/-- a thread in `rollback` can always take its compensating step, whatever the others did in the
meantime; the step completes the call with `false`, gives back exactly one unit of the word
(no truncated subtraction) and clears the flag -/
theorem progress_rollback (s : Sys) (i : Nat) (t : Thread) (h : Inv s)
    (ht : s.threads[i]? = some t) (hrb : t.rollback = true) :
    enabled t .borrowUndo = true ∧ (s.step i .borrowUndo).2 = some false ∧
      (s.step i .borrowUndo).1.word + 1 = s.word ∧
      (s.step i .borrowUndo).1.threads[i]? = some { t with rollback := false } :=
  rollback_step s i t ht hrb h

/-! ### 8: the hypotheses are satisfiable on non-trivial states -/

/-- thread 0 takes the unique borrow, thread 1 attempts a shared one and is refused, thread 2 is
refused the unique borrow; thread 1 has not rolled back yet -/
def demo : Sys := run (Sys.init 3) [(0, .borrowMut), (1, .borrowAdd), (2, .borrowMut)]

example : demo.word = UNIQUE + 1 ∧
    demo.threads = [{ uniq := true }, { rollback := true }, {}] := by decide

example : Inv demo ∧ Bounded demo := ⟨inv_run 3 _, (bounded_run 3 _ (by decide)).1⟩

/-- `never_unique_with_other`: a unique holder next to another thread -/
example : ∃ ti tj, demo.threads[0]? = some ti ∧ demo.threads[1]? = some tj ∧ ti.uniq = true :=
  ⟨{ uniq := true }, { rollback := true }, by decide⟩

/-- `grant_unique_sound`, `grant_shared_sound`: grants do happen -/
example : ((Sys.init 3).step 0 .borrowMut).2 = some true ∧
    ((run (Sys.init 3) [(1, .borrowAdd)]).step 0 .borrowAdd).2 = some true := by decide

/-- `deny_shared_only_if_unique`, `failed_attempt_restores_word`: a refusal does happen -/
example : ∃ t, (run (Sys.init 3) [(0, .borrowMut)]).threads[1]? = some t ∧
    enabled t .borrowAdd = true ∧
    ((run (Sys.init 3) [(0, .borrowMut)]).step 1 .borrowAdd).2 = none := ⟨{}, by decide⟩

/-- `progress_rollback`: a thread in `rollback` -/
example : ∃ t, demo.threads[1]? = some t ∧ t.rollback = true :=
  ⟨{ rollback := true }, by decide⟩

/-- `quiescent_zero`: after everything is given back the state is quiescent -/
example : ∀ t ∈ (run demo [(1, .borrowUndo), (0, .releaseMut)]).threads,
    t.shared = 0 ∧ t.uniq = false ∧ t.rollback = false := by decide

/-! ### tie to the source text of borrow.rs (translator) -/

section Sites
open Hecs.Atomics

/-- The atomic operations of borrow.rs (extracted from the source on this run) are exactly the five
actions of the model, with the same read-modify-write methods and operands, in the same order. -/
theorem sites_are_model_actions :
    Hecs.Generated.borrowSites.map siteShape =
      [Act.borrowAdd, .borrowUndo, .borrowMut, .release, .releaseMut].map (fun a => siteShape a.site) := by
  decide

/-- Every read-modify-write on a granting path acquires, every one on a releasing or rollback path
releases; all accesses to the word are read-modify-writes (no plain load/store). -/
theorem orderings_sufficient :
    Hecs.Generated.borrowSites.all siteOrderingOk = true ∧
    Hecs.Generated.borrowSites.all (fun s => s.meth ≠ .load ∧ s.meth ≠ .store) = true := by
  decide

/-- `UNIQUE_BIT` and `COUNTER_MASK` as written in borrow.rs are the constants of the model -/
theorem constants :
    Hecs.Generated.uniqueBit.toNat = UNIQUE ∧ Hecs.Generated.counterMask.toNat = UNIQUE - 1 := by
  decide

end Sites

end Hecs.Props.C06
