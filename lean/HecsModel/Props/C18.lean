import HecsModel.Model.Tracker
import HecsModel.Lemmas.TrackerReports
import HecsModel.Lemmas.TrackerHistory
import HecsModel.Lemmas.TrackerHeadlines
/-
  C18 — ChangeTracker reports exactly the difference between consecutive snapshots, regardless of
  which reports are read, in which order, and whether iterators are abandoned.

  `t` is the tracked component type, `p` the hidden snapshot component (`Previous<T>`), `t ≠ p`.
  The observation is `comp w e c : Option Nat`, the value of component `c` of the handle `e` read
  through `World.lookup` (so it is flush-invariant; `comp_iff`, `comp_iff_liveRows`).  The abstraction
  of a world is `cur w = snapshot w.liveRows t` and `prevOf w = snapshot w.liveRows p`
  (`mem_cur_iff`).  All reports are characterised as sets (storage order is irrelevant).

  Property theorems only; helper lemmas live in `Lemmas/Tracker*.lean`.
-/
namespace Hecs.Props.C18
open Hecs Hecs.World Hecs.Tracker Hecs.TrackerLemmas

/-- the three specified reports are pairwise disjoint in the entities they name -/
theorem spec_added_not_changed (prev cur : List (Entity × Nat)) (e : Entity) (v : Nat)
    (h : (e, v) ∈ specAdded prev cur) : ∀ o n, (e, o, n) ∉ specChanged prev cur := by
  intro o n hc
  simp only [specAdded, List.mem_filter] at h
  simp only [specChanged, List.mem_filterMap] at hc
  obtain ⟨c, _, hc2⟩ := hc
  cases hf : prev.find? (fun x => x.1 == c.1) with
  | none => simp [hf] at hc2
  | some o' =>
    simp only [hf] at hc2
    split at hc2
    · simp only [Option.some.injEq, Prod.mk.injEq] at hc2
      have hmem := List.mem_of_find?_eq_some hf
      have hp := List.find?_some hf
      simp only [beq_iff_eq] at hp
      have : prev.any (fun x => x.1 == e) = true := by
        rw [List.any_eq_true]
        exact ⟨o', hmem, by simp [hp, hc2.1]⟩
      simp [this] at h
    · simp at hc2

/-! ### 0. the observation and the abstraction -/

/-- `comp w e c = some v`: the handle exists and its component list has value `v` at type `c` -/
theorem comp_iff (w : World) (e : Entity) (c v : Nat) :
    comp w e c = some v ↔ ∃ cs, w.lookup e = some cs ∧ lookupComp c cs = some v := comp_eq_some

/-- … equivalently: `e` is a live row whose own values have `v` at type `c` -/
theorem comp_iff_liveRows (w : World) (hw : w.Inv) (e : Entity) (c v : Nat) :
    comp w e c = some v ↔ ∃ vals, (e, vals) ∈ w.liveRows ∧ lookupComp c vals = some v :=
  comp_eq_some_iff_liveRows w hw.core e c v

/-- a handle with a component is live (reserved handles have none) -/
theorem comp_live (w : World) (e : Entity) (c v : Nat) (h : comp w e c = some v) : w.isLive e = true :=
  isLive_of_comp h

/-- the observation does not see `flush` -/
theorem comp_flush_eq (w : World) (hw : w.Inv) (e : Entity) (c : Nat) : comp w.flush e c = comp w e c :=
  comp_flush w hw e c

/-- the live rows are the live handles with their `lookup` -/
theorem liveRows_iff (w : World) (hw : w.Inv) (e : Entity) (vals : List Comp) :
    (e, vals) ∈ w.liveRows ↔ w.isLive e = true ∧ w.lookup e = some vals :=
  mem_liveRows_iff w hw.core e vals

/-- `cur w` (`c = t`) and `prevOf w` (`c = p`): the specification's snapshot of a component -/
theorem mem_cur_iff (w : World) (hw : w.Inv) (c : Nat) (e : Entity) (v : Nat) :
    (e, v) ∈ snapshot w.liveRows c ↔ comp w e c = some v :=
  mem_snapshot_iff w hw.core c e v

/-! ### 1. each read reports the specified difference (as a set) -/

theorem added_report (t p : Nat) (s : CSt) (hw : s.w.Inv) (e : Entity) (v : Nat) :
    (e, v) ∈ (doAdded t p s).2 ↔ comp s.w e t = some v ∧ comp s.w e p = none :=
  mem_doAdded t p s hw e v

theorem changed_report (t p : Nat) (s : CSt) (hw : s.w.Inv) (e : Entity) (old new : Nat) :
    (e, old, new) ∈ (doChanged t p s).2 ↔
      comp s.w e t = some new ∧ comp s.w e p = some old ∧ new ≠ old :=
  mem_doChanged t p s hw e old new

theorem removed_report (t p : Nat) (s : CSt) (hw : s.w.Inv) (e : Entity) (old : Nat) :
    (e, old) ∈ (doRemoved t p s).2 ↔ comp s.w e p = some old ∧ comp s.w e t = none :=
  mem_doRemoved t p s hw e old

/-- the same relative to the flushed world (`remove` flushes): `e` is live there, has snapshot `old`
and no `t` -/
theorem removed_report_flush (t p : Nat) (s : CSt) (hw : s.w.Inv) (e : Entity) (old : Nat) :
    (e, old) ∈ (doRemoved t p s).2 ↔
      s.w.flush.isLive e = true ∧ comp s.w.flush e p = some old ∧ comp s.w.flush e t = none :=
  Headline.removed_report_flush t p s hw e old

/-- every report is also the specified list of the spec functions, for `prev = prevOf s.w`,
`cur = cur s.w` -/
theorem reports_eq_spec (t p : Nat) (s : CSt) (hw : s.w.Inv) :
    (∀ e v, (e, v) ∈ (doAdded t p s).2 ↔
      (e, v) ∈ specAdded (snapshot s.w.liveRows p) (snapshot s.w.liveRows t)) ∧
    (∀ e o n, (e, o, n) ∈ (doChanged t p s).2 ↔
      (e, o, n) ∈ specChanged (snapshot s.w.liveRows p) (snapshot s.w.liveRows t)) ∧
    (∀ e o, (e, o) ∈ (doRemoved t p s).2 ↔
      (e, o) ∈ specRemoved (snapshot s.w.liveRows p) (snapshot s.w.liveRows t) (s.w.liveRows.map (·.1))) :=
  have h := classes_eq_spec t p s.w hw
  ⟨fun e v => (mem_doAdded t p s hw e v).trans (h.1 e v),
   fun e o n => (mem_doChanged t p s hw e o n).trans (h.2.1 e o n),
   fun e o => (mem_doRemoved t p s hw e o).trans (h.2.2 e o)⟩

/-! ### 2. effects of the reads on the world -/

theorem added_world (t p : Nat) (s : CSt) : (doAdded t p s).1.w = s.w := rfl

/-- `doChanged`: the invariant is kept; handles and liveness are unchanged; every component other than
`p` of every handle is unchanged; `p` becomes `t`'s value where both existed and is unchanged
elsewhere -/
theorem changed_effect (t p : Nat) (s : CSt) (hw : s.w.Inv) :
    (doChanged t p s).1.w.Inv ∧
    (∀ e, (doChanged t p s).1.w.isLive e = s.w.isLive e) ∧
    (∀ e, ((doChanged t p s).1.w.lookup e).isSome = (s.w.lookup e).isSome) ∧
    (∀ e c, c ≠ p → comp (doChanged t p s).1.w e c = comp s.w e c) ∧
    (∀ e n o, comp s.w e t = some n → comp s.w e p = some o → comp (doChanged t p s).1.w e p = some n) ∧
    (∀ e, comp s.w e t = none ∨ comp s.w e p = none → comp (doChanged t p s).1.w e p = comp s.w e p) :=
  Headline.changed_effect t p s hw

/-- … in particular exactly the reported entities get a new snapshot (the reported new value) -/
theorem changed_reported (t p : Nat) (s : CSt) (hw : s.w.Inv) (e : Entity) :
    (∀ o n, (e, o, n) ∈ (doChanged t p s).2 → comp (doChanged t p s).1.w e p = some n) ∧
    ((∀ o n, (e, o, n) ∉ (doChanged t p s).2) → comp (doChanged t p s).1.w e p = comp s.w e p) :=
  Headline.changed_reported t p s hw e

/-- `doRemoved`: the invariant is kept; the handles are the same, live ones stay live (the world may
have been flushed); every component other than `p` of every handle is unchanged; `p` disappears
where there is no `t` and is unchanged elsewhere -/
theorem removed_effect (t p : Nat) (s : CSt) (hw : s.w.Inv) :
    (doRemoved t p s).1.w.Inv ∧
    (∀ e, s.w.isLive e = true → (doRemoved t p s).1.w.isLive e = true) ∧
    (∀ e, ((doRemoved t p s).1.w.lookup e).isSome = (s.w.lookup e).isSome) ∧
    (∀ e c, c ≠ p → comp (doRemoved t p s).1.w e c = comp s.w e c) ∧
    (∀ e, comp s.w e t = none → comp (doRemoved t p s).1.w e p = none) ∧
    (∀ e n, comp s.w e t = some n → comp (doRemoved t p s).1.w e p = comp s.w e p) :=
  Headline.removed_effect t p s hw

/-- … in particular `p` is removed exactly from the reported entities -/
theorem removed_reported (t p : Nat) (s : CSt) (hw : s.w.Inv) (e : Entity) :
    (∀ o, (e, o) ∈ (doRemoved t p s).2 → comp (doRemoved t p s).1.w e p = none) ∧
    ((∀ o, (e, o) ∉ (doRemoved t p s).2) → comp (doRemoved t p s).1.w e p = comp s.w e p) :=
  Headline.removed_reported t p s hw e

/-- the component lists without `p` are literally unchanged by `doChanged` and `doRemoved` -/
theorem reads_visible (t p : Nat) (s : CSt) (hw : s.w.Inv) (e : Entity) :
    ((doChanged t p s).1.w.lookup e).map (List.filter (fun c => c.1 != p)) =
      (s.w.lookup e).map (List.filter (fun c => c.1 != p)) ∧
    ((doRemoved t p s).1.w.lookup e).map (List.filter (fun c => c.1 != p)) =
      (s.w.lookup e).map (List.filter (fun c => c.1 != p)) :=
  ⟨(doChanged_onlyP t p s hw).visible hw (doChanged_effect t p s hw).1 e,
   (doRemoved_effect t p s hw).2.1.visible hw (doRemoved_effect t p s hw).1 e⟩

/-! ### 3. the tracker invariant after a full `track`, for every list of reads -/

theorem track_inv {t p : Nat} (htp : t ≠ p) (w : World) (hw : w.Inv) (reads : List Read) :
    (track t p w reads).1.Inv := (track_spec htp w hw reads).1

/-- afterwards the snapshot of every handle is its current `t` value (absent iff absent) -/
theorem track_snapshot_eq_current {t p : Nat} (htp : t ≠ p) (w : World) (hw : w.Inv) (reads : List Read)
    (e : Entity) : comp (track t p w reads).1 e p = comp (track t p w reads).1 e t :=
  track_tracked htp w hw reads e

/-- the same on the live rows -/
theorem track_snapshot_eq_current_rows {t p : Nat} (htp : t ≠ p) (w : World) (hw : w.Inv)
    (reads : List Read) (e : Entity) (cs : List Comp) (h : (e, cs) ∈ (track t p w reads).1.liveRows) :
    lookupComp p cs = lookupComp t cs :=
  Headline.track_snapshot_eq_current_rows htp w hw reads e cs h

/-- and it is the `t` value at the start of `track` -/
theorem track_snapshot_eq_start {t p : Nat} (htp : t ≠ p) (w : World) (hw : w.Inv) (reads : List Read)
    (e : Entity) : comp (track t p w reads).1 e p = comp w e t :=
  (track_spec htp w hw reads).2.2 e

/-- `track` touches nothing but `p`: same handles, every other component of every handle unchanged
(as values and as lists) -/
theorem track_frame {t p : Nat} (htp : t ≠ p) (w : World) (hw : w.Inv) (reads : List Read) (e : Entity) :
    ((track t p w reads).1.lookup e).isSome = (w.lookup e).isSome ∧
    (∀ c, c ≠ p → comp (track t p w reads).1 e c = comp w e c) ∧
    ((track t p w reads).1.lookup e).map (List.filter (fun c => c.1 != p)) =
      (w.lookup e).map (List.filter (fun c => c.1 != p)) :=
  have h := track_spec htp w hw reads
  ⟨h.2.1.ex e, h.2.1.comp e, h.2.1.visible hw h.1 e⟩

/-- liveness afterwards lies between that of `w` and that of `w.flush` (`track` flushes only when it
calls `insert`/`remove`) -/
theorem track_live {t p : Nat} (htp : t ≠ p) (w : World) (hw : w.Inv) (reads : List Read) (e : Entity) :
    (w.isLive e = true → (track t p w reads).1.isLive e = true) ∧
    ((track t p w reads).1.isLive e = true → w.flush.isLive e = true) :=
  Headline.track_live htp w hw reads e

/-! ### 4. the reports of a `track` -/

/-- (a) what a read reports after any earlier reads `pre` of the same `track`, relative to the world
`w` at the start: `added` always reports the added set (reading it does not change the world);
`changed` and `removed` report their set the first time and nothing afterwards (the first read
consumed it); reads of different kinds do not interfere -/
theorem read_after_any_prefix {t p : Nat} (htp : t ≠ p) (w : World) (hw : w.Inv) (pre : List Read) :
    (∀ e v, (e, v) ∈ (doAdded t p (runReads t p w pre).1).2 ↔
      comp w e t = some v ∧ comp w e p = none) ∧
    (∀ e o n, (e, o, n) ∈ (doChanged t p (runReads t p w pre).1).2 ↔
      pre.any isChangedRead = false ∧ comp w e t = some n ∧ comp w e p = some o ∧ n ≠ o) ∧
    (∀ e o, (e, o) ∈ (doRemoved t p (runReads t p w pre).1).2 ↔
      pre.any isRemovedRead = false ∧ comp w e p = some o ∧ comp w e t = none) :=
  read_after htp w hw pre

/-- `runReads` is the fold inside `track`, and the read `r` of `pre ++ r :: post` is performed in the
state reached by `pre` -/
theorem track_unfold (t p : Nat) (w : World) (pre post : List Read) (r : Read) :
    track t p w (pre ++ r :: post) =
      (doDrop t p (runReads t p w (pre ++ r :: post)).1, (runReads t p w (pre ++ r :: post)).2) ∧
    runReads t p w (pre ++ r :: post) =
      post.foldl (fun acc r => doRead t p acc.1 acc.2 r)
        (doRead t p (runReads t p w pre).1 (runReads t p w pre).2 r) :=
  ⟨rfl, runReads_append t p w pre post r⟩

/-- a second `changed` / `removed` read of the same `track` returns the empty list -/
theorem second_read_empty {t p : Nat} (htp : t ≠ p) (w : World) (hw : w.Inv) (pre : List Read) :
    (pre.any isChangedRead = true → (doChanged t p (runReads t p w pre).1).2 = []) ∧
    (pre.any isRemovedRead = true → (doRemoved t p (runReads t p w pre).1).2 = []) :=
  have h := runReads_rinv htp w hw pre
  have f := runReads_flags t p w pre
  ⟨fun hh => h.report_changed_again htp (f.2.1.trans hh),
   fun hh => h.report_removed_again htp (f.2.2.trans hh)⟩

/-- (b) `reports_eq_diff`: with `changed` and `removed` read at most once each (`added` any number of
times), in any order and with any `partial_` flags, the reports returned by `track` are present
exactly for the kinds read and equal, as sets, the specified differences between
`prev = prevOf w` and `cur = cur w` -/
theorem reports_eq_diff {t p : Nat} (htp : t ≠ p) (w : World) (hw : w.Inv) (reads : List Read)
    (hc : reads.countP isChangedRead ≤ 1) (hr : reads.countP isRemovedRead ≤ 1) :
    ((track t p w reads).2.added.isSome = reads.any isAddedRead ∧
      ∀ l, (track t p w reads).2.added = some l → ∀ e v,
        (e, v) ∈ l ↔ (e, v) ∈ specAdded (snapshot w.liveRows p) (snapshot w.liveRows t)) ∧
    ((track t p w reads).2.changed.isSome = reads.any isChangedRead ∧
      ∀ l, (track t p w reads).2.changed = some l → ∀ e o n,
        (e, o, n) ∈ l ↔ (e, o, n) ∈ specChanged (snapshot w.liveRows p) (snapshot w.liveRows t)) ∧
    ((track t p w reads).2.removed.isSome = reads.any isRemovedRead ∧
      ∀ l, (track t p w reads).2.removed = some l → ∀ e o,
        (e, o) ∈ l ↔ (e, o) ∈ specRemoved (snapshot w.liveRows p) (snapshot w.liveRows t)
          (w.liveRows.map (·.1))) :=
  Headline.reports_eq_diff htp w hw reads hc hr

/-- the same in terms of the observation -/
theorem reports_eq_diff_comp {t p : Nat} (htp : t ≠ p) (w : World) (hw : w.Inv) (reads : List Read)
    (hc : reads.countP isChangedRead ≤ 1) (hr : reads.countP isRemovedRead ≤ 1) :
    (∀ l, (track t p w reads).2.added = some l → ∀ e v,
      (e, v) ∈ l ↔ comp w e t = some v ∧ comp w e p = none) ∧
    (∀ l, (track t p w reads).2.changed = some l → ∀ e o n,
      (e, o, n) ∈ l ↔ comp w e t = some n ∧ comp w e p = some o ∧ n ≠ o) ∧
    (∀ l, (track t p w reads).2.removed = some l → ∀ e o,
      (e, o) ∈ l ↔ comp w e p = some o ∧ comp w e t = none) :=
  have h := track_reports htp w hw reads hc hr
  ⟨h.1.2, h.2.1.2, h.2.2.2⟩

/-! ### 5. two consecutive `track`s -/

/-- an operation (`spawn`, `insert`, `remove`, `despawn`, `flush`) that does not mention `p` preserves
the `p` value of every handle that exists afterwards (handles it creates have none; it removes a `p`
value only by despawning the entity) -/
theorem op_keeps_p (p : Nat) (w : World) (hw : w.Inv) (op : Op) (hop : op.WF) (hnp : NoP p op) (e : Entity)
    (h : ((step w op).1.lookup e).isSome = true) : comp (step w op).1 e p = comp w e p :=
  keepsP_step p w hw op hop hnp e h

/-- general form: `w0` satisfies the tracker invariant (e.g. it is the result of a `track`,
`track_snapshot_eq_current`), the history `w0 ⟶ w1` preserves the `p` value of every handle of `w1`;
then the next `track` reports exactly the difference between the `t`-snapshot of `w0` and the
`t`-snapshot of `w1` -/
theorem two_tracks_general {t p : Nat} (htp : t ≠ p) (w0 w1 : World) (hw0 : w0.Inv) (hw1 : w1.Inv)
    (ht : ∀ e, comp w0 e p = comp w0 e t)
    (hk : ∀ e, (w1.lookup e).isSome = true → comp w1 e p = comp w0 e p) (reads : List Read)
    (hc : reads.countP isChangedRead ≤ 1) (hr : reads.countP isRemovedRead ≤ 1) :
    ((track t p w1 reads).2.added.isSome = reads.any isAddedRead ∧
      ∀ l, (track t p w1 reads).2.added = some l → ∀ e v,
        (e, v) ∈ l ↔ (e, v) ∈ specAdded (snapshot w0.liveRows t) (snapshot w1.liveRows t)) ∧
    ((track t p w1 reads).2.changed.isSome = reads.any isChangedRead ∧
      ∀ l, (track t p w1 reads).2.changed = some l → ∀ e o n,
        (e, o, n) ∈ l ↔ (e, o, n) ∈ specChanged (snapshot w0.liveRows t) (snapshot w1.liveRows t)) ∧
    ((track t p w1 reads).2.removed.isSome = reads.any isRemovedRead ∧
      ∀ l, (track t p w1 reads).2.removed = some l → ∀ e o,
        (e, o) ∈ l ↔ (e, o) ∈ specRemoved (snapshot w0.liveRows t) (snapshot w1.liveRows t)
          (w1.liveRows.map (·.1))) :=
  track_reports_two htp w0 w1 hw0 hw1 ht hk reads hc hr

/-- `track`, one operation not mentioning `p` (`spawn`, `insert`, `remove`, `despawn`, `flush`),
`track`: the second `track` reports exactly the difference between the two snapshots of `t` -/
theorem two_tracks_one_op {t p : Nat} (htp : t ≠ p) (w : World) (hw : w.Inv) (reads0 : List Read)
    (op : Op) (hop : op.WF) (hnp : NoP p op) (reads : List Read)
    (hc : reads.countP isChangedRead ≤ 1) (hr : reads.countP isRemovedRead ≤ 1) :
    ((track t p (step (track t p w reads0).1 op).1 reads).2.added.isSome = reads.any isAddedRead ∧
      ∀ l, (track t p (step (track t p w reads0).1 op).1 reads).2.added = some l → ∀ e v,
        (e, v) ∈ l ↔ (e, v) ∈ specAdded (snapshot (track t p w reads0).1.liveRows t)
          (snapshot (step (track t p w reads0).1 op).1.liveRows t)) ∧
    ((track t p (step (track t p w reads0).1 op).1 reads).2.changed.isSome = reads.any isChangedRead ∧
      ∀ l, (track t p (step (track t p w reads0).1 op).1 reads).2.changed = some l → ∀ e o n,
        (e, o, n) ∈ l ↔ (e, o, n) ∈ specChanged (snapshot (track t p w reads0).1.liveRows t)
          (snapshot (step (track t p w reads0).1 op).1.liveRows t)) ∧
    ((track t p (step (track t p w reads0).1 op).1 reads).2.removed.isSome = reads.any isRemovedRead ∧
      ∀ l, (track t p (step (track t p w reads0).1 op).1 reads).2.removed = some l → ∀ e o,
        (e, o) ∈ l ↔ (e, o) ∈ specRemoved (snapshot (track t p w reads0).1.liveRows t)
          (snapshot (step (track t p w reads0).1 op).1.liveRows t)
          ((step (track t p w reads0).1 op).1.liveRows.map (·.1))) :=
  have hi := track_inv htp w hw reads0
  track_reports_two htp _ _ hi (World.inv_step _ op hop hi) (track_tracked htp w hw reads0)
    (keepsP_step p _ hi op hop hnp) reads hc hr

/-- `track`; any number of operations not mentioning `p` (`spawn`, `insert`, `remove`, `despawn`,
`flush`); `track`: the second `track` reports exactly the difference between the two snapshots of `t`
(`w0`: the world after the first `track`, `w1`: the world before the second) -/
theorem two_tracks_ops {t p : Nat} (htp : t ≠ p) (w : World) (hw : w.Inv) (reads0 : List Read)
    (ops : List Op) (hops : ∀ op, op ∈ ops → op.WF ∧ NoP p op) (w0 w1 : World)
    (h0 : w0 = (track t p w reads0).1) (h1 : w1 = ops.foldl (fun w op => (step w op).1) w0)
    (reads : List Read) (hc : reads.countP isChangedRead ≤ 1) (hr : reads.countP isRemovedRead ≤ 1) :
    ((track t p w1 reads).2.added.isSome = reads.any isAddedRead ∧
      ∀ l, (track t p w1 reads).2.added = some l → ∀ e v,
        (e, v) ∈ l ↔ (e, v) ∈ specAdded (snapshot w0.liveRows t) (snapshot w1.liveRows t)) ∧
    ((track t p w1 reads).2.changed.isSome = reads.any isChangedRead ∧
      ∀ l, (track t p w1 reads).2.changed = some l → ∀ e o n,
        (e, o, n) ∈ l ↔ (e, o, n) ∈ specChanged (snapshot w0.liveRows t) (snapshot w1.liveRows t)) ∧
    ((track t p w1 reads).2.removed.isSome = reads.any isRemovedRead ∧
      ∀ l, (track t p w1 reads).2.removed = some l → ∀ e o,
        (e, o) ∈ l ↔ (e, o) ∈ specRemoved (snapshot w0.liveRows t) (snapshot w1.liveRows t)
          (w1.liveRows.map (·.1))) :=
  Headline.two_tracks_ops htp w hw reads0 ops hops w0 w1 h0 h1 reads hc hr

/-- the empty history: a `track` immediately after a `track` reports nothing -/
theorem two_tracks_no_op {t p : Nat} (htp : t ≠ p) (w : World) (hw : w.Inv) (reads0 reads : List Read)
    (hc : reads.countP isChangedRead ≤ 1) (hr : reads.countP isRemovedRead ≤ 1) :
    (∀ l, (track t p (track t p w reads0).1 reads).2.added = some l → l = []) ∧
    (∀ l, (track t p (track t p w reads0).1 reads).2.changed = some l → l = []) ∧
    (∀ l, (track t p (track t p w reads0).1 reads).2.removed = some l → l = []) :=
  Headline.two_tracks_no_op htp w hw reads0 reads hc hr

/-! ### 6. non-vacuity on a concrete world

`t = 1`, `p = 9`.  Entities 0 and 1 have `t`, entity 2 has not. -/

def exOps : List Op := [.spawn [(1, 10), (2, 20)], .spawn [(1, 11)], .spawn [(2, 5)]]

def exW : World := run exOps

theorem exW_inv : exW.Inv := World.inv_run exOps (by decide)

/-- first `track`, nothing read: the drop installs the snapshots -/
def exW1 : World := (track 1 9 exW []).1

example : exW1.lookup ⟨0, 1⟩ = some [(1, 10), (2, 20), (9, 10)] := by decide +kernel
example : exW1.lookup ⟨1, 1⟩ = some [(1, 11), (9, 11)] := by decide +kernel
example : exW1.lookup ⟨2, 1⟩ = some [(2, 5)] := by decide +kernel
example : (track 1 9 exW [.added true]).2.added = some [(⟨0, 1⟩, 10), (⟨1, 1⟩, 11)] := by decide +kernel
example : (track 1 9 exW [.added true]).2.changed = none := by decide +kernel

/-- between the tracks: entity 0 changes `t`, entity 1 loses it, entity 2 gains it, entity 3 is new
without it; none of the operations mentions `p = 9` -/
def exW2 : World :=
  [Op.insert ⟨0, 1⟩ [(1, 12)], .remove ⟨1, 1⟩ [1], .insert ⟨2, 1⟩ [(1, 30)], .spawn [(2, 6)], .reserveEntity].foldl
    (fun w op => (step w op).1) exW1

example : NoP 9 (Op.insert ⟨0, 1⟩ [(1, 12)]) ∧ NoP 9 (Op.remove ⟨1, 1⟩ [1]) ∧ NoP 9 (Op.spawn [(2, 6)]) := by
  simp [NoP]

-- second `track`: every order of reads gives the same three reports
example : (track 1 9 exW2 [.added false, .changed false, .removed false]).2.added = some [(⟨2, 1⟩, 30)] := by
  decide +kernel
example : (track 1 9 exW2 [.added false, .changed false, .removed false]).2.changed
    = some [(⟨0, 1⟩, 10, 12)] := by decide +kernel
example : (track 1 9 exW2 [.added false, .changed false, .removed false]).2.removed
    = some [(⟨1, 1⟩, 11)] := by decide +kernel
example : (track 1 9 exW2 [.removed true, .added true, .changed true]).2.added = some [(⟨2, 1⟩, 30)] := by
  decide +kernel
example : (track 1 9 exW2 [.removed true, .added true, .changed true]).2.changed
    = some [(⟨0, 1⟩, 10, 12)] := by decide +kernel
example : (track 1 9 exW2 [.removed true, .added true, .changed true]).2.removed
    = some [(⟨1, 1⟩, 11)] := by decide +kernel
-- they are the specified differences of the two snapshots of `t`
example : specAdded (snapshot exW1.liveRows 1) (snapshot exW2.liveRows 1) = [(⟨2, 1⟩, 30)] := by decide +kernel
example : specChanged (snapshot exW1.liveRows 1) (snapshot exW2.liveRows 1) = [(⟨0, 1⟩, 10, 12)] := by
  decide +kernel
example : specRemoved (snapshot exW1.liveRows 1) (snapshot exW2.liveRows 1) (exW2.liveRows.map (·.1))
    = [(⟨1, 1⟩, 11)] := by decide +kernel
-- a repeated read: `added` answers again, `changed` and `removed` are empty the second time
example : (track 1 9 exW2 [.changed false, .added false, .changed false, .added false]).2.changed = some [] := by
  decide +kernel
example : (track 1 9 exW2 [.changed false, .added false, .changed false, .added false]).2.added
    = some [(⟨2, 1⟩, 30)] := by decide +kernel
example : (track 1 9 exW2 [.removed false, .removed false]).2.removed = some [] := by decide +kernel
-- whatever is read, the world afterwards is the same up to `lookup`, and snapshot = current
example : (track 1 9 exW2 []).1.lookup ⟨0, 1⟩ = some [(1, 12), (2, 20), (9, 12)] := by decide +kernel
example : (track 1 9 exW2 [.changed true]).1.lookup ⟨0, 1⟩ = some [(1, 12), (2, 20), (9, 12)] := by
  decide +kernel
example : (track 1 9 exW2 [.removed true, .added false]).1.lookup ⟨1, 1⟩ = some [] := by decide +kernel
example : (track 1 9 exW2 [.added true]).1.lookup ⟨2, 1⟩ = some [(1, 30), (2, 5), (9, 30)] := by decide +kernel
-- the reserved handle is not live before and live after (the drop's `insert` flushed)
example : exW2.isLive ⟨4, 1⟩ = false ∧ (track 1 9 exW2 []).1.isLive ⟨4, 1⟩ = true := by decide +kernel

end Hecs.Props.C18
