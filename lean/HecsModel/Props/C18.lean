import HecsModel.Model.Tracker
/-
  C18 — ChangeTracker reports exactly the difference between consecutive snapshots. (interim)
-/
namespace Hecs.Props.C18
open Hecs Hecs.Tracker

/-- the three specified reports are pairwise disjoint in the entities they name -/
theorem spec_added_not_changed (prev cur : List (Entity × Nat)) (e : Entity) (v : Nat)
    (h : (e, v) ∈ specAdded prev cur) : ∀ o n, (e, o, n) ∉ specChanged prev cur := by
  intro o n hc
  simp only [specAdded, List.mem_filter] at h
  simp only [specChanged, List.mem_filterMap] at hc
  obtain ⟨c, _, hc2⟩ := hc
  cases hf : prev.find? (fun x => x.1 == c.1) with
  | none => simp [hf] at hc2
  | some o' =>
    simp only [hf] at hc2
    split at hc2
    · simp only [Option.some.injEq, Prod.mk.injEq] at hc2
      have hmem := List.mem_of_find?_eq_some hf
      have hp := List.find?_some hf
      simp only [beq_iff_eq] at hp
      have : prev.any (fun x => x.1 == e) = true := by
        rw [List.any_eq_true]
        exact ⟨o', hmem, by simp [hp, hc2.1]⟩
      simp [this] at h
    · simp at hc2

end Hecs.Props.C18
