import HecsModel.Lemmas.WorldInvStep
import HecsModel.Lemmas.WorldInvCex
/-
  C01 — World is observationally a map Entity → set of typed components.
  Property theorems only; helper lemmas live in `Lemmas/`.
-/
namespace Hecs.Props.C01
open Hecs

/-- the initial world satisfies the representation invariant -/
theorem inv_new : World.new.Inv := World.inv_new

/-- every in-contract operation (`Op.WF`, decidable) preserves the representation invariant -/
theorem inv_step (w : World) (op : Op) (hop : op.WF) : w.Inv → (step w op).1.Inv := World.inv_step w op hop

/-- every world reachable by in-contract operations satisfies the representation invariant -/
theorem inv_run (ops : List Op) (hops : ∀ op, op ∈ ops → op.WF) : (run ops).Inv := World.inv_run ops hops

/-- after `flush` nothing is reserved -/
theorem flush_flushed (w : World) : w.Inv → (w.flush).cursor = (w.flush).pending.size := World.flush_flushed w

/-- the side condition of `inv_step` is needed: a bundle naming a type twice breaks the invariant -/
theorem inv_step_needs_wf_spawn : ¬ (step World.new (.spawn [(1,0),(1,1)])).1.Inv := World.cex_spawn_dup

/-- … so does `reserve` of a bundle type with a repeated component type -/
theorem inv_step_needs_wf_reserve : ¬ (step World.new (.reserve [1,1])).1.Inv := World.cex_reserve_dup

/-- … a column batch whose type list is not in canonical order -/
theorem inv_step_needs_wf_columnBatch : ¬ (step World.new (.spawnColumnBatch [2,1] [])).1.Inv :=
  World.cex_columnBatch_unsorted

/-- … and a batch row whose types differ from the batch's type -/
theorem inv_step_needs_wf_spawnBatch : ¬ (step World.new (.spawnBatch [1] [[(2,0)]])).1.Inv :=
  World.cex_spawnBatch_row

end Hecs.Props.C01
