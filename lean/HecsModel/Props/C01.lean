import HecsModel.Lemmas.WorldInv
/-
  C01 — World is observationally a map Entity → set of typed components.
  Property theorems only; helper lemmas live in `Lemmas/`.
-/
namespace Hecs.Props.C01
open Hecs

/-- the initial world satisfies the representation invariant -/
theorem inv_new : World.new.Inv := World.inv_new

end Hecs.Props.C01
