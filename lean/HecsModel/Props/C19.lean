import HecsModel.Lemmas.Bits
/-
  C19 — Entity bit encoding is a faithful bijection consistent with equality and order.
  All statements are over `BitVec 64` / `BitVec 32`, i.e. over all 2^64 patterns.
-/
namespace Hecs.Props.C19
open Hecs.Bits

/-- the generated `to_bits` (translated from entities.rs on this run) is the hand model -/
theorem generated_toBits_eq : Hecs.Generated.toBits = toBits := rfl

/-- the generated halves of `from_bits` are the hand model's -/
theorem generated_fromBits_eq (b : BitVec 64) :
    (if Hecs.Generated.fromBitsGen b = 0 then none
     else some (Hecs.Generated.fromBitsId b, Hecs.Generated.fromBitsGen b)) = fromBits b := rfl

/-- `from_bits (to_bits e) = Some e` for every handle (generation is non-zero) -/
theorem from_to (id gen : BitVec 32) (h : gen ≠ 0) : fromBits (toBits id gen) = some (id, gen) := by
  unfold fromBits toBits
  rw [hi_part, lo_part]
  have : ¬ gen = 0#32 := h
  simp [this]

/-- `to_bits (from_bits b) = b` for every accepted pattern -/
theorem to_from (b : BitVec 64) (id gen : BitVec 32) (h : fromBits b = some (id, gen)) :
    toBits id gen = b := by
  unfold fromBits at h
  by_cases hz : (b >>> 32).setWidth 32 = 0#32
  · simp [hz] at h
  · simp [hz] at h
    obtain ⟨rfl, rfl⟩ := h
    exact recombine b

/-- `from_bits` rejects exactly the patterns whose upper half is zero -/
theorem none_iff (b : BitVec 64) : fromBits b = none ↔ b >>> 32 = 0#64 := by
  unfold fromBits
  rw [← hi_zero_iff]
  by_cases hz : (b >>> 32).setWidth 32 = 0#32 <;> simp [hz]

/-- `to_bits` is injective: equal bit patterns mean equal handles (`Eq`/`Hash` agree with bits) -/
theorem toBits_inj (id gen id' gen' : BitVec 32) (h : toBits id gen = toBits id' gen') :
    id = id' ∧ gen = gen' := by
  have h1 := congrArg (fun (v : BitVec 64) => (v >>> 32).setWidth 32) h
  have h2 := congrArg (fun (v : BitVec 64) => v.setWidth 32) h
  simp only [toBits, hi_part, lo_part] at h1 h2
  exact ⟨h2, h1⟩

/-- the bit pattern of a handle is never zero (`NonZeroU64::new_unchecked` is sound) -/
theorem toBits_ne_zero (id gen : BitVec 32) (h : gen ≠ 0) : toBits id gen ≠ 0 := by
  intro hz
  have h1 := congrArg (fun (v : BitVec 64) => (v >>> 32).setWidth 32) hz
  simp only [toBits, hi_part] at h1
  exact h (by simpa using h1)

/-- the derived order is a strict total order on (id, generation) pairs: trichotomy -/
theorem lex_trichotomy (a b : BitVec 32 × BitVec 32) :
    (lexLt a b = true ∧ a ≠ b ∧ lexLt b a = false) ∨ (a = b ∧ lexLt a b = false ∧ lexLt b a = false) ∨
    (lexLt b a = true ∧ a ≠ b ∧ lexLt a b = false) := by
  obtain ⟨a1, a2⟩ := a
  obtain ⟨b1, b2⟩ := b
  have e1 : a1 = b1 ↔ a1.toNat = b1.toNat := ⟨fun h => by rw [h], BitVec.eq_of_toNat_eq⟩
  have e2 : a2 = b2 ↔ a2.toNat = b2.toNat := ⟨fun h => by rw [h], BitVec.eq_of_toNat_eq⟩
  have e1' : b1 = a1 ↔ b1.toNat = a1.toNat := ⟨fun h => by rw [h], BitVec.eq_of_toNat_eq⟩
  simp only [lexLt, Prod.mk.injEq, ne_eq, Bool.or_eq_true, Bool.and_eq_true, decide_eq_true_eq,
    beq_iff_eq, Bool.or_eq_false_iff, Bool.and_eq_false_iff, decide_eq_false_iff_not, BitVec.lt_def,
    beq_eq_false_iff_ne, e1, e2, e1']
  omega

/-- non-vacuity: a concrete handle round-trips, and a pattern with zero upper half is rejected -/
example : fromBits (toBits 0xDEADBEEF#32 0xBAADF00D#32) = some (0xDEADBEEF#32, 0xBAADF00D#32) ∧
    fromBits 0x00000000FFFFFFFF#64 = none := by decide

end Hecs.Props.C19
