import HecsModel.Model.Guards
/-
  C05 — Dynamic borrow checking enforces aliasing-xor-mutation, exactly. (interim)
-/
namespace Hecs.Props.C05
open Hecs Hecs.Guards

/-- a unique acquisition is granted only on an unborrowed column -/
theorem acquire_unique_only_if_free (ws ws' : Words) (c : Col) (h : acquire ws c true = some ws') :
    wordOf ws c = 0 := by
  unfold acquire at h
  simp only [Borrow.seqBorrowMut] at h
  by_cases h0 : wordOf ws c = 0
  · exact h0
  · simp [h0] at h

/-- a shared acquisition is granted only while no unique borrow is held -/
theorem acquire_shared_only_if_not_unique (ws ws' : Words) (c : Col) (h : acquire ws c false = some ws') :
    wordOf ws c < Borrow.UNIQUE := by
  unfold acquire at h
  simp only [Borrow.seqBorrow] at h
  by_cases h0 : wordOf ws c ≥ Borrow.UNIQUE
  · simp [h0] at h
  · omega

end Hecs.Props.C05
