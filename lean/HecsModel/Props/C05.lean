import HecsModel.Model.Guards
import HecsModel.Model.GuardJudge
import HecsModel.Lemmas.GuardsHeld
import HecsModel.Lemmas.Query
import HecsModel.Lemmas.Alias
/-
  C05 — Dynamic borrow checking enforces aliasing-xor-mutation, exactly.

  "Through shared access to a world, a unique reference to a component is never live at the same
  time as any other reference to that same component: any attempt that would create such an overlap
  panics instead.  Conversely, two borrows conflict only if some non-empty archetype satisfies both
  and they touch a common component type with at least one unique access; otherwise both are
  granted.  When every guard has been dropped, all components are borrowable again."

  Property theorems only; helper lemmas live in `Lemmas/Guards*.lean`.

  Vocabulary (all from `Lemmas/Guards*.lean`, namespace `Hecs.GuardLemmas`):
  * `H = Col × Bool`: a holder (column, unique?);  `heldAll s`: what all live guards hold
    (`held` of each, from the guards' *definitions*);
  * `Counts ws hs`: every word is `UNIQUE * #unique holders + #shared holders`;
    `Excl hs`: per column at most one unique holder, and a unique holder excludes shared ones;
  * `WInv s leak`: `Counts`/`Excl` for `heldAll s ++ leak`, plus distinct guard names.  `leak` is
    the list of borrows that refused multi-column acquisitions left behind (open finding F15: the
    code panics in the middle of `start_borrow`/`PreparedQueryBorrow::new`/`QueryOne::get` without
    rolling back);
  * `acquireCols`/`acqPre`: acquiring a column list in order / the prefix actually acquired;
    `grantPre hs l`: the prefix the property predicts;  `Bound`: fewer than `UNIQUE` borrows in
    total (counter overflow is out of scope).
-/
namespace Hecs.Props.C05
open Hecs Hecs.Guards Hecs.GuardLemmas

/-- a unique acquisition is granted only on an unborrowed column -/
theorem acquire_unique_only_if_free (ws ws' : Words) (c : Col) (h : acquire ws c true = some ws') :
    wordOf ws c = 0 := by
  unfold acquire at h
  simp only [Borrow.seqBorrowMut] at h
  by_cases h0 : wordOf ws c = 0
  · exact h0
  · simp [h0] at h

/-- a shared acquisition is granted only while no unique borrow is held -/
theorem acquire_shared_only_if_not_unique (ws ws' : Words) (c : Col) (h : acquire ws c false = some ws') :
    wordOf ws c < Borrow.UNIQUE := by
  unfold acquire at h
  simp only [Borrow.seqBorrow] at h
  by_cases h0 : wordOf ws c ≥ Borrow.UNIQUE
  · simp [h0] at h
  · omega

/-! ### 1. the counting invariant and the primitive operations -/

theorem counts_def (ws : Words) (hs : List (Col × Bool)) :
    Counts ws hs ↔ ∀ c, wordOf ws c =
      Borrow.UNIQUE * (hs.filter (fun h => h.1 == c && h.2)).length +
        (hs.filter (fun h => h.1 == c && !h.2)).length := Iff.rfl

theorem excl_def (hs : List (Col × Bool)) :
    Excl hs ↔ ∀ c, (hs.filter (fun h => h.1 == c && h.2)).length ≤ 1 ∧
      (0 < (hs.filter (fun h => h.1 == c && h.2)).length →
        (hs.filter (fun h => h.1 == c && !h.2)).length = 0) := Iff.rfl

/-- `Excl` is pairwise non-conflict: no column has a unique holder together with another holder -/
theorem excl_pairwise (hs : List (Col × Bool)) (h : Excl hs) :
    hs.Pairwise (fun x y => conflicts x y = false) := h.pairwise

/-- one `borrow`/`borrow_mut`: granted iff the request conflicts with no current holder, and then
the invariant holds with the new holder; a refusal returns `none` (words untouched) -/
theorem acquire_spec (ws : Words) (hs : List (Col × Bool)) (c : Col) (u : Bool)
    (hC : Counts ws hs) (hE : Excl hs) (hb : hs.length < Borrow.UNIQUE) :
    ((∃ ws', acquire ws c u = some ws') ↔ hs.any (conflicts (c, u)) = false) ∧
    (∀ ws', acquire ws c u = some ws' → Counts ws' ((c, u) :: hs) ∧ Excl ((c, u) :: hs)) :=
  ⟨⟨fun ⟨_, h⟩ => acquire_some_noconf ⟨hC, hE⟩ h, acquire_of_noconf ⟨hC, hE⟩ hb⟩,
    fun _ h => ⟨(acquire_some_CE ⟨hC, hE⟩ h).counts, (acquire_some_CE ⟨hC, hE⟩ h).excl⟩⟩

/-- a shared request conflicts iff the column has a unique holder -/
theorem shared_conflict_iff (hs : List (Col × Bool)) (c : Col) :
    hs.any (conflicts (c, false)) = false ↔ ∀ h ∈ hs, ¬ (h.1 = c ∧ h.2 = true) :=
  (any_conflicts_shared hs c).trans (nU_eq_zero_iff hs c)

/-- a unique request conflicts iff the column has any holder at all -/
theorem unique_conflict_iff (hs : List (Col × Bool)) (c : Col) :
    hs.any (conflicts (c, true)) = false ↔ ∀ h ∈ hs, h.1 ≠ c :=
  unique_conflict_iff' hs c

/-- one `release`/`release_mut` of something held removes exactly that holder -/
theorem release_spec (ws : Words) (hs : List (Col × Bool)) (c : Col) (u : Bool)
    (hC : Counts ws hs) (hE : Excl hs) (hm : (c, u) ∈ hs) :
    Counts (release ws c u) (hs.erase (c, u)) ∧ Excl (hs.erase (c, u)) :=
  ⟨(release_erase_CE ⟨hC, hE⟩ hm).counts, (release_erase_CE ⟨hC, hE⟩ hm).excl⟩

/-- `acquireList` (one archetype): the acquired prefix `pre` is all of the list iff the call
succeeded (a strict prefix otherwise — finding F15: it is kept), the invariant holds with `pre`
added, success implies no conflict, and below the overflow bound success is *equivalent* to no
conflict with the holders or with an earlier element, `pre` being the predicted prefix -/
theorem acquireList_spec (ws : Words) (hs : List (Col × Bool)) (a : Nat) (l : List (Nat × Bool))
    (hC : Counts ws hs) (hE : Excl hs) :
    let lm := l.map (fun x => ((a, x.1), x.2))
    let pre := acqPre ws lm
    pre <+: lm ∧ ((acquireList ws a l).2 = true ↔ pre = lm) ∧
    Counts (acquireList ws a l).1 (pre ++ hs) ∧ Excl (pre ++ hs) ∧
    ((acquireList ws a l).2 = true → wouldConflict hs lm = false) ∧
    (hs.length + l.length < Borrow.UNIQUE →
      ((acquireList ws a l).2 = true ↔ wouldConflict hs lm = false) ∧ pre = grantPre hs lm) :=
  acquireList_spec' ws hs a l hC hE

/-- `start_borrow` over the archetypes of `s`: the same, with the wanted set = `held s (.view q)`
(= `held s (.query q true)`), using `prepares = sat` -/
theorem startBorrow_spec (s : St) (ws : Words) (hs : List (Col × Bool)) (q : Q)
    (hC : Counts ws hs) (hE : Excl hs) :
    let want := held s (.view q)
    let pre := acqPre ws want
    want = held s (.query q true) ∧
    pre <+: want ∧ ((startBorrow q s.indexed ws).2 = true ↔ pre = want) ∧
    Counts (startBorrow q s.indexed ws).1 (pre ++ hs) ∧ Excl (pre ++ hs) ∧
    ((startBorrow q s.indexed ws).2 = true → wouldConflict hs want = false) ∧
    (hs.length + want.length < Borrow.UNIQUE →
      ((startBorrow q s.indexed ws).2 = true ↔ wouldConflict hs want = false) ∧ pre = grantPre hs want) :=
  startBorrow_spec' s ws hs q hC hE

/-- the meaning of the specification predicate: `wouldConflict others want = false` says exactly
that the union of holders still satisfies aliasing-xor-mutation -/
theorem wouldConflict_meaning (others want : List (Col × Bool)) (h : Excl others) :
    wouldConflict others want = false ↔ Excl (want ++ others) :=
  wouldConflict_false_iff h want

/-- when the predicted prefix is strict, the first column left out conflicts with a holder or with
an earlier column of the same request -/
theorem refused_at (hs l : List (Col × Bool)) (h : grantPre hs l ≠ l) :
    ∃ x rest, l = grantPre hs l ++ x :: rest ∧ (grantPre hs l ++ hs).any (conflicts x) = true :=
  grantPre_next hs l h

/-- every `Drop` releases exactly the `held` set of the guard -/
theorem drop_releases_held (s : St) (g : Guard) : dropGuard s g = releaseCols s.words (held s g) :=
  dropGuard_eq s g

/-! ### 2. aliasing-xor-mutation among live guards -/

theorem winv_def (s : St) (leak : List (Col × Bool)) :
    WInv s leak ↔ NamesNodup s ∧ Counts s.words (heldAll s ++ leak) ∧ Excl (heldAll s ++ leak) :=
  ⟨fun h => ⟨h.names, h.counts, h.excl⟩, fun h => ⟨h.1, h.2.1, h.2.2⟩⟩

/-- no column has a unique holder together with any other holder -/
theorem exclusive_column (s : St) (leak : List (Col × Bool)) (h : WInv s leak) (c : Col) :
    nU (heldAll s ++ leak) c ≤ 1 ∧ (0 < nU (heldAll s ++ leak) c → nS (heldAll s ++ leak) c = 0) :=
  h.column_exclusive c

/-- what two distinct live guards hold never conflicts -/
theorem exclusive (s : St) (leak : List (Col × Bool)) (h : WInv s leak) (n₁ n₂ : String) (g₁ g₂ : Guard)
    (h₁ : s.guard n₁ = some g₁) (h₂ : s.guard n₂ = some g₂) (hne : n₁ ≠ n₂)
    (x y : Col × Bool) (hx : x ∈ held s g₁) (hy : y ∈ held s g₂) : conflicts x y = false :=
  h.exclusive h₁ h₂ hne hx hy

/-- nor do two different positions of one live guard's holdings -/
theorem exclusive_within (s : St) (leak : List (Col × Bool)) (h : WInv s leak) (n : String) (g : Guard)
    (hg : s.guard n = some g) : (held s g).Pairwise (fun x y => conflicts x y = false) :=
  h.exclusive_within hg

/-- nor a live guard's holdings with what a failed acquisition left behind -/
theorem exclusive_leak (s : St) (leak : List (Col × Bool)) (h : WInv s leak) (n : String) (g : Guard)
    (hg : s.guard n = some g) (x y : Col × Bool) (hx : x ∈ held s g) (hy : y ∈ leak) :
    conflicts x y = false :=
  h.exclusive_leak hg hx hy

/-! ### 3. every step preserves the invariant -/

theorem init_winv (archs : List GArch) : WInv { archs := archs } [] := WInv.init archs

/-- creating a guard (every kind, `prepared` included) under a fresh name: the invariant is kept
with the same `leak` unless the call panicked, in which case `leak` grows by exactly the prefix
acquired before the refusal -/
theorem newGuard_preserves (s : St) (leak : List (Col × Bool)) (n : String) (g : Guard)
    (h : WInv s leak) (hf : s.guard n = none) :
    ∃ leak', WInv (newGuard s n g).1 leak' ∧
      ((newGuard s n g).2 ≠ .panic → leak' = leak) ∧
      ((newGuard s n g).2 = .panic → leak' = acqPre s.words (wantNew s g) ++ leak) ∧
      (∀ x ∈ leak, x ∈ leak') :=
  newGuard_preserves_ex n g h hf

/-- every action on a live (or missing) guard, likewise; `clone` needs a fresh target name -/
theorem act_preserves (s : St) (leak : List (Col × Bool)) (n : String) (a : Act)
    (h : WInv s leak) (hf : ∀ into, a = .clone into → s.guard into = none) :
    ∃ leak', WInv (act s n a).1 leak' ∧
      ((act s n a).2 ≠ .panic → leak' = leak) ∧
      ((act s n a).2 = .panic → leak' = acqPre s.words (wantAct s n a) ++ leak) ∧
      (∀ x ∈ leak, x ∈ leak') :=
  act_preserves_ex n a h hf

/-- below the overflow bound the leaked prefix is the one the property predicts: the longest
prefix of the request in which no column conflicts with a holder or an earlier column -/
theorem leaked_prefix_eq (s : St) (leak want : List (Col × Bool)) (h : WInv s leak)
    (hb : Bound s leak want) :
    acqPre s.words want = grantPre (heldAll s ++ leak) want ∧ acqPre s.words want <+: want :=
  ⟨acqPre_eq_grantPre want h.ce hb, acqPre_prefix _ _⟩

/-! ### 4. granted iff no overlap -/

/-- creating any guard except `QueryOne` (which acquires nothing at creation): it does not panic
iff what it wants conflicts neither with the other guards' holdings (all guards, the name being
fresh) and the leak, nor with itself -/
theorem newGuard_grant_iff (s : St) (leak : List (Col × Bool)) (n : String) (g : Guard)
    (h : WInv s leak) (hf : s.guard n = none) (hne : ∀ q a b, g ≠ .one q a b)
    (hb : Bound s leak (wantNew s g)) :
    (newGuard s n g).2 ≠ .panic ↔ wouldConflict (heldAll s ++ leak) (wantNew s g) = false :=
  ((newGuard_spec h hf g).2 hne).trans (h.grant_iff _ hb)

/-- … and the refusal direction needs no bound: an overlap always panics -/
theorem newGuard_overlap_panics (s : St) (leak : List (Col × Bool)) (n : String) (g : Guard)
    (h : WInv s leak) (hf : s.guard n = none) (hne : ∀ q a b, g ≠ .one q a b)
    (hc : wouldConflict (heldAll s ++ leak) (wantNew s g) = true) : (newGuard s n g).2 = .panic :=
  newGuard_overlap_panics' n g h hf hne hc

/-- what `newGuard` wants is the `held` set of the guard it creates -/
theorem wantNew_view (s : St) (q : Q) : wantNew s (.view q) = held s (.view q) := rfl
theorem wantNew_prepared (s : St) (q : Q) (i : List Nat) :
    wantNew s (.prepared q i) =
      held s (.prepared q ((List.range s.archs.length).filter (fun a => q.sat (s.arch a).types))) := by
  simp only [wantNew, Q.prepares_eq_sat]
theorem wantNew_ref (s : St) (a t : Nat) (hc : (s.arch a).types.contains t = true) :
    wantNew s (.ref a t) = held s (.ref a t) ∧ wantNew s (.refMut a t) = held s (.refMut a t) ∧
    wantNew s (.col a t) = held s (.col a t) ∧ wantNew s (.colMut a t) = held s (.colMut a t) :=
  wantNew_ref' s a t hc

/-- `QueryOne::new` panics iff the static `assert_borrow` fails (it acquires nothing) -/
theorem newGuard_one_panic_iff (s : St) (n : String) (q : Q) (a : Nat) (b : Bool) :
    (newGuard s n (.one q a b)).2 = .panic ↔ q.assertBorrowOk = false :=
  newGuard_one_panic_iff' s n q a b

/-- `QueryBorrow::iter` on a not yet borrowed query -/
theorem iter_grant_iff (s : St) (leak : List (Col × Bool)) (n : String) (q : Q)
    (h : WInv s leak) (hg : s.guard n = some (.query q false))
    (hb : Bound s leak (held s (.query q true))) :
    (act s n .iter).2 ≠ .panic ↔
      wouldConflict (heldAll (s.delGuard n) ++ leak) (held s (.query q true)) = false := by
  rw [← wouldConflict_others (others_of_nil h.names hg rfl)]
  exact (iter_granted_iff h hg).trans (h.grant_iff _ hb)

/-- `QueryOne::get` on a not yet borrowed guard whose archetype satisfies the query -/
theorem get_grant_iff (s : St) (leak : List (Col × Bool)) (n : String) (q : Q) (ar : Nat)
    (h : WInv s leak) (hg : s.guard n = some (.one q ar false)) (hs : q.sat (s.arch ar).types = true)
    (hb : Bound s leak (held s (.one q ar true))) :
    (act s n .get).2 ≠ .panic ↔
      wouldConflict (heldAll (s.delGuard n) ++ leak) (held s (.one q ar true)) = false := by
  rw [← wouldConflict_others (others_of_nil h.names hg rfl)]
  exact (get_granted_iff h hg (by rw [Q.prepares_eq_sat]; exact hs)).trans (h.grant_iff _ hb)

/-- `Ref::clone` / `ArchetypeColumn::clone` into a fresh name (the source stays live, so it is among
the other guards) -/
theorem clone_grant_iff (s : St) (leak : List (Col × Bool)) (n into : String) (ar t : Nat)
    (h : WInv s leak) (hg : s.guard n = some (.ref ar t) ∨ s.guard n = some (.col ar t))
    (hf : s.guard into = none) (hb : Bound s leak [((ar, t), false)]) :
    (act s n (.clone into)).2 ≠ .panic ↔
      wouldConflict (heldAll s ++ leak) [((ar, t), false)] = false :=
  clone_grant_iff' n into ar t h hg hf hb

/-- a clone of a live shared guard is in fact always granted below the bound: the source's own
shared borrow shows that the column has no unique holder -/
theorem clone_granted (s : St) (leak : List (Col × Bool)) (n into : String) (ar t : Nat)
    (h : WInv s leak) (hg : s.guard n = some (.ref ar t) ∨ s.guard n = some (.col ar t))
    (hf : s.guard into = none) (hb : Bound s leak [((ar, t), false)]) :
    (act s n (.clone into)).2 ≠ .panic :=
  clone_granted' n into ar t h hg hf hb

/-- `QueryOne::get` may be called once: on an already borrowed guard it panics, state unchanged -/
theorem get_twice_panics (s : St) (n : String) (q : Q) (ar : Nat)
    (hg : s.guard n = some (.one q ar true)) : act s n .get = (s, .panic) :=
  get_twice_panics' hg

/-- the judge's "other guards" is the `heldAll (s.delGuard n)` of the theorems above -/
theorem othersHeld_eq (s : St) (n : String) : GuardJudge.othersHeld s n = heldAll (s.delGuard n) := rfl

/-- the "conversely" half, spelled out for two views / borrowed queries: their holdings overlap iff
some non-empty archetype satisfies both and both fetches borrow a common component type there, at
least one of them uniquely -/
theorem views_conflict_iff (s : St) (q₁ q₂ : Q) :
    (∃ x ∈ held s (.view q₁), ∃ y ∈ held s (.view q₂), conflicts x y = true) ↔
      ∃ (a : Nat) (ar : GArch), s.archs[a]? = some ar ∧ ar.len ≠ 0 ∧
        q₁.sat ar.types = true ∧ q₂.sat ar.types = true ∧
        ∃ t u₁ u₂, (t, u₁) ∈ q₁.borrowList ar.types ∧ (t, u₂) ∈ q₂.borrowList ar.types ∧
          (u₁ || u₂) = true :=
  GuardLemmas.views_conflict_iff s q₁ q₂

/-- … so an overlap needs a component type mentioned by both queries, uniquely by one of them -/
theorem views_conflict_common_type (s : St) (q₁ q₂ : Q)
    (h : ∃ x ∈ held s (.view q₁), ∃ y ∈ held s (.view q₂), conflicts x y = true) :
    ∃ t u₁ u₂, (t, u₁) ∈ q₁.borrows ∧ (t, u₂) ∈ q₂.borrows ∧ (u₁ || u₂) = true :=
  GuardLemmas.views_conflict_common_type s q₁ q₂ h

/-- what a view / borrowed query holds, column by column -/
theorem mem_held_view_iff (s : St) (q : Q) (a t : Nat) (u : Bool) :
    ((a, t), u) ∈ held s (.view q) ↔
      ∃ ar, s.archs[a]? = some ar ∧ ar.len ≠ 0 ∧ q.sat ar.types = true ∧ (t, u) ∈ q.borrowList ar.types :=
  GuardLemmas.mem_held_view_iff s q a t u

/-! ### 5. everything dropped -/

/-- with every guard dropped, the only residue is what failed acquisitions left behind -/
theorem residue (s : St) (leak : List (Col × Bool)) (h : WInv s leak) (hg : s.guards = []) :
    Counts s.words leak := h.residue hg

/-- with every guard dropped and no refused acquisition, all components are borrowable again -/
theorem all_released (s : St) (h : WInv s []) (hg : s.guards = []) : ∀ c, wordOf s.words c = 0 :=
  h.all_released hg

/-- along any script (fresh names) in which nothing panics the invariant holds with no leak … -/
theorem reach_winv (archs : List GArch) (s' : St) (r : Reach { archs := archs } s') : WInv s' [] :=
  r.winv (WInv.init archs)

/-- … so once every guard has been dropped, in any order, every word is back to zero -/
theorem script_all_released (archs : List GArch) (s' : St) (r : Reach { archs := archs } s')
    (hg : s'.guards = []) : ∀ c, wordOf s'.words c = 0 :=
  r.all_released hg

/-! ### 6. the item only touches columns that were borrowed -/

/-- the values in a fetched item come from exactly the columns `derefs` lists -/
theorem item_reads_derefs (q : Q) (ts : List Nat) (vals : List Comp) :
    (q.item ts vals).types = (q.derefs ts).map (·.1) := item_types_eq_derefs q ts vals

/-- every column the item dereferences was acquired by `Fetch::borrow`, in the needed mode; the
dynamic borrow list is a sublist of the static one, so `assert_borrow` (which inspects `borrows`)
covers it: a query that passed it never conflicts with itself on any archetype -/
theorem exposes_subset_borrows (q : Q) (ts : List Nat) :
    q.derefs ts = q.borrowList ts ∧ (q.borrowList ts).Sublist q.borrows ∧
    (∀ x ∈ q.borrowList ts, x ∈ q.borrows) ∧
    (q.assertBorrowOk = true → ∀ a,
      ((q.borrowList ts).map (fun x => ((a, x.1), x.2))).Pairwise (fun x y => conflicts x y = false) ∧
      wouldConflict [] ((q.borrowList ts).map (fun x => ((a, x.1), x.2))) = false) :=
  ⟨derefs_eq_borrowList q ts, borrowList_sublist q ts, borrowList_subset q ts,
    fun h a => ⟨assertBorrowOk_covers q h a ts, assertBorrowOk_no_self_conflict q h a ts⟩⟩

/-! ### 7. non-vacuity -/

/-! the concrete world `sEx` (archetypes `[0,1]` with one entity and `[0]` with two), the query
`qEx = (&mut T0, &T1)` and the script runner `runEx` are defined in `Lemmas/GuardsHeld.lean` -/

example : WInv sEx [] := WInv.init _

/-- shared + shared on the same column: both granted, the word counts two -/
example :
    let r := runEx sEx [.new "a" (.ref 0 0), .new "b" (.ref 0 0)]
    r.2 = [.ok, .ok] ∧ wordOf r.1.words (0, 0) = 2 ∧
    wouldConflict (heldAll (newGuard sEx "a" (.ref 0 0)).1) [((0, 0), false)] = false := by decide

/-- shared vs unique on the same column: refused, both ways; another column is unaffected -/
example :
    (runEx sEx [.new "a" (.refMut 0 0), .new "b" (.ref 0 0)]).2 = [.ok, .panic] ∧
    (runEx sEx [.new "a" (.ref 0 0), .new "b" (.refMut 0 0)]).2 = [.ok, .panic] ∧
    (runEx sEx [.new "a" (.refMut 0 0), .new "b" (.refMut 0 1)]).2 = [.ok, .ok] ∧
    wouldConflict (heldAll (newGuard sEx "a" (.refMut 0 0)).1) [((0, 0), false)] = true := by decide

/-- a view over `&T0` (both archetypes) refuses a unique column borrow of `T0` in archetype 1 and
grants a shared one; a query that only matches archetype 0 does not touch archetype 1 -/
example :
    (runEx sEx [.new "v" (.view (.read 0)), .new "c" (.colMut 1 0)]).2 = [.ok, .panic] ∧
    (runEx sEx [.new "v" (.view (.read 0)), .new "c" (.col 1 0)]).2 = [.ok, .ok] ∧
    (runEx sEx [.new "q" (.query qEx false), .act "q" .iter, .new "c" (.colMut 1 0)]).2 = [.ok, .ok, .ok] ∧
    (runEx sEx [.new "q" (.query qEx false), .act "q" .iter, .new "c" (.col 0 0)]).2 = [.ok, .ok, .panic] := by
  decide

/-- a full script in which nothing is refused: afterwards no guard is left and every word is zero -/
example :
    let r := runEx sEx [.new "q" (.query qEx false), .act "q" .iter, .new "v" (.view (.read 1)),
      .new "p" (.prepared (.read 1) []), .new "o" (.one (.read 1) 0 false), .act "o" .get,
      .new "r" (.ref 1 0), .act "r" (.clone "r2"), .act "q" (.with_ (.read 1)), .act "q" .iter,
      .act "r" .drop, .act "q" .drop, .act "v" .drop, .act "r2" .drop, .act "o" .drop, .act "p" .drop]
    r.2 = [.ok, .ok, .ok, .ok, .ok, .ok, .ok, .ok, .ok, .ok, .ok, .ok, .ok, .ok, .ok, .ok] ∧
    r.1.guards = [] ∧ r.1.words.all (fun w => w.2 == 0) = true := by decide

/-- F15, at the level of `acquireList`: with `(0,1)` uniquely held, acquiring `[(0,&mut), (1,&)]`
on archetype 0 is refused at the second column but the first stays uniquely borrowed -/
example :
    let ws := (newGuard sEx "m" (.refMut 0 1)).1.words
    (acquireList ws 0 [(0, true), (1, false)]).2 = false ∧
    wordOf (acquireList ws 0 [(0, true), (1, false)]).1 (0, 0) = Borrow.UNIQUE ∧
    acqPre ws [((0, 0), true), ((0, 1), false)] = [((0, 0), true)] := by decide

/-- F15 (open finding), the proved negation of "all released" for scripts WITH a refused
multi-column acquisition: `T1` of archetype 0 is uniquely borrowed, `QueryOne<(&mut T0, &T1)>::get`
panics at its second column and keeps the first; after every guard has been dropped the word of
`(0, T0)` is still `UNIQUE ≠ 0`, so `T0` of archetype 0 can never be borrowed again -/
theorem failed_acquisition_leaks :
    let r := runEx sEx [.new "m" (.refMut 0 1), .new "o" (.one qEx 0 false), .act "o" .get,
      .act "m" .drop, .act "o" .drop]
    r.2 = [.ok, .ok, .panic, .ok, .ok] ∧ r.1.guards = [] ∧
    wordOf r.1.words (0, 0) = Borrow.UNIQUE ∧ Borrow.UNIQUE ≠ 0 ∧
    (acquire r.1.words (0, 0) false = none ∧ acquire r.1.words (0, 0) true = none) ∧
    WInv r.1 [((0, 0), true)] := by
  exact ⟨by decide, by decide, by decide, by decide, by decide, leakEx_winv⟩

/-! ### the array accessors (`query_many_mut`, `View::get_many_mut`, …)

They hand out one item per array slot under a single `&mut`.  `assert_distinct` refuses an array that
names a handle twice (the judge expects the panic); for pairwise distinct handles the items are
references into pairwise distinct rows, so no component is reachable through two of them. -/

/-- the array accessors' guard: pairwise distinct handles -/
def manyOk (es : List Entity) : Bool := es.eraseDups.length == es.length

/-- two different handles that both resolve in a view resolve to different rows -/
theorem many_distinct_rows (w : World) (hc : w.Core) (q : Q) (e₁ e₂ : Entity) (i₁ i₂ : Item)
    (hne : e₁ ≠ e₂) (h₁ : w.viewGet q e₁ = some i₁) (h₂ : w.viewGet q e₂ = some i₂) :
    w.locOf e₁.id ≠ w.locOf e₂.id := by
  obtain ⟨a₁, j₁, ar₁, r₁, hl₁, hg₁, -, -, -, -⟩ := (World.viewGet_eq_some w q e₁ i₁).1 h₁
  obtain ⟨a₂, j₂, ar₂, r₂, hl₂, hg₂, -, -, -, -⟩ := (World.viewGet_eq_some w q e₂ i₂).1 h₂
  intro heq
  rw [hl₁, hl₂] at heq
  obtain ⟨ra, hra, hida⟩ := hc.loc_row e₁.id a₁ j₁ hl₁
  obtain ⟨rb, hrb, hidb⟩ := hc.loc_row e₂.id a₂ j₂ hl₂
  have hpos : (a₁, j₁) = (a₂, j₂) := Option.some.inj heq
  obtain ⟨rfl, rfl⟩ := Prod.mk.inj hpos
  rw [hra] at hrb
  have hid : e₁.id = e₂.id := by rw [← hida, ← hidb, Option.some.inj hrb]
  apply hne
  cases e₁; cases e₂
  simp only at hid hg₁ hg₂
  subst hid
  simp only [Entity.mk.injEq, true_and]
  rw [← hg₁, ← hg₂]

example : manyOk [⟨0, 1⟩, ⟨1, 1⟩, ⟨0, 2⟩] = true ∧ manyOk [⟨0, 1⟩, ⟨1, 1⟩, ⟨0, 1⟩] = false := by decide

/-! ### queries that alias a unique borrow within themselves

"A query that aliases a unique borrow within itself is always rejected": `assert_borrow` (the static
check, `Q.assertBorrowOk`) runs on every path that does not check borrows dynamically; on the paths
that do, a self-aliasing query is refused when it reaches a non-empty archetype it prepares on
(`QueryJudge.aliasAnswer` is the executable statement the correspondence runs against the code). -/

/-- the static check is sound for the dynamic one: a query accepted by `assert_borrow` never asks an
archetype for two borrows of one column of which one is unique, whatever the archetype -/
theorem assert_sound_for_dynamic (q : Q) (ts : List Nat) (h : q.assertBorrowOk = true) :
    QueryJudge.selfConflict (q.borrowList ts) = false :=
  AliasLemmas.assert_sound_for_dynamic q ts h

/-- what a query borrows on an archetype is a sub-list of what it may borrow at all -/
theorem borrowList_sublist (q : Q) (ts : List Nat) : (q.borrowList ts).Sublist q.borrows :=
  AliasLemmas.borrowList_sublist q ts

/-- a query accepted by `assert_borrow` is never answered "panic" for aliasing reasons -/
theorem aliasAnswer_none_of_ok (q : Q) (path : String) (ex : Option Bool) (dyn : Bool)
    (h : q.assertBorrowOk = true) : QueryJudge.aliasAnswer q path ex dyn = none := by
  simp [QueryJudge.aliasAnswer, h]

/-- a self-aliasing query is refused on every statically checked path -/
theorem aliasAnswer_static (q : Q) (path : String) (dyn : Bool) (h : q.assertBorrowOk = false)
    (hp : path ∈ QueryJudge.assertingPaths) (hne : path ≠ "one") (hne' : path ≠ "eref") :
    QueryJudge.aliasAnswer q path none dyn = some "panic" := by
  have h1 : (path == "one") = false := by simpa using hne
  have h2 : (path == "eref") = false := by simpa using hne'
  simp only [QueryJudge.aliasAnswer, h, Bool.false_eq_true, if_false, h1, h2, Bool.or_self,
    List.contains_iff_mem.2 hp, if_true]

example : (Q.pair (.write 0) (.pair (.read 0) .unit)).assertBorrowOk = false := by decide
example : QueryJudge.selfConflict ((Q.pair (.write 1) (.pair (.opt (.write 1)) .unit)).borrowList [1]) = true := by decide
example : QueryJudge.selfConflict ((Q.pair (.write 1) (.pair (.opt (.write 1)) .unit)).borrowList [0]) = false := by decide

end Hecs.Props.C05
