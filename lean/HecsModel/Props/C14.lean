import HecsModel.Model.Serde
/-
  C14 — Serialising then deserialising a world reproduces it. (interim)
-/
namespace Hecs.Props.C14
open Hecs Hecs.Serde

/-- the serde form of a handle is its bit pattern, and every handle's pattern is accepted back -/
theorem entity_bits_roundtrip (e : Entity) (hid : e.id < 4294967296) (hg : 0 < e.gen) (hg' : e.gen < 4294967296) :
    entityOfBits (bitsOf e) = some e := by
  unfold entityOfBits bitsOf
  have h1 : ¬ (e.gen * 4294967296 + e.id ≥ 18446744073709551616) := by omega
  have h2 : (e.gen * 4294967296 + e.id) / 4294967296 = e.gen := by omega
  have h3 : (e.gen * 4294967296 + e.id) % 4294967296 = e.id := by omega
  have h4 : ¬ e.gen = 0 := by omega
  simp [h1, h2, h3, h4]

end Hecs.Props.C14
