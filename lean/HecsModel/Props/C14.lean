import HecsModel.Lemmas.SerdeLive
/-
  C14 — Serialising then deserialising a world reproduces it.

  `serRow`/`serCol` are given in closed form (section 1), the filtered variants serialize exactly the
  satisfying entities/archetypes (section 2), announced lengths are the real ones (section 3), and
  deserializing the output gives a world satisfying the invariant in which every live entity of the
  original has, under its original handle (id and generation), exactly its components of the handled
  types, and no other handle exists (section 4).

  Property theorems only; proofs live in `Lemmas/Serde*.lean`.
-/
namespace Hecs.Props.C14
open Hecs Hecs.Serde Hecs.SerdeLemmas

/-- the serde form of a handle is its bit pattern, and every handle's pattern is accepted back -/
theorem entity_bits_roundtrip (e : Entity) (hid : e.id < 4294967296) (hg : 0 < e.gen) (hg' : e.gen < 4294967296) :
    entityOfBits (bitsOf e) = some e :=
  SerdeLemmas.entity_bits_roundtrip e hid hg hg'

/-! ### 1. what the row serializer writes

`restrict H cs = cs.filter (fun c => H.contains c.1)`;
`pairsH H cs = H.filterMap (fun t => (lookupComp t cs).map (t, ·))`;
`rowEntry H (e, cs) = (num (bitsOf e), map [(num t, num v) | (t, v) ← pairsH H cs])`. -/

/-- storage order of the serializers is the order of `World.liveRows` -/
theorem rowsInOrder_eq_liveRows (w : World) : rowsInOrder w = w.liveRows := rfl

/-- one entry per live entity, in storage order -/
theorem serRow_entries (w : World) (H : List Nat) :
    serRow w H none = .map (w.liveRows.map (rowEntry H)) :=
  serRow_none w H

/-- an entry lists the handled types the entity has, in the context's order `H` … -/
theorem entry_types (H : List Nat) (cs : List Comp) :
    (pairsH H cs).map (·.1) = H.filter (fun t => (cs.map (·.1)).contains t) :=
  pairsH_keys H cs

/-- … with the entity's own values: up to order, exactly the restricted component list -/
theorem entry_comps (H : List Nat) (hH : H.Nodup) (cs : List Comp) (hn : (cs.map (·.1)).Nodup) :
    (pairsH H cs).Perm (restrict H cs) :=
  pairsH_perm hH hn

/-! ### 2. `serialize_satisfying::<Q>` -/

/-- row format: exactly the entries of the entities whose type list satisfies `q` -/
theorem serialize_satisfying_exact_row (w : World) (H : List Nat) (q : Q) :
    serRow w H (some q) =
      .map ((w.liveRows.filter (fun p => q.sat (p.2.map (·.1)))).map (rowEntry H)) :=
  serRow_some w H q

/-- column format: exactly the blocks of the non-empty archetypes satisfying `q` -/
theorem serialize_satisfying_exact_col (w : World) (H : List Nat) (q : Q) :
    serCol w H (some q) =
      .seq ((w.archs.toList.filter (fun ar => ar.rows.size ≠ 0 && q.sat ar.types)).map (colBlock w H)) :=
  serCol_some w H q

theorem serCol_blocks (w : World) (H : List Nat) :
    serCol w H none = .seq ((w.archs.toList.filter (fun ar => ar.rows.size ≠ 0)).map (colBlock w H)) :=
  serCol_none w H

/-- the filter the serializers apply (`access(..).is_some()`) is satisfaction -/
theorem satisfiesOpt_eq_sat (q : Q) (ts : List Nat) : satisfiesOpt (some q) ts = q.sat ts :=
  Q.access_isSome_eq_sat q ts

/-! ### 3. announced lengths -/

/-- every block: the announced entity count is the length of the entity list and of every column,
the announced component count is the length of the id list and, plus one, of the component tuple -/
theorem lengths_honest (w : World) (H : List Nat) (ar : Arch) :
    ∃ n k ids ents cols, colBlock w H ar = .seq [.num n, .num k, .seq ids, .seq (.seq ents :: cols)] ∧
      ents.length = n ∧ (∀ c ∈ cols, ∃ xs, c = Tree.seq xs ∧ xs.length = n) ∧
      ids.length = k ∧ cols.length = k ∧ (Tree.seq ents :: cols).length = k + 1 :=
  colBlock_lengths w H ar

/-! ### 4. round trips

Hypotheses: `Bounded w` — every live handle has a 32-bit id and a non-zero 32-bit generation;
`ZstNormal w` — stored values are ones their types can hold (`normVal t v = v`: zero-sized types 7, 8, 9
carry serial 0, the 4-byte types 1, 2 a 32-bit value); `SizesFit w H` — `H` and
every archetype have fewer than 2³² elements (the announced lengths fit their fields). -/

theorem row_roundtrip (w : World) (H : List Nat) (hw : w.Inv) (hH : H.Nodup) (hb : Bounded w)
    (hz : ZstNormal w) :
    ∃ w', deRow H (serRow w H none) = .ok w' ∧ w'.Inv ∧
      (∀ e cs, (e, cs) ∈ w.liveRows → w'.lookup e = some (canon (restrict H cs))) ∧
      (∀ e, (∀ cs, (e, cs) ∉ w.liveRows) → w'.lookup e = none) :=
  SerdeLemmas.row_roundtrip w H hw hH hb hz

theorem col_roundtrip (w : World) (H : List Nat) (hw : w.Inv) (hH : H.Nodup) (hb : Bounded w)
    (hz : ZstNormal w) (hf : SizesFit w H) :
    ∃ w', deCol H (serCol w H none) = .ok w' ∧ w'.Inv ∧
      (∀ e cs, (e, cs) ∈ w.liveRows → w'.lookup e = some (canon (restrict H cs))) ∧
      (∀ e, (∀ cs, (e, cs) ∉ w.liveRows) → w'.lookup e = none) :=
  SerdeLemmas.col_roundtrip w H hw hH hb hz hf

/-- `liveRows` is `lookup` restricted to the live handles -/
theorem mem_liveRows_iff (w : World) (hw : w.Inv) (e : Entity) (cs : List Comp) :
    (e, cs) ∈ w.liveRows ↔ w.isLive e = true ∧ w.lookup e = some cs :=
  SerdeLemmas.mem_liveRows_iff w hw.core e cs

/-- the round trips over `lookup`: the new world knows exactly the live handles of the original, each
with its components of the handled types.  Reserved-but-unflushed handles are not serialized. -/
theorem row_roundtrip_lookup (w : World) (H : List Nat) (hw : w.Inv) (hH : H.Nodup) (hb : Bounded w)
    (hz : ZstNormal w) :
    ∃ w', deRow H (serRow w H none) = .ok w' ∧ w'.Inv ∧
      ∀ e, w'.lookup e = if w.isLive e = true then (w.lookup e).map (restrict H) else none :=
  SerdeLemmas.row_roundtrip_lookup w H hw hH hb hz

theorem col_roundtrip_lookup (w : World) (H : List Nat) (hw : w.Inv) (hH : H.Nodup) (hb : Bounded w)
    (hz : ZstNormal w) (hf : SizesFit w H) :
    ∃ w', deCol H (serCol w H none) = .ok w' ∧ w'.Inv ∧
      ∀ e, w'.lookup e = if w.isLive e = true then (w.lookup e).map (restrict H) else none :=
  SerdeLemmas.col_roundtrip_lookup w H hw hH hb hz hf

/-- a context handling every type present keeps everything -/
theorem restrict_all (H : List Nat) (cs : List Comp) (h : ∀ c ∈ cs, c.1 ∈ H) : restrict H cs = cs :=
  SerdeLemmas.restrict_all H cs h

/-- a live row's values are already in canonical order, so is their restriction -/
theorem canon_restrict_live (w : World) (H : List Nat) (hw : w.Inv) (e : Entity) (cs : List Comp)
    (h : (e, cs) ∈ w.liveRows) : canon (restrict H cs) = restrict H cs := by
  apply CmdBufLemmas.canon_of_sorted
  have h1 : cs.Pairwise (fun x y => x.1 < y.1) :=
    List.pairwise_map.1 ((strictSorted_iff _).1 (liveRows_sorted hw h))
  exact (h1.filter _).imp (fun h => Nat.le_of_lt h)

/-- one block at a time, from any starting world -/
theorem block_roundtrip (w w0 : World) (H : List Nat) (hw : w.Inv) (hb : Bounded w) (hz : ZstNormal w)
    (hf : SizesFit w H) (hH : H.Nodup) (ar : Arch) (har : ar ∈ w.archs.toList) :
    deArchetype H w0 (colBlock w H ar) =
      .ok (w0.spawnColumnBatchAt (archBlock w H ar).hs (archBlock w H ar).ts (archBlock w H ar).rows).1 :=
  deArchetype_colBlock w w0 H hw hb hz hf hH ar har

/-! ### non-vacuity -/

/-- ids 0..3 were allocated; 0 was despawned (a hole), 1 was despawned and reused (generation 2);
entity 2 carries the zero-sized type 7; entity 3 shares an archetype with 1v2 -/
def exW : World :=
  run [.spawn [(1, 10), (2, 20)], .spawn [(1, 11)], .spawn [(7, 0), (1, 12)], .despawn ⟨1, 1⟩,
       .spawn [(3, 5), (1, 13)], .despawn ⟨0, 1⟩, .spawn [(1, 14), (3, 6)], .despawn ⟨0, 2⟩,
       .spawnAt ⟨3, 1⟩ [(1, 15), (3, 7)]]

def exH : List Nat := [3, 1, 7]

def probes : List Entity := [⟨0, 1⟩, ⟨0, 2⟩, ⟨0, 3⟩, ⟨1, 1⟩, ⟨1, 2⟩, ⟨2, 1⟩, ⟨3, 1⟩, ⟨4, 1⟩]

def lookups (r : Except String World) (es : List Entity) : Option (List (Option (List Comp))) :=
  match r with
  | .ok w => some (es.map w.lookup)
  | .error _ => none

example : probes.map exW.lookup =
    [none, none, none, none, some [(1, 13), (3, 5)], some [(1, 12), (7, 0)], some [(1, 15), (3, 7)], none] := by
  decide +kernel

-- both formats give back every handle with its components (all types handled) …
example : lookups (deRow exH (serRow exW exH none)) probes = some (probes.map exW.lookup) := by decide +kernel
example : lookups (deCol exH (serCol exW exH none)) probes = some (probes.map exW.lookup) := by decide +kernel
-- … and only the handled ones under a smaller context
example : lookups (deRow [1] (serRow exW [1] none)) probes =
    some [none, none, none, none, some [(1, 13)], some [(1, 12)], some [(1, 15)], none] := by decide +kernel
example : lookups (deCol [1] (serCol exW [1] none)) probes =
    some [none, none, none, none, some [(1, 13)], some [(1, 12)], some [(1, 15)], none] := by decide +kernel
-- the filtered variant: only entities having type 3
example : lookups (deRow exH (serRow exW exH (some (.read 3)))) probes =
    some [none, none, none, none, some [(1, 13), (3, 5)], none, some [(1, 15), (3, 7)], none] := by decide +kernel
example : lookups (deCol exH (serCol exW exH (some (.read 3)))) probes =
    some [none, none, none, none, some [(1, 13), (3, 5)], none, some [(1, 15), (3, 7)], none] := by decide +kernel

theorem exW_inv : exW.Inv := World.inv_run _ (by decide)

-- the hypotheses of the round-trip theorems hold of the example world
example : ∃ w', deCol exH (serCol exW exH none) = .ok w' ∧ w'.Inv ∧
      (∀ e cs, (e, cs) ∈ exW.liveRows → w'.lookup e = some (canon (restrict exH cs))) ∧
      (∀ e, (∀ cs, (e, cs) ∉ exW.liveRows) → w'.lookup e = none) :=
  col_roundtrip exW exH exW_inv (by decide) (by unfold Bounded; decide +kernel)
    (by unfold ZstNormal; decide +kernel) (by unfold SizesFit; decide +kernel)

end Hecs.Props.C14
