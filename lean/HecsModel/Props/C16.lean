import HecsModel.Lemmas.Reserved
/-
  C16 — Reserved-but-unflushed entities are handled uniformly: the read-only API answers "exists,
  no components" for them, they are not iterated or counted, every structural operation flushes
  them first, and `flush` turns each of them into an empty entity of archetype 0.
  Property theorems only; helper lemmas live in `Lemmas/Reserved.lean`.
-/
namespace Hecs.Props.C16
open Hecs

/-- `flush` is idempotent -/
theorem flush_idempotent (w : World) (hi : w.Inv) : w.flush.flush = w.flush :=
  World.flush_idem w ((World.inv_iff_good w).1 hi)

/-- Every operation that starts with `flush` (`Op.flushesFirst`: all but `reserveEntity`,
`reserveEntities`, `clear`) cannot tell whether the caller flushed before: world AND output agree.
`Op.accepted` is `True` except for `spawnColumnBatchAt`, where it is the condition of the accepted
branch (as many handles as rows, pairwise distinct ids); the rejected branch is
`structural_rejected` below. -/
theorem structural_flushes_first (w : World) (op : Op) (hi : w.Inv) (hf : op.flushesFirst = true)
    (ha : op.accepted) : step w.flush op = step w op :=
  World.step_flush_first w op ((World.inv_iff_good w).1 hi) hf ha

/-- the rejected branch of `spawnColumnBatchAt` returns the world untouched — not even flushed —
so there `step w.flush op = (w.flush, out)` whereas `step w op = (w, out)` -/
theorem structural_rejected (w : World) (hs : List Entity) (ts : List Nat) (rows : List (List Comp))
    (h : ¬ (Op.spawnColumnBatchAt hs ts rows).accepted) :
    step w (.spawnColumnBatchAt hs ts rows) = (w, { res := .panic, dropped := rows.flatten }) := by
  have hc : hs.length ≠ rows.length ∨ ¬ (hs.map (·.id)).Nodup := by
    apply Classical.byContradiction; intro hn
    simp only [not_or, Decidable.not_not] at hn
    exact h ⟨hn.1, hn.2⟩
  simp only [step, World.spawnColumnBatchAt, if_pos hc]

/-- the read-only API answers uniformly for a reserved handle: it exists (`contains`), it has the
placeholder location "archetype 0, no row" (`get = some none`, which is what `entity`, `get`,
`satisfies`, `query_one` consult), and `get_mut` (used by `remove`) does not see it -/
theorem reserved_uniform (w : World) (e : Entity) (hr : w.isReserved e) :
    w.contains e = true ∧ w.get e = some none ∧ w.getMut e = none :=
  ⟨hr.contains, hr.get, hr.getMut⟩

/-- a reserved id has no row: iteration does not yield it and `len` (= number of rows, C02
`len_eq_rows`) does not count it -/
theorem reserved_no_row (w : World) (e : Entity) (hi : w.Inv) (hr : w.isReserved e) :
    ∀ a i r, w.rowAt a i = some r → r.id ≠ e.id :=
  hr.no_row hi.core

/-- the reserved handles are exactly the members of `reservedHandles`, of which there are
`(pending.size - max cursor 0) + max (-cursor) 0` -/
theorem reserved_enumerated (w : World) (hi : w.Inv) :
    (∀ e, e ∈ w.reservedHandles ↔ w.isReserved e) ∧
    w.reservedHandles.length = (w.pending.size - w.cursor.toNat) + (-w.cursor).toNat :=
  ⟨World.mem_reservedHandles w ((World.inv_iff_good w).1 hi), World.reservedHandles_length w⟩

/-- `reserve_entity` returns a reserved handle (recycled or fresh branch alike) … -/
theorem reserveEntity_reserved (w : World) (hi : w.Inv) :
    (w.reserveEntity).1.isReserved (w.reserveEntity).2 :=
  World.reserveEntity_reserved w ((World.inv_iff_good w).1 hi)

/-- … that was not a handle before … -/
theorem reserveEntity_fresh (w : World) (hi : w.Inv) :
    w.contains (w.reserveEntity).2 = false ∧ (w.reserveEntity).2.gen = w.genOf (w.reserveEntity).2.id :=
  World.reserveEntity_fresh w ((World.inv_iff_good w).1 hi)

/-- … and keeps every earlier reservation -/
theorem reserveEntity_keeps_reserved (w : World) (e : Entity) (hr : w.isReserved e) :
    (w.reserveEntity).1.isReserved e :=
  World.reserveEntity_mono w e hr

/-- the same for every handle returned by `reserve_entities(n)` -/
theorem reserveEntities_reserved (w : World) (n : Nat) (hi : w.Inv) :
    ∀ e, e ∈ (w.reserveEntities n).2 → (w.reserveEntities n).1.isReserved e :=
  World.reserveEntities_reserved w n ((World.inv_iff_good w).1 hi)

theorem reserveEntities_fresh (w : World) (n : Nat) (hi : w.Inv) :
    ∀ e, e ∈ (w.reserveEntities n).2 → w.contains e = false ∧ e.gen = w.genOf e.id :=
  World.reserveEntities_fresh w n ((World.inv_iff_good w).1 hi)

theorem reserveEntities_keeps_reserved (w : World) (n : Nat) (e : Entity) (hr : w.isReserved e) :
    (w.reserveEntities n).1.isReserved e :=
  World.reserveEntities_mono w n e hr

/-- `flush` materialises every reserved handle as an entity without components in archetype 0 -/
theorem flush_materialises (w : World) (e : Entity) (hi : w.Inv) (hr : w.isReserved e) :
    ∃ i, w.flush.get e = some (some (0, i)) ∧ w.flush.rowAt 0 i = some ⟨e.id, []⟩ :=
  World.flush_materialises w ((World.inv_iff_good w).1 hi) e hr

/-- live handles keep their location, rows their position and values -/
theorem flush_keeps_live (w : World) (hi : w.Inv) :
    (∀ e l, w.get e = some (some l) → w.flush.get e = some (some l)) ∧
    (∀ a i r, w.rowAt a i = some r → w.flush.rowAt a i = some r) :=
  ⟨World.flush_get_live w ((World.inv_iff_good w).1 hi), World.flush_row_live w ((World.inv_iff_good w).1 hi)⟩

/-- `flush` adds exactly the reserved handles to `len` -/
theorem flush_len (w : World) (hi : w.Inv) :
    w.flush.len = w.len + w.reservedHandles.length ∧
    w.flush.len = w.len + (w.pending.size - w.cursor.toNat) + (-w.cursor).toNat ∧
    w.flush.reservedHandles = [] := by
  have hf := World.flush_flushed' w ((World.inv_iff_good w).1 hi)
  refine ⟨by rw [World.flush_len, World.reservedHandles_length]; omega, World.flush_len w, ?_⟩
  have hc := hf.cursor
  have : (-w.flush.cursor).toNat = 0 := by omega
  simp [World.reservedHandles, World.reservedPending_flushed hc, this]

end Hecs.Props.C16
