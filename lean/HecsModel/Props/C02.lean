import HecsModel.Lemmas.Handles
import HecsModel.Lemmas.Reserved
/-
  C02 — Entity handles are unique while live and dead forever after despawn.
  Property theorems only; helper lemmas live in `Lemmas/Handles.lean`.
-/
namespace Hecs.Props.C02
open Hecs

/-- a handle whose generation differs from the one stored for its id is rejected by every lookup
and cannot be freed -/
theorem stale_rejected (w : World) (e : Entity) (m : Meta) :
    w.metas[e.id]? = some m → m.gen ≠ e.gen →
    w.get e = none ∧ w.getMut e = none ∧ w.contains e = false ∧ w.free e = none :=
  World.stale_meta w e m

/-- two row positions never hold the same id -/
theorem live_ids_distinct (w : World) (hi : w.Inv) (a i b j : Nat) (r r' : Row) :
    w.rowAt a i = some r → w.rowAt b j = some r' → r.id = r'.id → a = b ∧ i = j := by
  intro h1 h2 hid
  have l1 := hi.core.row_loc a i r h1
  have l2 := hi.core.row_loc b j r' h2
  rw [hid, l2] at l1
  simp only [Option.some.injEq, Prod.mk.injEq] at l1
  exact ⟨l1.1.symm, l1.2.symm⟩

/-- the stored generation of an id never decreases and the id stays allocated, under every operation
except `clear` and the `*_at` spawns naming that id.  (The proof does not use the hypotheses
`w.Inv` and `op.WF`; they are kept so that the statement composes with `inv_step`.) -/
theorem gen_monotone_step (w : World) (op : Op) (id : Nat) (_hi : w.Inv) (_hop : op.WF)
    (hr : op.resurrects id = false) (hlt : id < w.metas.size) :
    (step w op).1.genOf id ≥ w.genOf id ∧ id < (step w op).1.metas.size := by
  obtain ⟨h1, h2⟩ := World.gen_step w op id hr
  exact ⟨h2, by omega⟩

/-- the same without the unused hypotheses -/
theorem gen_monotone_step' (w : World) (op : Op) (id : Nat) (hr : op.resurrects id = false) :
    (step w op).1.genOf id ≥ w.genOf id ∧ w.metas.size ≤ (step w op).1.metas.size := by
  obtain ⟨h1, h2⟩ := World.gen_step w op id hr
  exact ⟨h2, h1⟩

/-- a successful `despawn` bumps the generation; the handle is rejected afterwards -/
theorem despawn_kills (w : World) (e : Entity) (_hi : w.Inv) :
    (w.despawn e).2.res = .ok →
    (w.despawn e).1.genOf e.id = e.gen + 1 ∧ (w.despawn e).1.get e = none ∧
    (w.despawn e).1.contains e = false := by
  intro hok
  rcases World.despawn_cases w e with ⟨_, h2⟩ | ⟨m, a, i, hm, hg, _, h2, _⟩
  · rw [h2] at hok; cases hok
  · have hlt := World.lt_of_meta hm
    have k := World.removeRow_keeps (w.flush.freed e.id m) a i
    have hgen : (w.despawn e).1.genOf e.id = e.gen + 1 := by
      rw [h2, k.gen, World.freed_genOf]; simp [hlt, hg]
    have hsz : e.id < (w.despawn e).1.metas.size := by
      rw [h2]; have := k.size; rw [World.freed_size] at this; omega
    obtain ⟨s1, _, s3, _⟩ := World.stale_gen (w.despawn e).1 e hsz (by omega)
    exact ⟨hgen, s1, s3⟩

/-- the same for a successful `take` -/
theorem take_kills (w : World) (e : Entity) (hi : w.Inv) :
    (w.take e).2.isSome = true →
    (w.take e).1.genOf e.id = e.gen + 1 ∧ (w.take e).1.get e = none ∧
    (w.take e).1.contains e = false := by
  intro hok
  have hb := (World.flush_flushed' w ((World.inv_iff_good w).1 hi)).good.bij
  rcases World.take_cases w e hb with ⟨h2, _⟩ | ⟨m, a, i, hm, hg, _, h2, _⟩
  · rw [h2] at hok; cases hok
  · have hlt := World.lt_of_meta hm
    have k := World.removeRow_keeps (w.flush.freed e.id m) a i
    have hgen : (w.take e).1.genOf e.id = e.gen + 1 := by
      rw [h2, k.gen, World.freed_genOf]; simp [hlt, hg]
    have hsz : e.id < (w.take e).1.metas.size := by
      rw [h2]; have := k.size; rw [World.freed_size] at this; omega
    obtain ⟨s1, _, s3, _⟩ := World.stale_gen (w.take e).1 e hsz (by omega)
    exact ⟨hgen, s1, s3⟩

/-- … and for the `takeDrop` operation -/
theorem takeDrop_kills (w : World) (e : Entity) (hi : w.Inv) :
    (step w (.takeDrop e)).2.res = .ok →
    (step w (.takeDrop e)).1.genOf e.id = e.gen + 1 ∧ (step w (.takeDrop e)).1.get e = none ∧
    (step w (.takeDrop e)).1.contains e = false := by
  intro hok
  rw [World.step_takeDrop_fst]
  apply take_kills w e hi
  revert hok
  show (match w.take e with
      | (w', some d) => (w', ({ res := .ok, dropped := d } : Out))
      | (w', none) => (w', { res := .nosuch })).2.res = .ok → _
  generalize w.take e = t
  obtain ⟨w', _ | d⟩ := t
  · intro h; cases h
  · intro _; rfl

/-- once the stored generation has passed a handle's, the handle is rejected after any sequence of
operations that does not resurrect its id.  (`w.Inv` and the `WF` hypotheses are not used by the
proof.) -/
theorem dead_forever (w : World) (e : Entity) (ops : List Op) (_hi : w.Inv)
    (_hwf : ∀ op, op ∈ ops → op.WF) (hres : ∀ op, op ∈ ops → op.resurrects e.id = false)
    (hlt : e.id < w.metas.size) (hgen : w.genOf e.id > e.gen) :
    (ops.foldl (fun w op => (step w op).1) w).get e = none ∧
    (ops.foldl (fun w op => (step w op).1) w).contains e = false := by
  obtain ⟨h1, h2⟩ := World.gen_foldl ops e.id hres w
  obtain ⟨s1, _, s3, _⟩ := World.stale_gen (ops.foldl (fun w op => (step w op).1) w) e (by omega) (by omega)
  exact ⟨s1, s3⟩

/-- a despawned handle is rejected along every suffix that does not resurrect its id -/
theorem despawned_dead_forever (w : World) (e : Entity) (ops : List Op) (hi : w.Inv)
    (hwf : ∀ op, op ∈ ops → op.WF) (hres : ∀ op, op ∈ ops → op.resurrects e.id = false)
    (hok : (step w (.despawn e)).2.res = .ok) :
    (ops.foldl (fun w op => (step w op).1) (step w (.despawn e)).1).get e = none ∧
    (ops.foldl (fun w op => (step w op).1) (step w (.despawn e)).1).contains e = false := by
  have hi' := World.inv_step w (.despawn e) trivial hi
  obtain ⟨g, _, _⟩ := despawn_kills w e hi hok
  have hsz : e.id < (step w (.despawn e)).1.metas.size := by
    rcases World.despawn_cases w e with ⟨_, h2⟩ | ⟨m, a, i, hm, _, _, h2, _⟩
    · have : (w.despawn e).2.res = .ok := hok
      rw [h2] at this; cases this
    · show e.id < (w.despawn e).1.metas.size
      rw [h2]
      have := (World.removeRow_keeps (w.flush.freed e.id m) a i).size
      rw [World.freed_size] at this
      have := World.lt_of_meta hm
      omega
  exact dead_forever _ e ops hi' hwf hres hsz (by show (w.despawn e).1.genOf e.id > e.gen; omega)

/-- … and the same for a handle removed by `take` -/
theorem taken_dead_forever (w : World) (e : Entity) (ops : List Op) (hi : w.Inv)
    (hwf : ∀ op, op ∈ ops → op.WF) (hres : ∀ op, op ∈ ops → op.resurrects e.id = false)
    (hok : (step w (.takeDrop e)).2.res = .ok) :
    (ops.foldl (fun w op => (step w op).1) (step w (.takeDrop e)).1).get e = none ∧
    (ops.foldl (fun w op => (step w op).1) (step w (.takeDrop e)).1).contains e = false := by
  have hi' := World.inv_step w (.takeDrop e) trivial hi
  obtain ⟨g, _, _⟩ := takeDrop_kills w e hi hok
  have hsz : e.id < (step w (.takeDrop e)).1.metas.size := by
    rw [World.step_takeDrop_fst]
    have hb := (World.flush_flushed' w ((World.inv_iff_good w).1 hi)).good.bij
    rcases World.take_cases w e hb with ⟨h2, _⟩ | ⟨m, a, i, hm, _, _, h2, _⟩
    · exfalso
      revert hok
      show (match w.take e with
        | (w', some d) => (w', ({ res := .ok, dropped := d } : Out))
        | (w', none) => (w', { res := .nosuch })).2.res = .ok → False
      rw [h2]; intro h; cases h
    · rw [h2]
      have := (World.removeRow_keeps (w.flush.freed e.id m) a i).size
      rw [World.freed_size] at this
      have := World.lt_of_meta hm
      omega
  exact dead_forever _ e ops hi' hwf hres hsz (by omega)

/-- `spawn` returns a handle that was not a handle of the (flushed) world before: its id was free,
it carries the id's current generation, and it is live afterwards -/
theorem fresh_handle_spawn (w : World) (b : List Comp) (hi : w.Inv) :
    ∃ e', (w.spawn b).2.res = .ent e' ∧ w.flush.contains e' = false ∧
      e'.gen = w.flush.genOf e'.id ∧ e'.gen = w.genOf e'.id ∧
      ∃ l, (w.spawn b).1.get e' = some (some l) := by
  have hg := (World.inv_iff_good w).1 hi
  have hf := World.flush_flushed' w hg
  obtain ⟨h1, h2⟩ := World.alloc_fresh w.flush hf
  exact ⟨(w.flush.alloc).2, rfl, h1, h2, by rw [h2, (World.flush_keeps w).gen], World.spawn_live w b hg⟩

/-- `reserve_entity` likewise returns a handle that was not a handle before, at the id's current
generation; afterwards it is a reserved handle (C16) -/
theorem fresh_handle_reserveEntity (w : World) (hi : w.Inv) :
    w.contains (w.reserveEntity).2 = false ∧ (w.reserveEntity).2.gen = w.genOf (w.reserveEntity).2.id ∧
    (w.reserveEntity).1.isReserved (w.reserveEntity).2 :=
  ⟨(World.reserveEntity_fresh w ((World.inv_iff_good w).1 hi)).1,
   (World.reserveEntity_fresh w ((World.inv_iff_good w).1 hi)).2,
   World.reserveEntity_reserved w ((World.inv_iff_good w).1 hi)⟩

/-- `World::len` equals the number of rows, i.e. of entities that iteration yields -/
theorem len_eq_rows (w : World) (hi : w.Inv) : w.len = (w.archs.toList.map (·.rows.size)).sum :=
  hi.book.len_rows

/-- The excluded case is real: `spawn_at` may resurrect an id at a LOWER generation, after which
ordinary recycling re-issues a handle that was despawned earlier.  Here `⟨0,2⟩` is spawned, despawned
(dead: generation 3), then `spawnAt ⟨0,1⟩` winds the generation back, and after one more
despawn/spawn the very same handle `⟨0,2⟩` is handed out again and is live. -/
theorem resurrection_reissues_old_handle :
    let h1 : List Op := [.spawn [], .despawn ⟨0,1⟩, .spawn [], .despawn ⟨0,2⟩]
    let h2 : List Op := h1 ++ [.spawnAt ⟨0,1⟩ [], .despawn ⟨0,1⟩]
    (step (run [.spawn [], .despawn ⟨0,1⟩]) (.spawn [])).2.res = .ent ⟨0,2⟩ ∧
    (run h1).contains ⟨0,2⟩ = false ∧ (run h1).genOf 0 = 3 ∧
    (step (run h2) (.spawn [])).2.res = .ent ⟨0,2⟩ ∧
    (step (run h2) (.spawn [])).1.contains ⟨0,2⟩ = true ∧
    (∀ op, op ∈ h2 ++ [.spawn []] → op.WF) := by
  decide +kernel

end Hecs.Props.C02
