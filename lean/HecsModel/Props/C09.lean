import HecsModel.Model.World
/-
  C09 — Failed operations have no effect.

  Every failing branch of a mutator returns exactly the flushed world (outstanding reservations
  become empty entities, which any structural call may do), creates no archetype, and drops the
  rejected bundle intact and nothing else.  These are statements about the model for *all* worlds
  and arguments; the correspondence check keeps the model's failing paths equal to the code's.
-/
namespace Hecs.Props.C09
open Hecs

/-! ### unfolding equations, one per branch -/

theorem insert_located (w : World) (e : Entity) (b : List Comp) (a i : Nat)
    (hg : w.flush.get e = some (some (a, i))) :
    w.insert e b = ((w.flush.insertInner e b a a i).1,
                    { res := .ok, dropped := (w.flush.insertInner e b a a i).2 }) := by
  simp only [World.insert, hg]

theorem insert_unlocated (w : World) (e : Entity) (b : List Comp)
    (hg : ¬ ∃ l, w.flush.get e = some (some l)) :
    w.insert e b = (w.flush, { res := .nosuch, dropped := b }) := by
  simp only [World.insert]
  split
  · rename_i a i h; exact absurd ⟨(a, i), h⟩ hg
  · rfl

/-- the row `remove`/`exchange` read the named components from -/
abbrev rowOf (w : World) (e : Entity) (a i : Nat) : Row := ((w.flush.rowAt a i)).getD ⟨e.id, []⟩

theorem remove_nosuch_eq (w : World) (e : Entity) (ts : List Nat) (hg : w.flush.getMut e = none) :
    w.remove e ts = (w.flush, { res := .nosuch }) := by
  simp only [World.remove, hg]

theorem remove_missing_eq (w : World) (e : Entity) (ts : List Nat) (a i : Nat)
    (hg : w.flush.getMut e = some (a, i))
    (hb : World.bundleGet (rowOf w e a i).vals ts = none) :
    w.remove e ts = (w.flush, { res := .missing }) := by
  simp only [rowOf] at hb
  simp only [World.remove, hg, hb]

theorem remove_found_out (w : World) (e : Entity) (ts : List Nat) (a i : Nat) (got : List Comp)
    (hg : w.flush.getMut e = some (a, i))
    (hb : World.bundleGet (rowOf w e a i).vals ts = some got) :
    (w.remove e ts).2.res = .vals got ∧ (w.remove e ts).2.dropped = [] := by
  simp only [rowOf] at hb
  simp only [World.remove, hg, hb]
  split <;> simp

theorem exchange_unlocated (w : World) (e : Entity) (ts : List Nat) (b : List Comp)
    (hg : ¬ ∃ l, w.flush.get e = some (some l)) :
    w.exchange e ts b = (w.flush, { res := .nosuch, dropped := b }) := by
  simp only [World.exchange]
  split
  · rename_i a i h; exact absurd ⟨(a, i), h⟩ hg
  · rfl

theorem exchange_missing_eq (w : World) (e : Entity) (ts : List Nat) (b : List Comp) (a i : Nat)
    (hg : w.flush.get e = some (some (a, i)))
    (hb : World.bundleGet (rowOf w e a i).vals ts = none) :
    w.exchange e ts b = (w.flush, { res := .missing, dropped := b }) := by
  simp only [rowOf] at hb
  simp only [World.exchange, hg, hb]

theorem exchange_found_res (w : World) (e : Entity) (ts : List Nat) (b : List Comp) (a i : Nat)
    (got : List Comp) (hg : w.flush.get e = some (some (a, i)))
    (hb : World.bundleGet (rowOf w e a i).vals ts = some got) :
    (w.exchange e ts b).2.res = .vals got := by
  simp only [rowOf] at hb
  simp only [World.exchange, hg, hb]

theorem despawn_nosuch_eq (w : World) (e : Entity) (hf : w.flush.free e = none) :
    w.despawn e = (w.flush, { res := .nosuch }) := by
  simp only [World.despawn, hf]

theorem despawn_freed_res (w : World) (e : Entity) (x : World × (Nat × Nat))
    (hf : w.flush.free e = some x) : (w.despawn e).2.res = .ok := by
  obtain ⟨w1, a, i⟩ := x
  simp only [World.despawn, hf]

theorem take_unlocated (w : World) (e : Entity) (hg : ¬ ∃ l, w.flush.get e = some (some l)) :
    w.take e = (w.flush, none) := by
  simp only [World.take]
  split
  · rename_i a i h; exact absurd ⟨(a, i), h⟩ hg
  · rfl

theorem take_located (w : World) (e : Entity) (a i : Nat)
    (hg : w.flush.get e = some (some (a, i))) :
    (w.take e).2 = some (((w.flush.rowAt a i).map (·.vals)).getD []) := by
  simp only [World.take, hg]
  split <;> rfl

/-! ### 1. the drafted theorems -/

theorem insert_fails_iff (w : World) (e : Entity) (b : List Comp) :
    (w.insert e b).2.res = .nosuch ↔ ¬ ∃ l, w.flush.get e = some (some l) := by
  constructor
  · intro h ⟨⟨a, i⟩, hg⟩
    rw [insert_located w e b a i hg] at h
    simp at h
  · intro hg
    rw [insert_unlocated w e b hg]

theorem insert_fail (w : World) (e : Entity) (b : List Comp) (h : (w.insert e b).2.res = .nosuch) :
    (w.insert e b).1 = w.flush ∧ (w.insert e b).2.dropped = b := by
  rw [insert_unlocated w e b ((insert_fails_iff w e b).1 h)]
  exact ⟨rfl, rfl⟩

/-! ### 2. `remove` -/

theorem remove_fails_iff (w : World) (e : Entity) (ts : List Nat) :
    ((w.remove e ts).2.res = .nosuch ↔ w.flush.getMut e = none) ∧
    ((w.remove e ts).2.res = .missing ↔
      ∃ a i, w.flush.getMut e = some (a, i) ∧
        World.bundleGet (((w.flush.rowAt a i)).getD ⟨e.id, []⟩).vals ts = none) := by
  cases hg : w.flush.getMut e with
  | none =>
    rw [remove_nosuch_eq w e ts hg]
    simp
  | some l =>
    obtain ⟨a, i⟩ := l
    cases hb : World.bundleGet (rowOf w e a i).vals ts with
    | none =>
      rw [remove_missing_eq w e ts a i hg hb]
      exact ⟨by simp, ⟨fun _ => ⟨a, i, rfl, hb⟩, fun _ => rfl⟩⟩
    | some got =>
      rw [(remove_found_out w e ts a i got hg hb).1]
      refine ⟨by simp, ⟨fun h => (by cases h), ?_⟩⟩
      rintro ⟨a', i', h1, h2⟩
      cases h1
      rw [show World.bundleGet _ ts = some got from hb] at h2
      cases h2

theorem remove_fail_nosuch (w : World) (e : Entity) (ts : List Nat) (h : (w.remove e ts).2.res = .nosuch) :
    (w.remove e ts).1 = w.flush ∧ (w.remove e ts).2.dropped = [] := by
  rw [remove_nosuch_eq w e ts ((remove_fails_iff w e ts).1.1 h)]
  exact ⟨rfl, rfl⟩

/-- `remove` is all-or-nothing: when some named component is missing nothing is removed, nothing is
dropped and no archetype is created -/
theorem remove_fail_missing (w : World) (e : Entity) (ts : List Nat) (h : (w.remove e ts).2.res = .missing) :
    (w.remove e ts).1 = w.flush ∧ (w.remove e ts).2.dropped = [] := by
  obtain ⟨a, i, hg, hb⟩ := (remove_fails_iff w e ts).2.1 h
  rw [remove_missing_eq w e ts a i hg hb]
  exact ⟨rfl, rfl⟩

/-! ### 4. `exchange` -/

theorem exchange_fails_iff (w : World) (e : Entity) (ts : List Nat) (b : List Comp) :
    ((w.exchange e ts b).2.res = .nosuch ↔ ¬ ∃ l, w.flush.get e = some (some l)) ∧
    ((w.exchange e ts b).2.res = .missing ↔
      ∃ a i, w.flush.get e = some (some (a, i)) ∧
        World.bundleGet (((w.flush.rowAt a i)).getD ⟨e.id, []⟩).vals ts = none) := by
  by_cases hl : ∃ l, w.flush.get e = some (some l)
  · obtain ⟨⟨a, i⟩, hg⟩ := hl
    cases hb : World.bundleGet (rowOf w e a i).vals ts with
    | none =>
      rw [exchange_missing_eq w e ts b a i hg hb]
      exact ⟨by simp [hg], ⟨fun _ => ⟨a, i, hg, hb⟩, fun _ => rfl⟩⟩
    | some got =>
      rw [exchange_found_res w e ts b a i got hg hb]
      refine ⟨by simp [hg], ⟨fun h => (by cases h), ?_⟩⟩
      rintro ⟨a', i', h1, h2⟩
      rw [hg] at h1
      cases h1
      rw [show World.bundleGet _ ts = some got from hb] at h2
      cases h2
  · rw [exchange_unlocated w e ts b hl]
    refine ⟨by simp [hl], ?_⟩
    constructor
    · intro h; simp at h
    · rintro ⟨a, i, hg, _⟩; exact absurd ⟨(a, i), hg⟩ hl

theorem exchange_fail (w : World) (e : Entity) (ts : List Nat) (b : List Comp)
    (h : (w.exchange e ts b).2.res = .nosuch ∨ (w.exchange e ts b).2.res = .missing) :
    (w.exchange e ts b).1 = w.flush ∧ (w.exchange e ts b).2.dropped = b := by
  rcases h with h | h
  · rw [exchange_unlocated w e ts b ((exchange_fails_iff w e ts b).1.1 h)]
    exact ⟨rfl, rfl⟩
  · obtain ⟨a, i, hg, hb⟩ := (exchange_fails_iff w e ts b).2.1 h
    rw [exchange_missing_eq w e ts b a i hg hb]
    exact ⟨rfl, rfl⟩

/-! ### 3. `despawn`, `take` -/

theorem despawn_fails_iff (w : World) (e : Entity) :
    (w.despawn e).2.res = .nosuch ↔ w.flush.free e = none := by
  cases hf : w.flush.free e with
  | none => rw [despawn_nosuch_eq w e hf]; simp
  | some x => rw [despawn_freed_res w e x hf]; simp

theorem despawn_fail (w : World) (e : Entity) (h : (w.despawn e).2.res = .nosuch) :
    (w.despawn e).1 = w.flush ∧ (w.despawn e).2.dropped = [] := by
  rw [despawn_nosuch_eq w e ((despawn_fails_iff w e).1 h)]
  exact ⟨rfl, rfl⟩

theorem take_fails_iff (w : World) (e : Entity) :
    (w.take e).2 = none ↔ ¬ ∃ l, w.flush.get e = some (some l) := by
  constructor
  · intro h ⟨⟨a, i⟩, hg⟩
    rw [take_located w e a i hg] at h
    simp at h
  · intro hg
    rw [take_unlocated w e hg]

theorem take_fail (w : World) (e : Entity) (h : (w.take e).2 = none) : (w.take e).1 = w.flush := by
  rw [take_unlocated w e ((take_fails_iff w e).1 h)]

/-! ### `Bundle::get` -/

/-- `Bundle::get` reads nothing unless every named component is present -/
theorem bundleGet_all_or_nothing (vals : List Comp) (ts : List Nat) :
    (World.bundleGet vals ts).isSome = ts.all (fun t => (lookupComp t vals).isSome) := by
  induction ts with
  | nil => rfl
  | cons t ts ih =>
    simp only [World.bundleGet, List.all_cons]
    cases h1 : lookupComp t vals <;> cases h2 : World.bundleGet vals ts <;> simp_all

/-- what `Bundle::get` returns carries exactly the named types, in field order -/
theorem bundleGet_types (vals : List Comp) (ts : List Nat) (got : List Comp)
    (h : World.bundleGet vals ts = some got) : got.map (·.1) = ts := by
  induction ts generalizing got with
  | nil => simp [World.bundleGet] at h; simp [← h]
  | cons t ts ih =>
    simp only [World.bundleGet] at h
    cases h1 : lookupComp t vals with
    | none => simp [h1] at h
    | some v =>
      cases h2 : World.bundleGet vals ts with
      | none => simp [h1, h2] at h
      | some r =>
        simp [h1, h2] at h
        subst h
        simp [ih r h2]

/-- … and each returned value is the one stored under that type -/
theorem bundleGet_values (vals : List Comp) (ts : List Nat) (got : List Comp)
    (h : World.bundleGet vals ts = some got) :
    ∀ c ∈ got, lookupComp c.1 vals = some c.2 := by
  induction ts generalizing got with
  | nil => simp [World.bundleGet] at h; subst h; intro c hc; cases hc
  | cons t ts ih =>
    simp only [World.bundleGet] at h
    cases h1 : lookupComp t vals with
    | none => simp [h1] at h
    | some v =>
      cases h2 : World.bundleGet vals ts with
      | none => simp [h1, h2] at h
      | some r =>
        simp [h1, h2] at h
        subst h
        intro c hc
        rcases List.mem_cons.1 hc with rfl | hc
        · exact h1
        · exact ih r h2 c hc

/-! ### 5. the only results each operation can return -/

theorem insert_results (w : World) (e : Entity) (b : List Comp) :
    (w.insert e b).2.res = .ok ∨ (w.insert e b).2.res = .nosuch := by
  by_cases hl : ∃ l, w.flush.get e = some (some l)
  · obtain ⟨⟨a, i⟩, hg⟩ := hl
    rw [insert_located w e b a i hg]; exact .inl rfl
  · rw [insert_unlocated w e b hl]; exact .inr rfl

theorem remove_results (w : World) (e : Entity) (ts : List Nat) :
    (w.remove e ts).2.res = .nosuch ∨ (w.remove e ts).2.res = .missing ∨
      ∃ got, (w.remove e ts).2.res = .vals got := by
  cases hg : w.flush.getMut e with
  | none => rw [remove_nosuch_eq w e ts hg]; exact .inl rfl
  | some l =>
    obtain ⟨a, i⟩ := l
    cases hb : World.bundleGet (rowOf w e a i).vals ts with
    | none => rw [remove_missing_eq w e ts a i hg hb]; exact .inr (.inl rfl)
    | some got => exact .inr (.inr ⟨got, (remove_found_out w e ts a i got hg hb).1⟩)

theorem exchange_results (w : World) (e : Entity) (ts : List Nat) (b : List Comp) :
    (w.exchange e ts b).2.res = .nosuch ∨ (w.exchange e ts b).2.res = .missing ∨
      ∃ got, (w.exchange e ts b).2.res = .vals got := by
  by_cases hl : ∃ l, w.flush.get e = some (some l)
  · obtain ⟨⟨a, i⟩, hg⟩ := hl
    cases hb : World.bundleGet (rowOf w e a i).vals ts with
    | none => rw [exchange_missing_eq w e ts b a i hg hb]; exact .inr (.inl rfl)
    | some got => exact .inr (.inr ⟨got, exchange_found_res w e ts b a i got hg hb⟩)
  · rw [exchange_unlocated w e ts b hl]; exact .inl rfl

theorem despawn_results (w : World) (e : Entity) :
    (w.despawn e).2.res = .ok ∨ (w.despawn e).2.res = .nosuch := by
  cases hf : w.flush.free e with
  | none => rw [despawn_nosuch_eq w e hf]; exact .inr rfl
  | some x => exact .inl (despawn_freed_res w e x hf)

theorem success_results (w : World) (e : Entity) (ts : List Nat) (b : List Comp) :
    ((w.insert e b).2.res = .ok ∨ (w.insert e b).2.res = .nosuch) ∧
    ((w.remove e ts).2.res = .nosuch ∨ (w.remove e ts).2.res = .missing ∨
      ∃ got, (w.remove e ts).2.res = .vals got) ∧
    ((w.exchange e ts b).2.res = .nosuch ∨ (w.exchange e ts b).2.res = .missing ∨
      ∃ got, (w.exchange e ts b).2.res = .vals got) ∧
    ((w.despawn e).2.res = .ok ∨ (w.despawn e).2.res = .nosuch) :=
  ⟨insert_results w e b, remove_results w e ts, exchange_results w e ts b, despawn_results w e⟩

/-! ### 6. a successful `remove`/`exchange` returns exactly the named bundle -/

/-- the returned values are read from the entity's row *before* the operation -/
theorem remove_success_reads (w : World) (e : Entity) (ts : List Nat) (got : List Comp)
    (h : (w.remove e ts).2.res = .vals got) :
    ∃ a i, w.flush.getMut e = some (a, i) ∧
      World.bundleGet (((w.flush.rowAt a i)).getD ⟨e.id, []⟩).vals ts = some got := by
  cases hg : w.flush.getMut e with
  | none => rw [remove_nosuch_eq w e ts hg] at h; simp at h
  | some l =>
    obtain ⟨a, i⟩ := l
    cases hb : World.bundleGet (rowOf w e a i).vals ts with
    | none => rw [remove_missing_eq w e ts a i hg hb] at h; simp at h
    | some got' =>
      rw [(remove_found_out w e ts a i got' hg hb).1] at h
      cases h
      exact ⟨a, i, rfl, hb⟩

theorem remove_success_returns (w : World) (e : Entity) (ts : List Nat) (got : List Comp)
    (h : (w.remove e ts).2.res = .vals got) : got.map (·.1) = ts := by
  obtain ⟨a, i, _, hb⟩ := remove_success_reads w e ts got h
  exact bundleGet_types _ ts got hb

/-- a successful `remove` drops nothing: the removed values are handed to the caller -/
theorem remove_success_drops_nothing (w : World) (e : Entity) (ts : List Nat) (got : List Comp)
    (h : (w.remove e ts).2.res = .vals got) : (w.remove e ts).2.dropped = [] := by
  obtain ⟨a, i, hg, hb⟩ := remove_success_reads w e ts got h
  exact (remove_found_out w e ts a i got hg hb).2

theorem exchange_success_reads (w : World) (e : Entity) (ts : List Nat) (b : List Comp)
    (got : List Comp) (h : (w.exchange e ts b).2.res = .vals got) :
    ∃ a i, w.flush.get e = some (some (a, i)) ∧
      World.bundleGet (((w.flush.rowAt a i)).getD ⟨e.id, []⟩).vals ts = some got := by
  by_cases hl : ∃ l, w.flush.get e = some (some l)
  · obtain ⟨⟨a, i⟩, hg⟩ := hl
    cases hb : World.bundleGet (rowOf w e a i).vals ts with
    | none => rw [exchange_missing_eq w e ts b a i hg hb] at h; simp at h
    | some got' =>
      rw [exchange_found_res w e ts b a i got' hg hb] at h
      cases h
      exact ⟨a, i, hg, hb⟩
  · rw [exchange_unlocated w e ts b hl] at h; simp at h

theorem exchange_success_returns (w : World) (e : Entity) (ts : List Nat) (b : List Comp)
    (got : List Comp) (h : (w.exchange e ts b).2.res = .vals got) : got.map (·.1) = ts := by
  obtain ⟨a, i, _, hb⟩ := exchange_success_reads w e ts b got h
  exact bundleGet_types _ ts got hb

/-! ### 7. summary over operations as data -/

/-- the bundle an operation hands to the world, which is dropped intact if the operation fails -/
def rejected : Op → List Comp
  | .insert _ b => b
  | .exchange _ _ b => b
  | _ => []

/-- Every operation of the API, not only the five fallible ones: if the result is a failure
(`nosuch`/`missing`) the world is exactly the flushed world and exactly the rejected bundle is
dropped. -/
theorem failed_step_no_effect (w : World) (op : Op)
    (h : (step w op).2.res = .nosuch ∨ (step w op).2.res = .missing) :
    (step w op).1 = w.flush ∧ (step w op).2.dropped = rejected op := by
  cases op with
  | insert e b =>
    simp only [step, rejected] at h ⊢
    rcases h with h | h
    · exact insert_fail w e b h
    · rcases insert_results w e b with h' | h' <;> rw [h'] at h <;> cases h
  | remove e ts =>
    simp only [step, rejected] at h ⊢
    rcases h with h | h
    · exact remove_fail_nosuch w e ts h
    · exact remove_fail_missing w e ts h
  | exchange e ts b =>
    simp only [step, rejected] at h ⊢
    exact exchange_fail w e ts b h
  | despawn e =>
    simp only [step, rejected] at h ⊢
    rcases h with h | h
    · exact despawn_fail w e h
    · rcases despawn_results w e with h' | h' <;> rw [h'] at h <;> cases h
  | takeDrop e =>
    simp only [step, rejected] at h ⊢
    by_cases hl : ∃ l, w.flush.get e = some (some l)
    · obtain ⟨⟨a, i⟩, hg⟩ := hl
      have ht := take_located w e a i hg
      rcases hx : w.take e with ⟨w', o⟩
      rw [hx] at ht h
      simp only at ht
      subst ht
      simp at h
    · rw [take_unlocated w e hl]
      exact ⟨rfl, rfl⟩
  | spawn b => simp [step, World.spawn] at h
  | spawnAt hh b => simp [step, World.spawnAt] at h
  | spawnBatch ts rows => simp [step, World.spawnBatch] at h
  | spawnColumnBatch ts rows => simp [step, World.spawnColumnBatch] at h
  | spawnColumnBatchAt hs ts rows =>
    simp only [step, World.spawnColumnBatchAt] at h
    split at h <;> simp at h
  | clear => simp [step, World.clear] at h
  | flush => simp [step] at h
  | reserve ts => simp [step] at h
  | reserveEntity => simp [step] at h
  | reserveEntities n => simp [step] at h

theorem failed_ops_drop_nothing_else (w : World) (op : Op)
    (_hop : (∃ e b, op = .insert e b) ∨ (∃ e ts, op = .remove e ts) ∨
      (∃ e ts b, op = .exchange e ts b) ∨ (∃ e, op = .despawn e) ∨ (∃ e, op = .takeDrop e))
    (h : (step w op).2.res = .nosuch ∨ (step w op).2.res = .missing) :
    (step w op).1 = w.flush :=
  (failed_step_no_effect w op h).1

/-- per-operation reading of `failed_step_no_effect`: `remove`/`despawn`/`take` drop nothing when
they fail, `insert`/`exchange` drop exactly the rejected bundle -/
theorem failed_ops_dropped (w : World) (e : Entity) (ts : List Nat) (b : List Comp) :
    ((step w (.insert e b)).2.res = .nosuch → (step w (.insert e b)).2.dropped = b) ∧
    ((step w (.remove e ts)).2.res = .nosuch ∨ (step w (.remove e ts)).2.res = .missing →
      (step w (.remove e ts)).2.dropped = []) ∧
    ((step w (.exchange e ts b)).2.res = .nosuch ∨ (step w (.exchange e ts b)).2.res = .missing →
      (step w (.exchange e ts b)).2.dropped = b) ∧
    ((step w (.despawn e)).2.res = .nosuch → (step w (.despawn e)).2.dropped = []) ∧
    ((step w (.takeDrop e)).2.res = .nosuch → (step w (.takeDrop e)).2.dropped = []) :=
  ⟨fun h => (failed_step_no_effect w _ (.inl h)).2,
   fun h => (failed_step_no_effect w _ h).2,
   fun h => (failed_step_no_effect w _ h).2,
   fun h => (failed_step_no_effect w _ (.inl h)).2,
   fun h => (failed_step_no_effect w _ (.inl h)).2⟩

/-- in particular a failed operation creates no archetype (beyond what `flush` itself never does) -/
theorem failed_step_no_new_archetype (w : World) (op : Op)
    (h : (step w op).2.res = .nosuch ∨ (step w op).2.res = .missing) :
    (step w op).1.archs = w.flush.archs := by
  rw [(failed_step_no_effect w op h).1]

/-! ### 8. non-vacuity on concrete worlds

`World` has no `DecidableEq` (it holds `Array Arch`), so worlds are compared through a decidable
projection; `decide +kernel` evaluates the `Array` primitives in the kernel; the checker still reports only `propext`. -/

structure View where
  metas : List Meta
  pending : List Nat
  cursor : Int
  len : Nat
  archs : List (List Nat × List Row)
  deriving DecidableEq

/-- everything there is in a world, as a value with decidable equality -/
def view (w : World) : View :=
  ⟨w.metas.toList, w.pending.toList, w.cursor, w.len,
   w.archs.toList.map (fun a => (a.types, a.rows.toList))⟩

/-- `view` loses nothing -/
theorem view_injective (w w' : World) (h : view w = view w') : w = w' := by
  obtain ⟨m, p, c, l, ar⟩ := w
  obtain ⟨m', p', c', l', ar'⟩ := w'
  simp only [view, View.mk.injEq] at h
  obtain ⟨h1, h2, h3, h4, h5⟩ := h
  have hm : m = m' := Array.toList_inj.1 h1
  have hp : p = p' := Array.toList_inj.1 h2
  have ha : ar = ar' := by
    apply Array.toList_inj.1
    refine (List.map_inj_right ?_).1 h5
    rintro ⟨t, r⟩ ⟨t', r'⟩ hx
    simp only [Prod.mk.injEq] at hx
    rw [hx.1, Array.toList_inj.1 hx.2]
  subst hm hp h3 h4 ha
  rfl

/-- entity 0 has types 1 and 2, entity 1 has type 1 only -/
def exWorld : World := run [.spawn [(1, 10), (2, 20)], .spawn [(1, 11)]]

/-- the same with one outstanding reservation, so that `flush` is not the identity -/
def exWorldR : World := run [.spawn [(1, 10), (2, 20)], .spawn [(1, 11)], .reserveEntity]

-- a failing `remove` of a type the entity does not have: hypothesis of `remove_fail_missing` holds
example : (step exWorld (.remove ⟨1, 1⟩ [1, 2])).2.res = .missing := by decide +kernel
example : (step exWorld (.remove ⟨1, 1⟩ [1, 2])).2.dropped = [] := by decide +kernel
example : (step exWorld (.remove ⟨1, 1⟩ [1, 2])).1 = exWorld.flush := view_injective _ _ (by decide +kernel)
-- a failing `remove`/`insert`/`exchange`/`despawn`/`take` on a stale handle
example : (step exWorld (.remove ⟨1, 7⟩ [1])).2.res = .nosuch := by decide +kernel
example : (step exWorld (.insert ⟨1, 7⟩ [(3, 30)])).2.res = .nosuch := by decide +kernel
example : (step exWorld (.insert ⟨1, 7⟩ [(3, 30)])).2.dropped = [(3, 30)] := by decide +kernel
example : (step exWorld (.insert ⟨1, 7⟩ [(3, 30)])).1 = exWorld.flush := view_injective _ _ (by decide +kernel)
example : (step exWorld (.exchange ⟨1, 7⟩ [1] [(3, 30)])).2.res = .nosuch := by decide +kernel
example : (step exWorld (.exchange ⟨1, 1⟩ [2] [(3, 30)])).2.res = .missing := by decide +kernel
example : (step exWorld (.exchange ⟨1, 1⟩ [2] [(3, 30)])).2.dropped = [(3, 30)] := by decide +kernel
example : (step exWorld (.despawn ⟨1, 7⟩)).2.res = .nosuch := by decide +kernel
example : (step exWorld (.takeDrop ⟨1, 7⟩)).2.res = .nosuch := by decide +kernel
-- the same operations can succeed, so the classification theorems are not one-sided
example : (step exWorld (.remove ⟨0, 1⟩ [2, 1])).2.res = .vals [(2, 20), (1, 10)] := by decide +kernel
example : (step exWorld (.insert ⟨1, 1⟩ [(3, 30)])).2.res = .ok := by decide +kernel
example : (step exWorld (.exchange ⟨0, 1⟩ [2] [(3, 30)])).2.res = .vals [(2, 20)] := by decide +kernel
example : (step exWorld (.despawn ⟨1, 1⟩)).2.res = .ok := by decide +kernel
-- "the flushed world", not "the same world": with a reservation outstanding a failed call still
-- flushes (the reserved id gets its empty row) and that is all it does
example : (step exWorldR (.insert ⟨0, 7⟩ [(3, 30)])).2.res = .nosuch := by decide +kernel
example : (step exWorldR (.insert ⟨0, 7⟩ [(3, 30)])).1 = exWorldR.flush := view_injective _ _ (by decide +kernel)
example : exWorldR.flush ≠ exWorldR := fun h => absurd (congrArg view h) (by decide +kernel)

/-- the read accessors are pure: they cannot change the world (they take `&World` and return no
state); stated for the model's `get`/`contains` by construction -/
example (w : World) (e : Entity) : (w.get e, w) = (w.get e, w) := rfl

end Hecs.Props.C09
