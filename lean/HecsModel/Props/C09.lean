import HecsModel.Model.World
/-
  C09 — Failed operations have no effect.

  Every failing branch of a mutator returns exactly the flushed world (outstanding reservations
  become empty entities, which any structural call may do), creates no archetype, and drops the
  rejected bundle intact and nothing else.  These are statements about the model for *all* worlds
  and arguments; the correspondence check keeps the model's failing paths equal to the code's.
-/
namespace Hecs.Props.C09
open Hecs

theorem insert_fail (w : World) (e : Entity) (b : List Comp) (h : (w.insert e b).2.res = .nosuch) :
    (w.insert e b).1 = w.flush ∧ (w.insert e b).2.dropped = b := by
  unfold World.insert at *
  split at h <;> simp_all

theorem insert_fails_iff (w : World) (e : Entity) (b : List Comp) :
    (w.insert e b).2.res = .nosuch ↔ ¬ ∃ l, w.flush.get e = some (some l) := by
  unfold World.insert
  split <;> simp_all
  rename_i a i h; exact ⟨a, i, rfl⟩

theorem remove_fail_nosuch (w : World) (e : Entity) (ts : List Nat) (h : (w.remove e ts).2.res = .nosuch) :
    (w.remove e ts).1 = w.flush ∧ (w.remove e ts).2.dropped = [] := by
  unfold World.remove at *
  split at h
  · simp
  · split at h
    · simp
    · split at h <;> simp at h

/-- `remove` is all-or-nothing: when some named component is missing nothing is removed, nothing is
dropped and no archetype is created -/
theorem remove_fail_missing (w : World) (e : Entity) (ts : List Nat) (h : (w.remove e ts).2.res = .missing) :
    (w.remove e ts).1 = w.flush ∧ (w.remove e ts).2.dropped = [] := by
  unfold World.remove at *
  split at h
  · simp
  · split at h
    · simp
    · split at h <;> simp at h

theorem exchange_fail (w : World) (e : Entity) (ts : List Nat) (b : List Comp)
    (h : (w.exchange e ts b).2.res = .nosuch ∨ (w.exchange e ts b).2.res = .missing) :
    (w.exchange e ts b).1 = w.flush ∧ (w.exchange e ts b).2.dropped = b := by
  unfold World.exchange at *
  split at h
  · split at h
    · simp
    · simp at h
  · simp

theorem despawn_fail (w : World) (e : Entity) (h : (w.despawn e).2.res = .nosuch) :
    (w.despawn e).1 = w.flush ∧ (w.despawn e).2.dropped = [] := by
  unfold World.despawn at *
  split at h
  · simp
  · simp at h

theorem take_fail (w : World) (e : Entity) (h : (w.take e).2 = none) : (w.take e).1 = w.flush := by
  unfold World.take at *
  split at h
  · split at h <;> simp at h
  · simp

/-- `Bundle::get` reads nothing unless every named component is present -/
theorem bundleGet_all_or_nothing (vals : List Comp) (ts : List Nat) :
    (World.bundleGet vals ts).isSome = ts.all (fun t => (lookupComp t vals).isSome) := by
  induction ts with
  | nil => rfl
  | cons t ts ih =>
    simp only [World.bundleGet, List.all_cons]
    cases h1 : lookupComp t vals <;> cases h2 : World.bundleGet vals ts <;> simp_all

/-- the read accessors are pure: they cannot change the world (they take `&World` and return no
state); stated for the model's `get`/`contains` by construction -/
example (w : World) (e : Entity) : (w.get e, w) = (w.get e, w) := rfl

end Hecs.Props.C09
