import HecsModel.Lemmas.WorldEffectsFrame
import HecsModel.Props.C09
import HecsModel.Generated.Facts
/-
  C01 — World is observationally a map Entity → set of typed components: what each operation does
  to the map.

  `World.lookup w e` is what every per-entity read accessor reports for the handle `e`
  (`none` = NoSuchEntity, `some cs` = exists with components `cs`); `World.isLive` says whether the
  handle is located in a row (what iteration, queries and `len` see).  For every operation the
  theorems pin down (1) the effect on the handles_eff the operation names or returns and (2) the frame:
  every other handle's `lookup` is what it was in `w.flush` (structural operations flush first; by
  `lookup_flush` that is what it was in `w`).

  Property theorems only; helper lemmas live in `Lemmas/WorldEffects*.lean`.
-/
namespace Hecs.Props.C01
open Hecs

/-! ### 1. `flush` is observationally the identity -/

theorem lookup_flush (w : World) (hw : w.Inv) (e : Entity) : w.flush.lookup e = w.lookup e :=
  World.lookup_flush w hw e

theorem contains_flush (w : World) (hw : w.Inv) (e : Entity) : w.flush.contains e = w.contains e :=
  World.contains_flush w hw e

/-- after `flush` every existing handle is live -/
theorem isLive_flush (w : World) (hw : w.Inv) (e : Entity) : w.flush.isLive e = (w.lookup e).isSome :=
  World.isLive_flush w hw e

/-- `contains` answers exactly for the handles_eff `lookup` answers for -/
theorem contains_eq_lookup (w : World) (hw : w.Inv) (e : Entity) : w.contains e = (w.lookup e).isSome :=
  World.contains_eq_lookup' w hw e

/-- the components reported for a handle are sorted by type: at most one value per type -/
theorem lookup_sorted (w : World) (hw : w.Inv) (e : Entity) (cs : List Comp) (h : w.lookup e = some cs) :
    strictSorted (cs.map (·.1)) = true :=
  World.lookup_sorted w hw e cs h

/-- a frame statement relative to `w.flush` is a frame statement relative to `w` -/
theorem frame_flush (w : World) (hw : w.Inv) (w' : World) (e : Entity) (h : w'.lookup e = w.flush.lookup e) :
    w'.lookup e = w.lookup e := h.trans (World.lookup_flush w hw e)

/-! ### 2. `spawn` -/

/-- `spawn` returns a handle whose id named no existing entity and maps it to the canonical bundle -/
theorem spawn_effect (w : World) (b : List Comp) (hw : w.Inv) (hb : (Op.spawn b).WF) :
    ∃ e', (w.spawn b).2.res = .ent e' ∧ (w.spawn b).2.dropped = [] ∧
      (∀ g, w.flush.lookup ⟨e'.id, g⟩ = none) ∧
      (w.spawn b).1.lookup e' = some (canon b) ∧
      ∀ e, e ≠ e' → (w.spawn b).1.lookup e = w.flush.lookup e :=
  World.spawn_spec w b ((World.inv_iff_good w).1 hw) hb

theorem spawn_frame (w : World) (b : List Comp) (hw : w.Inv) (hb : (Op.spawn b).WF) (e' : Entity)
    (hres : (w.spawn b).2.res = .ent e') (e : Entity) (he : e ≠ e') :
    (w.spawn b).1.lookup e = w.flush.lookup e := by
  obtain ⟨e'', h1, _, _, _, h5⟩ := spawn_effect w b hw hb
  rw [h1] at hres; cases hres; exact h5 e he

/-! ### 3. `despawn` -/

theorem despawn_effect (w : World) (e : Entity) (hw : w.Inv) (cs : List Comp) (h : w.flush.lookup e = some cs) :
    (w.despawn e).2.res = .ok ∧ (w.despawn e).2.dropped = cs ∧ (w.despawn e).1.lookup e = none :=
  have := (World.despawn_spec w e ((World.inv_iff_good w).1 hw)).1 cs h; ⟨this.1, this.2.1, this.2.2.1⟩

theorem despawn_frame (w : World) (e : Entity) (hw : w.Inv) (e' : Entity) (he : e' ≠ e) :
    (w.despawn e).1.lookup e' = w.flush.lookup e' := by
  cases h : w.flush.lookup e with
  | none => rw [(World.despawn_spec w e ((World.inv_iff_good w).1 hw)).2 h]
  | some cs => exact ((World.despawn_spec w e ((World.inv_iff_good w).1 hw)).1 cs h).2.2.2 e' he

theorem despawn_nosuch (w : World) (e : Entity) (hw : w.Inv) (h : w.flush.lookup e = none) :
    w.despawn e = (w.flush, { res := .nosuch }) :=
  (World.despawn_spec w e ((World.inv_iff_good w).1 hw)).2 h

/-! ### 7. `take` -/

/-- like `despawn`, the values are handed out instead of dropped -/
theorem take_effect (w : World) (e : Entity) (hw : w.Inv) (cs : List Comp) (h : w.flush.lookup e = some cs) :
    (w.take e).2 = some cs ∧ (w.take e).1.lookup e = none :=
  have := (World.take_spec w e ((World.inv_iff_good w).1 hw)).1 cs h; ⟨this.1, this.2.1⟩

theorem take_frame (w : World) (e : Entity) (hw : w.Inv) (e' : Entity) (he : e' ≠ e) :
    (w.take e).1.lookup e' = w.flush.lookup e' := by
  cases h : w.flush.lookup e with
  | none => rw [(World.take_spec w e ((World.inv_iff_good w).1 hw)).2 h]
  | some cs => exact ((World.take_spec w e ((World.inv_iff_good w).1 hw)).1 cs h).2.2 e' he

theorem take_nosuch (w : World) (e : Entity) (hw : w.Inv) (h : w.flush.lookup e = none) :
    w.take e = (w.flush, none) :=
  (World.take_spec w e ((World.inv_iff_good w).1 hw)).2 h

/-- `take` and `despawn` leave the same world -/
theorem take_world_eq_despawn (w : World) (e : Entity) (hw : w.Inv) (e' : Entity) :
    (w.take e).1.lookup e' = (w.despawn e).1.lookup e' := by
  have hg := (World.inv_iff_good w).1 hw
  cases h : w.flush.lookup e with
  | none => rw [(World.take_spec w e hg).2 h, (World.despawn_spec w e hg).2 h]
  | some cs =>
    by_cases he : e' = e
    · subst he; rw [(take_effect w e' hw cs h).2, (despawn_effect w e' hw cs h).2.2]
    · rw [take_frame w e hw e' he, despawn_frame w e hw e' he]

/-! ### 9. `clear` -/

theorem clear_effect (w : World) (e : Entity) : (w.clear).1.lookup e = none := World.clear_lookup w e

/-- `clear` drops all stored values … -/
theorem clear_dropped (w : World) :
    (w.clear).2.res = .ok ∧
    (w.clear).2.dropped = w.archs.toList.flatMap (fun ar => ar.rows.toList.flatMap (·.vals)) := ⟨rfl, rfl⟩

/-- … that is, the components of every live entity … -/
theorem clear_drops_live (w : World) (e : Entity) (cs : List Comp) (hl : w.isLive e = true)
    (h : w.lookup e = some cs) (c : Comp) (hc : c ∈ cs) : c ∈ (w.clear).2.dropped :=
  World.clear_dropped_of_live w e cs hl h c hc

/-- … and nothing else -/
theorem clear_drops_only_live (w : World) (hw : w.Inv) (c : Comp) (hc : c ∈ (w.clear).2.dropped) :
    ∃ e cs, w.isLive e = true ∧ w.lookup e = some cs ∧ c ∈ cs :=
  World.clear_dropped_live w ((World.inv_iff_good w).1 hw) c hc

/-! ### 10. `reserveEntity`, `reserveEntities` (no flush: the frame is relative to `w`) -/

theorem reserveEntity_effect (w : World) (hw : w.Inv) :
    w.lookup (w.reserveEntity).2 = none ∧ (w.reserveEntity).1.lookup (w.reserveEntity).2 = some [] ∧
    (w.reserveEntity).1.isLive (w.reserveEntity).2 = false ∧
    (w.reserveEntity).1.contains (w.reserveEntity).2 = true :=
  have := World.reserveEntity_spec w ((World.inv_iff_good w).1 hw); ⟨this.1, this.2.1, this.2.2.1, this.2.2.2.1⟩

theorem reserveEntity_frame (w : World) (hw : w.Inv) (e : Entity) (he : e ≠ (w.reserveEntity).2) :
    (w.reserveEntity).1.lookup e = w.lookup e :=
  (World.reserveEntity_spec w ((World.inv_iff_good w).1 hw)).2.2.2.2 e he

theorem reserveEntities_effect (w : World) (n : Nat) (hw : w.Inv) (e : Entity)
    (he : e ∈ (w.reserveEntities n).2) :
    w.lookup e = none ∧ (w.reserveEntities n).1.lookup e = some [] ∧
    (w.reserveEntities n).1.isLive e = false ∧ (w.reserveEntities n).1.contains e = true :=
  (World.reserveEntities_spec w n ((World.inv_iff_good w).1 hw)).1 e he

theorem reserveEntities_frame (w : World) (n : Nat) (hw : w.Inv) (e : Entity)
    (he : e ∉ (w.reserveEntities n).2) : (w.reserveEntities n).1.lookup e = w.lookup e :=
  (World.reserveEntities_spec w n ((World.inv_iff_good w).1 hw)).2 e he

theorem reserveEntities_length (w : World) (n : Nat) (hw : w.Inv) : (w.reserveEntities n).2.length = n :=
  World.reserveEntities_length w n ((World.inv_iff_good w).1 hw)

/-! ### 5. `remove` (failure cases: `C09.remove_fail_nosuch`, `C09.remove_fail_missing`) -/

/-- a successful `remove` hands out the named components (`C09.bundleGet_types`/`bundleGet_values`:
`got.map (·.1) = ts`, values read from `old`) and keeps exactly the others -/
theorem remove_effect (w : World) (e : Entity) (ts : List Nat) (hw : w.Inv) (old got : List Comp)
    (h : w.flush.lookup e = some old) (hg : World.bundleGet old ts = some got) :
    (w.remove e ts).2.res = .vals got ∧ (w.remove e ts).2.dropped = [] ∧
    got.map (·.1) = ts ∧ (∀ c ∈ got, lookupComp c.1 old = some c.2) ∧
    (w.remove e ts).1.lookup e = some (old.filter (fun c => !ts.contains c.1)) :=
  have := (World.remove_spec w e ts ((World.inv_iff_good w).1 hw)).1 old got h hg
  ⟨this.1, this.2.1, C09.bundleGet_types old ts got hg, C09.bundleGet_values old ts got hg, this.2.2.1⟩

/-- which of the three results `remove` returns is decided by `lookup` and `bundleGet` -/
theorem remove_cases (w : World) (e : Entity) (ts : List Nat) (hw : w.Inv) :
    (w.flush.lookup e = none → w.remove e ts = (w.flush, { res := .nosuch })) ∧
    (∀ old, w.flush.lookup e = some old → World.bundleGet old ts = none →
      w.remove e ts = (w.flush, { res := .missing })) :=
  have := World.remove_spec w e ts ((World.inv_iff_good w).1 hw); ⟨this.2.2, this.2.1⟩

theorem remove_frame (w : World) (e : Entity) (ts : List Nat) (hw : w.Inv) (e' : Entity) (he : e' ≠ e) :
    (w.remove e ts).1.lookup e' = w.flush.lookup e' := by
  have hs := World.remove_spec w e ts ((World.inv_iff_good w).1 hw)
  cases h : w.flush.lookup e with
  | none => rw [hs.2.2 h]
  | some old =>
    cases hg : World.bundleGet old ts with
    | none => rw [hs.2.1 old h hg]
    | some got => exact (hs.1 old got h hg).2.2.2 e' he

/-! ### 4. `insert` -/

/-- after `insert e b` the entity has, for every type, `b`'s value if `b` names the type and the old
value otherwise (with `lookup_sorted`: exactly the types `old.types ∪ b.types`, one value each); the
replaced old values are dropped -/
theorem insert_effect (w : World) (e : Entity) (b : List Comp) (hw : w.Inv) (hb : (Op.insert e b).WF)
    (old : List Comp) (h : w.flush.lookup e = some old) :
    (w.insert e b).2.res = .ok ∧
    (w.insert e b).2.dropped = old.filter (fun c => (b.map (·.1)).contains c.1) ∧
    ∃ new, (w.insert e b).1.lookup e = some new ∧ strictSorted (new.map (·.1)) = true ∧
      ∀ t, lookupComp t new = if t ∈ b.map (·.1) then lookupComp t b else lookupComp t old := by
  obtain ⟨h1, h2, new, h3, h4, _⟩ := (World.insert_spec w e b ((World.inv_iff_good w).1 hw) hb).1 old h
  exact ⟨h1, h2, new, h3, World.lookup_sorted _ (World.inv_step w (.insert e b) hb hw) e new h3, h4⟩

/-- the same, as a closed form (`Spec.overrideComps old b`) -/
theorem insert_effect_eq (w : World) (e : Entity) (b : List Comp) (hw : w.Inv) (hb : (Op.insert e b).WF)
    (old : List Comp) (h : w.flush.lookup e = some old) :
    (w.insert e b).1.lookup e = some (canon (b ++ old.filter (fun c => !(b.map (·.1)).contains c.1))) :=
  World.insert_lookup_eq w e b ((World.inv_iff_good w).1 hw) hb old h

theorem insert_nosuch (w : World) (e : Entity) (b : List Comp) (hw : w.Inv) (hb : (Op.insert e b).WF)
    (h : w.flush.lookup e = none) : w.insert e b = (w.flush, { res := .nosuch, dropped := b }) :=
  (World.insert_spec w e b ((World.inv_iff_good w).1 hw) hb).2 h

theorem insert_frame (w : World) (e : Entity) (b : List Comp) (hw : w.Inv) (hb : (Op.insert e b).WF)
    (e' : Entity) (he : e' ≠ e) : (w.insert e b).1.lookup e' = w.flush.lookup e' := by
  have hs := World.insert_spec w e b ((World.inv_iff_good w).1 hw) hb
  cases h : w.flush.lookup e with
  | none => rw [hs.2 h]
  | some old => obtain ⟨_, _, new, _, _, h5⟩ := hs.1 old h; exact h5 e' he

/-! ### 6. `exchange` = `remove` then `insert`, without the intermediate archetype -/

theorem exchange_effect (w : World) (e : Entity) (ts : List Nat) (b : List Comp) (hw : w.Inv)
    (hb : (Op.exchange e ts b).WF) (old got : List Comp)
    (h : w.flush.lookup e = some old) (hg : World.bundleGet old ts = some got) :
    (w.exchange e ts b).2.res = .vals got ∧
    (w.exchange e ts b).2.dropped =
      (old.filter (fun c => !ts.contains c.1)).filter (fun c => (b.map (·.1)).contains c.1) ∧
    ∃ new, (w.exchange e ts b).1.lookup e = some new ∧ strictSorted (new.map (·.1)) = true ∧
      ∀ t, lookupComp t new = if t ∈ b.map (·.1) then lookupComp t b
        else lookupComp t (old.filter (fun c => !ts.contains c.1)) := by
  obtain ⟨h1, h2, new, h3, h4, _⟩ :=
    (World.exchange_spec w e ts b ((World.inv_iff_good w).1 hw) hb).1 old got h hg
  exact ⟨h1, h2, new, h3, World.lookup_sorted _ (World.inv_step w (.exchange e ts b) hb hw) e new h3, h4⟩

theorem exchange_cases (w : World) (e : Entity) (ts : List Nat) (b : List Comp) (hw : w.Inv)
    (hb : (Op.exchange e ts b).WF) :
    (w.flush.lookup e = none → w.exchange e ts b = (w.flush, { res := .nosuch, dropped := b })) ∧
    (∀ old, w.flush.lookup e = some old → World.bundleGet old ts = none →
      w.exchange e ts b = (w.flush, { res := .missing, dropped := b })) :=
  have := World.exchange_spec w e ts b ((World.inv_iff_good w).1 hw) hb; ⟨this.2.2, this.2.1⟩

theorem exchange_frame (w : World) (e : Entity) (ts : List Nat) (b : List Comp) (hw : w.Inv)
    (hb : (Op.exchange e ts b).WF) (e' : Entity) (he : e' ≠ e) :
    (w.exchange e ts b).1.lookup e' = w.flush.lookup e' := by
  have hs := World.exchange_spec w e ts b ((World.inv_iff_good w).1 hw) hb
  cases h : w.flush.lookup e with
  | none => rw [hs.2.2 h]
  | some old =>
    cases hg : World.bundleGet old ts with
    | none => rw [hs.2.1 old h hg]
    | some got => obtain ⟨_, _, new, _, _, h5⟩ := hs.1 old got h hg; exact h5 e' he

/-! ### 8. `spawnAt` -/

/-- the handle maps to the canonical bundle; every other handle with the same id is gone; the
evicted occupant's components are dropped -/
theorem spawnAt_effect (w : World) (h : Entity) (b : List Comp) (hw : w.Inv) (hb : (Op.spawnAt h b).WF) :
    (w.spawnAt h b).2.res = .ok ∧
    (w.spawnAt h b).1.lookup h = some (canon b) ∧
    (∀ e, e.id = h.id → e ≠ h → (w.spawnAt h b).1.lookup e = none) ∧
    (∀ g cs, w.flush.lookup ⟨h.id, g⟩ = some cs → (w.spawnAt h b).2.dropped = cs) ∧
    ((∀ g, w.flush.lookup ⟨h.id, g⟩ = none) → (w.spawnAt h b).2.dropped = []) :=
  have := World.spawnAt_spec w h b ((World.inv_iff_good w).1 hw) hb
  ⟨this.1, this.2.1, this.2.2.1, this.2.2.2.2.1, this.2.2.2.2.2⟩

theorem spawnAt_frame (w : World) (h : Entity) (b : List Comp) (hw : w.Inv) (hb : (Op.spawnAt h b).WF)
    (e : Entity) (he : e.id ≠ h.id) : (w.spawnAt h b).1.lookup e = w.flush.lookup e :=
  (World.spawnAt_spec w h b ((World.inv_iff_good w).1 hw) hb).2.2.2.1 e he

/-! ### 11. batch spawns: the k-th returned/targeted handle maps to the k-th row -/

theorem spawnBatch_effect (w : World) (ts : List Nat) (rows : List (List Comp)) (hw : w.Inv)
    (hop : (Op.spawnBatch ts rows).WF) :
    ∃ es, (w.spawnBatch ts rows).2.res = .ents es ∧ (w.spawnBatch ts rows).2.dropped = [] ∧
      es.length = rows.length ∧
      (∀ p, p ∈ es.zip rows → (w.spawnBatch ts rows).1.lookup p.1 = some (canon p.2)) ∧
      (∀ e g, e ∈ es → w.flush.lookup ⟨e.id, g⟩ = none) ∧
      (∀ e, e ∉ es → (w.spawnBatch ts rows).1.lookup e = w.flush.lookup e) :=
  World.spawnBatch_spec w ts rows ((World.inv_iff_good w).1 hw) hop.1 hop.2

/-- column-batch rows are given in canonical form (`Op.WF`), so they are stored as they are -/
theorem spawnColumnBatch_effect (w : World) (ts : List Nat) (rows : List (List Comp)) (hw : w.Inv)
    (hop : (Op.spawnColumnBatch ts rows).WF) :
    ∃ es, (w.spawnColumnBatch ts rows).2.res = .ents es ∧ (w.spawnColumnBatch ts rows).2.dropped = [] ∧
      es.length = rows.length ∧
      (∀ p, p ∈ es.zip rows → (w.spawnColumnBatch ts rows).1.lookup p.1 = some p.2) ∧
      (∀ e g, e ∈ es → w.flush.lookup ⟨e.id, g⟩ = none) ∧
      (∀ e, e ∉ es → (w.spawnColumnBatch ts rows).1.lookup e = w.flush.lookup e) :=
  World.spawnColumnBatch_spec w ts rows ((World.inv_iff_good w).1 hw) hop.1 hop.2

/-- `spawn_column_batch_at` with as many distinct-id handles_eff as rows: the k-th handle maps to the
k-th row, other handles_eff with a targeted id are gone, the evicted occupants are dropped in order -/
theorem spawnColumnBatchAt_effect (w : World) (hs : List Entity) (ts : List Nat) (rows : List (List Comp))
    (hw : w.Inv) (hop : (Op.spawnColumnBatchAt hs ts rows).WF)
    (hlen : hs.length = rows.length) (hnd : (hs.map (·.id)).Nodup) :
    (w.spawnColumnBatchAt hs ts rows).2.res = .ok ∧
    (w.spawnColumnBatchAt hs ts rows).2.dropped = hs.flatMap (fun e => w.flush.occupant e.id) ∧
    (∀ p, p ∈ hs.zip rows → (w.spawnColumnBatchAt hs ts rows).1.lookup p.1 = some p.2) ∧
    (∀ e, e.id ∈ hs.map (·.id) → e ∉ hs → (w.spawnColumnBatchAt hs ts rows).1.lookup e = none) :=
  have := World.spawnColumnBatchAt_spec w hs ts rows ((World.inv_iff_good w).1 hw) hop.1 hop.2 hlen hnd
  ⟨this.1, this.2.1, this.2.2.1, this.2.2.2.1⟩

/-- `occupant id`: the components of the entity living under `id`, whatever its generation -/
theorem occupant_spec (w : World) (hw : w.Inv) (id : Nat) :
    (∀ g cs, w.flush.lookup ⟨id, g⟩ = some cs → w.flush.occupant id = cs) ∧
    ((∀ g, w.flush.lookup ⟨id, g⟩ = none) → w.flush.occupant id = []) :=
  World.occupant_spec w.flush (World.flush_flushed' w ((World.inv_iff_good w).1 hw)) id

theorem spawnColumnBatchAt_frame (w : World) (hs : List Entity) (ts : List Nat) (rows : List (List Comp))
    (hw : w.Inv) (hop : (Op.spawnColumnBatchAt hs ts rows).WF) (e : Entity) (he : e.id ∉ hs.map (·.id)) :
    (w.spawnColumnBatchAt hs ts rows).1.lookup e = w.flush.lookup e := by
  by_cases hbad : hs.length ≠ rows.length ∨ ¬ (hs.map (·.id)).Nodup
  · rw [World.spawnColumnBatchAt_panic w hs ts rows hbad]; exact (World.lookup_flush w hw e).symm
  · simp only [not_or, Decidable.not_not] at hbad
    exact (World.spawnColumnBatchAt_spec w hs ts rows ((World.inv_iff_good w).1 hw) hop.1 hop.2
      hbad.1 hbad.2).2.2.2.2 e he

/-- out of contract (length mismatch or a repeated id): the model rejects the call up front -/
theorem spawnColumnBatchAt_rejected (w : World) (hs : List Entity) (ts : List Nat) (rows : List (List Comp))
    (hbad : hs.length ≠ rows.length ∨ ¬ (hs.map (·.id)).Nodup) :
    w.spawnColumnBatchAt hs ts rows = (w, { res := .panic, dropped := rows.flatten }) :=
  World.spawnColumnBatchAt_panic w hs ts rows hbad

/-! ### the frame, for all operations at once -/

/-- Every operation except `clear` leaves alone every handle whose id it does not name and which
it did not return.  (`Op.targetIds`: ids of the handles_eff the operation names; `Res.handles_eff`: the
handles_eff it returned.) -/
theorem frame (w : World) (op : Op) (hop : op.WF) (hw : w.Inv) (hnc : op ≠ .clear) (e : Entity)
    (h1 : e.id ∉ op.targetIds) (h2 : e ∉ (step w op).2.res.handles_eff) :
    (step w op).1.lookup e = w.flush.lookup e :=
  World.step_frame w op hop ((World.inv_iff_good w).1 hw) hnc e h1 h2

/-- the same relative to `w` itself -/
theorem frame' (w : World) (op : Op) (hop : op.WF) (hw : w.Inv) (hnc : op ≠ .clear) (e : Entity)
    (h1 : e.id ∉ op.targetIds) (h2 : e ∉ (step w op).2.res.handles_eff) :
    (step w op).1.lookup e = w.lookup e :=
  (frame w op hop hw hnc e h1 h2).trans (World.lookup_flush w hw e)

/-! ### 12. `len` -/

theorem len_eq_rows (w : World) (hw : w.Inv) : w.len = (w.archs.toList.map (·.rows.size)).sum :=
  hw.book.len_rows

/-! ### non-vacuity on concrete worlds (`C09.exWorld`: entity 0 has types 1 and 2, entity 1 has
type 1; `C09.exWorldR`: the same plus one outstanding reservation) -/

example : C09.exWorld.lookup ⟨0, 1⟩ = some [(1, 10), (2, 20)] := by decide +kernel
example : C09.exWorldR.lookup ⟨2, 1⟩ = some [] := by decide +kernel
example : C09.exWorldR.isLive ⟨2, 1⟩ = false := by decide +kernel
example : C09.exWorldR.flush.isLive ⟨2, 1⟩ = true := by decide +kernel
example : (C09.exWorld.insert ⟨1, 1⟩ [(3, 30), (1, 12)]).1.lookup ⟨1, 1⟩ = some [(1, 12), (3, 30)] := by
  decide +kernel
example : (C09.exWorld.insert ⟨1, 1⟩ [(3, 30), (1, 12)]).2.dropped = [(1, 11)] := by decide +kernel
example : (C09.exWorld.exchange ⟨0, 1⟩ [2] [(3, 30), (1, 12)]).1.lookup ⟨0, 1⟩ = some [(1, 12), (3, 30)] := by
  decide +kernel
example : (C09.exWorld.spawnAt ⟨0, 7⟩ [(5, 50)]).1.lookup ⟨0, 1⟩ = none := by decide +kernel
example : (C09.exWorld.spawnAt ⟨0, 7⟩ [(5, 50)]).2.dropped = [(1, 10), (2, 20)] := by decide +kernel
example : (C09.exWorld.spawnColumnBatchAt [⟨0, 7⟩, ⟨5, 2⟩] [4] [[(4, 1)], [(4, 2)]]).1.lookup ⟨5, 2⟩
    = some [(4, 2)] := by decide +kernel

/-! ### `Extend<B>` and `FromIterator<B>` -/

/-- `<World as Extend<B>>::extend`: one `spawn` per item -/
def extend (w : World) : List (List Comp) → World × List Out
  | [] => (w, [])
  | r :: rs => ((extend (w.spawn r).1 rs).1, (w.spawn r).2 :: (extend (w.spawn r).1 rs).2)

/-- the source says so (regenerated from `world.rs` on every run) -/
theorem extend_source : Generated.extendBody = ["for x in iter", "self.spawn(x)"] := by decide

/-- … and `from_iter` is `extend` on `World::new()` -/
theorem fromIter_source :
    Generated.fromIterBody = ["let mut world = World::new()", "world.extend(iter)", "world"] := by decide

/-- `extend` is the op sequence the trace presents to the model: one `spawn` step per item, so every
theorem about `step`/`run` applies to it -/
theorem extend_eq_steps (w : World) (rows : List (List Comp)) :
    (extend w rows).1 = (rows.map Op.spawn).foldl (fun w op => (step w op).1) w := by
  induction rows generalizing w with
  | nil => rfl
  | cons r rs ih => simp only [extend, List.map_cons, List.foldl_cons, step]; exact ih _

theorem extend_inv (w : World) (rows : List (List Comp)) (hw : w.Inv)
    (hrows : ∀ r, r ∈ rows → (Op.spawn r).WF) : (extend w rows).1.Inv := by
  induction rows generalizing w with
  | nil => exact hw
  | cons r rs ih =>
    simp only [extend]
    exact ih _ (World.inv_step w (.spawn r) (hrows r (List.mem_cons_self ..)) hw)
      (fun r' h => hrows r' (List.mem_cons_of_mem _ h))

/-- an empty `extend` does nothing at all — unlike `spawn_batch` of an empty iterator, it does not
even materialise outstanding reservations (it adds no entity, so C16 does not ask it to) -/
theorem extend_nil (w : World) : extend w [] = (w, []) := rfl

example : ((extend C09.exWorldR [[(3, 5)], [(1, 6), (2, 7)]]).1.lookup ⟨3, 1⟩) = some [(3, 5)] := by decide +kernel
example : ((extend C09.exWorldR [[(3, 5)], [(1, 6), (2, 7)]]).1.lookup ⟨4, 1⟩) = some [(1, 6), (2, 7)] := by
  decide +kernel
example : ((extend C09.exWorldR [[(3, 5)], [(1, 6), (2, 7)]]).1.len) = 5 := by decide +kernel

end Hecs.Props.C01
