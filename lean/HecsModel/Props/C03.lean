import HecsModel.Lemmas.Ledger
/-
  C03 (world part) — every component value is dropped or handed back exactly once.
  Property theorems only; definitions (`World.owned`, `Op.inputs`, `Out.returned`, `runDropped`,
  `runReturned`, `Op.FieldsNodup`) and proofs live in `Lemmas/Ledger.lean`.

  Multiplicities: the equations are `List.Perm`s, i.e. equalities of multisets.  Every value passed
  in is accounted for exactly as often as it was passed in: nothing leaks (each input occurs on the
  right) and nothing is dropped or handed back twice (the right side has no more occurrences than the
  left).  With fresh serial numbers (`Nodup` inputs) the right side is `Nodup` (`ledger_run_nodup`).

  Side conditions: `w.Inv`, `op.WF` (as for C01) and `op.FieldsNodup` — the field types named by
  `remove`/`exchange` are distinct.  The last one is forced (F5): `ledger_needs_fieldsNodup`.
-/
namespace Hecs.Props.C03
open Hecs

/-- the ledger equation for one operation (all 15 `Op` constructors) -/
theorem ledger_step (w : World) (op : Op) (hi : w.Inv) (hop : op.WF) (hf : op.FieldsNodup) :
    (w.owned ++ op.inputs).Perm
      ((step w op).1.owned ++ (step w op).2.dropped ++ (step w op).2.returned) :=
  Ledger.ledger_step w op hi hop hf

/-- the same, counting one value: in − out is exactly the change of what is stored -/
theorem ledger_count (w : World) (op : Op) (hi : w.Inv) (hop : op.WF) (hf : op.FieldsNodup) (c : Comp) :
    w.owned.count c + op.inputs.count c
      = (step w op).1.owned.count c + (step w op).2.dropped.count c + (step w op).2.returned.count c :=
  Ledger.ledger_count w op hi hop hf c

/-- the ledger equation for whole histories starting from `World::new()` -/
theorem ledger_run (ops : List Op) (hops : ∀ op, op ∈ ops → op.WF) (hfs : ∀ op, op ∈ ops → op.FieldsNodup) :
    (ops.flatMap Op.inputs).Perm ((run ops).owned ++ runDropped ops ++ runReturned ops) :=
  Ledger.ledger_run ops hops hfs

/-- with fresh serials: no double drop, nothing both dropped and handed back, nothing dropped while
still stored -/
theorem ledger_run_nodup (ops : List Op) (hops : ∀ op, op ∈ ops → op.WF)
    (hfs : ∀ op, op ∈ ops → op.FieldsNodup) (hn : (ops.flatMap Op.inputs).Nodup) :
    ((run ops).owned ++ runDropped ops ++ runReturned ops).Nodup :=
  Ledger.ledger_run_nodup ops hops hfs hn

/-- `clear` drops every stored value, hands nothing back and leaves nothing stored -/
theorem clear_drops_all (w : World) :
    (step w .clear).2.dropped = w.owned ∧ (step w .clear).1.owned = [] ∧ (step w .clear).2.returned = [] :=
  Ledger.clear_drops_all w

/-- `flush` (hence the implicit flush at the start of most operations) stores and drops nothing -/
theorem flush_owned (w : World) : w.flush.owned = w.owned := Ledger.flush_owned w

/-- dropping the world drops exactly `owned`; over the whole life of the world every input is dropped
or handed back exactly once -/
theorem drop_world (ops : List Op) (hops : ∀ op, op ∈ ops → op.WF) (hfs : ∀ op, op ∈ ops → op.FieldsNodup) :
    (run (ops ++ [.clear])).owned = [] ∧
    runDropped (ops ++ [.clear]) = runDropped ops ++ (run ops).owned ∧
    runReturned (ops ++ [.clear]) = runReturned ops ∧
    (ops.flatMap Op.inputs).Perm (runDropped (ops ++ [.clear]) ++ runReturned (ops ++ [.clear])) :=
  Ledger.drop_world ops hops hfs

/-- the accumulated run ends in the same world as `run` -/
theorem runTrace_w (ops : List Op) : (runTrace ops).w = run ops := Ledger.runTrace_w ops

/-- row level, `remove`/`exchange`: a row is the values handed back plus the values that stay -/
theorem remove_row_split {vals : List Comp} {ts : List Nat} {got : List Comp}
    (h : World.bundleGet vals ts = some got) (hts : ts.Nodup) (hn : (vals.map (·.1)).Nodup) :
    vals.Perm (got ++ vals.filter (fun c => !ts.contains c.1)) :=
  CanonLemmas.bundleGet_perm h hts hn

/-- row level, in-place `insert`: the new row is the bundle plus the values of other types -/
theorem insert_row_split (b vals : List Comp) (hb : (b.map (·.1)).Nodup)
    (hn : (vals.map (·.1)).Nodup) (hsub : ∀ t, t ∈ b.map (·.1) → t ∈ vals.map (·.1)) :
    (b.foldl (fun vs c => World.putComp c vs) vals).Perm
      (b ++ vals.filter (fun d => !(b.map (·.1)).contains d.1)) :=
  CanonLemmas.foldl_putComp_perm b vals hb hn hsub

/-- F5: the side condition `FieldsNodup` cannot be dropped — `remove::<(D, D)>` on an entity holding
one `D` hands that value back twice -/
theorem ledger_needs_fieldsNodup :
    Ledger.wD.Inv ∧ (Op.remove ⟨0,1⟩ [1,1]).WF ∧
    ¬ (Ledger.wD.owned ++ (Op.remove ⟨0,1⟩ [1,1]).inputs).Perm
        ((step Ledger.wD (.remove ⟨0,1⟩ [1,1])).1.owned ++ (step Ledger.wD (.remove ⟨0,1⟩ [1,1])).2.dropped
          ++ (step Ledger.wD (.remove ⟨0,1⟩ [1,1])).2.returned) :=
  Ledger.cex_remove_dup

end Hecs.Props.C03
