import HecsModel.Lemmas.SerdeReplay
import HecsModel.Lemmas.SerdeBundle
/-
  C15 — Deserialising malformed data fails cleanly.

  For every handled-type list `H` and every input tree — no well-formedness assumption — both
  deserializers either report an error or return a world satisfying the representation invariant
  (`deRow_total`, `deCol_total`).  The classes of malformed input hecs documents as rejected are
  rejected (section 2); what an accepted input produces is pinned down (section 3).

  Property theorems only; proofs live in `Lemmas/Serde*.lean`.
-/
namespace Hecs.Props.C15
open Hecs Hecs.Serde Hecs.SerdeLemmas

/-! ### 1. totality: an error or a well-formed world, nothing else -/

theorem deRow_total (H : List Nat) (t : Tree) :
    (∃ m, deRow H t = .error m) ∨ (∃ w, deRow H t = .ok w ∧ w.Inv) :=
  SerdeLemmas.deRow_total H t

theorem deCol_total (H : List Nat) (t : Tree) :
    (∃ m, deCol H t = .error m) ∨ (∃ w, deCol H t = .ok w ∧ w.Inv) :=
  SerdeLemmas.deCol_total H t

/-- also from any well-formed starting world (one archetype block at a time) -/
theorem deArchetype_inv (H : List Nat) (w : World) (t : Tree) (w' : World) (hw : w.Inv)
    (h : deArchetype H w t = .ok w') : w'.Inv :=
  SerdeLemmas.deArchetype_inv H w t w' hw h

/-! ### 2. rejection -/

/-- a bit pattern with a zero upper half (generation 0) is never accepted as a handle -/
theorem zero_generation_rejected (n : Nat) (h : n < 4294967296) : entityOfBits n = none :=
  entityOfBits_small n h

/-- input that is not a map / not a sequence is rejected outright -/
theorem wrong_shape_rejected (H : List Nat) (n : Nat) :
    (∃ m, deRow H (.num n) = .error m) ∧ (∃ m, deCol H (.num n) = .error m) :=
  ⟨⟨_, rfl⟩, ⟨_, rfl⟩⟩

/-- row format: any key with zero generation makes the whole input rejected -/
theorem row_zero_generation_rejected (H : List Nat) (kvs : List (Tree × Tree)) (k : Nat) (v : Tree)
    (hmem : (Tree.num k, v) ∈ kvs) (hk : k < 4294967296) : ∃ m, deRow H (.map kvs) = .error m :=
  deRow_zero_generation H kvs k v hmem hk

/-- row format: a component id the context does not handle, anywhere, makes the input rejected -/
theorem row_unknown_component_rejected (H : List Nat) (kvs : List (Tree × Tree)) (k : Tree)
    (comps : List (Tree × Tree)) (t : Nat) (x : Tree)
    (hmem : (k, Tree.map comps) ∈ kvs) (hc : (Tree.num t, x) ∈ comps) (ht : t ∉ H) :
    ∃ m, deRow H (.map kvs) = .error m :=
  deRow_unknown_component H kvs k comps t x hmem hc ht

/-- column format: an entity with zero generation anywhere in a block's entity list -/
theorem col_zero_generation_rejected (H : List Nat) (w : World) (n0 k0 : Nat) (ids ents cols : List Tree)
    (b : Nat) (hb : Tree.num b ∈ ents) (hsmall : b < 4294967296) :
    ∃ m, deArchetype H w (.seq [.num n0, .num k0, .seq ids, .seq (.seq ents :: cols)]) = .error m :=
  deArchetype_zero_generation H w n0 k0 ids ents cols b hb hsmall

/-- column format: a component id the context does not handle -/
theorem col_unknown_component_rejected (H : List Nat) (w : World) (n0 k0 : Nat) (ids comps : List Tree)
    (t : Nat) (ht : Tree.num t ∈ ids) (hH : t ∉ H) :
    ∃ m, deArchetype H w (.seq [.num n0, .num k0, .seq ids, .seq comps]) = .error m :=
  deArchetype_unknown_component H w n0 k0 ids comps t ht hH

/-- column format: the same entity id twice in one block (whatever the generations) -/
theorem col_repeated_entity_rejected (H : List Nat) (w : World) (n0 k0 : Nat) (ids ents cols : List Tree)
    (i j a b : Nat) (hij : i < j) (hi : ents[i]? = some (.num a)) (hj : ents[j]? = some (.num b))
    (hab : a % 4294967296 = b % 4294967296) :
    ∃ m, deArchetype H w (.seq [.num n0, .num k0, .seq ids, .seq (.seq ents :: cols)]) = .error m :=
  deArchetype_repeated_id H w n0 k0 ids ents cols i j a b hij hi hj hab

/-- column format: the entity list is shorter or longer than the announced entity count -/
theorem col_entity_count_rejected (H : List Nat) (w : World) (n0 k0 : Nat) (ids ents cols : List Tree)
    (hlen : ents.length ≠ n0) :
    ∃ m, deArchetype H w (.seq [.num n0, .num k0, .seq ids, .seq (.seq ents :: cols)]) = .error m :=
  deArchetype_entity_count H w n0 k0 ids ents cols hlen

/-- column format: a column longer than the announced entity count, or shorter and not empty -/
theorem col_column_length_rejected (H : List Nat) (w : World) (n0 k0 : Nat) (ids ents cols : List Tree)
    (xs : List Tree) (hc : Tree.seq xs ∈ cols) (hlen : xs.length ≠ n0) (hne : xs.length ≠ 0) :
    ∃ m, deArchetype H w (.seq [.num n0, .num k0, .seq ids, .seq (.seq ents :: cols)]) = .error m :=
  deArchetype_column_length H w n0 k0 ids ents cols xs hc hlen hne

/-- … and with pairwise distinct component ids every column, empty ones included, must have exactly
the announced length.  (An empty column is accepted for a component id that is listed a second time:
the re-acquired writer finds its column already full, pushes nothing and is satisfied.  hecs accepts
such an input; the world it yields satisfies the invariant — `deArchetype_inv` — which is what the
property asks of accepted malformed input.) -/
theorem col_column_length_rejected_nodup (H : List Nat) (w : World) (n0 k0 : Nat) (idl : List Nat)
    (ents cols : List Tree) (hnd : idl.Nodup) (xs : List Tree) (hc : Tree.seq xs ∈ cols)
    (hlen : xs.length ≠ n0) :
    ∃ m, deArchetype H w (.seq [.num n0, .num k0, .seq (idl.map Tree.num), .seq (.seq ents :: cols)]) = .error m :=
  deArchetype_column_length_nodup H w n0 k0 idl ents cols hnd xs hc hlen

/-- the accepted case just described exists: id 0 listed twice, second column empty -/
example : (match deCol [0] (.seq [.seq [.num 1, .num 2, .seq [.num 0, .num 0],
      .seq [.seq [.num 4294967296], .seq [.num 20], .seq []]]]) with
    | .ok w => w.lookup ⟨0, 1⟩ == some [(0, 20)]
    | .error _ => false) = true := by decide +kernel

/-- … while a value in the second column is one too many -/
example : (match deCol [0] (.seq [.seq [.num 1, .num 2, .seq [.num 0, .num 0],
      .seq [.seq [.num 4294967296], .seq [.num 20], .seq [.num 21]]]]) with
    | .ok _ => false
    | .error _ => true) = true := by decide +kernel

/-- column format: fewer columns than listed component ids ("end of components") -/
theorem col_missing_column_rejected (H : List Nat) (w : World) (n0 k0 : Nat) (ids ents cols : List Tree)
    (hlen : cols.length < ids.length) :
    ∃ m, deArchetype H w (.seq [.num n0, .num k0, .seq ids, .seq (.seq ents :: cols)]) = .error m :=
  deArchetype_missing_column H w n0 k0 ids ents cols hlen

/-- the literal message for the first missing column -/
theorem col_end_of_components (n t : Nat) (ts : List Nat) (acc : List (Nat × List Nat)) :
    deColumns n (t :: ts) [] acc = .error "end of components" := rfl

/-- column format: more elements in the component tuple than listed ids ("trailing elements") -/
theorem col_trailing_rejected (H : List Nat) (w : World) (n0 k0 : Nat) (ids ents cols : List Tree)
    (hlen : ids.length < cols.length) :
    ∃ m, deArchetype H w (.seq [.num n0, .num k0, .seq ids, .seq (.seq ents :: cols)]) = .error m :=
  deArchetype_trailing H w n0 k0 ids ents cols hlen

/-- column format: a component tuple without the leading entity list -/
theorem col_no_entity_list_rejected (H : List Nat) (w : World) (n0 k0 : Nat) (ids : List Tree) :
    ∃ m, deArchetype H w (.seq [.num n0, .num k0, .seq ids, .seq []]) = .error m :=
  deArchetype_no_entity_list H w n0 k0 ids

/-- a block rejected on its own makes the whole column input rejected, wherever it stands -/
theorem col_block_rejected (H : List Nat) (xs : List Tree) (t : Tree) (ht : t ∈ xs)
    (hbad : ∀ w0, ∃ m, deArchetype H w0 t = .error m) : ∃ m, deCol H (.seq xs) = .error m :=
  deCol_error_of_block H xs t ht hbad

/-- conversely, everything an accepted block satisfies: known ids, `n0` entities with non-zero
generations and pairwise distinct ids, exactly one column per listed id: `n0` numbers, or none for an
id listed a second time (so: exactly `n0` numbers each when the listed ids are distinct) -/
theorem col_accepted_shape (H : List Nat) (w w' : World) (n0 k0 : Nat) (ids comps : List Tree)
    (h : deArchetype H w (.seq [.num n0, .num k0, .seq ids, .seq comps]) = .ok w') :
    ∃ (idl bits : List Nat) (es : List Entity) (cols : List Tree),
      ids = idl.map Tree.num ∧ (∀ t ∈ idl, t ∈ H) ∧
      comps = .seq (bits.map Tree.num) :: cols ∧ bits.length = n0 ∧
      bits.map entityOfBits = es.map some ∧ (es.map (·.id)).Nodup ∧
      cols.length = idl.length ∧
      (∀ c ∈ cols, ∃ vs : List Nat, c = .seq (vs.map Tree.num) ∧ (vs.length = n0 ∨ vs.length = 0)) ∧
      (idl.Nodup → ∀ c ∈ cols, ∃ vs : List Nat, c = .seq (vs.map Tree.num) ∧ vs.length = n0) :=
  deArchetype_ok_shape H w w' n0 k0 ids comps h

/-! ### 3. what an accepted row input produces -/

/-- `RowEntry H kv (e, b)`: the entry `kv` is `(bitsOf e, map comps)` with a non-zero generation and
the context built the bundle `b` from `comps`.  An accepted input decodes entry by entry; the result
satisfies the invariant; a handle maps to the canonical bundle of the LAST entry naming its id if
that entry names exactly this handle (a later entry replaces the earlier entity, as `spawn_at`
does), and to nothing otherwise. -/
theorem deRow_ok_lookup (H : List Nat) (kvs : List (Tree × Tree)) (w : World)
    (h : deRow H (.map kvs) = .ok w) :
    ∃ L, All₂ (RowEntry H) kvs L ∧ w.Inv ∧ ∀ e, w.lookup e =
      match lastEntry e.id L with
      | some p => if p.1 = e then some (canon p.2) else none
      | none => none :=
  SerdeLemmas.deRow_ok_lookup H kvs w h

/-- keys with pairwise distinct ids: every entry is there, nothing else is -/
theorem deRow_ok_lookup_nodup (H : List Nat) (kvs : List (Tree × Tree)) (w : World)
    (h : deRow H (.map kvs) = .ok w) :
    ∃ L, All₂ (RowEntry H) kvs L ∧ w.Inv ∧ ((L.map (·.1.id)).Nodup →
      (∀ p ∈ L, w.lookup p.1 = some (canon p.2)) ∧ (∀ e, e ∉ L.map (·.1) → w.lookup e = none)) :=
  SerdeLemmas.deRow_ok_lookup_nodup H kvs w h

/-- the key of a decoded entry is exactly the handle's bit pattern -/
theorem rowEntry_key (H : List Nat) (kv : Tree × Tree) (p : Entity × List Comp) (h : RowEntry H kv p) :
    kv.1 = .num (bitsOf p.1) := by
  obtain ⟨k, comps, rfl, he, -⟩ := h
  rw [bitsOf_of_entityOfBits he]

/-- the bundle of a decoded entry: for every type, the LAST value the entry's component map gives for
it (`EntityBuilder::add` replaces), the unit value for a zero-sized type (`lastVal`); the map's
entries are all (handled id, number) pairs -/
theorem rowEntry_bundle (H : List Nat) (comps : List (Tree × Tree)) (b : List Comp)
    (h : deEntityMap H comps [] = .ok b) :
    (b.map (·.1)).Nodup ∧ (∀ t, lookupComp t b = lastVal t comps) ∧
    ∀ kv ∈ comps, ∃ t v, kv = (Tree.num t, Tree.num v) ∧ t ∈ H :=
  ⟨deEntityMap_nodup H comps [] b (by simp) h,
   fun t => by rw [deEntityMap_lookup H comps [] b h t]; simp [lookupComp],
   deEntityMap_entries H comps [] b h⟩

/-! ### non-vacuity -/

def isError {α : Type} : Except String α → Bool
  | .error _ => true
  | .ok _ => false

def lookups (r : Except String World) (es : List Entity) : Option (List (Option (List Comp))) :=
  match r with
  | .ok w => some (es.map w.lookup)
  | .error _ => none

/-- handle 5v2 -/
def k52 : Nat := 2 * 4294967296 + 5

-- a repeated handle: the later entry wins; a repeated component id: the later value wins; a value for
-- the zero-sized type 7 is ignored
def rowDup : Tree :=
  .map [(.num k52, .map [(.num 1, .num 10)]),
        (.num (3 * 4294967296 + 5), .map [(.num 2, .num 20), (.num 7, .num 99), (.num 2, .num 21)])]

example : lookups (deRow [1, 2, 7] rowDup) [⟨5, 2⟩, ⟨5, 3⟩, ⟨0, 1⟩] =
    some [none, some [(2, 21), (7, 0)], none] := by decide +kernel

example : ∃ w, deRow [1, 2, 7] rowDup = .ok w ∧ w.Inv := by
  rcases deRow_total [1, 2, 7] rowDup with ⟨m, hm⟩ | h
  · have : isError (deRow [1, 2, 7] rowDup) = false := by decide +kernel
    rw [hm] at this; cases this
  · exact h

-- the same input under a context that does not handle type 7, and with a zero generation
example : isError (deRow [1, 2] rowDup) = true := by decide +kernel
example : isError (deRow [1, 2, 7] (.map [(.num 5, .map [])])) = true := by decide +kernel

/-- a well-formed column block: two entities (3v1, 9v4) with types 1 and 2, listed out of order -/
def colOk : Tree :=
  .seq [.seq [.num 2, .num 2, .seq [.num 2, .num 1],
    .seq [.seq [.num (4294967296 + 3), .num (4 * 4294967296 + 9)],
          .seq [.num 20, .num 21], .seq [.num 10, .num 11]]]]

example : lookups (deCol [1, 2] colOk) [⟨3, 1⟩, ⟨9, 4⟩, ⟨9, 1⟩, ⟨0, 1⟩] =
    some [some [(1, 10), (2, 20)], some [(1, 11), (2, 21)], none, none] := by decide +kernel

example : ∃ w, deCol [1, 2] colOk = .ok w ∧ w.Inv := by
  rcases deCol_total [1, 2] colOk with ⟨m, hm⟩ | h
  · have : isError (deCol [1, 2] colOk) = false := by decide +kernel
    rw [hm] at this; cases this
  · exact h

-- mutations of `colOk`, each rejected: repeated entity id (9v4, 9v1), short column, missing column,
-- trailing element, announced count too large, unknown id
example : isError (deCol [1, 2] (.seq [.seq [.num 2, .num 2, .seq [.num 2, .num 1],
    .seq [.seq [.num (4294967296 + 9), .num (4 * 4294967296 + 9)],
          .seq [.num 20, .num 21], .seq [.num 10, .num 11]]]])) = true := by decide +kernel
example : isError (deCol [1, 2] (.seq [.seq [.num 2, .num 2, .seq [.num 2, .num 1],
    .seq [.seq [.num (4294967296 + 3), .num (4 * 4294967296 + 9)],
          .seq [.num 20], .seq [.num 10, .num 11]]]])) = true := by decide +kernel
example : isError (deCol [1, 2] (.seq [.seq [.num 2, .num 2, .seq [.num 2, .num 1],
    .seq [.seq [.num (4294967296 + 3), .num (4 * 4294967296 + 9)],
          .seq [.num 20, .num 21]]]])) = true := by decide +kernel
example : isError (deCol [1, 2] (.seq [.seq [.num 2, .num 2, .seq [.num 2, .num 1],
    .seq [.seq [.num (4294967296 + 3), .num (4 * 4294967296 + 9)],
          .seq [.num 20, .num 21], .seq [.num 10, .num 11], .seq []]]])) = true := by decide +kernel
example : isError (deCol [1, 2] (.seq [.seq [.num 3, .num 2, .seq [.num 2, .num 1],
    .seq [.seq [.num (4294967296 + 3), .num (4 * 4294967296 + 9)],
          .seq [.num 20, .num 21], .seq [.num 10, .num 11]]]])) = true := by decide +kernel
example : isError (deCol [1] colOk) = true := by decide +kernel

end Hecs.Props.C15
