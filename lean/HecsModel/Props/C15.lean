import HecsModel.Model.Serde
/-
  C15 — Deserialising malformed data fails cleanly. (interim)
-/
namespace Hecs.Props.C15
open Hecs Hecs.Serde

/-- a bit pattern with a zero upper half (generation 0) is never accepted as a handle -/
theorem zero_generation_rejected (n : Nat) (h : n < 4294967296) : entityOfBits n = none := by
  unfold entityOfBits
  have : n / 4294967296 = 0 := by omega
  have h2 : ¬ n ≥ 18446744073709551616 := by omega
  simp [this, h2]

/-- input that is not a map / not a sequence is rejected outright -/
theorem wrong_shape_rejected (H : List Nat) (n : Nat) :
    (∃ m, deRow H (.num n) = .error m) ∧ (∃ m, deCol H (.num n) = .error m) :=
  ⟨⟨_, rfl⟩, ⟨_, rfl⟩⟩

end Hecs.Props.C15
