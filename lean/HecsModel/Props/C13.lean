import HecsModel.Model.Containers
import HecsModel.Lemmas.Arena
/-
  C13 — Entity builders reflect the last value added per type, through every reuse.

  `Arena.TypesNodup`, `Arena.spec` and `updFn` are defined in `Lemmas/Arena.lean`:
    `Arena.TypesNodup a := (a.slots.map (·.ty)).Nodup`
    `Arena.spec a : Nat → Option Nat := a.get`
    `updFn f t v := fun x => if x = t then some v else f x`
-/
namespace Hecs.Props.C13
open Hecs Hecs.ArenaLemmas

/-- clearing a builder drops exactly the values it holds and leaves it empty -/
theorem clear_drops_all (a : Arena) : (a.clear).2 = a.vals ∧ (a.clear).1.vals = [] := by
  simp [Arena.clear, Arena.vals]

/-! ### 1. one `add` -/

/-- the value just added is the one read back (holds even without `TypesNodup`: the first slot of
the type is overwritten) -/
theorem add_get_same (lay : Nat → TyLayout) (a : Arena) (t v : Nat) :
    ((a.add lay t v).1).get t = some v :=
  ArenaLemmas.add_get_same lay a t v

/-- the form asked for, with the builder invariant as a (redundant) hypothesis -/
theorem add_get_same' (lay : Nat → TyLayout) (a : Arena) (t v : Nat) (_h : a.TypesNodup) :
    ((a.add lay t v).1).get t = some v :=
  ArenaLemmas.add_get_same lay a t v

theorem add_get_other (lay : Nat → TyLayout) (a : Arena) (t t' v : Nat) (h : t' ≠ t) :
    ((a.add lay t v).1).get t' = a.get t' :=
  ArenaLemmas.add_get_other lay a t t' v h

theorem add_has (lay : Nat → TyLayout) (a : Arena) (t t' v : Nat) :
    ((a.add lay t v).1).has t' = (t' == t || a.has t') := by
  rw [has_eq_get_isSome, has_eq_get_isSome]
  by_cases h : t' = t
  · subst h; simp [ArenaLemmas.add_get_same]
  · rw [ArenaLemmas.add_get_other lay a t t' v h]
    have : (t' == t) = false := by simpa using h
    simp [this]

/-- `has` agrees with `get` -/
theorem has_iff_get (a : Arena) (t : Nat) : a.has t = (a.get t).isSome := has_eq_get_isSome a t

theorem add_typesNodup (lay : Nat → TyLayout) (a : Arena) (t v : Nat) (h : a.TypesNodup) :
    (a.add lay t v).1.TypesNodup :=
  ArenaLemmas.add_typesNodup lay a t v h

/-- the set of stored types after `add` -/
theorem add_types (lay : Nat → TyLayout) (a : Arena) (t v : Nat) :
    (a.add lay t v).1.slots.map (·.ty) =
      if a.has t then a.slots.map (·.ty) else a.slots.map (·.ty) ++ [t] :=
  ArenaLemmas.add_types lay a t v

/-- a replaced value is dropped exactly once, and nothing else is dropped -/
theorem add_dropped (lay : Nat → TyLayout) (a : Arena) (t v : Nat) :
    (a.add lay t v).2 = match a.get t with | some old => [(t, old)] | none => [] :=
  ArenaLemmas.add_dropped lay a t v

/-- ledger of one `add`: what was stored plus the new value = what is stored plus what was dropped -/
theorem add_ledger (lay : Nat → TyLayout) (a : Arena) (t v : Nat) (h : a.TypesNodup) :
    (a.vals ++ [(t, v)]).Perm ((a.add lay t v).1.vals ++ (a.add lay t v).2) :=
  ArenaLemmas.add_ledger lay a t v h

theorem empty_typesNodup : ({} : Arena).TypesNodup := by
  simp [Arena.TypesNodup]

/-! ### 2. refinement to a finite map -/

theorem add_spec (lay : Nat → TyLayout) (a : Arena) (t v : Nat) :
    (a.add lay t v).1.spec = updFn a.spec t v :=
  ArenaLemmas.add_spec lay a t v

/-- a script of `add`s is the fold of point updates -/
theorem addAll_spec (lay : Nat → TyLayout) (a : Arena) (cs d : List Comp) :
    (a.addAll lay cs d).1.spec = cs.foldl (fun f c => updFn f c.1 c.2) a.spec :=
  ArenaLemmas.addAll_spec lay a cs d

/-- after a script, `get t` is the last value the script added for `t`, else the previous one -/
theorem addAll_get (lay : Nat → TyLayout) (a : Arena) (cs d : List Comp) (t : Nat) :
    (a.addAll lay cs d).1.get t = ((cs.reverse.find? (·.1 == t)).map (·.2)).or (a.get t) := by
  have := congrFun (ArenaLemmas.addAll_spec lay a cs d) t
  rw [foldl_updFn] at this
  exact this

theorem addAll_typesNodup (lay : Nat → TyLayout) (a : Arena) (cs d : List Comp) (h : a.TypesNodup) :
    (a.addAll lay cs d).1.TypesNodup :=
  ArenaLemmas.addAll_typesNodup lay a cs d h

/-- every value ends up stored or dropped, exactly once -/
theorem addAll_ledger (lay : Nat → TyLayout) (a : Arena) (cs : List Comp) (h : a.TypesNodup) :
    (a.vals ++ cs).Perm ((a.addAll lay cs []).1.vals ++ (a.addAll lay cs []).2) := by
  simpa using ArenaLemmas.addAll_ledger lay a cs [] h

/-- the same with an arbitrary initial drop list -/
theorem addAll_ledger' (lay : Nat → TyLayout) (a : Arena) (cs d : List Comp) (h : a.TypesNodup) :
    (a.vals ++ cs ++ d).Perm ((a.addAll lay cs d).1.vals ++ (a.addAll lay cs d).2) :=
  ArenaLemmas.addAll_ledger lay a cs d h

/-! ### 3. `clear` -/

theorem clear_spec (a : Arena) :
    (a.clear).1.vals = [] ∧ (a.clear).2 = a.vals ∧ (∀ t, (a.clear).1.get t = none) ∧
      (∀ t, (a.clear).1.has t = false) ∧ (a.clear).1.TypesNodup ∧
      (a.clear).1.laySize = a.laySize ∧ (a.clear).1.layAlign = a.layAlign ∧ (a.clear).1.cursor = 0 := by
  simp [Arena.clear, Arena.vals, Arena.get, Arena.has, Arena.TypesNodup]

/-! ### 4. `cloneB` -/

/-- serial-fresh: a clone of a tracked value never carries the serial of its origin -/
theorem cloneSerial_fresh (v k : Nat) (hv : v ≠ 0) (hk : 1 ≤ k) : cloneSerial v k ≠ v :=
  ArenaLemmas.cloneSerial_fresh v k hv hk

/-- the clone has the same kind, cursor and layout -/
theorem cloneB_layout (cc : CloneCounts) (b : Builder) :
    (b.cloneB cc).2.kind = b.kind ∧ (b.cloneB cc).2.arena.cursor = b.arena.cursor ∧
      (b.cloneB cc).2.arena.laySize = b.arena.laySize ∧ (b.cloneB cc).2.arena.layAlign = b.arena.layAlign :=
  ⟨rfl, rfl, rfl, rfl⟩

/-- slot-wise: same type, same offset, value = a clone (`k ≥ 1`) of the original's value -/
theorem cloneB_slots (cc : CloneCounts) (b : Builder) :
    Pointwise (fun s s' => s'.ty = s.ty ∧ s'.off = s.off ∧ ∃ k, 1 ≤ k ∧ s'.val = cloneSerial s.val k)
      b.arena.slots (b.cloneB cc).2.arena.slots := by
  rw [cloneB_arena]
  exact reval_rel b.arena.slots _ (fun v v' => ∃ k, 1 ≤ k ∧ v' = cloneSerial v k)
    (cloneVals_rel cc b.arena.vals)

/-- the same, by index -/
theorem cloneB_slot (cc : CloneCounts) (b : Builder) :
    (b.cloneB cc).2.arena.slots.length = b.arena.slots.length ∧
    ∀ (i : Nat) (h : i < b.arena.slots.length) (h' : i < (b.cloneB cc).2.arena.slots.length),
      ((b.cloneB cc).2.arena.slots[i]).ty = (b.arena.slots[i]).ty ∧
      ((b.cloneB cc).2.arena.slots[i]).off = (b.arena.slots[i]).off ∧
      ∃ k, 1 ≤ k ∧ ((b.cloneB cc).2.arena.slots[i]).val = cloneSerial (b.arena.slots[i]).val k :=
  ⟨(cloneB_slots cc b).length_eq.symm, fun i h h' => (cloneB_slots cc b).get i h h'⟩

/-- the clone's values are `cloneVals` of the originals, and it stores the same types -/
theorem cloneB_vals (cc : CloneCounts) (b : Builder) :
    (b.cloneB cc).2.arena.vals = (cloneVals cc b.arena.vals).2 ∧
      (b.cloneB cc).1 = (cloneVals cc b.arena.vals).1 ∧
      (b.cloneB cc).2.arena.slots.map (·.ty) = b.arena.slots.map (·.ty) ∧
      (b.cloneB cc).2.arena.slots.map (·.off) = b.arena.slots.map (·.off) := by
  have hv : (b.cloneB cc).2.arena.vals = (cloneVals cc b.arena.vals).2 := by
    rw [vals_eq_valsOf, cloneB_arena]
    apply reval_valsOf
    rw [cloneVals_map_fst, Arena.vals, List.map_map]; rfl
  refine ⟨hv, rfl, ?_, ?_⟩
  · have := congrArg (List.map (·.1)) hv
    rw [cloneVals_map_fst, Arena.vals, Arena.vals, List.map_map, List.map_map] at this
    exact this
  · rw [cloneB_arena]
    exact reval_map_off _ _ (by rw [cloneVals_length]; simp [Arena.vals])

theorem cloneB_typesNodup (cc : CloneCounts) (b : Builder) (h : b.arena.TypesNodup) :
    (b.cloneB cc).2.arena.TypesNodup := by
  unfold Arena.TypesNodup; rw [(cloneB_vals cc b).2.2.1]; exact h

/-- every cloned value is a fresh serial derived from the original at the same position -/
theorem cloneVals_rel (cc : CloneCounts) (l : List Comp) :
    Pointwise (fun c c' => c'.1 = c.1 ∧ ∃ k, 1 ≤ k ∧ c'.2 = cloneSerial c.2 k) l (cloneVals cc l).2 :=
  ArenaLemmas.cloneVals_rel cc l

/-! ### 5. sorting the slots (`CommandBuffer`, `component_types` order) -/

theorem sortSlots_perm (l : List Slot) : (CmdBuf.sortSlots l).Perm l := ArenaLemmas.sortSlots_perm l

theorem sortSlots_sorted (l : List Slot) : (CmdBuf.sortSlots l).Pairwise (fun x y => x.ty ≤ y.ty) :=
  ArenaLemmas.sortSlots_sorted l

/-- sorting the slots of an arena preserves `get`, `vals` up to permutation and `TypesNodup` -/
theorem sortSlots_preserves (a : Arena) (h : a.TypesNodup) :
    (∀ t, ({ a with slots := CmdBuf.sortSlots a.slots } : Arena).get t = a.get t) ∧
      (({ a with slots := CmdBuf.sortSlots a.slots } : Arena).vals).Perm a.vals ∧
      ({ a with slots := CmdBuf.sortSlots a.slots } : Arena).TypesNodup :=
  ⟨fun t => sortSlots_getOf a.slots h t, sortSlots_valsOf_perm a.slots, sortSlots_types_nodup a.slots h⟩

end Hecs.Props.C13
