import HecsModel.Model.Containers
/-
  C13 — Entity builders reflect the last value added per type, through every reuse. (interim)
-/
namespace Hecs.Props.C13
open Hecs

/-- clearing a builder drops exactly the values it holds and leaves it empty -/
theorem clear_drops_all (a : Arena) : (a.clear).2 = a.vals ∧ (a.clear).1.vals = [] := by
  simp [Arena.clear, Arena.vals]

end Hecs.Props.C13
