import HecsModel.Model.Containers
/-
  C12 — Column batches spawn exactly the rows that were written, or fail cleanly. (interim)
-/
namespace Hecs.Props.C12
open Hecs

/-- `build` succeeds exactly when every declared column holds exactly `n` values -/
theorem build_ok_iff (b : BatchB) : b.build.isSome = b.cols.all (fun c => c.2.length == b.n) := by
  unfold BatchB.build BatchB.complete
  split
  · rename_i h; simp [h]
  · rename_i h; simp at h ⊢; simpa using h

end Hecs.Props.C12
