import HecsModel.Model.Containers
import HecsModel.Lemmas.WorldInvStep
import HecsModel.Lemmas.Batch
/-
  C12 — Column batches spawn exactly the rows that were written, or fail cleanly.
-/
namespace Hecs.Props.C12
open Hecs Hecs.BatchLemmas

/-- `build` succeeds exactly when every declared column holds exactly `n` values -/
theorem build_ok_iff (b : BatchB) : b.build.isSome = b.cols.all (fun c => c.2.length == b.n) := by
  unfold BatchB.build BatchB.complete
  split
  · rename_i h; simp [h]
  · rename_i h; simp at h ⊢; simpa using h

/-- representation invariant of a column-batch builder: one column per declared type, in the
canonical (strictly sorted) order, and no column is over-full -/
def BatchOk (b : BatchB) : Prop :=
  b.cols.map (·.1) = b.types ∧ strictSorted b.types = true ∧ ∀ c ∈ b.cols, c.2.length ≤ b.n

theorem BatchOk.keys_nodup {b : BatchB} (h : BatchOk b) : (b.cols.map (·.1)).Nodup := by
  rw [h.1]; exact strictSorted_nodup _ h.2.1

/-! ### 12. creation and pushing -/

theorem new_ok (decl : List Nat) (n : Nat) : BatchOk (BatchB.new decl n) := by
  refine ⟨?_, dedupSorted_sortNat_sorted decl, ?_⟩
  · simp [BatchB.new, List.map_map, Function.comp_def]
  · intro c hc
    simp only [BatchB.new, List.mem_map] at hc
    obtain ⟨t, _, rfl⟩ := hc
    simp

/-- the declared types of a fresh builder are exactly the distinct requested types -/
theorem new_types_mem (decl : List Nat) (n t : Nat) : t ∈ (BatchB.new decl n).types ↔ t ∈ decl :=
  mem_dedupSorted_sortNat t decl

theorem push_none_iff (b : BatchB) (t : Nat) (vs : List Nat) :
    b.push t vs = none ↔ t ∉ b.types := by
  unfold BatchB.push
  split
  · rename_i h; simpa using h
  · rename_i h; simpa using h

/-- `push` unfolded, with the column update named -/
theorem push_eq (b : BatchB) (t : Nat) (vs : List Nat) (ht : t ∈ b.types) :
    b.push t vs = some ({ b with cols := b.cols.map (upd t (vs.take (b.n - b.fill t))) },
      (vs.take (b.n - b.fill t)).length, vs.drop (b.n - b.fill t)) := by
  unfold BatchB.push
  have : b.types.contains t = true := by simpa using ht
  simp only [this, Bool.not_true, Bool.false_eq_true, if_false]
  rfl

theorem push_some_mem {b b' : BatchB} {t k : Nat} {vs rej : List Nat}
    (h : b.push t vs = some (b', k, rej)) : t ∈ b.types := by
  apply Classical.byContradiction
  intro hn
  rw [(push_none_iff b t vs).2 hn] at h
  cases h

/-- under the invariant, `fill t` is the length of the column of type `t` -/
theorem fill_eq_of_mem {b : BatchB} (hb : BatchOk b) (c : Nat × List Nat) (hc : c ∈ b.cols) :
    b.fill c.1 = c.2.length := by
  unfold BatchB.fill
  rw [find_of_mem b.cols hb.keys_nodup c hc]; rfl

theorem fill_le {b : BatchB} (hb : BatchOk b) (t : Nat) : b.fill t ≤ b.n := by
  unfold BatchB.fill
  cases hf : b.cols.find? (·.1 == t) with
  | none => simp
  | some c => simpa using hb.2.2 c (List.mem_of_find?_eq_some hf)

theorem push_ok {b b' : BatchB} {t k : Nat} {vs rej : List Nat} (hb : BatchOk b)
    (h : b.push t vs = some (b', k, rej)) : BatchOk b' := by
  have ht := push_some_mem h
  rw [push_eq b t vs ht] at h
  simp only [Option.some.injEq, Prod.mk.injEq] at h
  obtain ⟨rfl, -, -⟩ := h
  refine ⟨?_, hb.2.1, ?_⟩
  · show (b.cols.map (upd t _)).map (·.1) = b.types
    rw [map_upd_keys]; exact hb.1
  · intro c hc
    show c.2.length ≤ b.n
    change c ∈ b.cols.map (upd t _) at hc
    obtain ⟨d, hd, rfl⟩ := List.mem_map.1 hc
    have hdn := hb.2.2 d hd
    unfold upd
    by_cases e : d.1 = t
    · have hf := fill_eq_of_mem hb d hd
      rw [e] at hf
      simp only [e, beq_self_eq_true, if_true, List.length_append, List.length_take]
      omega
    · simpa [e] using hdn

/-- values are accepted exactly while the column has room, whatever the split across
successive writers; the rest are handed back; no other column is touched -/
theorem push_counts {b b' : BatchB} {t k : Nat} {vs rej : List Nat} (hb : BatchOk b)
    (h : b.push t vs = some (b', k, rej)) :
    k = min vs.length (b.n - b.fill t) ∧ rej = vs.drop k ∧ b'.fill t = b.fill t + k ∧
      (∀ t', t' ≠ t → b'.fill t' = b.fill t') ∧
      b'.pushed.Perm (b.pushed ++ (vs.take k).map (fun v => (t, v))) := by
  have ht := push_some_mem h
  rw [push_eq b t vs ht] at h
  simp only [Option.some.injEq, Prod.mk.injEq] at h
  obtain ⟨rfl, rfl, rfl⟩ := h
  have hk : (vs.take (b.n - b.fill t)).length = min vs.length (b.n - b.fill t) := by
    rw [List.length_take]; omega
  have htk : vs.take (min vs.length (b.n - b.fill t)) = vs.take (b.n - b.fill t) := by
    rcases Nat.le_total vs.length (b.n - b.fill t) with hle | hle
    · rw [Nat.min_eq_left hle, List.take_of_length_le (Nat.le_refl _), List.take_of_length_le hle]
    · rw [Nat.min_eq_right hle]
  have hdk : vs.drop (min vs.length (b.n - b.fill t)) = vs.drop (b.n - b.fill t) := by
    rcases Nat.le_total vs.length (b.n - b.fill t) with hle | hle
    · rw [Nat.min_eq_left hle, List.drop_of_length_le (Nat.le_refl _), List.drop_of_length_le hle]
    · rw [Nat.min_eq_right hle]
  have htc : t ∈ b.cols.map (·.1) := by rw [hb.1]; exact ht
  refine ⟨hk, ?_, ?_, ?_, ?_⟩
  · rw [hk, hdk]
  · obtain ⟨c, hc, hct, hf⟩ := find_some_of_key_mem b.cols t htc
    show (((b.cols.map (upd t _)).find? (·.1 == t)).map (·.2.length)).getD 0 = b.fill t + _
    rw [find_map_upd_same]
    unfold BatchB.fill
    rw [hf]
    simp
  · intro t' ht'
    show (((b.cols.map (upd t _)).find? (·.1 == t')).map (·.2.length)).getD 0 = b.fill t'
    rw [find_map_upd_other t t' ht']
    rfl
  · rw [hk, htk]
    exact flat_map_upd_perm t _ b.cols hb.keys_nodup htc

/-- two successive writers for the same column behave as one writer pushing the concatenation -/
theorem push_push {b b₁ b₂ : BatchB} {t k₁ k₂ : Nat} {vs₁ vs₂ r₁ r₂ : List Nat} (hb : BatchOk b)
    (h₁ : b.push t vs₁ = some (b₁, k₁, r₁)) (h₂ : b₁.push t vs₂ = some (b₂, k₂, r₂)) :
    b.push t (vs₁ ++ vs₂) = some (b₂, k₁ + k₂, r₁ ++ r₂) := by
  have ht := push_some_mem h₁
  have hc₁ := push_counts hb h₁
  have hfl := fill_le hb t
  have hfill := hc₁.2.2.1
  have hk := hc₁.1
  rw [push_eq b t vs₁ ht] at h₁
  simp only [Option.some.injEq, Prod.mk.injEq] at h₁
  obtain ⟨hB, hk₁, rfl⟩ := h₁
  have hBn : b₁.n = b.n := by rw [← hB]
  have hBc : b₁.cols = b.cols.map (upd t (vs₁.take (b.n - b.fill t))) := by rw [← hB]
  have hBt : b₁.types = b.types := by rw [← hB]
  rw [push_eq b₁ t vs₂ (hBt ▸ ht)] at h₂
  simp only [Option.some.injEq, Prod.mk.injEq] at h₂
  obtain ⟨rfl, rfl, rfl⟩ := h₂
  rw [push_eq b t (vs₁ ++ vs₂) ht]
  have hroom : b₁.n - b₁.fill t = b.n - b.fill t - vs₁.length := by
    rw [hBn, hfill, hk]; omega
  rw [hroom]
  simp only [Option.some.injEq, Prod.mk.injEq]
  refine ⟨?_, ?_, ?_⟩
  · rw [hBc, map_upd_upd, List.take_append, hBt, hBn]
  · rw [List.take_append, List.length_append, hk₁]
  · rw [List.drop_append]

/-! ### 13. building -/

theorem build_none_drops (b : BatchB) : b.build = none ↔ ∃ c ∈ b.cols, c.2.length ≠ b.n := by
  unfold BatchB.build BatchB.complete
  split
  · rename_i h
    simp only [List.all_eq_true, beq_iff_eq] at h
    simp only [reduceCtorEq, false_iff, not_exists, not_and, ne_eq, Decidable.not_not]
    exact h
  · rename_i h
    simp only [List.all_eq_true, beq_iff_eq] at h
    simp only [true_iff]
    exact Classical.byContradiction (fun hn => h (fun c hc =>
      Classical.byContradiction (fun hne => hn ⟨c, hc, hne⟩)))

theorem build_some {b : BatchB} {rows : List (List Comp)} (h : b.build = some rows) :
    rows = (List.range b.n).map b.row ∧ ∀ c ∈ b.cols, c.2.length = b.n := by
  unfold BatchB.build BatchB.complete at h
  split at h
  · rename_i hc
    simp only [List.all_eq_true, beq_iff_eq] at hc
    simp only [Option.some.injEq] at h
    exact ⟨h.symm, hc⟩
  · cases h

/-- the i-th row has the i-th value pushed to each column and nothing else -/
theorem build_rows {b : BatchB} {rows : List (List Comp)} (hb : BatchOk b)
    (h : b.build = some rows) :
    rows.length = b.n ∧
      (∀ i, i < b.n → ∀ c ∈ b.cols, lookupComp c.1 (rows[i]!) = some (c.2[i]!)) ∧
      (∀ row ∈ rows, row.map (·.1) = b.types) ∧
      rows.flatten.Perm b.pushed := by
  obtain ⟨rfl, hlen⟩ := build_some h
  refine ⟨by simp, ?_, ?_, ?_⟩
  · intro i hi c hc
    have hr : ((List.range b.n).map b.row)[i]! = b.row i := by
      simp [List.getElem!_eq_getElem?_getD, List.getElem?_map, List.getElem?_range hi]
    rw [hr]
    have hv : c.2[i]! = c.2.getD i 0 := by
      simp [List.getElem!_eq_getElem?_getD, List.getD]
    rw [hv]
    exact lookupComp_map_of_mem b.cols (fun d => d.2.getD i 0) hb.keys_nodup c hc
  · intro row hrow
    obtain ⟨i, _, rfl⟩ := List.mem_map.1 hrow
    rw [← hb.1]
    simp [BatchB.row, List.map_map, Function.comp_def]
  · exact transpose_perm b.n b.cols hlen

/-! ### 14. the world keeps working after a batch spawn -/

theorem spawn_wf {b : BatchB} {rows : List (List Comp)} (hb : BatchOk b)
    (h : b.build = some rows) : (Op.spawnColumnBatch b.types rows).WF :=
  ⟨hb.2.1, (build_rows hb h).2.2.1⟩

theorem spawnAt_wf {b : BatchB} {rows : List (List Comp)} (hs : List Entity) (hb : BatchOk b)
    (h : b.build = some rows) : (Op.spawnColumnBatchAt hs b.types rows).WF :=
  ⟨hb.2.1, (build_rows hb h).2.2.1⟩

theorem spawn_inv {b : BatchB} {rows : List (List Comp)} {w : World} (hb : BatchOk b)
    (h : b.build = some rows) (hw : w.Inv) : (step w (.spawnColumnBatch b.types rows)).1.Inv :=
  World.inv_step w _ (spawn_wf hb h) hw

theorem spawnAt_inv {b : BatchB} {rows : List (List Comp)} {w : World} (hs : List Entity)
    (hb : BatchOk b) (h : b.build = some rows) (hw : w.Inv) :
    (step w (.spawnColumnBatchAt hs b.types rows)).1.Inv :=
  World.inv_step w _ (spawnAt_wf hs hb h) hw

end Hecs.Props.C12
