import HecsModel.Model.Prepared
import HecsModel.Lemmas.Prepared
/-
  C17 — Prepared queries and archetype generations never go stale.

  The validity argument of the `PreparedQuery` cache:
    1. archetypes are never removed or reordered and an archetype's type list never changes
       (`archs_append_only`, for every operation, unconditionally);
    2. hence the archetype count identifies the list of archetype type lists along a history
       (`generation_injective` — the contract of `World::archetypes_generation`);
    3. a fresh preparation yields exactly the plain query (`prepareFor_iter/len/viewGet`);
    4. the memo `(world id, archetype count)` therefore names a state in which the cached list is
       what a fresh preparation would give (`ValidFor`), and this is preserved by every operation
       on the same world and by uses of the prepared query on other worlds;
    5. so every use of a prepared query, in any interleaving of operations on two worlds and uses
       on either, returns the plain query of the world it is used on (`uses_are_fresh`).

  NOTE on `valid_step`: `ValidFor p q wid w → ValidFor p q wid (step w op).1` is *false* without a
  side condition (`valid_step_needs_notFuture` below is a counterexample): a memo whose count lies
  in the *future* of `w` says nothing now and is matched after the world grows.  The side condition
  `NotFuture p wid w` ("a memo naming this world has a count ≤ the current one") is what the code
  relies on: memos are only ever written by `prepareFor` with the current count, and counts only
  grow.  `ValidFor ∧ NotFuture` is the inductive invariant of the history.
  Likewise `valid_refresh` needs `ValidFor p q wid w` (a matching memo *keeps* the cache;
  counterexample `valid_refresh_needs_valid`); it is unconditional only when the memo is stale.
-/
namespace Hecs.Props.C17
open Hecs Hecs.PreparedLemmas Hecs.Prepared

/-- after the memo test the memo names the current world and archetype count -/
theorem refresh_memo (p : Prepared) (wid : Nat) (w : World) (q : Q) :
    (p.refresh wid w q).memo = (wid, w.archs.size) := by
  unfold Prepared.refresh
  split
  · assumption
  · rfl

/-- a stale memo (another world, or a different archetype count) is never used: the state is rebuilt -/
theorem refresh_rebuilds (p : Prepared) (wid : Nat) (w : World) (q : Q) (h : p.memo ≠ (wid, w.archs.size)) :
    p.refresh wid w q = Prepared.prepareFor wid w q := by
  simp [Prepared.refresh, h]

/-- a `PreparedQuery` that has never been used matches no world (world ids start at 2) -/
theorem new_matches_nothing (wid : Nat) (w : World) (q : Q) (h : wid ≠ 0) :
    ({} : Prepared).refresh wid w q = Prepared.prepareFor wid w q := by
  apply refresh_rebuilds
  intro e
  have := congrArg Prod.fst e
  simp at this
  exact h this.symm

/-! ### 1. archetypes are append-only, type lists immutable -/

/-- the run of a list of operations from `w` -/
abbrev runFrom (w : World) (ops : List Op) : World := ops.foldl (fun w op => (step w op).1) w

/-- every operation keeps every archetype at its index with its type list, and never shrinks the
archetype array — for every `Op`, with no invariant hypothesis -/
theorem archs_append_only (w : World) (op : Op) :
    (∀ (a : Nat) (ar : Arch), w.archs[a]? = some ar →
        ∃ ar' : Arch, (step w op).1.archs[a]? = some ar' ∧ ar'.types = ar.types) ∧
    (step w op).1.archs.size ≥ w.archs.size :=
  ⟨(ext_step w op).2, (ext_step w op).1⟩

theorem archs_append_only_run (w : World) (ops : List Op) :
    (∀ (a : Nat) (ar : Arch), w.archs[a]? = some ar →
        ∃ ar' : Arch, (ops.foldl (fun w op => (step w op).1) w).archs[a]? = some ar' ∧ ar'.types = ar.types) ∧
    (ops.foldl (fun w op => (step w op).1) w).archs.size ≥ w.archs.size :=
  ⟨(ext_run ops w).2, (ext_run ops w).1⟩

/-- in terms of `typesOf`: the type list at an existing index never changes -/
theorem typesOf_stable_run (w : World) (ops : List Op) (a : Nat) (ha : a < w.archs.size) :
    (runFrom w ops).typesOf a = w.typesOf a := by
  have hget : w.archs[a]? = some w.archs[a] := by simp [ha]
  obtain ⟨ar', h', ht⟩ := (ext_run ops w).2 a _ hget
  rw [typesOf_get h', typesOf_get hget, ht]

/-! ### 2. the archetype count identifies the archetype type lists -/

/-- `World::archetypes_generation` -/
abbrev generation (w : World) : Nat := w.archs.size

/-- along a run, equal archetype counts mean equal lists of archetype type lists -/
theorem generation_injective (w : World) (ops : List Op)
    (h : (ops.foldl (fun w op => (step w op).1) w).archs.size = w.archs.size) :
    (ops.foldl (fun w op => (step w op).1) w).archs.toList.map (·.types) = w.archs.toList.map (·.types) :=
  (ext_run ops w).types_eq h

/-- contrapositive: a different set of archetypes has a different generation -/
theorem generation_changes (w : World) (ops : List Op)
    (h : (runFrom w ops).archs.toList.map (·.types) ≠ w.archs.toList.map (·.types)) :
    generation (runFrom w ops) ≠ generation w :=
  fun hs => h (generation_injective w ops hs)

/-- … and in that case it is strictly larger: generations never come back -/
theorem generation_increases (w : World) (ops : List Op)
    (h : (runFrom w ops).archs.toList.map (·.types) ≠ w.archs.toList.map (·.types)) :
    generation w < generation (runFrom w ops) := by
  have h1 : w.archs.size ≤ (runFrom w ops).archs.size := (ext_run ops w).1
  have h2 : (runFrom w ops).archs.size ≠ w.archs.size := generation_changes w ops h
  show w.archs.size < (runFrom w ops).archs.size
  omega

/-- three points of one history `w →ops₁ w₁ →ops₂ w₂`: the same generation at `w₁` and `w₂` means the
same archetypes (the form the judge checks: a generation value seen with one set of archetypes never
comes back with another) -/
theorem generation_injective_between (w : World) (ops₁ ops₂ : List Op)
    (h : generation (runFrom w (ops₁ ++ ops₂)) = generation (runFrom w ops₁)) :
    (runFrom w (ops₁ ++ ops₂)).archs.toList.map (·.types) = (runFrom w ops₁).archs.toList.map (·.types) := by
  simp only [runFrom, List.foldl_append] at h ⊢
  exact generation_injective _ ops₂ h

/-! ### 3. a fresh preparation is the plain query -/

theorem prepareFor_iter (wid : Nat) (w : World) (q : Q) :
    (Prepared.prepareFor wid w q).iter w q = w.queryIter q := fresh_iter wid w q

theorem prepareFor_len (wid : Nat) (w : World) (q : Q) :
    (Prepared.prepareFor wid w q).len w = w.preparedLen q := fresh_len wid w q

theorem prepareFor_viewGet (wid : Nat) (w : World) (q : Q) (e : Entity) :
    (Prepared.prepareFor wid w q).viewGet w q e = w.viewGet q e := fresh_viewGet wid w q e

/-! ### 4. validity of the cache -/

theorem valid_iff_validFor (p : Prepared) (q : Q) (worlds : Nat → Option World) :
    p.Valid q worlds ↔ ∀ wid w, worlds wid = some w → p.ValidFor q wid w := Iff.rfl

theorem valid_new (q : Q) (wid : Nat) (w : World) (h : wid ≠ 0) : ValidFor {} q wid w := by
  intro e
  have := congrArg Prod.fst e
  simp at this
  exact absurd this.symm h

theorem notFuture_new (wid : Nat) (w : World) (h : wid ≠ 0) : NotFuture {} wid w := by
  intro e
  simp at e
  exact absurd e.symm h

/-- the memo test keeps validity for the world it is used on (it either keeps a valid cache or
rebuilds it).  NB: the hypothesis is needed — see `valid_refresh_iff` and `valid_refresh_needs_valid`:
a cache whose memo matches is *kept*, so it must already be valid. -/
theorem valid_refresh (p : Prepared) (q : Q) (wid : Nat) (w : World) (hv : ValidFor p q wid w) :
    ValidFor (p.refresh wid w q) q wid w := by
  unfold Prepared.refresh
  split
  · exact hv
  · intro _; rfl

/-- unconditionally when the memo does not match (the state is rebuilt) -/
theorem valid_refresh_of_stale (p : Prepared) (q : Q) (wid : Nat) (w : World)
    (h : p.memo ≠ (wid, w.archs.size)) : ValidFor (p.refresh wid w q) q wid w := by
  rw [refresh_rebuilds p wid w q h]; intro _; rfl

theorem valid_refresh_iff (p : Prepared) (q : Q) (wid : Nat) (w : World) :
    ValidFor (p.refresh wid w q) q wid w ↔ ValidFor p q wid w := by
  refine ⟨fun h hm => ?_, valid_refresh p q wid w⟩
  have : p.refresh wid w q = p := by simp [Prepared.refresh, hm]
  rw [this] at h
  exact h hm

theorem notFuture_refresh (p : Prepared) (q : Q) (wid : Nat) (w : World) :
    NotFuture (p.refresh wid w q) wid w := by
  intro _
  rw [refresh_memo]
  exact Nat.le_refl _

/-- a fresh preparation is valid and not from the future -/
theorem valid_prepareFor (q : Q) (wid : Nat) (w : World) : ValidFor (Prepared.prepareFor wid w q) q wid w :=
  fun _ => rfl

theorem notFuture_step (p : Prepared) (wid : Nat) (w : World) (op : Op) (hb : NotFuture p wid w) :
    NotFuture p wid (step w op).1 :=
  fun h => Nat.le_trans (hb h) (ext_step w op).1

theorem notFuture_run (p : Prepared) (wid : Nat) (w : World) (ops : List Op) (hb : NotFuture p wid w) :
    NotFuture p wid (runFrom w ops) :=
  fun h => Nat.le_trans (hb h) (ext_run ops w).1

/-- validity is preserved along any run of the world (uses 1/2: if the memo still matches after the
run then — the memo not being from the future — the archetype count is unchanged, hence all type
lists are unchanged, hence `prepares` filters the same indices) -/
theorem valid_run (p : Prepared) (q : Q) (wid : Nat) (w : World) (ops : List Op)
    (hv : ValidFor p q wid w) (hb : NotFuture p wid w) : ValidFor p q wid (runFrom w ops) := by
  intro hm
  have hext := ext_run ops w
  have h1 : p.memo.1 = wid := by rw [hm]
  have h2 : p.memo.2 = (runFrom w ops).archs.size := by rw [hm]
  have hle := hb h1
  have hsz : (runFrom w ops).archs.size = w.archs.size := by
    have h3 : w.archs.size ≤ (runFrom w ops).archs.size := hext.1
    omega
  have hm' : p.memo = (wid, w.archs.size) := by rw [hm, hsz]
  rw [hv hm']
  exact (prepareFor_idxs_congr wid w (runFrom w ops) q (generation_injective w ops hsz)).symm

theorem valid_step (p : Prepared) (q : Q) (wid : Nat) (w : World) (op : Op)
    (hv : ValidFor p q wid w) (hb : NotFuture p wid w) : ValidFor p q wid (step w op).1 :=
  valid_run p q wid w [op] hv hb

/-- using the query on another world keeps it valid for `(wid, w)`: either it is unchanged, or its
memo now names `wid2` -/
theorem valid_other_world (p : Prepared) (q : Q) (wid : Nat) (w : World) (wid2 : Nat) (w2 : World)
    (hv : ValidFor p q wid w) (hne : wid2 ≠ wid) : ValidFor (p.refresh wid2 w2 q) q wid w := by
  unfold Prepared.refresh
  split
  · exact hv
  · intro hm
    have := congrArg Prod.fst hm
    exact absurd this hne

theorem notFuture_other_world (p : Prepared) (q : Q) (wid : Nat) (w : World) (wid2 : Nat) (w2 : World)
    (hb : NotFuture p wid w) (hne : wid2 ≠ wid) : NotFuture (p.refresh wid2 w2 q) wid w := by
  unfold Prepared.refresh
  split
  · exact hb
  · intro hm
    exact absurd hm hne

/-! ### 5. a valid prepared query answers like a fresh query -/

theorem prepared_eq_fresh (p : Prepared) (q : Q) (wid : Nat) (w : World) (hv : ValidFor p q wid w) :
    (p.refresh wid w q).iter w q = w.queryIter q ∧
    (p.refresh wid w q).len w = w.preparedLen q ∧
    ∀ e, (p.refresh wid w q).viewGet w q e = w.viewGet q e := by
  have hi : (p.refresh wid w q).idxs = (Prepared.prepareFor wid w q).idxs :=
    valid_refresh p q wid w hv (refresh_memo p wid w q)
  refine ⟨?_, ?_, fun e => ?_⟩
  · rw [← prepareFor_iter wid w q]; unfold Prepared.iter; rw [hi]
  · rw [← prepareFor_len wid w q]; unfold Prepared.len; rw [hi]
  · rw [← prepareFor_viewGet wid w q e]; unfold Prepared.viewGet; rw [hi]

/-! ### histories over two worlds -/

inductive Ev
  | step1 (op : Op)
  | step2 (op : Op)
  | use1
  | use2
  deriving Repr, Inhabited

/-- two worlds and one prepared query -/
structure St where
  w1 : World
  w2 : World
  p : Prepared
  deriving Repr, Inhabited

/-- one event; a use of the prepared query on world `i` runs the memo test against it -/
def Ev.apply (q : Q) (wid1 wid2 : Nat) (s : St) : Ev → St
  | .step1 op => { s with w1 := (step s.w1 op).1 }
  | .step2 op => { s with w2 := (step s.w2 op).1 }
  | .use1 => { s with p := s.p.refresh wid1 s.w1 q }
  | .use2 => { s with p := s.p.refresh wid2 s.w2 q }

def history (q : Q) (wid1 wid2 : Nat) (s : St) (evs : List Ev) : St :=
  evs.foldl (Ev.apply q wid1 wid2) s

/-- the invariant of a history -/
def HInv (q : Q) (wid1 wid2 : Nat) (s : St) : Prop :=
  (ValidFor s.p q wid1 s.w1 ∧ NotFuture s.p wid1 s.w1) ∧
  (ValidFor s.p q wid2 s.w2 ∧ NotFuture s.p wid2 s.w2)

theorem hinv_init (q : Q) (wid1 wid2 : Nat) (w1 w2 : World) (h1 : wid1 ≠ 0) (h2 : wid2 ≠ 0) :
    HInv q wid1 wid2 ⟨w1, w2, {}⟩ :=
  ⟨⟨valid_new q wid1 w1 h1, notFuture_new wid1 w1 h1⟩, ⟨valid_new q wid2 w2 h2, notFuture_new wid2 w2 h2⟩⟩

/-- the invariant is preserved by every event -/
theorem hinv_event (q : Q) (wid1 wid2 : Nat) (hne : wid1 ≠ wid2) (s : St) (ev : Ev)
    (h : HInv q wid1 wid2 s) : HInv q wid1 wid2 (ev.apply q wid1 wid2 s) := by
  obtain ⟨⟨v1, b1⟩, ⟨v2, b2⟩⟩ := h
  cases ev with
  | step1 op => exact ⟨⟨valid_step _ _ _ _ op v1 b1, notFuture_step _ _ _ op b1⟩, ⟨v2, b2⟩⟩
  | step2 op => exact ⟨⟨v1, b1⟩, ⟨valid_step _ _ _ _ op v2 b2, notFuture_step _ _ _ op b2⟩⟩
  | use1 =>
    exact ⟨⟨valid_refresh _ _ _ _ v1, notFuture_refresh _ _ _ _⟩,
           ⟨valid_other_world _ _ _ _ _ _ v2 hne, notFuture_other_world _ _ _ _ _ _ b2 hne⟩⟩
  | use2 =>
    exact ⟨⟨valid_other_world _ _ _ _ _ _ v1 hne.symm, notFuture_other_world _ _ _ _ _ _ b1 hne.symm⟩,
           ⟨valid_refresh _ _ _ _ v2, notFuture_refresh _ _ _ _⟩⟩

theorem hinv_history (q : Q) (wid1 wid2 : Nat) (hne : wid1 ≠ wid2) (evs : List Ev) (s : St)
    (h : HInv q wid1 wid2 s) : HInv q wid1 wid2 (history q wid1 wid2 s evs) := by
  induction evs generalizing s with
  | nil => exact h
  | cons ev evs ih => exact ih _ (hinv_event q wid1 wid2 hne s ev h)

/-- **every use is fresh**: after any interleaving of operations on the two worlds and uses of the
prepared query on either, starting from a never-used prepared query and distinct non-zero world ids,
a use on either world returns exactly the plain query of that world (iteration, length, view). -/
theorem uses_are_fresh (q : Q) (wid1 wid2 : Nat) (h1 : wid1 ≠ 0) (h2 : wid2 ≠ 0) (hne : wid1 ≠ wid2)
    (w1 w2 : World) (evs : List Ev) :
    let s := history q wid1 wid2 ⟨w1, w2, {}⟩ evs
    ((s.p.refresh wid1 s.w1 q).iter s.w1 q = s.w1.queryIter q ∧
     (s.p.refresh wid1 s.w1 q).len s.w1 = s.w1.preparedLen q ∧
     ∀ e, (s.p.refresh wid1 s.w1 q).viewGet s.w1 q e = s.w1.viewGet q e) ∧
    ((s.p.refresh wid2 s.w2 q).iter s.w2 q = s.w2.queryIter q ∧
     (s.p.refresh wid2 s.w2 q).len s.w2 = s.w2.preparedLen q ∧
     ∀ e, (s.p.refresh wid2 s.w2 q).viewGet s.w2 q e = s.w2.viewGet q e) := by
  intro s
  have h := hinv_history q wid1 wid2 hne evs _ (hinv_init q wid1 wid2 w1 w2 h1 h2)
  exact ⟨prepared_eq_fresh _ q wid1 _ h.1.1, prepared_eq_fresh _ q wid2 _ h.2.1⟩

/-- what the uses in a history return: `(iter, len)` of the prepared query after its memo test -/
def observed (q : Q) (wid1 wid2 : Nat) : St → List Ev → List (List (Entity × Item) × Nat)
  | _, [] => []
  | s, ev :: evs =>
    let s' := ev.apply q wid1 wid2 s
    match ev with
    | .use1 => (s'.p.iter s'.w1 q, s'.p.len s'.w1) :: observed q wid1 wid2 s' evs
    | .use2 => (s'.p.iter s'.w2 q, s'.p.len s'.w2) :: observed q wid1 wid2 s' evs
    | _ => observed q wid1 wid2 s' evs

/-- what plain queries would return at the same points -/
def expected (q : Q) (wid1 wid2 : Nat) : St → List Ev → List (List (Entity × Item) × Nat)
  | _, [] => []
  | s, ev :: evs =>
    let s' := ev.apply q wid1 wid2 s
    match ev with
    | .use1 => (s'.w1.queryIter q, s'.w1.preparedLen q) :: expected q wid1 wid2 s' evs
    | .use2 => (s'.w2.queryIter q, s'.w2.preparedLen q) :: expected q wid1 wid2 s' evs
    | _ => expected q wid1 wid2 s' evs

theorem observed_eq_expected (q : Q) (wid1 wid2 : Nat) (hne : wid1 ≠ wid2) (evs : List Ev) (s : St)
    (h : HInv q wid1 wid2 s) : observed q wid1 wid2 s evs = expected q wid1 wid2 s evs := by
  induction evs generalizing s with
  | nil => rfl
  | cons ev evs ih =>
    have ih' := ih _ (hinv_event q wid1 wid2 hne s ev h)
    cases ev with
    | step1 op => simpa only [observed, expected] using ih'
    | step2 op => simpa only [observed, expected] using ih'
    | use1 =>
      have hf := prepared_eq_fresh s.p q wid1 s.w1 h.1.1
      simp only [observed, expected, ih']
      simp only [Ev.apply, hf.1, hf.2.1]
    | use2 =>
      have hf := prepared_eq_fresh s.p q wid2 s.w2 h.2.1
      simp only [observed, expected, ih']
      simp only [Ev.apply, hf.1, hf.2.1]

/-- trace form of `uses_are_fresh`: the sequence of results of all uses in a history is the sequence
of results of plain queries at the same points -/
theorem uses_are_fresh_trace (q : Q) (wid1 wid2 : Nat) (h1 : wid1 ≠ 0) (h2 : wid2 ≠ 0) (hne : wid1 ≠ wid2)
    (w1 w2 : World) (evs : List Ev) :
    observed q wid1 wid2 ⟨w1, w2, {}⟩ evs = expected q wid1 wid2 ⟨w1, w2, {}⟩ evs :=
  observed_eq_expected q wid1 wid2 hne evs _ (hinv_init q wid1 wid2 w1 w2 h1 h2)

/-! ### 6. non-vacuity and counterexamples -/

namespace Example

/-- four archetypes: `[]`, `[1]`, `[2]`, `[1,2]`; three entities -/
def wA : World := runFrom World.new [.spawn [(1, 10)], .spawn [(2, 20)], .spawn [(1, 11), (2, 21)]]
def qA : Q := .pair (.read 1) .unit
/-- first use of a new prepared query on world 2 -/
def pA : Prepared := ({} : Prepared).refresh 2 wA qA
/-- same archetypes, one more row -/
def wB : World := (step wA (.spawn [(1, 12)])).1
/-- one more archetype (`[3]`) -/
def wC : World := (step wB (.spawn [(3, 30)])).1
/-- another world (id 3) with other archetypes -/
def wO : World := runFrom World.new [.spawn [(1, 70), (3, 71)]]

example : wA.archs.toList.map (·.types) = [[], [1], [2], [1, 2]] := by decide +kernel
example : pA = { memo := (2, 4), idxs := [1, 3] } := by decide +kernel
-- the memo matches and the cache is used (no rebuild), on the same world …
example : pA.memo = (2, wA.archs.size) ∧ pA.refresh 2 wA qA = pA := by decide +kernel
example : pA.iter wA qA = [(⟨0, 1⟩, .pair (.val 1 10) .unit), (⟨2, 1⟩, .pair (.val 1 11) .unit)] := by
  decide +kernel
-- … and after an operation that keeps the archetype count: the *old* cache answers the *new* world
example : generation wB = generation wA ∧ pA.memo = (2, wB.archs.size) ∧ pA.refresh 2 wB qA = pA := by
  decide +kernel
example : pA.iter wB qA = wB.queryIter qA ∧ pA.len wB = 3 ∧ wB.preparedLen qA = 3 := by decide +kernel
example : pA.iter wB qA =
    [(⟨0, 1⟩, .pair (.val 1 10) .unit), (⟨3, 1⟩, .pair (.val 1 12) .unit), (⟨2, 1⟩, .pair (.val 1 11) .unit)] := by
  decide +kernel
example : pA.viewGet wB qA ⟨3, 1⟩ = some (.pair (.val 1 12) .unit) ∧ wB.viewGet qA ⟨3, 1⟩ = pA.viewGet wB qA ⟨3, 1⟩ := by
  decide +kernel
-- the hypotheses of `valid_step` / `prepared_eq_fresh` hold with a matching memo (not vacuously)
example : ValidFor pA qA 2 wA ∧ NotFuture pA 2 wA ∧ pA.memo = (2, wA.archs.size) := by decide +kernel
-- a new archetype changes the generation and the cache is rebuilt
example : generation wC = 5 ∧ generation wC ≠ generation wB ∧
    pA.refresh 2 wC qA = Prepared.prepareFor 2 wC qA ∧ (pA.refresh 2 wC qA).idxs = [1, 3] := by
  decide +kernel
-- used on another world the cache is rebuilt for it, and rebuilt again when coming back
example : (pA.refresh 3 wO qA) = { memo := (3, 2), idxs := [1] } ∧
    ((pA.refresh 3 wO qA).refresh 2 wB qA) = pA := by decide +kernel
-- a whole history: uses interleaved with operations on both worlds
example :
    observed qA 2 3 ⟨wA, wO, {}⟩ [.use1, .step1 (.spawn [(1, 12)]), .use1, .use2, .step2 (.despawn ⟨0, 1⟩),
      .step1 (.spawn [(3, 30)]), .use1, .use2]
    = [([(⟨0, 1⟩, .pair (.val 1 10) .unit), (⟨2, 1⟩, .pair (.val 1 11) .unit)], 2),
       ([(⟨0, 1⟩, .pair (.val 1 10) .unit), (⟨3, 1⟩, .pair (.val 1 12) .unit), (⟨2, 1⟩, .pair (.val 1 11) .unit)], 3),
       ([(⟨0, 1⟩, .pair (.val 1 70) .unit)], 1),
       ([(⟨0, 1⟩, .pair (.val 1 10) .unit), (⟨3, 1⟩, .pair (.val 1 12) .unit), (⟨2, 1⟩, .pair (.val 1 11) .unit)], 3),
       ([], 0)] := by decide +kernel

/-- `valid_step` needs `NotFuture`: a memo from the "future" of the world (count 2 while the world has
1 archetype) is vacuously valid now and wrongly matched once the world has grown. -/
theorem valid_step_needs_notFuture :
    ¬ (∀ (p : Prepared) (q : Q) (wid : Nat) (w : World) (op : Op),
        ValidFor p q wid w → ValidFor p q wid (step w op).1) := by
  intro h
  have := h { memo := (2, 2), idxs := [7] } .unit 2 World.new (.spawn [(1, 10)]) (by decide +kernel)
  revert this
  decide +kernel

/-- `valid_refresh` needs the validity of `p`: a matching memo keeps the cache as it is. -/
theorem valid_refresh_needs_valid :
    ¬ (∀ (p : Prepared) (q : Q) (wid : Nat) (w : World), ValidFor (p.refresh wid w q) q wid w) := by
  intro h
  have := h { memo := (2, 1), idxs := [7] } .unit 2 World.new
  revert this
  decide +kernel

end Example

end Hecs.Props.C17
