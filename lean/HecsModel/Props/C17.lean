import HecsModel.Model.Prepared
/-
  C17 — Prepared queries and archetype generations never go stale.
-/
namespace Hecs.Props.C17
open Hecs

/-- after the memo test the memo names the current world and archetype count -/
theorem refresh_memo (p : Prepared) (wid : Nat) (w : World) (q : Q) :
    (p.refresh wid w q).memo = (wid, w.archs.size) := by
  unfold Prepared.refresh
  split
  · assumption
  · rfl

/-- a stale memo (another world, or a different archetype count) is never used: the state is rebuilt -/
theorem refresh_rebuilds (p : Prepared) (wid : Nat) (w : World) (q : Q) (h : p.memo ≠ (wid, w.archs.size)) :
    p.refresh wid w q = Prepared.prepareFor wid w q := by
  simp [Prepared.refresh, h]

/-- a `PreparedQuery` that has never been used matches no world (world ids start at 2) -/
theorem new_matches_nothing (wid : Nat) (w : World) (q : Q) (h : wid ≠ 0) :
    ({} : Prepared).refresh wid w q = Prepared.prepareFor wid w q := by
  apply refresh_rebuilds
  intro e
  have := congrArg Prod.fst e
  simp at this
  exact h this.symm

end Hecs.Props.C17
