import HecsModel.Lemmas.Canon
import HecsModel.Lemmas.Cache
/-
  C10 — the outcome of an operation depends on the component *set* only: not on the order in which a
  bundle lists its components, not on the order of the removed types, and not on the history of the
  world (which transitions it has performed or memoised before).
  Property theorems only; proofs live in `Lemmas/Canon.lean` and `Lemmas/Cache.lean`, the model of the
  memo tables in `Model/Cache.lean`.
-/
namespace Hecs.Props.C10
open Hecs

/-! ### 1. the canonical form -/

/-- insertion sort of a bundle with distinct types is determined by the multiset of its components -/
theorem canon_perm {b₁ b₂ : List Comp} (hp : b₁.Perm b₂) (hn : (b₁.map (·.1)).Nodup) :
    canon b₁ = canon b₂ := CanonLemmas.canon_perm hp hn

/-- the sorted type list is determined by the multiset of types -/
theorem sortNat_perm {l₁ l₂ : List Nat} (hp : l₁.Perm l₂) : sortNat l₁ = sortNat l₂ :=
  CanonLemmas.sortNat_perm hp

/-- `canon` permutes its input … -/
theorem canon_perm_self (b : List Comp) : (canon b).Perm b := CanonLemmas.canon_perm_self b

/-- … and sorts it by type -/
theorem canon_sorted (b : List Comp) (hn : (b.map (·.1)).Nodup) :
    (canon b).Pairwise (fun x y => x.1 < y.1) := CanonLemmas.canon_pairwise b hn

theorem sortNat_perm_self (l : List Nat) : (sortNat l).Perm l := CanonLemmas.sortNat_perm_self l

theorem sortNat_sorted (l : List Nat) : (sortNat l).Pairwise (· ≤ ·) := CanonLemmas.sortNat_le_sorted l

/-! ### 2. order independence of the operations -/

theorem spawn_perm (w : World) {b₁ b₂ : List Comp} (hp : b₁.Perm b₂) (hn : (b₁.map (·.1)).Nodup) :
    w.spawn b₁ = w.spawn b₂ := CanonLemmas.spawn_perm w hp hn

theorem spawnAt_perm (w : World) (h : Entity) {b₁ b₂ : List Comp} (hp : b₁.Perm b₂)
    (hn : (b₁.map (·.1)).Nodup) : w.spawnAt h b₁ = w.spawnAt h b₂ := CanonLemmas.spawnAt_perm w h hp hn

/-- `insert`: same world, same result; the dropped values agree as multisets -/
theorem insert_perm (w : World) (hi : w.Inv) (e : Entity) {b₁ b₂ : List Comp} (hp : b₁.Perm b₂)
    (hn : (b₁.map (·.1)).Nodup) :
    (w.insert e b₁).1 = (w.insert e b₂).1 ∧ (w.insert e b₁).2.res = (w.insert e b₂).2.res ∧
    (w.insert e b₁).2.dropped.Perm (w.insert e b₂).2.dropped := CanonLemmas.insert_perm w hi e hp hn

/-- `exchange`, bundle argument -/
theorem exchange_perm (w : World) (hi : w.Inv) (e : Entity) (ts : List Nat) {b₁ b₂ : List Comp}
    (hp : b₁.Perm b₂) (hn : (b₁.map (·.1)).Nodup) :
    (w.exchange e ts b₁).1 = (w.exchange e ts b₂).1 ∧ (w.exchange e ts b₁).2.res = (w.exchange e ts b₂).2.res ∧
    (w.exchange e ts b₁).2.dropped.Perm (w.exchange e ts b₂).2.dropped :=
  CanonLemmas.exchange_perm w hi e ts hp hn

/-- `remove`: the resulting world depends only on the set of named types -/
theorem remove_perm (w : World) (e : Entity) {ts₁ ts₂ : List Nat} (hp : ts₁.Perm ts₂) :
    (w.remove e ts₁).1 = (w.remove e ts₂).1 :=
  (CanonLemmas.remove_ext w e (fun _ => hp.mem_iff)).1

/-- `remove`, set version, with the outcome: nothing is dropped either way; failures coincide; success
coincides -/
theorem remove_ext (w : World) (e : Entity) {ts₁ ts₂ : List Nat} (h : ∀ x, x ∈ ts₁ ↔ x ∈ ts₂) :
    (w.remove e ts₁).1 = (w.remove e ts₂).1 ∧ (w.remove e ts₁).2.dropped = (w.remove e ts₂).2.dropped ∧
    ((∀ got, (w.remove e ts₁).2.res ≠ .vals got) → (w.remove e ts₁).2.res = (w.remove e ts₂).2.res) ∧
    (∀ got, (w.remove e ts₁).2.res = .vals got → ∃ got', (w.remove e ts₂).2.res = .vals got') :=
  CanonLemmas.remove_ext w e h

/-- `remove`: the values come back in field order, and permuting the fields permutes them -/
theorem remove_returned_perm (w : World) (e : Entity) {ts₁ ts₂ : List Nat} (hp : ts₁.Perm ts₂)
    (g₁ g₂ : List Comp) (h1 : (w.remove e ts₁).2.res = .vals g₁) (h2 : (w.remove e ts₂).2.res = .vals g₂) :
    g₁.Perm g₂ ∧ g₁.map (·.1) = ts₁ ∧ g₂.map (·.1) = ts₂ :=
  CanonLemmas.remove_returned_perm w e hp g₁ g₂ h1 h2

/-- `exchange`, removed-type argument -/
theorem exchange_ext (w : World) (e : Entity) (b : List Comp) {ts₁ ts₂ : List Nat}
    (h : ∀ x, x ∈ ts₁ ↔ x ∈ ts₂) :
    (w.exchange e ts₁ b).1 = (w.exchange e ts₂ b).1 ∧
    (w.exchange e ts₁ b).2.dropped = (w.exchange e ts₂ b).2.dropped := CanonLemmas.exchange_ext w e b h

/-! ### 3. history independence: the memo tables are transparent -/

/-- archetypes are append-only and their type lists immutable, for every operation -/
theorem archetypes_append_only (w : World) (op : Op) :
    w.archs.size ≤ (step w op).1.archs.size ∧
    ∀ j, j < w.archs.size → (step w op).1.typesOf j = w.typesOf j :=
  ⟨(CacheLemmas.ext_step w op).size, (CacheLemmas.ext_step w op).types⟩

/-- `findArch` results are stable under appending an archetype -/
theorem findArch_push (archs : Array Arch) (x : Arch) {ts : List Nat} {a : Nat}
    (hf : World.findArch archs ts = some a) : World.findArch (archs.push x) ts = some a :=
  CacheLemmas.findArch_push archs x hf

/-- … and under every operation -/
theorem findArch_step (w : World) (op : Op) {ts : List Nat} {a : Nat}
    (hf : World.findArch w.archs ts = some a) : World.findArch (step w op).1.archs ts = some a :=
  CacheLemmas.findArch_ext (CacheLemmas.ext_step w op) hf

/-- the empty tables are sound -/
theorem cacheOk_new : CacheLemmas.CacheOk Cached.new := CacheLemmas.cacheOk_new

/-- a step with memo tables computes the same world and the same output as a step without -/
theorem cache_transparent (c : Cached) (op : Op) (key : Option (List Nat)) (hok : CacheLemmas.CacheOk c)
    (hi : c.w.Inv) (hk : op.KeyOk key) :
    (cachedStep c op key).1.w = (step c.w op).1 ∧ (cachedStep c op key).2 = (step c.w op).2 :=
  CacheLemmas.cache_transparent c op key hok hi hk

/-- soundness of the tables is preserved -/
theorem cacheOk_step (c : Cached) (op : Op) (key : Option (List Nat)) (hok : CacheLemmas.CacheOk c)
    (hi : c.w.Inv) (hk : op.KeyOk key) : CacheLemmas.CacheOk (cachedStep c op key).1 :=
  CacheLemmas.cacheOk_step c op key hok hi hk

/-- whole histories from `World::new()` -/
theorem cachedRun_eq_run (ops : List (Op × Option (List Nat)))
    (hops : ∀ p, p ∈ ops → p.1.WF ∧ p.1.KeyOk p.2) :
    (cachedRun ops).w = run (ops.map (·.1)) ∧ CacheLemmas.CacheOk (cachedRun ops) :=
  CacheLemmas.cachedRun_spec ops hops

/-- history independence: two worlds in the same state whose tables were filled by different histories
(and even different static/dynamic representations of the bundle) react identically -/
theorem history_independent (c₁ c₂ : Cached) (op : Op) (key₁ key₂ : Option (List Nat)) (hw : c₁.w = c₂.w)
    (h1 : CacheLemmas.CacheOk c₁) (h2 : CacheLemmas.CacheOk c₂) (hi : c₁.w.Inv)
    (hk1 : op.KeyOk key₁) (hk2 : op.KeyOk key₂) :
    (cachedStep c₁ op key₁).1.w = (cachedStep c₂ op key₂).1.w ∧
    (cachedStep c₁ op key₁).2 = (cachedStep c₂ op key₂).2 := by
  rw [(CacheLemmas.cache_transparent c₁ op key₁ h1 hi hk1).1, (CacheLemmas.cache_transparent c₁ op key₁ h1 hi hk1).2,
    (CacheLemmas.cache_transparent c₂ op key₂ h2 (hw ▸ hi) hk2).1,
    (CacheLemmas.cache_transparent c₂ op key₂ h2 (hw ▸ hi) hk2).2, hw]; exact ⟨rfl, rfl⟩

end Hecs.Props.C10
