import HecsModel.Model.Borrow
import HecsModel.Model.Proto
/-
  Judge for engine `sched-borrow` (C06): every line is one atomic step of the real `AtomicBorrow`
  taken by one thread under the cooperative scheduler.

    init n=<threads>
    step t=<i> site=<0..4> => word=<raw word after the step> ret=<-|0|1>
    final => word=<raw word>            (after every thread released what it held)

  (O) the model's word and return value must equal the implementation's;
  (S) ghost reader/writer counts derived from the implementation's *own* return values must never
      show a unique grant beside another grant, nor a shared grant beside a unique one, and the
      final word must be 0.
-/
namespace Hecs.BorrowJudge
open Hecs.Borrow Hecs.Proto

structure Ghost where
  shared : List Nat := []      -- per thread
  uniq : List Bool := []
  deriving Repr, Inhabited

structure St where
  sys : Sys := {}
  ghost : Ghost := {}
  deriving Repr, Inhabited

def actOfSite : Nat → Option Act
  | 0 => some .borrowAdd
  | 1 => some .borrowUndo
  | 2 => some .borrowMut
  | 3 => some .release
  | 4 => some .releaseMut
  | _ => none

def showRet : Option Bool → String
  | none => "-"
  | some true => "1"
  | some false => "0"

def parseRet (s : String) : Option (Option Bool) :=
  if s == "-" then some none else if s == "1" then some (some true) else if s == "0" then some (some false) else none

/-- (S) on the implementation's answer -/
def ghostStep (g : Ghost) (i : Nat) (a : Act) (ret : Option Bool) : Except String Ghost :=
  let others (l : List Nat) := ((l.zipIdx.filter (fun p => p.2 != i)).map (·.1)).sum
  let othersU (l : List Bool) := (l.zipIdx.filter (fun p => p.2 != i)).any (·.1)
  match a, ret with
  | .borrowAdd, some true =>
    if g.uniq.any id then .error "shared borrow granted while a unique borrow is held"
    else .ok { g with shared := g.shared.set i ((g.shared.getD i 0) + 1) }
  | .borrowMut, some true =>
    if g.uniq.any id || (g.shared.sum > 0) then
      .error s!"unique borrow granted while another borrow is held (others shared={others g.shared} unique={othersU g.uniq})"
    else .ok { g with uniq := g.uniq.set i true }
  | .release, _ => .ok { g with shared := g.shared.set i ((g.shared.getD i 0) - 1) }
  | .releaseMut, _ => .ok { g with uniq := g.uniq.set i false }
  | _, _ => .ok g

def stepLine (st : St) (lhs : String) (rhs : Option String) : St × String :=
  let toks := (lhs.trimAscii.toString.splitOn " ").filter (· ≠ "")
  match toks with
  | "init" :: args =>
    match (field args "n").bind String.toNat? with
    | some n => ({ sys := Sys.init n, ghost := { shared := List.replicate n 0, uniq := List.replicate n false } }, "ok")
    | none => (st, "ERR bad init")
  | "step" :: args =>
    match (field args "t").bind String.toNat?, ((field args "site").bind String.toNat?).bind actOfSite with
    | some i, some a =>
      let (sys', r) := st.sys.step i a
      let model := s!"word={sys'.word} ret={showRet r}"
      match rhs with
      | none => ({ st with sys := sys' }, "MODEL " ++ model)
      | some rh =>
        let rtoks := (rh.trimAscii.toString.splitOn " ").filter (· ≠ "")
        match (field rtoks "ret").bind parseRet with
        | none => (st, "ERR bad step rhs")
        | some iret =>
          match ghostStep st.ghost i a iret with
          | .error m => (st, "SPEC " ++ m)
          | .ok g =>
            if rh.trimAscii.toString == model then ({ sys := sys', ghost := g }, "ok")
            else ({ sys := sys', ghost := g }, "DIFF model=" ++ model)
    | _, _ => (st, "ERR bad step")
  | "final" :: _ =>
    match rhs with
    | some rh =>
      if rh.trimAscii.toString == "word=0" then
        if st.sys.word == 0 then (st, "ok") else (st, s!"DIFF model=word={st.sys.word}")
      else (st, "SPEC the borrow word did not return to 0 after every borrow was released")
    | none => (st, s!"MODEL word={st.sys.word}")
  | _ => (st, "ERR cannot parse: " ++ lhs)

end Hecs.BorrowJudge
