import HecsModel.Model.World
/-
  Model of hecs queries (query.rs): query shapes, the `Fetch::{access, prepare, execute/get}` triple
  transcribed clause by clause, and every access path (`QueryIter`, `BatchedIter`, `View`,
  `PreparedQuery`, `query_one`, …) as a function of the world model.
-/
namespace Hecs

/-- query shapes; tuples are right-nested `pair … unit` -/
inductive Q
  | read (t : Nat)
  | write (t : Nat)
  | opt (q : Q)
  | or (l r : Q)
  | with_ (q r : Q)
  | without (q r : Q)
  | satisfies (q : Q)
  | unit
  | pair (q rest : Q)
  deriving Repr, Inhabited, DecidableEq

/-- `Access`: 0 = Iterate, 1 = Read, 2 = Write -/
abbrev Access := Nat

/-- `Option<Access>::max` (`None < Some _`) -/
def optMax : Option Access → Option Access → Option Access
  | none, b => b
  | a, none => a
  | some a, some b => some (max a b)

namespace Q

/-- `Fetch::access` -/
def access : Q → List Nat → Option Access
  | read t, ts => if ts.contains t then some 1 else none
  | write t, ts => if ts.contains t then some 2 else none
  | opt q, ts => some ((access q ts).getD 0)
  | or l r, ts => optMax (access l ts) (access r ts)
  | with_ q r, ts => if (access r ts).isSome then access q ts else none
  | without q r, ts => if (access r ts).isSome then none else access q ts
  | satisfies _, _ => some 0
  | unit, _ => some 0
  | pair q rest, ts =>
    match access q ts, access rest ts with
    | some a, some b => some (max a b)
    | _, _ => none

/-- `Fetch::prepare(..).is_some()` -/
def prepares : Q → List Nat → Bool
  | read t, ts => ts.contains t
  | write t, ts => ts.contains t
  | opt _, _ => true
  | or l r, ts => prepares l ts || prepares r ts
  | with_ q r, ts => (access r ts).isSome && prepares q ts
  | without q r, ts => !(access r ts).isSome && prepares q ts
  | satisfies _, _ => true
  | unit, _ => true
  | pair q rest, ts => prepares q ts && prepares rest ts

/-- what the query *means*: the component set satisfies it -/
def sat : Q → List Nat → Bool
  | read t, ts => ts.contains t
  | write t, ts => ts.contains t
  | opt _, _ => true
  | or l r, ts => sat l ts || sat r ts
  | with_ q r, ts => sat q ts && sat r ts
  | without q r, ts => sat q ts && !sat r ts
  | satisfies _, _ => true
  | unit, _ => true
  | pair q rest, ts => sat q ts && sat rest ts

/-- `Fetch::for_each_borrow`: (type, unique) in declaration order -/
def borrows : Q → List (Nat × Bool)
  | read t => [(t, false)]
  | write t => [(t, true)]
  | opt q => borrows q
  | or l r => borrows l ++ borrows r
  | with_ q _ => borrows q
  | without q _ => borrows q
  | satisfies _ => []
  | unit => []
  | pair q rest => borrows q ++ borrows rest

end Q

/-- items a query yields, as trees over component serials -/
inductive Item
  | val (t v : Nat)
  | none
  | some (i : Item)
  | left (i : Item)
  | right (i : Item)
  | both (l r : Item)
  | bool (b : Bool)
  | unit
  | pair (a b : Item)
  deriving Repr, Inhabited, DecidableEq

/-- `Query::get` on a row whose archetype has type list `ts` (only called when `prepares`) -/
def Q.item : Q → List Nat → List Comp → Item
  | .read t, _, vals => .val t ((lookupComp t vals).getD 0)
  | .write t, _, vals => .val t ((lookupComp t vals).getD 0)
  | .opt q, ts, vals => if q.prepares ts then .some (q.item ts vals) else .none
  | .or l r, ts, vals =>
    match l.prepares ts, r.prepares ts with
    | true, true => .both (l.item ts vals) (r.item ts vals)
    | true, false => .left (l.item ts vals)
    | false, true => .right (r.item ts vals)
    | false, false => .none   -- unreachable: `Or::new` returned `None`, the archetype is skipped
  | .with_ q _, ts, vals => q.item ts vals
  | .without q _, ts, vals => q.item ts vals
  | .satisfies q, ts, _ => .bool (q.prepares ts)
  | .unit, _, _ => .unit
  | .pair q rest, ts, vals => .pair (q.item ts vals) (rest.item ts vals)

/-- `assert_borrow::<Q>()`: no unique borrow is aliased by another field of the same query -/
def Q.assertBorrowOk (q : Q) : Bool :=
  let bs := q.borrows
  (List.range bs.length).all (fun i =>
    (List.range bs.length).all (fun j =>
      !((bs.getD i (0, false)).2 && i != j && (bs.getD i (0, false)).1 == (bs.getD j (0, false)).1)))

namespace World

def entityOf (w : World) (id : Nat) : Entity := ⟨id, w.genOf id⟩

/-- `QueryIter` / `ViewIter` / `PreparedQueryIter` run to completion: archetype order, row order -/
def queryIter (w : World) (q : Q) : List (Entity × Item) :=
  w.archs.toList.flatMap (fun ar =>
    if q.prepares ar.types then ar.rows.toList.map (fun r => (w.entityOf r.id, q.item ar.types r.vals)) else [])

/-- `ExactSizeIterator::len` of a fresh `QueryIter` (uses `access`, not `prepare`) -/
def queryLen (w : World) (q : Q) : Nat :=
  (w.archs.toList.map (fun ar => if (q.access ar.types).isSome then ar.rows.size else 0)).sum

/-- `ExactSizeIterator::len` of a fresh `PreparedQueryIter` (sums the prepared archetypes) -/
def preparedLen (w : World) (q : Q) : Nat :=
  (w.archs.toList.map (fun ar => if q.prepares ar.types then ar.rows.size else 0)).sum

/-- the batches of one archetype: consecutive chunks of at most `n` rows (`n ≥ 1`) -/
def chunks {α} (n : Nat) (l : List α) (fuel : Nat) : List (List α) :=
  match fuel with
  | 0 => []
  | fuel + 1 => if l.isEmpty then [] else l.take n :: chunks n (l.drop n) fuel

/-- `BatchedIter` run to completion with every `Batch` drained -/
def queryBatched (w : World) (q : Q) (n : Nat) : List (List (Entity × Item)) :=
  w.archs.toList.flatMap (fun ar =>
    if q.prepares ar.types then
      chunks n (ar.rows.toList.map (fun r => (w.entityOf r.id, q.item ar.types r.vals))) ar.rows.size
    else [])

/-- `View::get` / `PreparedView::get` / `get_mut` / `get_unchecked` (repaired behaviour, finding F10:
an id without a row is not in the view) -/
def viewGet (w : World) (q : Q) (e : Entity) : Option Item :=
  match w.metas[e.id]? with
  | none => none
  | some m =>
    if m.gen != e.gen then none
    else match m.loc with
      | none => none
      | some (a, i) =>
        match w.archs[a]? with
        | none => none
        | some ar =>
          if q.prepares ar.types then (ar.rows[i]?).map (fun r => q.item ar.types r.vals) else none

/-- outcome of `query_one(_mut)` / `query_many_mut` element / `EntityRef::query`:
`none` = NoSuchEntity, `some none` = Unsatisfied / `None` -/
def queryOne (w : World) (q : Q) (e : Entity) : Option (Option Item) :=
  match w.get e with
  | none => none
  | some none => some (if q.prepares [] then some (q.item [] []) else none)   -- reserved: archetype 0
  | some (some (a, i)) =>
    match w.archs[a]? with
    | none => none
    | some ar =>
      some (if q.prepares ar.types then (ar.rows[i]?).map (fun r => q.item ar.types r.vals) else none)

/-- `World::satisfies` / `EntityRef::satisfies` (`access(..).is_some()`) -/
def satisfiesQ (w : World) (q : Q) (e : Entity) : Option Bool :=
  match w.get e with
  | none => none
  | some none => some (q.access []).isSome
  | some (some (a, _)) => (w.archs[a]?).map (fun ar => (q.access ar.types).isSome)

end World
end Hecs
