import HecsModel.Model.Builder
import HecsModel.Model.World
/-
  Models of the value containers around the world: `EntityBuilder` / `EntityBuilderClone` /
  `BuiltEntityClone` (entity_builder.rs), `CommandBuffer` (command_buffer.rs),
  `ColumnBatchType` / `ColumnBatchBuilder` / `ColumnBatch` (batch.rs).
-/
namespace Hecs

/-! ### entity builders (C13) -/

inductive BKind | plain | clone | built
  deriving Repr, DecidableEq, Inhabited

structure Builder where
  kind : BKind := .plain
  arena : Arena := {}
  deriving Repr, Inhabited

/-- serial of the k-th clone of the value with serial `v` (harness convention: the clone thunk of the
instrumented component types derives the serial from its origin, so that cloning order is not
observable) -/
def cloneSerial (v k : Nat) : Nat := if v = 0 then 0 else v + 1000000 * k

/-- per-origin clone counters -/
abbrev CloneCounts := List (Nat × Nat × Nat)   -- (type, origin serial, clones so far)

def CloneCounts.bump (cc : CloneCounts) (t v : Nat) : CloneCounts × Nat :=
  match cc.find? (fun e => e.1 == t && e.2.1 == v) with
  | some e => (cc.map (fun x => if x.1 == t && x.2.1 == v then (t, v, e.2.2 + 1) else x), cloneSerial v (e.2.2 + 1))
  | none => ((t, v, 1) :: cc, cloneSerial v 1)

/-- clone every value of a list (in order), threading the counters -/
def cloneVals (cc : CloneCounts) : List Comp → CloneCounts × List Comp
  | [] => (cc, [])
  | c :: cs =>
    let (cc1, v') := cc.bump c.1 c.2
    let (cc2, rest) := cloneVals cc1 cs
    (cc2, (c.1, v') :: rest)

/-- `Common::clone`: same layout, every value cloned -/
def Builder.cloneB (cc : CloneCounts) (b : Builder) : CloneCounts × Builder :=
  let (cc', vs) := cloneVals cc b.arena.vals
  (cc', { b with arena := { b.arena with slots := (b.arena.slots.zip vs).map (fun p => { p.1 with val := p.2.2 }) } })

/-! ### command buffers (C11) -/

inductive Cmd
  | spawnOrInsert (e : Option Entity) (first last : Nat)
  | remove (e : Entity) (ts : List Nat)
  | despawn (e : Entity)
  deriving Repr, Inhabited

structure CmdBuf where
  cmds : List Cmd := []
  arena : Arena := {}
  deriving Repr, Inhabited

namespace CmdBuf

/-- `CommandBuffer::add_inner`: always a new slot (no replacement) -/
def addInner (lay : Nat → TyLayout) (a : Arena) (t v : Nat) : Arena :=
  let l := lay t
  let off := alignUp a.cursor l.align
  let stop := off + l.size
  let a' :=
    if stop > a.laySize || l.align > a.layAlign then
      { a with layAlign := max a.layAlign l.align, laySize := max (nextPow2 stop) 64 }
    else a
  { a' with slots := a'.slots ++ [⟨t, off, v⟩], cursor := stop }

def insertSlot (s : Slot) : List Slot → List Slot
  | [] => [s]
  | d :: ds => if s.ty ≤ d.ty then s :: d :: ds else d :: insertSlot s ds

def sortSlots : List Slot → List Slot
  | [] => []
  | s :: ss => insertSlot s (sortSlots ss)

/-- record a bundle: push every component, sort the new range by type, push the command -/
def record (lay : Nat → TyLayout) (c : CmdBuf) (e : Option Entity) (b : List Comp) : CmdBuf :=
  let first := c.arena.slots.length
  let a := b.foldl (fun a x => addInner lay a x.1 x.2) c.arena
  let a := { a with slots := a.slots.take first ++ sortSlots (a.slots.drop first) }
  { cmds := c.cmds ++ [.spawnOrInsert e first a.slots.length], arena := a }

def recRemove (c : CmdBuf) (e : Entity) (ts : List Nat) : CmdBuf := { c with cmds := c.cmds ++ [.remove e ts] }
def recDespawn (c : CmdBuf) (e : Entity) : CmdBuf := { c with cmds := c.cmds ++ [.despawn e] }

/-- the values of a recorded range -/
def rangeVals (c : CmdBuf) (first last : Nat) : List Comp :=
  ((c.arena.slots.drop first).take (last - first)).map (fun s => (s.ty, s.val))

/-- `CommandBuffer::run_on`: the commands in recorded order; returns the world, the drops and the
handles spawned -/
def runCmds (c : CmdBuf) : List Cmd → World → List Comp → List Entity → World × List Comp × List Entity
  | [], w, d, es => (w, d, es)
  | .spawnOrInsert none f l :: rest, w, d, es =>
    let (w', o) := w.spawn (c.rangeVals f l)
    runCmds c rest w' (d ++ o.dropped) (match o.res with | .ent e => es ++ [e] | _ => es)
  | .spawnOrInsert (some e) f l :: rest, w, d, es =>
    let (w', o) := w.insert e (c.rangeVals f l)
    runCmds c rest w' (d ++ o.dropped) es
  | .remove e ts :: rest, w, d, es =>
    let (w', o) := w.remove e ts
    -- the removed bundle is discarded by the buffer (`let _ = world.remove::<T>(..)`)
    runCmds c rest w' (d ++ o.dropped ++ (match o.res with | .vals vs => vs | _ => [])) es
  | .despawn e :: rest, w, d, es =>
    let (w', o) := w.despawn e
    runCmds c rest w' (d ++ o.dropped) es

def runOn (c : CmdBuf) (w : World) : CmdBuf × World × List Comp × List Entity :=
  let (w', d, es) := runCmds c c.cmds w [] []
  ({ cmds := [], arena := { c.arena with slots := [], cursor := 0 } }, w', d, es)

/-- `CommandBuffer::clear` / drop: every recorded component is dropped -/
def clear (c : CmdBuf) : CmdBuf × List Comp :=
  ({ cmds := [], arena := { c.arena with slots := [], cursor := 0 } }, c.arena.vals)

end CmdBuf

/-! ### column batches (C12) -/

structure BatchB where
  /-- declared types, sorted and deduplicated (`ColumnBatchType::into_batch`) -/
  types : List Nat := []
  n : Nat := 0
  /-- values pushed so far per declared type, oldest first; `fill = length` -/
  cols : List (Nat × List Nat) := []
  deriving Repr, Inhabited

namespace BatchB

def dedupSorted : List Nat → List Nat
  | [] => []
  | [a] => [a]
  | a :: b :: r => if a = b then dedupSorted (b :: r) else a :: dedupSorted (b :: r)

def new (decl : List Nat) (n : Nat) : BatchB :=
  let ts := dedupSorted (sortNat decl)
  { types := ts, n := n, cols := ts.map (fun t => (t, [])) }

def fill (b : BatchB) (t : Nat) : Nat := ((b.cols.find? (·.1 == t)).map (·.2.length)).getD 0

/-- one `writer::<T>()` followed by `push` of each value in order: values are accepted while the
column has room (`fill < n`), the rest are handed back.  Models the *repaired* writer (finding F4):
it continues at the first unfilled slot.  Returns (builder, accepted count, rejected values). -/
def push (b : BatchB) (t : Nat) (vs : List Nat) : Option (BatchB × Nat × List Nat) :=
  if !b.types.contains t then none
  else
    let room := b.n - b.fill t
    let acc := vs.take room
    some ({ b with cols := b.cols.map (fun c => if c.1 == t then (c.1, c.2 ++ acc) else c) }, acc.length, vs.drop room)

def complete (b : BatchB) : Bool := b.cols.all (fun c => c.2.length == b.n)

/-- everything pushed so far (what an abandoned builder must drop) -/
def pushed (b : BatchB) : List Comp := b.cols.flatMap (fun c => c.2.map (fun v => (c.1, v)))

/-- the i-th row: the i-th value of every column -/
def row (b : BatchB) (i : Nat) : List Comp := b.cols.map (fun c => (c.1, c.2.getD i 0))

/-- `build`: the rows of the batch, or `none` (BatchIncomplete; the pushed values are dropped) -/
def build (b : BatchB) : Option (List (List Comp)) :=
  if b.complete then some ((List.range b.n).map b.row) else none

end BatchB
end Hecs
