import HecsModel.Model.Query
import HecsModel.Model.Borrow
/-
  Model of hecs' dynamic borrow checking through `&World` (C05): per (archetype, column) borrow words
  with the sequential semantics of `AtomicBorrow`, and the guards that acquire and release them —
  `QueryBorrow`, `ViewBorrow`, `PreparedQueryBorrow`, `QueryOne`, `Ref`, `RefMut`,
  `ArchetypeColumn`, `ArchetypeColumnMut` — transcribed in the order the code acquires and releases
  (query.rs `start_borrow`/`release_borrow`, `PreparedQueryBorrow::new/Drop`, query_one.rs,
  entity_ref.rs `ComponentBorrow(Mut)`, archetype.rs `ArchetypeColumn(Mut)`).

  The world is fixed while guards are alive (they hold `&World`).
-/
namespace Hecs

/-- the borrows `Fetch::borrow` performs on an archetype with type list `ts`, in order -/
def Q.borrowList : Q → List Nat → List (Nat × Bool)
  | .read t, _ => [(t, false)]
  | .write t, _ => [(t, true)]
  | .opt q, ts => if q.prepares ts then q.borrowList ts else []
  | .or l r, ts => (if l.prepares ts then l.borrowList ts else []) ++ (if r.prepares ts then r.borrowList ts else [])
  | .with_ q _, ts => q.borrowList ts
  | .without q _, ts => q.borrowList ts
  | .satisfies _, _ => []
  | .unit, _ => []
  | .pair q rest, ts => q.borrowList ts ++ rest.borrowList ts

namespace Guards

structure GArch where
  types : List Nat
  len : Nat
  deriving Repr, Inhabited, DecidableEq

abbrev Col := Nat × Nat       -- (archetype index, type)
abbrev Words := List (Col × Nat)

def wordOf (ws : Words) (c : Col) : Nat := ((ws.find? (·.1 == c)).map (·.2)).getD 0
def setWord (ws : Words) (c : Col) (v : Nat) : Words := (c, v) :: ws.filter (·.1 != c)

/-- one `AtomicBorrow::borrow`/`borrow_mut` on a column; `none` = refused (word unchanged) -/
def acquire (ws : Words) (c : Col) (uniq : Bool) : Option Words :=
  let w := wordOf ws c
  let (w', ok) := if uniq then Borrow.seqBorrowMut w else Borrow.seqBorrow w
  if ok then some (setWord ws c w') else none

def release (ws : Words) (c : Col) (uniq : Bool) : Words :=
  setWord ws c (if uniq then Borrow.seqReleaseMut (wordOf ws c) else Borrow.seqRelease (wordOf ws c))

/-- acquire a list of columns in order; stops at the first refusal and KEEPS the earlier ones
(the code panics there without rolling back — source TODO, finding F15) -/
def acquireList (ws : Words) (a : Nat) : List (Nat × Bool) → Words × Bool
  | [] => (ws, true)
  | (t, u) :: rest =>
    match acquire ws (a, t) u with
    | some ws' => acquireList ws' a rest
    | none => (ws, false)

def releaseList (ws : Words) (a : Nat) (l : List (Nat × Bool)) : Words :=
  l.foldl (fun ws x => release ws (a, x.1) x.2) ws

/-- `start_borrow::<Q>`: every non-empty archetype the query prepares on, in archetype order -/
def startBorrow (q : Q) : List (Nat × GArch) → Words → Words × Bool
  | [], ws => (ws, true)
  | (a, ar) :: rest, ws =>
    if ar.len = 0 || !q.prepares ar.types then startBorrow q rest ws
    else
      match acquireList ws a (q.borrowList ar.types) with
      | (ws', true) => startBorrow q rest ws'
      | (ws', false) => (ws', false)

/-- `release_borrow::<Q>` -/
def releaseBorrow (q : Q) (archs : List (Nat × GArch)) (ws : Words) : Words :=
  archs.foldl (fun ws p =>
    if p.2.len = 0 || !q.prepares p.2.types then ws else releaseList ws p.1 (q.borrowList p.2.types)) ws

inductive Guard
  | query (q : Q) (borrowed : Bool)
  | view (q : Q)
  | prepared (q : Q) (idxs : List Nat)
  | one (q : Q) (a : Nat) (borrowed : Bool)
  | ref (a t : Nat)
  | refMut (a t : Nat)
  | col (a t : Nat)
  | colMut (a t : Nat)
  deriving Repr, Inhabited, DecidableEq

structure St where
  archs : List GArch := []
  words : Words := []
  guards : List (String × Guard) := []
  deriving Repr, Inhabited

def St.indexed (s : St) : List (Nat × GArch) := s.archs.zipIdx.map (fun p => (p.2, p.1))
def St.arch (s : St) (a : Nat) : GArch := s.archs.getD a ⟨[], 0⟩
def St.guard (s : St) (n : String) : Option Guard := (s.guards.find? (·.1 == n)).map (·.2)
def St.setGuard (s : St) (n : String) (g : Guard) : St := { s with guards := (n, g) :: s.guards.filter (·.1 != n) }
def St.delGuard (s : St) (n : String) : St := { s with guards := s.guards.filter (·.1 != n) }

inductive Outcome | ok | none | missing | panic
  deriving Repr, DecidableEq, Inhabited

/-- releasing what a guard holds (its `Drop`) -/
def dropGuard (s : St) : Guard → Words
  | .query q true => releaseBorrow q s.indexed s.words
  | .query _ false => s.words
  | .view q => releaseBorrow q s.indexed s.words
  | .prepared q idxs =>
    idxs.foldl (fun ws a => if (s.arch a).len = 0 then ws else releaseList ws a (q.borrowList (s.arch a).types)) s.words
  | .one q a true => releaseList s.words a (q.borrowList (s.arch a).types)
  | .one _ _ false => s.words
  | .ref a t => release s.words (a, t) false
  | .refMut a t => release s.words (a, t) true
  | .col a t => release s.words (a, t) false
  | .colMut a t => release s.words (a, t) true

/-- creating a guard -/
def newGuard (s : St) (n : String) (g : Guard) : St × Outcome :=
  match g with
  | .query q _ => (s.setGuard n (.query q false), .ok)
  | .view q =>
    match startBorrow q s.indexed s.words with
    | (ws, true) => ({ s with words := ws }.setGuard n (.view q), .ok)
    | (ws, false) => ({ s with words := ws }, .panic)
  | .prepared q _ =>
    let idxs := (List.range s.archs.length).filter (fun a => q.prepares (s.arch a).types)
    let step (acc : Words × Bool) (a : Nat) : Words × Bool :=
      if !acc.2 || (s.arch a).len = 0 then acc else acquireList acc.1 a (q.borrowList (s.arch a).types)
    match idxs.foldl step (s.words, true) with
    | (ws, true) => ({ s with words := ws }.setGuard n (.prepared q idxs), .ok)
    | (ws, false) => ({ s with words := ws }, .panic)
  | .one q a _ =>
    if q.assertBorrowOk then (s.setGuard n (.one q a false), .ok) else (s, .panic)
  | .ref a t =>
    if !(s.arch a).types.contains t then (s, .missing)
    else match acquire s.words (a, t) false with
      | some ws => ({ s with words := ws }.setGuard n (.ref a t), .ok)
      | none => (s, .panic)
  | .refMut a t =>
    if !(s.arch a).types.contains t then (s, .missing)
    else match acquire s.words (a, t) true with
      | some ws => ({ s with words := ws }.setGuard n (.refMut a t), .ok)
      | none => (s, .panic)
  | .col a t =>
    if !(s.arch a).types.contains t then (s, .missing)
    else match acquire s.words (a, t) false with
      | some ws => ({ s with words := ws }.setGuard n (.col a t), .ok)
      | none => (s, .panic)
  | .colMut a t =>
    if !(s.arch a).types.contains t then (s, .missing)
    else match acquire s.words (a, t) true with
      | some ws => ({ s with words := ws }.setGuard n (.colMut a t), .ok)
      | none => (s, .panic)

inductive Act
  | iter                     -- `QueryBorrow::iter/view/iter_batched`: lazy acquisition
  | get                      -- `QueryOne::get`
  | with_ (r : Q)            -- `with::<R>()`  (consumes the guard)
  | without (r : Q)
  | clone (into : String)    -- `Ref::clone` / `ArchetypeColumn::clone`
  | drop
  deriving Repr, Inhabited

def act (s : St) (n : String) (a : Act) : St × Outcome :=
  match s.guard n with
  | none => (s, .none)
  | some g =>
    match a, g with
    | .iter, .query q false =>
      match startBorrow q s.indexed s.words with
      | (ws, true) => ({ s with words := ws }.setGuard n (.query q true), .ok)
      | (ws, false) => ({ s with words := ws }, .panic)
    | .iter, .query _ true => (s, .ok)
    | .iter, .view _ => (s, .ok)
    | .iter, .prepared _ _ => (s, .ok)
    | .get, .one q ar false =>
      if !q.prepares (s.arch ar).types then (s, .none)
      else match acquireList s.words ar (q.borrowList (s.arch ar).types) with
        | (ws, true) => ({ s with words := ws }.setGuard n (.one q ar true), .ok)
        | (ws, false) => ({ s with words := ws }, .panic)
    | .get, .one _ _ true => (s, .panic)
    -- `transform`: the old guard is dropped (releasing its borrows), the new one starts unborrowed
    | .with_ r, .query q _ => ({ s with words := dropGuard s g }.setGuard n (.query (.with_ q r) false), .ok)
    | .without r, .query q _ => ({ s with words := dropGuard s g }.setGuard n (.query (.without q r) false), .ok)
    | .with_ r, .one q ar _ =>
      -- `QueryOne::new` is not re-run by `transform`: no `assert_borrow`
      ({ s with words := dropGuard s g }.setGuard n (.one (.with_ q r) ar false), .ok)
    | .without r, .one q ar _ => ({ s with words := dropGuard s g }.setGuard n (.one (.without q r) ar false), .ok)
    | .clone into, .ref ar t =>
      match acquire s.words (ar, t) false with
      | some ws => ({ s with words := ws }.setGuard into (.ref ar t), .ok)
      | none => (s, .panic)
    | .clone into, .col ar t =>
      match acquire s.words (ar, t) false with
      | some ws => ({ s with words := ws }.setGuard into (.col ar t), .ok)
      | none => (s, .panic)
    | .drop, _ => (({ s with words := dropGuard s g }).delGuard n, .ok)
    | _, _ => (s, .none)

/-! ### what the property says (specification side) -/

/-- the columns a live guard holds, with access mode — from its *definition*, not from the words -/
def held (s : St) : Guard → List (Col × Bool)
  | .query q true | .view q =>
    s.indexed.flatMap (fun p => if p.2.len = 0 || !q.sat p.2.types then [] else (q.borrowList p.2.types).map (fun x => ((p.1, x.1), x.2)))
  | .query _ false => []
  | .prepared q idxs =>
    idxs.flatMap (fun a => if (s.arch a).len = 0 then [] else (q.borrowList (s.arch a).types).map (fun x => ((a, x.1), x.2)))
  | .one q a true => (q.borrowList (s.arch a).types).map (fun x => ((a, x.1), x.2))
  | .one _ _ false => []
  | .ref a t | .col a t => [((a, t), false)]
  | .refMut a t | .colMut a t => [((a, t), true)]

/-- two accesses conflict: same column and at least one unique -/
def conflicts (x y : Col × Bool) : Bool := x.1 == y.1 && (x.2 || y.2)

/-- would acquiring `want` (in addition to what the *other* live guards hold) create an overlap? -/
def wouldConflict (others : List (Col × Bool)) (want : List (Col × Bool)) : Bool :=
  want.any (fun x => others.any (conflicts x)) ||
    want.zipIdx.any (fun p => want.zipIdx.any (fun r => p.2 != r.2 && conflicts p.1 r.1))

end Guards
end Hecs
