import HecsModel.Model.Guards
import HecsModel.Model.QueryJudge
/-
  Judge for engine `borrow` (C05): guard scripts over a fixed world.
-/
namespace Hecs.GuardJudge
open Hecs Hecs.Proto Hecs.Guards

structure JSt where
  st : St := {}
  /-- a failed acquisition left earlier borrows in place (finding F15); later failures are its
  consequences and are tagged so -/
  leaked : Bool := false
  /-- the borrows such failed acquisitions left behind, as if held by a guard nobody can drop -/
  phantom : List (Col × Bool) := []
  deriving Inhabited

def showWords (ws : Words) : String :=
  let l := (ws.filter (·.2 != 0)).map (fun p => (p.1.1, p.1.2, p.2))
  let l := sortBy (fun a b => a.1 < b.1 || (a.1 == b.1 && a.2.1 < b.2.1)) l
  "[" ++ ",".intercalate (l.map (fun p => s!"{p.1}:{p.2.1}:{p.2.2}")) ++ "]"

def showOutcome : Outcome → String
  | .ok => "ok" | .none => "none" | .missing => "missing" | .panic => "panic"

def parseArchs (s : String) : List GArch :=
  let inner := ((s.drop 1).toString.dropEnd 1).toString
  if inner == "" then [] else
  (inner.splitOn ";").filterMap (fun p => match p.splitOn "=" with
    | [ts, n] => do pure ⟨← nats? ts, ← n.toNat?⟩
    | _ => none)

def othersHeld (s : St) (except : String) : List (Col × Bool) :=
  (s.guards.filter (·.1 != except)).flatMap (fun g => held s g.2)

/-- (S): what the property demands of this action: `some true` = must be granted, `some false` =
must be refused (panic), `none` = no acquisition involved -/
def expected (s : St) (phantom : List (Col × Bool)) (lhs : List String) : Option Bool :=
  let othersHeld (s : St) (n : String) := phantom ++ othersHeld s n
  let f := field lhs
  match lhs with
  | "gnew" :: n :: args =>
    let q := ((field args "q").bind QueryJudge.parseShape).getD .unit
    let a := ((field args "a").bind String.toNat?).getD 0
    let t := ((field args "t").bind String.toNat?).getD 0
    let others := othersHeld s n
    match field args "kind" with
    | some "view" => some (!wouldConflict others (held s (.view q)))
    | some "prepared" =>
      let idxs := (List.range s.archs.length).filter (fun i => q.sat (s.arch i).types)
      some (!wouldConflict others (held s (.prepared q idxs)))
    | some "one" => some q.assertBorrowOk
    | some "ref" | some "col" => if (s.arch a).types.contains t then some (!wouldConflict others [((a, t), false)]) else none
    | some "refmut" | some "colmut" => if (s.arch a).types.contains t then some (!wouldConflict others [((a, t), true)]) else none
    | _ => none
  | "gact" :: n :: verb :: _ =>
    let _ := f
    match s.guard n, verb with
    | some (.query q false), "iter" => some (!wouldConflict (othersHeld s n) (held s (.query q true)))
    | some (.one q a false), "get" =>
      if q.sat (s.arch a).types then some (!wouldConflict (othersHeld s n) (held s (.one q a true))) else none
    | some (.one _ _ true), "get" => some false      -- documented: `get` may be called once
    | some (.ref a t), "clone" | some (.col a t), "clone" => some (!wouldConflict (othersHeld s n) [((a, t), false)])
    | _, _ => none
  | _ => none

def stepLine (j : JSt) (lhs : String) (rhs : Option String) : JSt × String :=
  let toks := (lhs.trimAscii.toString.splitOn " ").filter (· ≠ "")
  let tag := if j.leaked then "[after-failed-acquisition] " else ""
  let notag := ""
  match toks with
  | "gworld" :: args =>
    ({ st := { archs := parseArchs ((field args "archs").getD "[]") } }, "ok")
  | "gend" :: _ =>
    match rhs with
    | some r =>
      if r.trimAscii.toString == "w=[] mut=ok" then
        (if showWords j.st.words == "[]" then (j, "ok") else (j, "DIFF model=w=" ++ showWords j.st.words))
      else (j, "SPEC " ++ tag ++ "after every guard was dropped some component is still borrowed: " ++ r)
    | none => (j, "MODEL w=" ++ showWords j.st.words)
  | verb :: n :: args =>
    let s := j.st
    let res : Option (St × Outcome) :=
      match verb with
      | "gnew" =>
        let q := ((field args "q").bind QueryJudge.parseShape).getD .unit
        let a := ((field args "a").bind String.toNat?).getD 0
        let t := ((field args "t").bind String.toNat?).getD 0
        let g : Option Guard := match field args "kind" with
          | some "query" => some (.query q false)
          | some "view" => some (.view q)
          | some "prepared" => some (.prepared q [])
          | some "one" => some (.one q a false)
          | some "ref" => some (.ref a t)
          | some "refmut" => some (.refMut a t)
          | some "col" => some (.col a t)
          | some "colmut" => some (.colMut a t)
          | _ => none
        g.map (newGuard s n)
      | "gact" =>
        let a : Option Act := match args.head? with
          | some "iter" => some .iter
          | some "get" => some .get
          | some "with" => ((field args "q").bind QueryJudge.parseShape).map .with_
          | some "without" => ((field args "q").bind QueryJudge.parseShape).map .without
          | some "clone" => (field args "into").map .clone
          | some "drop" => some .drop
          | _ => none
        a.map (act s n)
      | _ => none
    match res with
    | none => (j, "ERR cannot parse: " ++ lhs)
    | some (s', o) =>
      let model := showOutcome o ++ " w=" ++ showWords s'.words
      let leakedNow := o == .panic && showWords s'.words != showWords s.words
      -- what the failed call left behind: every column whose word grew
      let cols := (s'.words.map (·.1)).eraseDups
      let left : List (Col × Bool) := if !leakedNow then [] else cols.flatMap (fun c =>
        let d := wordOf s'.words c - wordOf s.words c
        if d ≥ Borrow.UNIQUE then [(c, true)] else List.replicate d (c, false))
      let j' : JSt := { st := s', leaked := j.leaked || leakedNow, phantom := j.phantom ++ left }
      match rhs with
      | none => (j', "MODEL " ++ model)
      | some r =>
        let implOutcome := ((r.trimAscii.toString.splitOn " ").headD "")
        -- (S) first: grant exactly when no conflict
        match expected s j.phantom toks with
        | some true =>
          if implOutcome == "panic" then (j', "SPEC " ++ notag ++ "an acquisition that conflicts with no live borrow was refused")
          else if r.trimAscii.toString == model then (j', "ok") else (j', "DIFF model=" ++ model)
        | some false =>
          if implOutcome != "panic" then (j', "SPEC " ++ notag ++ "an acquisition overlapping a unique borrow was granted")
          else if r.trimAscii.toString == model then (j', "ok") else (j', "DIFF model=" ++ model)
        | none =>
          if implOutcome == "panic" && o != .panic then (j', "SPEC " ++ notag ++ "an action that acquires nothing panicked")
          else if r.trimAscii.toString == model then (j', "ok") else (j', "DIFF model=" ++ model)
  | _ => (j, "ERR cannot parse: " ++ lhs)

end Hecs.GuardJudge
