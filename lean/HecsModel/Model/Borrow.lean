/-
  Small-step model of `AtomicBorrow` (borrow.rs) shared by any number of threads (C06), and its
  sequential reading used by the guard model (C05).

  The word is a natural number (the counter-overflow panics at 2^63 - 1 shared borrows are out of
  scope, so no wrap-around can occur below that bound).  One transition = one atomic
  read-modify-write of the real code, i.e. exactly what happens between two consecutive yield
  points of the hooked implementation.
-/
namespace Hecs.Borrow

/-- `UNIQUE_BIT = !(usize::MAX >> 1)` on a 64-bit target -/
def UNIQUE : Nat := 9223372036854775808

/-- what one thread holds on this word, and whether it is between the failed `fetch_add` of
`borrow()` and the compensating `fetch_sub` -/
structure Thread where
  shared : Nat := 0
  uniq : Bool := false
  rollback : Bool := false
  deriving DecidableEq, Repr, Inhabited

structure Sys where
  word : Nat := 0
  threads : List Thread := []
  deriving Repr, Inhabited

/-- atomic actions, named after the call site (hook `yield_point(site)`) -/
inductive Act
  | borrowAdd      -- site 0: `fetch_add(1, Acquire)` in `borrow`
  | borrowUndo     -- site 1: `fetch_sub(1, Release)` rolling a failed `borrow` back
  | borrowMut      -- site 2: `compare_exchange(0, UNIQUE_BIT, Acquire, Relaxed)`
  | release        -- site 3: `fetch_sub(1, Release)`
  | releaseMut     -- site 4: `fetch_and(!UNIQUE_BIT, Release)`
  deriving DecidableEq, Repr, Inhabited

/-- the API allows an action only in these thread states -/
def enabled (t : Thread) : Act → Bool
  | .borrowAdd => !t.rollback
  | .borrowUndo => t.rollback
  | .borrowMut => !t.rollback
  | .release => !t.rollback && t.shared > 0
  | .releaseMut => !t.rollback && t.uniq

/-- effect of one atomic action of a thread on the word and on the thread; the `Option Bool` is the
value returned to the caller when the action completes a call -/
def act (word : Nat) (t : Thread) : Act → Nat × Thread × Option Bool
  | .borrowAdd =>
    if word ≥ UNIQUE then (word + 1, { t with rollback := true }, none)
    else (word + 1, { t with shared := t.shared + 1 }, some true)
  | .borrowUndo => (word - 1, { t with rollback := false }, some false)
  | .borrowMut =>
    if word = 0 then (UNIQUE, { t with uniq := true }, some true) else (word, t, some false)
  | .release => (word - 1, { t with shared := t.shared - 1 }, none)
  | .releaseMut => (if word ≥ UNIQUE then word - UNIQUE else word, { t with uniq := false }, none)

def Sys.step (s : Sys) (i : Nat) (a : Act) : Sys × Option Bool :=
  match s.threads[i]? with
  | none => (s, none)
  | some t =>
    if enabled t a then
      let (w, t', r) := act s.word t a
      ({ word := w, threads := s.threads.set i t' }, r)
    else (s, none)

def Sys.init (n : Nat) : Sys := { word := 0, threads := List.replicate n {} }

/-! sequential reading (one caller at a time; used by the guard model of C05) -/

/-- `AtomicBorrow::borrow` run to completion -/
def seqBorrow (word : Nat) : Nat × Bool := if word ≥ UNIQUE then (word, false) else (word + 1, true)
/-- `AtomicBorrow::borrow_mut` -/
def seqBorrowMut (word : Nat) : Nat × Bool := if word = 0 then (UNIQUE, true) else (word, false)
/-- `AtomicBorrow::release` -/
def seqRelease (word : Nat) : Nat := word - 1
/-- `AtomicBorrow::release_mut` -/
def seqReleaseMut (word : Nat) : Nat := if word ≥ UNIQUE then word - UNIQUE else word

end Hecs.Borrow
