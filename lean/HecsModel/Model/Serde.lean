import HecsModel.Model.World
import HecsModel.Model.Query
/-
  Token-level model of `hecs::serialize::{row, column}` (C14, C15).

  hecs sees its input through serde visitors; the deserializer's input is therefore modelled as the
  tree a self-describing backend hands over (`Tree`), and the serializer's output as the same tree
  (announced lengths are checked separately by the recording serializer of the harness).  The user
  context is the one from the crate documentation: component ids are small numbers, `H` is the list of
  component types the context handles; values are serials.
-/
namespace Hecs.Serde
open Hecs

inductive Tree
  | num (n : Nat)
  | seq (xs : List Tree)
  | map (kvs : List (Tree × Tree))
  deriving Repr, Inhabited

def bitsOf (e : Entity) : Nat := e.gen * 4294967296 + e.id

/-- `Entity::deserialize`: a `u64` whose upper half is non-zero -/
def entityOfBits (n : Nat) : Option Entity :=
  if n ≥ 18446744073709551616 then none
  else if n / 4294967296 = 0 then none
  else some ⟨n % 4294967296, n / 4294967296⟩

/-! ### serialization -/

/-- `Archetype::satisfies::<Q>` for an optional filter -/
def satisfiesOpt (q : Option Q) (ts : List Nat) : Bool :=
  match q with
  | some q => (q.access ts).isSome
  | none => true

/-- live entities in storage order (archetype order, row order) -/
def rowsInOrder (w : World) : List (Entity × List Comp) :=
  w.archs.toList.flatMap (fun ar => ar.rows.toList.map (fun r => (w.entityOf r.id, r.vals)))

/-- `row::serialize` / `serialize_satisfying::<Q>`: one map entry per (satisfying) entity; the inner
map lists the handled components the entity has, in the context's order `H` -/
def serRow (w : World) (H : List Nat) (q : Option Q) : Tree :=
  .map ((rowsInOrder w).filterMap (fun p =>
    if satisfiesOpt q (p.2.map (·.1)) then
      some (.num (bitsOf p.1), .map (H.filterMap (fun t => (lookupComp t p.2).map (fun v => (Tree.num t, Tree.num v)))))
    else none))

/-- `column::serialize_satisfying::<Q>`: one 4-tuple per non-empty (satisfying) archetype -/
def serCol (w : World) (H : List Nat) (q : Option Q) : Tree :=
  .seq (w.archs.toList.filterMap (fun ar =>
    if ar.rows.size = 0 then none
    else if !satisfiesOpt q ar.types then none
    else
      let hs := H.filter (fun t => ar.types.contains t)
      some (.seq [
        .num ar.rows.size,
        .num hs.length,
        .seq (hs.map Tree.num),
        .seq (.seq (ar.rows.toList.map (fun r => Tree.num (bitsOf (w.entityOf r.id)))) ::
              hs.map (fun t => .seq (ar.rows.toList.map (fun r => Tree.num ((lookupComp t r.vals).getD 0)))))])))

/-! ### deserialization -/

def u32? (n : Nat) : Option Nat := if n < 4294967296 then some n else none

/-- what the harness universe's component types do with a decoded number: zero-sized types (7, 8, 9)
carry no value — whatever the input holds, the component is the unit value, rendered 0 — and the two
4-byte types (1, 2) keep the low 32 bits (their `Deserialize`, which is user-context code, narrows the
decoded `u64`) -/
def normVal (t v : Nat) : Nat :=
  if 7 ≤ t ∧ t ≤ 9 then 0 else if t = 1 ∨ t = 2 then v % 4294967296 else v

/-- the documented row context: keys are component ids in `H`; a repeated id replaces the value
(`EntityBuilder::add`), an unknown id is an error -/
def deEntityMap (H : List Nat) : List (Tree × Tree) → List Comp → Except String (List Comp)
  | [], acc => .ok acc
  | (.num t, .num v) :: rest, acc =>
    if H.contains t then
      deEntityMap H rest (if acc.any (·.1 == t) then acc.map (fun c => if c.1 == t then (t, normVal t v) else c)
        else acc ++ [(t, normVal t v)])
    else .error "unknown component id"
  | _, _ => .error "malformed component entry"

/-- `row::deserialize`: every entry is spawned at its handle (a repeated handle replaces the
earlier entity, as `spawn_at` does) -/
def deRowEntries (H : List Nat) : List (Tree × Tree) → World → Except String World
  | [], w => .ok w
  | (.num k, .map comps) :: rest, w =>
    match entityOfBits k with
    | none => .error "invalid entity bits"
    | some e =>
      match deEntityMap H comps [] with
      | .error m => .error m
      | .ok b => deRowEntries H rest (w.spawnAt e b).1
  | _, _ => .error "malformed row entry"

def deRow (H : List Nat) : Tree → Except String World
  | .map kvs => deRowEntries H kvs World.new
  | _ => .error "expected a map"

def natsOf : List Tree → Option (List Nat)
  | [] => some []
  | .num n :: r => (natsOf r).map (n :: ·)
  | _ => none

/-- one column: exactly `n` values -/
def deColumn (n : Nat) : Tree → Except String (List Nat)
  | .seq xs =>
    match natsOf xs with
    | none => .error "malformed component value"
    | some vs => if vs.length > n then .error "extra component" else if vs.length < n then .error "invalid length" else .ok vs
  | _ => .error "expected a column"

/-- the documented column context: one column per id in the id list, in order.  The column of an id
listed again is written through a re-acquired writer that resumes at the fill count reached before
(`n`, or the first column would have been refused): any value in it is one too many, none is fine. -/
def deColumns (n : Nat) : List Nat → List Tree → List (Nat × List Nat) → Except String (List (Nat × List Nat) × List Tree)
  | [], rest, acc => .ok (acc, rest)
  | _ :: _, [], _ => .error "end of components"
  | t :: ts, c :: cs, acc =>
    if acc.any (·.1 == t) then
      match deColumn 0 c with
      | .error m => .error m
      | .ok _ => deColumns n ts cs acc
    else
      match deColumn n c with
      | .error m => .error m
      | .ok vs => deColumns n ts cs (acc ++ [(t, vs)])

def dedupSorted : List Nat → List Nat
  | [] => []
  | [a] => [a]
  | a :: b :: r => if a = b then dedupSorted (b :: r) else a :: dedupSorted (b :: r)

/-- one archetype 4-tuple -/
def deArchetype (H : List Nat) (w : World) : Tree → Except String World
  | .seq [.num n0, .num k0, .seq ids, .seq comps] =>
    match u32? n0, u32? k0, natsOf ids with
    | some n, some _, some idl =>
      if !(idl.all H.contains) then .error "unknown component id"
      else
        match comps with
        | [] => .error "end of components"
        | .seq ents :: cols =>
          match natsOf ents with
          | none => .error "malformed entity id"
          | some bits =>
            match bits.mapM entityOfBits with
            | none => .error "invalid entity bits"
            | some es =>
              if es.length ≠ n then .error "invalid length"
              else if ¬ (es.map (·.id)).Nodup then .error "repeated entity ID"
              else
                match deColumns n idl cols [] with
                | .error m => .error m
                | .ok (filled, rest) =>
                  if !rest.isEmpty then .error "trailing elements"
                  else
                    let ts := dedupSorted (sortNat idl)
                    let rows := (List.range n).map (fun i =>
                      ts.map (fun t => (t, normVal t ((((filled.find? (·.1 == t)).map (·.2)).getD []).getD i 0))))
                    .ok (w.spawnColumnBatchAt es ts rows).1
        | _ => .error "expected the entity list"
    | _, _, _ => .error "malformed archetype header"
  | _ => .error "expected a 4-tuple"

def deColArchs (H : List Nat) : List Tree → World → Except String World
  | [], w => .ok w
  | t :: rest, w =>
    match deArchetype H w t with
    | .error m => .error m
    | .ok w' => deColArchs H rest w'

def deCol (H : List Nat) : Tree → Except String World
  | .seq xs => deColArchs H xs World.new
  | _ => .error "expected a sequence"

end Hecs.Serde
