import HecsModel.Model.Query
/-
  Model of `ChangeTracker<T>` (change_tracker.rs): the snapshot is kept as a hidden component
  `Previous<T>` inside the world, maintained as a side effect of reading the three reports and of
  dropping the `Changes` value.  The mechanism is transcribed (prepared queries over `T` and
  `Previous<T>`, `insert_one`, `remove_one`), not the intended meaning.
-/
namespace Hecs.Tracker
open Hecs

/-- which report is read, and whether the iterator is abandoned after the first item -/
inductive Read
  | added (partial_ : Bool)
  | changed (partial_ : Bool)
  | removed (partial_ : Bool)
  deriving Repr, DecidableEq, Inhabited

structure Reports where
  added : Option (List (Entity × Nat)) := none
  changed : Option (List (Entity × Nat × Nat)) := none   -- (entity, old, new)
  removed : Option (List (Entity × Nat)) := none
  deriving Repr, Inhabited

/-- per-`Changes` state: the flags and `added_components` -/
structure CSt where
  w : World
  addedFlag : Bool := false
  changedFlag : Bool := false
  removedFlag : Bool := false
  addedComponents : List (Entity × Nat) := []
  deriving Inhabited

def valOf : Item → Nat
  | .val _ v => v
  | _ => 0

/-- overwrite one component value of a located row in place (what `&mut Previous<T>` does) -/
def setVal (w : World) (e : Entity) (t v : Nat) : World :=
  match w.locOf e.id with
  | some (a, i) =>
    match w.rowAt a i with
    | some r => w.setRow a i { r with vals := World.putComp (t, v) r.vals }
    | none => w
  | none => w

/-- `Changes::added`: entities with `T` and without `Previous<T>`; remembers clones of the values -/
def doAdded (t p : Nat) (s : CSt) : CSt × List (Entity × Nat) :=
  let items := (s.w.queryIter (.without (.read t) (.read p))).map (fun x => (x.1, valOf x.2))
  ({ s with addedFlag := true, addedComponents := items }, items)

/-- `Changes::changed`: entities with both whose values differ; the snapshot is updated in place -/
def doChanged (t p : Nat) (s : CSt) : CSt × List (Entity × Nat × Nat) :=
  let both := s.w.queryIter (.pair (.read t) (.pair (.write p) .unit))
  let items := both.filterMap (fun x => match x.2 with
    | .pair (.val _ new) (.pair (.val _ old) _) => if new != old then some (x.1, old, new) else none
    | _ => none)
  let w' := items.foldl (fun w x => setVal w x.1 p x.2.2) s.w
  ({ s with w := w', changedFlag := true }, items)

/-- `Changes::removed`: entities with `Previous<T>` and without `T`; the snapshot component is
removed (`remove_one`, which flushes) and its value reported -/
def doRemoved (t p : Nat) (s : CSt) : CSt × List (Entity × Nat) :=
  let ents := (s.w.queryIter (.without (.with_ .unit (.read p)) (.read t))).map (·.1)
  let step (acc : World × List (Entity × Nat)) (e : Entity) : World × List (Entity × Nat) :=
    let (w', o) := acc.1.remove e [p]
    match o.res with
    | .vals [(_, v)] => (w', acc.2 ++ [(e, v)])
    | _ => (w', acc.2)
  let (w', items) := ents.foldl step (s.w, [])
  ({ s with w := w', removedFlag := true }, items)

def doRead (t p : Nat) (s : CSt) (rep : Reports) : Read → CSt × Reports
  | .added _ => let (s', l) := doAdded t p s; (s', { rep with added := some l })
  | .changed _ => let (s', l) := doChanged t p s; (s', { rep with changed := some l })
  | .removed _ => let (s', l) := doRemoved t p s; (s', { rep with removed := some l })

/-- `Changes::drop` -/
def doDrop (t p : Nat) (s : CSt) : World :=
  let s1 := if !s.addedFlag then (doAdded t p s).1 else s
  let w2 := s1.addedComponents.foldl (fun w x => (w.insert x.1 [(p, x.2)]).1) s1.w
  let s2 := { s1 with w := w2 }
  let s3 := if !s2.changedFlag then (doChanged t p s2).1 else s2
  let s4 := if !s3.removedFlag then (doRemoved t p s3).1 else s3
  s4.w

/-- one `tracker.track(&mut world)` with the given user behaviour -/
def track (t p : Nat) (w : World) (reads : List Read) : World × Reports :=
  let (s, rep) := reads.foldl (fun acc r => doRead t p acc.1 acc.2 r) (({ w := w } : CSt), ({} : Reports))
  (doDrop t p s, rep)

/-! ### the meaning: difference of snapshots (specification) -/

/-- the value of component `t` of every live entity, as `(entity, value)` -/
def snapshot (live : List (Entity × List Comp)) (t : Nat) : List (Entity × Nat) :=
  live.filterMap (fun x => (lookupComp t x.2).map (fun v => (x.1, v)))

def specAdded (prev cur : List (Entity × Nat)) : List (Entity × Nat) :=
  cur.filter (fun c => !prev.any (·.1 == c.1))

def specChanged (prev cur : List (Entity × Nat)) : List (Entity × Nat × Nat) :=
  cur.filterMap (fun c => match prev.find? (·.1 == c.1) with
    | some o => if o.2 != c.2 then some (c.1, o.2, c.2) else none
    | none => none)

/-- still-live entities that had one then and have none now -/
def specRemoved (prev cur : List (Entity × Nat)) (liveNow : List Entity) : List (Entity × Nat) :=
  prev.filter (fun o => liveNow.contains o.1 && !cur.any (·.1 == o.1))

end Hecs.Tracker
