import HecsModel.Model.Basic
/-
  Line-protocol helpers shared by all judge engines: a tiny s-expression-like syntax
  `[a,b,[c,d]]` for lists, `t:v` for components, `IDvGEN` for entity handles, `key=value` fields.
-/
namespace Hecs.Proto

inductive Sx
  | atom (s : String)
  | list (xs : List Sx)
  deriving Repr, Inhabited

/-- parse one value starting at `cs`; returns the value and the rest -/
partial def parseSx : List Char → Option (Sx × List Char)
  | '[' :: rest =>
    let rec items (cs : List Char) (acc : List Sx) : Option (List Sx × List Char) :=
      match cs with
      | ']' :: r => some (acc.reverse, r)
      | ',' :: r => items r acc
      | ';' :: r => items r acc
      | [] => none
      | _ =>
        match parseSx cs with
        | some (v, r) => items r (v :: acc)
        | none => none
    match items rest [] with
    | some (xs, r) => some (.list xs, r)
    | none => none
  | cs =>
    let tok := cs.takeWhile (fun c => c != ',' && c != ']' && c != '[' && c != ';')
    let r := cs.dropWhile (fun c => c != ',' && c != ']' && c != '[' && c != ';')
    some (.atom (String.ofList tok), r)

def parse (s : String) : Option Sx :=
  match parseSx s.toList with
  | some (v, []) => some v
  | _ => none

def Sx.nat? : Sx → Option Nat
  | .atom s => s.toNat?
  | _ => none

def Sx.int? : Sx → Option Int
  | .atom s => s.toInt?
  | _ => none

def Sx.comp? : Sx → Option Comp
  | .atom s =>
    match s.splitOn ":" with
    | [a, b] => do let x ← a.toNat?; let y ← b.toNat?; pure (x, y)
    | _ => none
  | _ => none

def Sx.entity? : Sx → Option Entity
  | .atom s =>
    match s.splitOn "v" with
    | [a, b] => do let x ← a.toNat?; let y ← b.toNat?; pure ⟨x, y⟩
    | _ => none
  | _ => none

def Sx.listOf? {α} (f : Sx → Option α) : Sx → Option (List α)
  | .list xs => xs.mapM f
  | _ => none

def nats? (s : String) : Option (List Nat) := (parse s).bind (Sx.listOf? Sx.nat?)
def comps? (s : String) : Option (List Comp) := (parse s).bind (Sx.listOf? Sx.comp?)
def compss? (s : String) : Option (List (List Comp)) := (parse s).bind (Sx.listOf? (Sx.listOf? Sx.comp?))
def entities? (s : String) : Option (List Entity) := (parse s).bind (Sx.listOf? Sx.entity?)
def entity? (s : String) : Option Entity := (Sx.atom s).entity?

/-- fields `k=v` of a tokenised line -/
def field (toks : List String) (k : String) : Option String :=
  toks.findSome? (fun t => if t.startsWith (k ++ "=") then some ((t.drop (k.length + 1)).toString) else none)

/-! printing (canonical: no spaces) -/

def showList {α} (f : α → String) (xs : List α) : String := "[" ++ ",".intercalate (xs.map f) ++ "]"
def showComp (c : Comp) : String := s!"{c.1}:{c.2}"
def showEntity (e : Entity) : String := s!"{e.id}v{e.gen}"
def showComps (cs : List Comp) : String := showList showComp cs
def showNats (ns : List Nat) : String := showList toString ns
def showEntities (es : List Entity) : String := showList showEntity es

def insertBy {α} (lt : α → α → Bool) (x : α) : List α → List α
  | [] => [x]
  | y :: ys => if lt y x then y :: insertBy lt x ys else x :: y :: ys

def sortBy {α} (lt : α → α → Bool) (xs : List α) : List α := xs.foldr (insertBy lt) []

def compLt (a b : Comp) : Bool := a.1 < b.1 || (a.1 == b.1 && a.2 < b.2)
def sortComps (cs : List Comp) : List Comp := sortBy compLt cs
def entLt (a b : Entity) : Bool := a.id < b.id || (a.id == b.id && a.gen < b.gen)

def natsLt : List Nat → List Nat → Bool
  | [], [] => false
  | [], _ => true
  | _, [] => false
  | a :: as, b :: bs => a < b || (a == b && natsLt as bs)

end Hecs.Proto
