import HecsModel.Model.Bits
import HecsModel.Model.Proto
/-
  Judge for engine `bits` (C19): stateless; renders the model's answer for each request.
-/
namespace Hecs.BitsJudge
open Hecs.Bits Hecs.Proto

def showPair (p : BitVec 32 × BitVec 32) : String := s!"id={p.1.toNat} gen={p.2.toNat}"

def stepLine (lhs : String) : Except String String :=
  let toks := (lhs.trimAscii.toString.splitOn " ").filter (· ≠ "")
  match toks with
  | "frombits" :: args =>
    match (field args "bits").bind String.toNat? with
    | some b =>
      match fromBits (BitVec.ofNat 64 b) with
      | none => .ok "none"
      | some p => .ok (showPair p ++ s!" tobits={(toBits p.1 p.2).toNat}")
    | none => .error "bad frombits"
  | "cmp" :: args =>
    match (field args "a").bind String.toNat?, (field args "b").bind String.toNat? with
    | some a, some b =>
      match fromBits (BitVec.ofNat 64 a), fromBits (BitVec.ofNat 64 b) with
      | some p, some q =>
        let eq := if p = q then 1 else 0
        .ok s!"eq={eq} ord={lexCmp p q} hasheq={eq}"
      | _, _ => .ok "invalid"
    | _, _ => .error "bad cmp"
  | "serde" :: args =>
    -- the serde form of a handle is its bit pattern; a pattern is accepted iff from_bits accepts it
    match (field args "bits").bind String.toNat? with
    | some b =>
      match fromBits (BitVec.ofNat 64 b) with
      | none => .ok "de=err"
      | some p => .ok s!"de={(toBits p.1 p.2).toNat} ser={(toBits p.1 p.2).toNat}"
    | none => .error "bad serde"
  | _ => .error s!"cannot parse: {lhs}"

end Hecs.BitsJudge
