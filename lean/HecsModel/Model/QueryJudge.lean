import HecsModel.Model.Query
import HecsModel.Model.Guards
import HecsModel.Model.Proto
import HecsModel.Spec.World
/-
  Judge support for query lines (engine world/query):
    query W q=<shape> path=<iter|mut|prepared|prepared_mut|view|batched|one|one_mut|sat|eref> [h=..] [hs=[..]] [n=..]
-/
namespace Hecs.QueryJudge
open Hecs Hecs.Proto

/-! shape parser: `read(0)`, `pair(read(0),unit)`, … -/

partial def parseQ : List Char → Option (Q × List Char)
  | cs =>
    let name := String.ofList (cs.takeWhile Char.isAlpha)
    let rest := cs.dropWhile Char.isAlpha
    let nat (cs : List Char) : Option (Nat × List Char) :=
      let d := cs.takeWhile Char.isDigit
      if d.isEmpty then none else (String.ofList d).toNat?.map (·, cs.dropWhile Char.isDigit)
    let arg1 (k : Q → Q) : Option (Q × List Char) :=
      match rest with
      | '(' :: r => match parseQ r with
        | some (q, ')' :: r') => some (k q, r')
        | _ => none
      | _ => none
    let arg2 (k : Q → Q → Q) : Option (Q × List Char) :=
      match rest with
      | '(' :: r => match parseQ r with
        | some (a, ',' :: r') => match parseQ r' with
          | some (b, ')' :: r'') => some (k a b, r'')
          | _ => none
        | _ => none
      | _ => none
    match name with
    | "read" => match rest with
      | '(' :: r => match nat r with
        | some (t, ')' :: r') => some (.read t, r')
        | _ => none
      | _ => none
    | "write" => match rest with
      | '(' :: r => match nat r with
        | some (t, ')' :: r') => some (.write t, r')
        | _ => none
      | _ => none
    | "opt" => arg1 .opt
    | "satisfies" => arg1 .satisfies
    | "or" => arg2 .or
    | "with" => arg2 .with_
    | "without" => arg2 .without
    | "pair" => arg2 .pair
    | "unit" => some (.unit, rest)
    | _ => none

def parseShape (s : String) : Option Q :=
  match parseQ s.toList with
  | some (q, []) => some q
  | _ => none

/-! rendering -/

def showItem : Item → String
  | .val t v => s!"{t}:{v}"
  | .none => "None"
  | .some i => "Some(" ++ showItem i ++ ")"
  | .left i => "L(" ++ showItem i ++ ")"
  | .right i => "R(" ++ showItem i ++ ")"
  | .both l r => "B(" ++ showItem l ++ "," ++ showItem r ++ ")"
  | .bool b => if b then "true" else "false"
  | .unit => "()"
  | .pair a b => "(" ++ showItem a ++ "," ++ showItem b ++ ")"

def showPairs (l : List (Entity × Item)) : String :=
  let l := sortBy (fun a b => entLt a.1 b.1) l
  "[" ++ ";".intercalate (l.map (fun p => showEntity p.1 ++ "=" ++ showItem p.2)) ++ "]"

def showOptItem : Option Item → String
  | none => "-"
  | some i => showItem i

/-! ### queries that alias a unique borrow within themselves (C05)

`assert_borrow::<Q>()` rejects them wherever the borrow is not checked dynamically (`query_mut`,
`view_mut`, `query_one(_mut)`, `query_many_mut`, `EntityRef::query`, `PreparedQuery::query_mut` /
`view_mut`); the dynamically checked paths (`query`, `view`, `PreparedQuery::query`) refuse them when
the conflicting borrows are actually attempted, i.e. on a non-empty archetype the query prepares on. -/

/-- paths that run `assert_borrow` -/
def assertingPaths : List String :=
  ["mut", "mut_batched", "view_mut", "many_v", "one", "one_mut", "eref", "many", "many_w", "prepared_mut",
   "prepared_view", "many_pv"]

/-- paths that borrow dynamically -/
def dynamicPaths : List String := ["iter", "batched", "view", "many_vb", "prepared"]

/-- two borrows of one list touch the same type and one of them is unique -/
def selfConflict (l : List (Nat × Bool)) : Bool :=
  l.zipIdx.any (fun p => l.zipIdx.any (fun r => p.2 != r.2 && p.1.1 == r.1.1 && (p.1.2 || r.1.2)))

/-- the dynamic check fires: some non-empty archetype the query prepares on makes it borrow one column twice,
once uniquely -/
def dynConflict (w : World) (q : Q) : Bool :=
  w.archs.toList.any (fun ar => ar.rows.size > 0 && q.prepares ar.types && selfConflict (q.borrowList ar.types))

/-- `some answer` when the query aliases itself and that decides the outcome on this path -/
def aliasAnswer (q : Q) (path : String) (exists_ : Option Bool) (dyn : Bool) : Option String :=
  if q.assertBorrowOk then none
  else if path == "one" || path == "eref" then
    -- the handle is looked up first
    some (if exists_ == some false then "nosuch" else "panic")
  else if assertingPaths.contains path then some "panic"
  else if dynamicPaths.contains path && dyn then some "panic"
  else none

/-- the model's answer for a query line -/
def answer (w : World) (q : Q) (path : String) (args : List String) : Except String String :=
  match aliasAnswer q path (((field args "h").bind entity?).map (fun e => (w.get e).isSome)) (dynConflict w q) with
  | some a => .ok a
  | none => answerPlain w q path args
where answerPlain (w : World) (q : Q) (path : String) (args : List String) : Except String String :=
  let hs := ((field args "hs").bind entities?).getD []
  let h := (field args "h").bind entity?
  match path with
  | "iter" | "mut" => .ok s!"len={w.queryLen q} items={showPairs (w.queryIter q)}"
  | "prepared" | "prepared_mut" => .ok s!"len={w.preparedLen q} items={showPairs (w.queryIter q)}"
  | "view" | "view_mut" | "prepared_view" =>
    .ok (s!"items={showPairs (w.queryIter q)} g=" ++ showList (fun e => showOptItem (w.viewGet q e)) hs)
  | "batched" | "mut_batched" =>
    match (field args "n").bind String.toNat? with
    | some n => .ok ("batches=[" ++ ";".intercalate ((w.queryBatched q n).map showPairs) ++ "]")
    | none => .error "batched needs n"
  | "one" | "one_mut" | "eref" | "many" =>
    match h with
    | some e => .ok (match w.queryOne q e with
        | none => "nosuch"
        | some none => "unsat"
        | some (some i) => "item=" ++ showItem i)
    | none => .error "needs h"
  | "many_w" | "many_v" | "many_vb" | "many_pv" =>
    -- `query_many_mut` / `get_many_mut`: a handle listed twice is refused by panicking
    match (field args "es").bind entities? with
    | some es =>
      if es.eraseDups.length != es.length then .ok "panic"
      else if path == "many_w" then
        .ok ("r=" ++ showList (fun e => match w.queryOne q e with
          | none => "nosuch"
          | some none => "unsat"
          | some (some i) => "item=" ++ showItem i) es)
      else .ok ("g=" ++ showList (fun e => showOptItem (w.viewGet q e)) es)
    | none => .error "many_* needs es"
  | "arch" =>
    -- `Archetype::access::<Q>()` of every archetype (hidden snapshot types are rendered 110 by the harness)
    let accS (ts : List Nat) : String := match q.access ts with
      | none => "x"
      | some a => toString a
    let l := sortBy (fun a b => natsLt a b) (w.archs.toList.map (fun ar => sortNat ar.types))
    .ok ("aa=[" ++ ";".intercalate (l.map (fun ts => showNats ts ++ ":" ++ accS ts)) ++ "]")
  | "sat" =>
    match h with
    | some e => .ok (match w.satisfiesQ q e with
        | none => "nosuch"
        | some b => if b then "true" else "false")
    | none => .error "needs h"
  | p => .error s!"unknown path {p}"

/-! specification side: what the abstract map says the query must yield -/

/-- item computed from the meaning of the query (`sat`), independent of `prepares`/`access` -/
def specItem : Q → List Comp → Item
  | .read t, vals => .val t ((lookupComp t vals).getD 0)
  | .write t, vals => .val t ((lookupComp t vals).getD 0)
  | .opt q, vals => if q.sat (vals.map (·.1)) then .some (specItem q vals) else .none
  | .or l r, vals =>
    match l.sat (vals.map (·.1)), r.sat (vals.map (·.1)) with
    | true, true => .both (specItem l vals) (specItem r vals)
    | true, false => .left (specItem l vals)
    | false, true => .right (specItem r vals)
    | false, false => .none
  | .with_ q _, vals => specItem q vals
  | .without q _, vals => specItem q vals
  | .satisfies q, vals => .bool (q.sat (vals.map (·.1)))
  | .unit, _ => .unit
  | .pair q rest, vals => .pair (specItem q vals) (specItem rest vals)

open Hecs.Spec in
def specMatching (s : SpecW) (q : Q) : List (Entity × Item) :=
  (s.live.filter (fun p => q.sat (p.2.map (·.1)))).map (fun p => (p.1, specItem q p.2))

/-- (S) for a query line: the implementation's answer against the abstract map -/
def specCheck (s : Spec.SpecW) (q : Q) (path : String) (args : List String) (rhs : String) : Except String Unit :=
  -- C05: a query that aliases a unique borrow within itself is always rejected
  let dyn := s.live.any (fun p => q.sat (p.2.map (·.1)) && selfConflict (q.borrowList (sortNat (p.2.map (·.1)))))
  match aliasAnswer q path (((field args "h").bind entity?).map (fun e => s.contains e)) dyn with
  | some a =>
    if rhs.trimAscii.toString == a then .ok ()
    else .error s!"a query aliasing a unique borrow within itself: expected {a} on path {path}"
  | none =>
  if rhs.trimAscii.toString == "panic" then .error "operation panicked inside hecs" else
  let want := specMatching s q
  let hs := ((field args "hs").bind entities?).getD []
  let h := (field args "h").bind entity?
  let toks := (rhs.trimAscii.toString.splitOn " ").filter (· ≠ "")
  let one (e : Entity) : String :=
    if !(s.contains e) then "nosuch"
    else match s.lookup e with
      | some cs => if q.sat (cs.map (·.1)) then "item=" ++ showItem (specItem q cs) else "unsat"
      | none => if q.sat [] then "item=" ++ showItem (specItem q []) else "unsat"
  match path with
  | "iter" | "mut" | "prepared" | "prepared_mut" =>
    if field toks "items" != some (showPairs want) then .error s!"query must yield exactly the matching entities once: spec={showPairs want}"
    else if field toks "len" != some (toString want.length) then .error s!"reported length differs from the number of items yielded ({want.length})"
    else .ok ()
  | "view" | "view_mut" | "prepared_view" =>
    let g := showList (fun e => match s.lookup e with
      | some cs => if q.sat (cs.map (·.1)) then showItem (specItem q cs) else "-"
      | none => "-") hs
    if field toks "items" != some (showPairs want) then .error s!"view iteration must yield exactly the matching entities once: spec={showPairs want}"
    else if field toks "g" != some g then .error s!"view random access differs from the abstract map: spec g={g}"
    else .ok ()
  | "many_w" | "many_v" | "many_vb" | "many_pv" =>
    match (field args "es").bind entities? with
    | some es =>
      let r := rhs.trimAscii.toString
      if es.eraseDups.length != es.length then
        if r == "panic" then .ok ()
        else .error "simultaneous access to one entity through two array slots was granted (C05: it must panic)"
      else if path == "many_w" then
        let w := "r=" ++ showList one es
        if r == w then .ok () else .error s!"query_many_mut differs from the abstract map: spec={w}"
      else
        let g := "g=" ++ showList (fun e => match s.lookup e with
          | some cs => if q.sat (cs.map (·.1)) then showItem (specItem q cs) else "-"
          | none => "-") es
        if r == g then .ok () else .error s!"get_many_mut differs from the abstract map: spec={g}"
    | none => .error "many_* needs es"
  | "batched" | "mut_batched" =>
    match (field args "n").bind String.toNat?, field toks "batches" with
    | some n, some b =>
      -- batches are `[..];[..]`: every batch non-empty and at most n long; their union is the matching set
      let inner := ((b.drop 1).toString.dropEnd 1).toString
      let bs := if inner == "" then [] else (inner.splitOn "];[").map (fun x => ((x.replace "[" "").replace "]" ""))
      let sizes := bs.map (fun x => if x == "" then 0 else (x.splitOn ";").length)
      let all := (bs.flatMap (fun x => if x == "" then [] else x.splitOn ";"))
      let wantStrs := (sortBy (fun a b => entLt a.1 b.1) want).map (fun p => showEntity p.1 ++ "=" ++ showItem p.2)
      if sizes.any (fun k => k == 0 || k > n) then .error "a batch is empty or longer than batch_size"
      else if sortBy (fun a b => a < b) all != sortBy (fun a b => a < b) wantStrs then
        .error "batches do not concatenate to the matching entities"
      else .ok ()
    | _, _ => .error "bad batched line"
  | "one" | "one_mut" | "eref" | "many" =>
    match h with
    | some e => if rhs.trimAscii.toString == one e then .ok () else .error s!"single-entity query differs from the abstract map: spec={one e}"
    | none => .error "needs h"
  | "arch" =>
    -- every reported entry `types:access` must be what the query means for that component set
    match field toks "aa" with
    | some aa =>
      let inner := ((aa.drop 1).toString.dropEnd 1).toString
      let entries := if inner == "" then [] else inner.splitOn ";"
      let bad := entries.find? (fun en => match en.splitOn ":" with
        | [tsS, a] => match nats? tsS with
          | some ts => a != (match q.access (ts.filter (· < 100)) with | none => "x" | some k => toString k)
          | none => true
        | _ => true)
      match bad with
      | some en => .error s!"Archetype::access/satisfies/has_dynamic disagree with the query's meaning on {en}"
      | none => .ok ()
    | none => .error "arch path needs aa="
  | "sat" =>
    match h with
    | some e =>
      let w := if !(s.contains e) then "nosuch" else
        (if q.sat (((s.lookup e).getD []).map (·.1)) then "true" else "false")
      if rhs.trimAscii.toString == w then .ok () else .error s!"satisfies differs from the abstract map: spec={w}"
    | none => .error "needs h"
  | p => .error s!"unknown path {p}"

end Hecs.QueryJudge
