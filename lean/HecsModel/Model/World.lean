import HecsModel.Model.Basic
/-
  Executable model of `hecs::World` (entities.rs, archetype.rs, world.rs, take.rs, the world side of
  batch.rs).  Each function names the Rust function it transcribes.  `&mut self` functions return
  the new state; panics/out-of-contract calls are explicit results.

  Deliberate abstractions (DESIGN §3.1, §8): rows are records instead of parallel byte columns;
  hash maps are searched by key; the three memo tables of `World` are modelled separately in
  `Model/Cache.lean` and proved transparent (C10).
-/
namespace Hecs

structure Row where
  id : Nat
  vals : List Comp
  deriving DecidableEq, Repr, Inhabited

structure Arch where
  types : List Nat
  rows : Array Row
  deriving Repr, Inhabited

/-- `Entities` + `ArchetypeSet.archetypes`, flattened. -/
structure World where
  metas : Array Meta
  pending : Array Nat
  cursor : Int
  len : Nat
  archs : Array Arch
  deriving Repr, Inhabited

/-- `World::new` -/
def World.new : World :=
  { metas := #[], pending := #[], cursor := 0, len := 0, archs := #[⟨[], #[]⟩] }

inductive Res
  | ok | nosuch | missing | panic
  | ent (e : Entity)
  | ents (es : List Entity)
  | vals (vs : List Comp)
  deriving DecidableEq, Repr, Inhabited

structure Out where
  res : Res
  dropped : List Comp := []
  deriving Repr, Inhabited

namespace World

/-! ### Entities -/

def genOf (w : World) (id : Nat) : Nat := (w.metas[id]?.map (·.gen)).getD 1

def locOf (w : World) (id : Nat) : Option (Nat × Nat) := (w.metas[id]?).bind (·.loc)

def setLoc (w : World) (id : Nat) (l : Option (Nat × Nat)) : World :=
  { w with metas := w.metas.modify id (fun m => { m with loc := l }) }

/-- `metas[moved].location.index = index` (archetype field untouched) -/
def setLocIndex (w : World) (id : Nat) (i : Nat) : World :=
  { w with metas := w.metas.modify id (fun m => { m with loc := m.loc.map (fun l => (l.1, i)) }) }

def setGen (w : World) (id : Nat) (g : Nat) : World :=
  { w with metas := w.metas.modify id (fun m => { m with gen := g }) }

/-- the reserved-but-unflushed part of `pending` -/
def reservedPending (w : World) : List Nat := w.pending.toList.drop w.cursor.toNat

/-- `Entities::contains` -/
def contains (w : World) (e : Entity) : Bool :=
  match w.metas[e.id]? with
  | some m => m.gen == e.gen && (m.loc.isSome || (w.reservedPending).contains e.id)
  | none => e.gen == 1 && w.cursor < 0 && (e.id : Int) < (-w.cursor) + w.metas.size

/-- `Entities::get`: `none` = NoSuchEntity; `some none` = the placeholder location returned for a
reserved entity (archetype 0, no row).  Models the *repaired* behaviour (finding F11): recycled
reserved ids are answered like fresh reserved ids, as the function's doc comment says. -/
def get (w : World) (e : Entity) : Option (Option (Nat × Nat)) :=
  match w.metas[e.id]? with
  | none =>
    if e.gen == 1 && w.cursor < 0 && (e.id : Int) < (-w.cursor) + w.metas.size then some none else none
  | some m =>
    if m.gen != e.gen then none
    else match m.loc with
      | some l => some (some l)
      | none => if (w.reservedPending).contains e.id then some none else none

/-- `Entities::get_mut` -/
def getMut (w : World) (e : Entity) : Option (Nat × Nat) :=
  match w.metas[e.id]? with
  | none => none
  | some m => if m.gen == e.gen then m.loc else none

/-- `Entities::alloc` (world is flushed) -/
def alloc (w : World) : World × Entity :=
  if w.pending.size = 0 then
    let id := w.metas.size
    ({ w with metas := w.metas.push Meta.empty, len := w.len + 1 }, ⟨id, 1⟩)
  else
    let id := w.pending.back!
    let p := w.pending.pop
    ({ w with pending := p, cursor := p.size, len := w.len + 1 }, ⟨id, w.genOf id⟩)

/-- `Entities::free` -/
def free (w : World) (e : Entity) : Option (World × (Nat × Nat)) :=
  match w.metas[e.id]? with
  | none => none
  | some m =>
    if m.gen != e.gen then none
    else match m.loc with
      | none => none
      | some l =>
        let p := w.pending.push e.id
        some ({ w with metas := w.metas.set! e.id ⟨m.gen + 1, none⟩, pending := p,
                       cursor := p.size, len := w.len - 1 }, l)

/-- `Entities::alloc_at` (world is flushed); returns the location of the previous occupant -/
def allocAt (w : World) (e : Entity) : World × Option (Nat × Nat) :=
  if w.metas.size ≤ e.id then
    let p := w.pending ++ (List.range' w.metas.size (e.id - w.metas.size)).toArray
    let m := w.metas ++ Array.replicate (e.id + 1 - w.metas.size) Meta.empty
    (({ w with pending := p, cursor := p.size, metas := m, len := w.len + 1 } : World).setGen e.id e.gen, none)
  else
    match w.pending.idxOf? e.id with
    | some k =>
      -- `swap_remove(k)`
      let p := (w.pending.set! k w.pending.back!).pop
      (({ w with pending := p, cursor := p.size, len := w.len + 1 } : World).setGen e.id e.gen, none)
    | none =>
      let old := w.locOf e.id
      ((w.setLoc e.id none).setGen e.id e.gen, old)

/-- `Entities::reserve_entity` -/
def reserveEntity (w : World) : World × Entity :=
  let n := w.cursor
  let w' := { w with cursor := w.cursor - 1 }
  if n > 0 then
    let id := w.pending[(n - 1).toNat]!
    (w', ⟨id, w.genOf id⟩)
  else
    (w', ⟨(w.metas.size + (-n)).toNat, 1⟩)

/-- `Entities::reserve_entities(count)` with the iterator fully consumed -/
def reserveEntities (w : World) (count : Nat) : World × List Entity :=
  let rangeEnd := w.cursor
  let rangeStart := rangeEnd - count
  let w' := { w with cursor := rangeStart }
  let lo := rangeStart.toNat   -- max 0
  let hi := rangeEnd.toNat
  let fromFree := ((w.pending.toList.drop lo).take (hi - lo)).map (fun id => (⟨id, w.genOf id⟩ : Entity))
  let fresh :=
    if rangeStart ≥ 0 then []
    else
      let base : Int := w.metas.size
      let newEnd := (base - rangeStart).toNat
      let newStart := (base - min rangeEnd 0).toNat
      (List.range' newStart (newEnd - newStart)).map (fun id => (⟨id, 1⟩ : Entity))
  (w', fromFree ++ fresh)

/-- ids are `u32`: the reservation calls refuse ("too many entities") to go past them -/
def idLimit : Nat := 4294967296

/-- `Entities::reserve_entity` including its `u32::try_from(..).expect("too many entities")`:
`none` = the call panics -/
def reserveEntityChecked (w : World) : Option (World × Entity) :=
  if (w.reserveEntity).2.id < idLimit then some w.reserveEntity else none

/-- `Entities::reserve_entities(count)` including the same check on the end of the range of new ids,
with the returned iterator advanced `k` times only (the ids are claimed by the call, not by iterating) -/
def reserveEntitiesPrefix (w : World) (count k : Nat) : Option (World × List Entity) :=
  let rangeEnd := w.cursor
  let rangeStart := rangeEnd - count
  let w' := { w with cursor := rangeStart }
  let lo := rangeStart.toNat
  let hi := rangeEnd.toNat
  let fromFree := (((w.pending.toList.drop lo).take (hi - lo)).take k).map (fun id => (⟨id, w.genOf id⟩ : Entity))
  if rangeStart ≥ 0 then some (w', fromFree)
  else
    let base : Int := w.metas.size
    let newEnd := (base - rangeStart).toNat
    let newStart := (base - min rangeEnd 0).toNat
    if newEnd < idLimit then
      some (w', (fromFree ++ (List.range' newStart (min k (newEnd - newStart))).map (fun id => (⟨id, 1⟩ : Entity))).take k)
    else none

/-! ### Archetypes -/

def findArch (archs : Array Arch) (ts : List Nat) : Option Nat :=
  archs.findIdx? (fun a => a.types == ts)

/-- `ArchetypeSet::get`: find the archetype with exactly these (sorted) types or create it -/
def getArch (w : World) (ts : List Nat) : World × Nat :=
  match findArch w.archs ts with
  | some i => (w, i)
  | none => ({ w with archs := w.archs.push ⟨ts, #[]⟩ }, w.archs.size)

def rowsOf (w : World) (a : Nat) : Array Row := (w.archs[a]?.map (·.rows)).getD #[]

def typesOf (w : World) (a : Nat) : List Nat := (w.archs[a]?.map (·.types)).getD []

def rowAt (w : World) (a i : Nat) : Option Row := (w.archs[a]?).bind (·.rows[i]?)

/-- `Archetype::allocate` + `put_dynamic` of every column; returns the row index -/
def pushRow (w : World) (a : Nat) (r : Row) : World × Nat :=
  let i := (w.rowsOf a).size
  ({ w with archs := w.archs.modify a (fun ar => { ar with rows := ar.rows.push r }) }, i)

def setRow (w : World) (a i : Nat) (r : Row) : World :=
  { w with archs := w.archs.modify a (fun ar => { ar with rows := ar.rows.set! i r }) }

/-- `Archetype::remove` / `move_to` followed by the caller's fix-up
`metas[moved].location.index = index` -/
def removeRow (w : World) (a i : Nat) : World :=
  let rows := w.rowsOf a
  let last := rows.size - 1
  if i = last then
    { w with archs := w.archs.modify a (fun ar => { ar with rows := ar.rows.pop }) }
  else
    let moved := rows[last]!
    let w' := { w with archs := w.archs.modify a (fun ar => { ar with rows := (ar.rows.set! i moved).pop }) }
    w'.setLocIndex moved.id i

/-! ### flush -/

/-- one step of the first loop of `Entities::flush`: a brand-new id gets a row in archetype 0 -/
def flushFreshOne (w : World) : World :=
  let id := w.metas.size
  let (w1, i) := w.pushRow 0 ⟨id, []⟩
  { w1 with metas := w1.metas.push ⟨1, some (0, i)⟩ }

def flushFresh : Nat → World → World
  | 0, w => w
  | n + 1, w => flushFresh n w.flushFreshOne

/-- one step of the second loop: a recycled id gets a row in archetype 0 -/
def flushPendingOne (w : World) (id : Nat) : World :=
  let (w1, i) := w.pushRow 0 ⟨id, []⟩
  w1.setLoc id (some (0, i))

def flushPending : List Nat → World → World
  | [], w => w
  | id :: ids, w => flushPending ids (w.flushPendingOne id)

/-- `World::flush` / `Entities::flush` -/
def flush (w : World) : World :=
  let (w1, c) :=
    if w.cursor ≥ 0 then (w, w.cursor.toNat)
    else
      let n := (-w.cursor).toNat
      let w' := flushFresh n w
      ({ w' with len := w'.len + n, cursor := 0 }, 0)
  let tail := w1.pending.toList.drop c
  let w2 := flushPending tail w1
  { w2 with len := w2.len + tail.length, pending := w2.pending.extract 0 c }

/-! ### spawn family -/

/-- `World::spawn_inner` -/
def spawnInner (w : World) (e : Entity) (b : List Comp) : World :=
  let cb := canon b
  let (w1, a) := w.getArch (cb.map (·.1))
  let (w2, i) := w1.pushRow a ⟨e.id, cb⟩
  w2.setLoc e.id (some (a, i))

/-- `World::spawn` -/
def spawn (w : World) (b : List Comp) : World × Out :=
  let w0 := w.flush
  let (w1, e) := w0.alloc
  (w1.spawnInner e b, { res := .ent e })

/-- drop the occupant's row after `alloc_at` returned its location -/
def evict (w : World) (old : Option (Nat × Nat)) : World × List Comp :=
  match old with
  | none => (w, [])
  | some (a, i) =>
    let d := ((w.rowAt a i).map (·.vals)).getD []
    (w.removeRow a i, d)

/-- `World::spawn_at` -/
def spawnAt (w : World) (h : Entity) (b : List Comp) : World × Out :=
  let w0 := w.flush
  let (w1, old) := w0.allocAt h
  let (w2, d) := w1.evict old
  (w2.spawnInner h b, { res := .ok, dropped := d })

/-- `World::reserve::<T>` / `reserve_inner` (capacity is not modelled) -/
def reserve (w : World) (ts : List Nat) : World × Nat :=
  (w.flush).getArch (sortNat ts)

def spawnBatchRows (a : Nat) : List (List Comp) → World → List Entity → World × List Entity
  | [], w, acc => (w, acc.reverse)
  | b :: bs, w, acc =>
    let (w1, e) := w.alloc
    let (w2, i) := w1.pushRow a ⟨e.id, canon b⟩
    spawnBatchRows a bs (w2.setLoc e.id (some (a, i))) (e :: acc)

/-- `World::spawn_batch` with the returned iterator run to completion (its `Drop` does that) -/
def spawnBatch (w : World) (ts : List Nat) (rows : List (List Comp)) : World × Out :=
  let (w1, a) := w.reserve ts
  let (w2, es) := spawnBatchRows a rows w1 []
  (w2, { res := .ents es })

/-- `ArchetypeSet::insert_batch`: returns archetype index and base row -/
def insertBatch (w : World) (ts : List Nat) (rows : List (List Comp)) : World × Nat × Nat :=
  match findArch w.archs ts with
  | some a =>
    let base := (w.rowsOf a).size
    let extra : Array Row := (rows.map (fun v => (⟨0, v⟩ : Row))).toArray
    ({ w with archs := w.archs.modify a (fun ar => { ar with rows := ar.rows ++ extra }) }, a, base)
  | none =>
    ({ w with archs := w.archs.push ⟨ts, (rows.map (fun v => (⟨0, v⟩ : Row))).toArray⟩ }, w.archs.size, 0)

def setRowId (w : World) (a i id : Nat) : World :=
  { w with archs := w.archs.modify a (fun ar => { ar with rows := ar.rows.modify i (fun r => { r with id := id }) }) }

/-- give row `base + k` of archetype `a` to `ids[k]` -/
def assignRows (a : Nat) : List Nat → Nat → World → World
  | [], _, w => w
  | id :: ids, i, w => assignRows a ids (i + 1) ((w.setRowId a i id).setLoc id (some (a, i)))

/-- `World::spawn_column_batch` with the returned iterator dropped (`finish_alloc_many`);
`ts` sorted and deduplicated, every row canonical.  Models the *repaired* `finish_alloc_many`
(finding F1): `free_cursor` follows the truncated free list. -/
def spawnColumnBatch (w : World) (ts : List Nat) (rows : List (List Comp)) : World × Out :=
  let w0 := w.flush
  let n := rows.length
  let (w1, a, base) := w0.insertBatch ts rows
  -- alloc_many
  let pendingEnd := w1.pending.size - n
  let recycled := w1.pending.toList.drop pendingEnd
  let freshN := n - w1.pending.size
  let fresh := List.range' w1.metas.size freshN
  let w2 := { w1 with metas := w1.metas ++ Array.replicate freshN Meta.empty, len := w1.len + n }
  let ids := recycled ++ fresh
  let w3 := assignRows a ids base w2
  -- finish_alloc_many
  let w4 := { w3 with pending := w3.pending.extract 0 pendingEnd, cursor := pendingEnd }
  (w4, { res := .ents (ids.map (fun id => ⟨id, w4.genOf id⟩)) })

def allocAtAll : List Entity → World → List Comp → World × List Comp
  | [], w, d => (w, d)
  | h :: hs, w, d =>
    let (w1, old) := w.allocAt h
    let (w2, d') := w1.evict old
    allocAtAll hs w2 (d ++ d')

/-- `World::spawn_column_batch_at`.  Models the *repaired* behaviour: reservations are flushed
first (F12) and repeated handles are rejected up front (F13). -/
def spawnColumnBatchAt (w : World) (hs : List Entity) (ts : List Nat) (rows : List (List Comp)) :
    World × Out :=
  if hs.length ≠ rows.length ∨ ¬ (hs.map (·.id)).Nodup then
    (w, { res := .panic, dropped := rows.flatten })
  else
    let w0 := w.flush
    let (w1, d) := allocAtAll hs w0 []
    let (w2, a, base) := w1.insertBatch ts rows
    (assignRows a (hs.map (·.id)) base w2, { res := .ok, dropped := d })

/-! ### despawn / take / clear -/

/-- `World::despawn` -/
def despawn (w : World) (e : Entity) : World × Out :=
  let w0 := w.flush
  match w0.free e with
  | none => (w0, { res := .nosuch })
  | some (w1, (a, i)) =>
    let d := ((w1.rowAt a i).map (·.vals)).getD []
    (w1.removeRow a i, { res := .ok, dropped := d })

/-- `World::take` with the `TakenEntity` consumed or dropped: the values leave the world.  The
caller decides whether they are dropped or spawned elsewhere. -/
def take (w : World) (e : Entity) : World × Option (List Comp) :=
  let w0 := w.flush
  match w0.get e with
  | some (some (a, i)) =>
    let d := ((w0.rowAt a i).map (·.vals)).getD []
    let w1 := w0.removeRow a i
    match w1.free e with
    | some (w2, _) => (w2, some d)
    | none => (w1, some d)
  | _ => (w0, none)

/-- `World::clear` -/
def clear (w : World) : World × Out :=
  let d := w.archs.toList.flatMap (fun ar => ar.rows.toList.flatMap (·.vals))
  ({ w with metas := #[], pending := #[], cursor := 0, len := 0,
            archs := w.archs.map (fun ar => { ar with rows := #[] }) },
   { res := .ok, dropped := d })

/-! ### insert / remove / exchange -/

def putComp (c : Comp) (vals : List Comp) : List Comp :=
  vals.map (fun d => if d.1 = c.1 then c else d)

/-- `World::insert_inner`: `origin` is the archetype whose type list drives the edge
(`graph_origin`), `(a, i)` the row holding the data. -/
def insertInner (w : World) (e : Entity) (b : List Comp) (origin : Nat) (a i : Nat) :
    World × List Comp :=
  let src := w.typesOf origin
  let bt := b.map (·.1)
  -- `get_insert_target`
  let info := sortNat (src ++ bt.filter (fun t => !src.contains t))
  let (w1, tgt) := w.getArch info
  let row := ((w1.rowAt a i)).getD ⟨e.id, []⟩
  let dropped := row.vals.filter (fun c => src.contains c.1 && bt.contains c.1)
  if tgt = a then
    (w1.setRow a i { row with vals := b.foldl (fun vs c => putComp c vs) row.vals }, dropped)
  else
    let kept := row.vals.filter (fun c => src.contains c.1 && !bt.contains c.1)
    let (w2, j) := w1.pushRow tgt ⟨e.id, canon (b ++ kept)⟩
    let w3 := w2.setLoc e.id (some (tgt, j))
    (w3.removeRow a i, dropped)

/-- `World::insert` -/
def insert (w : World) (e : Entity) (b : List Comp) : World × Out :=
  let w0 := w.flush
  match w0.get e with
  | some (some (a, i)) =>
    let (w1, d) := w0.insertInner e b a a i
    (w1, { res := .ok, dropped := d })
  | _ => (w0, { res := .nosuch, dropped := b })

/-- `Bundle::get` for a tuple: every field is looked up first; values are read only if all are
present (field order) -/
def bundleGet (vals : List Comp) : List Nat → Option (List Comp)
  | [] => some []
  | t :: ts =>
    match lookupComp t vals, bundleGet vals ts with
    | some v, some r => some ((t, v) :: r)
    | _, _ => none

/-- `World::remove::<T>` (`ts` in field order) -/
def remove (w : World) (e : Entity) (ts : List Nat) : World × Out :=
  let w0 := w.flush
  match w0.getMut e with
  | none => (w0, { res := .nosuch })
  | some (a, i) =>
    let row := ((w0.rowAt a i)).getD ⟨e.id, []⟩
    match bundleGet row.vals ts with
    | none => (w0, { res := .missing })
    | some got =>
      -- `remove_target`
      let (w1, tgt) := w0.getArch ((w0.typesOf a).filter (fun t => !ts.contains t))
      if tgt = a then (w1, { res := .vals got })
      else
        let (w2, j) := w1.pushRow tgt ⟨e.id, row.vals.filter (fun c => !ts.contains c.1)⟩
        let w3 := w2.setLoc e.id (some (tgt, j))
        (w3.removeRow a i, { res := .vals got })

/-- `World::exchange::<S, T>` -/
def exchange (w : World) (e : Entity) (ts : List Nat) (b : List Comp) : World × Out :=
  let w0 := w.flush
  match w0.get e with
  | some (some (a, i)) =>
    let row := ((w0.rowAt a i)).getD ⟨e.id, []⟩
    match bundleGet row.vals ts with
    | none => (w0, { res := .missing, dropped := b })
    | some got =>
      let (w1, mid) := w0.getArch ((w0.typesOf a).filter (fun t => !ts.contains t))
      let (w2, d) := w1.insertInner e b mid a i
      (w2, { res := .vals got, dropped := d })
  | _ => (w0, { res := .nosuch, dropped := b })

end World

/-! ### operations as data -/

inductive Op
  | spawn (b : List Comp)
  | spawnAt (h : Entity) (b : List Comp)
  | spawnBatch (ts : List Nat) (rows : List (List Comp))
  | spawnColumnBatch (ts : List Nat) (rows : List (List Comp))
  | spawnColumnBatchAt (hs : List Entity) (ts : List Nat) (rows : List (List Comp))
  | insert (e : Entity) (b : List Comp)
  | remove (e : Entity) (ts : List Nat)
  | exchange (e : Entity) (ts : List Nat) (b : List Comp)
  | despawn (e : Entity)
  | takeDrop (e : Entity)
  | clear
  | flush
  | reserve (ts : List Nat)
  | reserveEntity
  | reserveEntities (n : Nat)
  deriving Repr, Inhabited

def step (w : World) : Op → World × Out
  | .spawn b => w.spawn b
  | .spawnAt h b => w.spawnAt h b
  | .spawnBatch ts rows => w.spawnBatch ts rows
  | .spawnColumnBatch ts rows => w.spawnColumnBatch ts rows
  | .spawnColumnBatchAt hs ts rows => w.spawnColumnBatchAt hs ts rows
  | .insert e b => w.insert e b
  | .remove e ts => w.remove e ts
  | .exchange e ts b => w.exchange e ts b
  | .despawn e => w.despawn e
  | .takeDrop e =>
    match w.take e with
    | (w', some d) => (w', { res := .ok, dropped := d })
    | (w', none) => (w', { res := .nosuch })
  | .clear => w.clear
  | .flush => (w.flush, { res := .ok })
  | .reserve ts => ((w.reserve ts).1, { res := .ok })
  | .reserveEntity => let (w', e) := w.reserveEntity; (w', { res := .ent e })
  | .reserveEntities n => let (w', es) := w.reserveEntities n; (w', { res := .ents es })

def run (ops : List Op) : World := ops.foldl (fun w op => (step w op).1) World.new

end Hecs
