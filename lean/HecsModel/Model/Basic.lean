/-
  Basic vocabulary of the hecs model. Imports nothing outside Lean core so that the judge links.

  * component types are small naturals chosen by the harness (one per Rust type); the canonical
    order of a type list (`align` descending, then `TypeId`) is represented by `<` on these
    naturals — the real tie-break order is not observable through the API (DESIGN §3.1);
  * a component value is the serial number the harness stamps into the instance.
-/
namespace Hecs

structure Entity where
  id : Nat
  gen : Nat
  deriving DecidableEq, Repr, Inhabited

/-- `Entity::DANGLING` -/
def Entity.dangling : Entity := ⟨4294967295, 4294967295⟩

/-- `EntityMeta`: generation and location; `loc = none` is the code's `index == u32::MAX`. -/
structure Meta where
  gen : Nat
  loc : Option (Nat × Nat)
  deriving DecidableEq, Repr, Inhabited

/-- `EntityMeta::EMPTY` -/
def Meta.empty : Meta := ⟨1, none⟩

/-- a component: (type, serial) -/
abbrev Comp := Nat × Nat

/-- insert into a list sorted by type -/
def insertComp (c : Comp) : List Comp → List Comp
  | [] => [c]
  | d :: ds => if c.1 ≤ d.1 then c :: d :: ds else d :: insertComp c ds

/-- canonical (sorted by type) form of a bundle; stable insertion sort -/
def canon : List Comp → List Comp
  | [] => []
  | c :: cs => insertComp c (canon cs)

def insertNat (c : Nat) : List Nat → List Nat
  | [] => [c]
  | d :: ds => if c ≤ d then c :: d :: ds else d :: insertNat c ds

def sortNat : List Nat → List Nat
  | [] => []
  | c :: cs => insertNat c (sortNat cs)

/-- strictly increasing -/
def strictSorted : List Nat → Bool
  | [] => true
  | [_] => true
  | a :: b :: r => a < b && strictSorted (b :: r)

def lookupComp (t : Nat) : List Comp → Option Nat
  | [] => none
  | c :: cs => if c.1 = t then some c.2 else lookupComp t cs

end Hecs
