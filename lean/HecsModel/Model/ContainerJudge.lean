import HecsModel.Model.Containers
import HecsModel.Model.WorldJudge
/-
  Judge for the container verbs of engine `world` (builders `b*`/`c*`, command buffers `q*`, column
  batches `p*`) and their hooked-state annotations (`#arena`, `#fill`).

  Containers are deterministic, so the model *is* the specification of their API-visible behaviour:
  a difference in an API result (has/get/component_types, build outcome, drops, spawned rows) is
  reported as `SPEC`; a difference confined to the arena layout is `DIFF`; a violated arena
  invariant on the hooked state is `INV`.
-/
namespace Hecs.ContainerJudge
open Hecs Hecs.Proto Hecs.WorldJudge

structure CState where
  lay : List (Nat × TyLayout) := []
  builders : List (String × Builder) := []
  cmdbufs : List (String × CmdBuf) := []
  batches : List (String × BatchB) := []
  /-- batches that were built successfully: their rows -/
  built : List (String × List Nat × List (List Comp)) := []
  cc : CloneCounts := []
  deriving Inhabited

def CState.layOf (c : CState) (t : Nat) : TyLayout := ((c.lay.find? (·.1 == t)).map (·.2)).getD ⟨0, 1⟩

def getK {α} (l : List (String × α)) (n : String) : Option α := (l.find? (·.1 == n)).map (·.2)
def setK {α} (l : List (String × α)) (n : String) (v : α) : List (String × α) :=
  (n, v) :: l.filter (·.1 != n)
def delK {α} (l : List (String × α)) (n : String) : List (String × α) := l.filter (·.1 != n)

inductive Verdict
  | ok
  | spec (msg : String)
  | diff (msg : String)
  | inv (msg : String)
  | err (msg : String)
  /-- internal state differs from the model's internals: advisory only (DESIGN §3.5 (I)) -/
  | advisory (msg : String)

def Verdict.render : Verdict → String
  | .ok => "ok"
  | .spec m => "SPEC " ++ m
  | .diff m => "DIFF " ++ m
  | .inv m => "INV " ++ m
  | .err m => "ERR " ++ m
  | .advisory m => "IDIFF " ++ m

def cmpApi (model rhs : String) : Verdict :=
  if model == rhs.trimAscii.toString then .ok else .spec s!"container API result differs: model={model}"

def dstr (d : List Comp) : String := "d=" ++ showComps (sortComps (d.filter (fun c => ledgerType c.1)))

def bobs (b : Builder) : String :=
  s!"types={showNats (sortNat (b.arena.slots.map (·.ty)))} vals={showComps (sortComps b.arena.vals)}"

/-- parse `[t:size:align:off,...]` -/
def parseSlots (s : String) : List (Nat × Nat × Nat × Nat) :=
  match parse s with
  | some (.list xs) => xs.filterMap (fun x => match x with
      | .atom a => match (a.splitOn ":").map String.toNat? with
        | [some t, some sz, some al, some off] => some (t, sz, al, off)
        | _ => none
      | _ => none)
  | _ => []

def parsePairs (s : String) : List (Nat × Nat) :=
  match parse s with
  | some (.list xs) => xs.filterMap (fun x => match x with
      | .atom a => match (a.splitOn ":").map String.toNat? with
        | [some t, some p] => some (t, p)
        | _ => none
      | _ => none)
  | _ => []

/-- (R) the arena invariant evaluated on the implementation's hooked state -/
def arenaInv (base laySize layAlign cursor : Nat) (slots : List (Nat × Nat × Nat × Nat))
    (idx : Option (List (Nat × Nat))) : Option String :=
  let bad := slots.find? (fun s => (base + s.2.2.2) % s.2.2.1 != 0)
  match bad with
  | some s => some s!"slot of type {s.1} at address base+{s.2.2.2} is not aligned to {s.2.2.1} (base={base})"
  | none =>
  match slots.find? (fun s => s.2.2.2 + s.2.1 > laySize && s.2.1 > 0) with
  | some s => some s!"slot of type {s.1} at offset {s.2.2.2} size {s.2.1} exceeds the allocation of {laySize} bytes"
  | none =>
  match slots.find? (fun s => s.2.2.1 > layAlign) with
  | some s => some s!"slot alignment {s.2.2.1} exceeds the allocation's alignment {layAlign}"
  | none =>
  let overlap := slots.zipIdx.any (fun (s, i) => slots.zipIdx.any (fun (u, j) =>
    i < j && s.2.1 > 0 && u.2.1 > 0 && s.2.2.2 < u.2.2.2 + u.2.1 && u.2.2.2 < s.2.2.2 + s.2.1))
  if overlap then some "two slots overlap"
  else if slots.any (fun s => s.2.2.2 + s.2.1 > cursor) then some "a slot extends beyond the bump cursor"
  else match idx with
    | none => none
    | some ix =>
      -- the type -> position index must name exactly the slot of that type
      if ix.length != slots.length then some s!"index has {ix.length} entries for {slots.length} slots"
      else match ix.find? (fun p => ((slots.getD p.2 (999999, 0, 0, 0)).1) != p.1) with
        | some p => some s!"index maps type {p.1} to slot {p.2}, which holds type {(slots.getD p.2 (999999,0,0,0)).1}"
        | none => none

def arenaLine (a : Arena) (args : List String) (withIdx : Bool) : Verdict :=
  let num (k : String) := ((field args k).bind String.toNat?).getD 0
  let base := num "base"
  let cursor := num "cursor"
  let (ls, la) := match ((field args "lay").getD "0:1").splitOn ":" with
    | [a, b] => (a.toNat?.getD 0, b.toNat?.getD 1)
    | _ => (0, 1)
  let slots := parseSlots ((field args "slots").getD "[]")
  let idx := if withIdx then some (parsePairs ((field args "idx").getD "[]")) else none
  match arenaInv base ls la cursor slots idx with
  | some m => .inv m
  | none =>
    let implS := sortBy (fun a b => a.1 < b.1 || (a.1 == b.1 && a.2 < b.2)) (slots.map (fun s => (s.1, s.2.2.2)))
    let modS := sortBy (fun a b => a.1 < b.1 || (a.1 == b.1 && a.2 < b.2)) (a.slots.map (fun s => (s.ty, s.off)))
    if implS != modS then .advisory s!"arena slots differ: model={modS}"
    else if cursor != a.cursor then .advisory s!"arena cursor differs: model={a.cursor}"
    else if (ls, la) != (a.laySize, a.layAlign) then .advisory s!"arena layout differs: model={a.laySize}:{a.layAlign}"
    else .ok

/-- feed a world-level operation to both the model world and the abstract map -/
def worldOp (m : MState) (ss : Specs) (wn : String) (op : Op) (implRes : Res) (implDropped : List Comp) :
    Except String (MState × Specs × Out) :=
  match getW m.worlds wn with
  | none => .error s!"unknown world {wn}"
  | some w =>
    let (w', o) := step w op
    match Spec.apply (getS ss wn) op implRes implDropped with
    | .ok s' => .ok ({ m with worlds := setW m.worlds wn w' }, setS ss wn s', o)
    | .error e => .error ("SPEC " ++ e)

def isContainerVerb (v : String) : Bool :=
  v == "types" || v == "#arena" || v == "#fill" ||
    (v.length > 1 && (v.startsWith "b" || v.startsWith "c" || v.startsWith "q" || v.startsWith "p") &&
      ["bnew","badd","badd_bundle","badd_built","bobs","bclear","bspawn","bbuild_drop","bbuild","cspawn","bclone","cback","bdrop",
       "qnew","qspawn","qinsert","qremove","qdespawn","qrun","qclear","qdrop",
       "pnew","ppush","pbuild","pspawn","pspawn_at","pdrop"].contains v)

/-- new entities reported by the harness after `qrun`: `[e=comps;…]` -/
def parseNew (s : String) : List (Entity × List Comp) :=
  let inner := ((s.drop 1).toString.dropEnd 1).toString
  if inner == "" then [] else
  (inner.splitOn ";").filterMap (fun p => match p.splitOn "=" with
    | [e, cs] => do pure ((← entity? e), (← comps? cs))
    | _ => none)

/-- the abstract effect of running a command list on the abstract map, given the new entities the
implementation created (matched to spawn commands by their values) -/
def specRun (c : CmdBuf) : List Cmd → Spec.SpecW → List (Entity × List Comp) → List Entity → List Comp →
    Except String (Spec.SpecW × List Comp)
  | [], s, newEs, _, d =>
    -- entities the implementation created must all be explained by recorded spawns (those that were
    -- despawned again by a later command of the same buffer are not in `newEs`)
    if newEs.all (fun p => s.isLive p.1) then .ok (s, d) else .error "entities appeared that no recorded spawn explains"
  | .spawnOrInsert none f l :: rest, s, newEs, guesses, d =>
    -- `run_on` does not report the handles it spawned: take the model's prediction when the
    -- implementation did create that handle, otherwise match by values; the abstract map then checks
    -- freshness, and the next observation checks the rest
    let want := sortComps (c.rangeVals f l)
    -- prefer the model's prediction whenever the abstract map considers that handle fresh (it may have
    -- been despawned again by a later command of the same buffer, so it need not be in `newEs`);
    -- otherwise fall back to a new entity with these values that the map does not know yet
    let s0 := s.flush
    let byValue := (newEs.find? (fun p => sortComps p.2 == want && !s0.isLive p.1)).map (·.1)
    let pick : Option Entity :=
      match guesses.head? with
      | some g => if s0.freshOk g then some g else byValue
      | none => byValue
    match pick with
    | none => .error s!"a recorded spawn of {showComps want} produced no entity"
    | some e =>
      match Spec.apply s (.spawn (c.rangeVals f l)) (.ent e) [] with
      | .ok s' => specRun c rest s' newEs guesses.tail d
      | .error m => .error m
  | .spawnOrInsert (some e) f l :: rest, s, newEs, guesses, d =>
    let s0 := s.flush
    let b := c.rangeVals f l
    match s0.lookup e with
    | none => specRun c rest s0 newEs guesses (d ++ b)
    | some old =>
      let bt := b.map (·.1)
      specRun c rest (s0.put e (Spec.overrideComps old b)) newEs guesses (d ++ old.filter (fun x => bt.contains x.1))
  | .remove e ts :: rest, s, newEs, guesses, d =>
    let s0 := s.flush
    match s0.lookup e with
    | none => specRun c rest s0 newEs guesses d
    | some old =>
      match World.bundleGet old ts with
      | none => specRun c rest s0 newEs guesses d
      | some got => specRun c rest (s0.put e (old.filter (fun x => !ts.contains x.1))) newEs guesses (d ++ got)
  | .despawn e :: rest, s, newEs, guesses, d =>
    let s0 := s.flush
    match s0.lookup e with
    | none => specRun c rest s0 newEs guesses d
    | some old => specRun c rest (s0.erase e) newEs guesses (d ++ old)

def line (cs : CState) (m : MState) (ss : Specs) (lhs : String) (rhs : String) :
    CState × MState × Specs × Verdict :=
  let toks := (lhs.trimAscii.toString.splitOn " ").filter (· ≠ "")
  let rtoks := (rhs.trimAscii.toString.splitOn " ").filter (· ≠ "")
  let implD : List Comp := ((field rtoks "d").bind comps?).getD []
  let implRes : Res := ((rtoks.head?).bind parseRes).getD .ok
  let fail (v : Verdict) := (cs, m, ss, v)
  match toks with
  | ["types", l] =>
    match parse l with
    | some (.list xs) =>
      let lay := xs.filterMap (fun x => match x with
        | .atom a => match (a.splitOn ":").map String.toNat? with
          | [some t, some sz, some al] => some (t, (⟨sz, al⟩ : TyLayout))
          | _ => none
        | _ => none)
      ({ cs with lay := lay }, m, ss, .ok)
    | _ => fail (.err "bad types line")
  | "#arena" :: n :: args =>
    match getK cs.builders n, getK cs.cmdbufs n with
    | some b, _ => (cs, m, ss, arenaLine b.arena args true)
    | none, some q => (cs, m, ss, arenaLine q.arena args false)
    | none, none => (cs, m, ss, .ok)
  | "#fill" :: n :: args =>
    match getK cs.batches n with
    | some b =>
      let cols := parsePairs ((field args "cols").getD "[]")
      let want := b.cols.map (fun c => (c.1, c.2.length))
      let srt (l : List (Nat × Nat)) := sortBy (fun a b => a.1 < b.1) l
      if srt cols == srt want then (cs, m, ss, .ok)
      else (cs, m, ss, .diff s!"batch fill counters differ: model={srt want}")
    | none => (cs, m, ss, .ok)
  | verb :: n :: args =>
    let f := field args
    match verb with
    -- ---------------- builders
    | "bnew" =>
      let k := if f "kind" == some "clone" then BKind.clone else BKind.plain
      ({ cs with builders := setK cs.builders n { kind := k } }, m, ss, cmpApi "ok d=[]" rhs)
    | "badd" | "badd_bundle" =>
      match getK cs.builders n with
      | none => fail (.err s!"unknown builder {n}")
      | some b =>
        let comps : List Comp := match verb with
          | "badd" => match (f "t").bind String.toNat?, (f "v").bind String.toNat? with
            | some t, some v => [(t, v)]
            | _, _ => []
          | _ => ((f "b").bind comps?).getD []
        let (a', d) := Arena.addAll cs.layOf b.arena comps []
        ({ cs with builders := setK cs.builders n { b with arena := a' } }, m, ss, cmpApi ("ok " ++ dstr d) rhs)
    | "badd_built" =>
      -- `builder.add_bundle(&built)`: every value of the built clone-bundle is cloned into the builder
      match getK cs.builders n, (f "from").bind (getK cs.builders) with
      | some b, some src =>
        let (cc', vs) := cloneVals cs.cc src.arena.vals
        let (a', d) := Arena.addAll cs.layOf b.arena vs []
        ({ cs with builders := setK cs.builders n { b with arena := a' }, cc := cc' }, m, ss, cmpApi ("ok " ++ dstr d) rhs)
      | _, _ => fail (.err "bad badd_built")
    | "bobs" =>
      match getK cs.builders n with
      | none => fail (.err s!"unknown builder {n}")
      | some b => (cs, m, ss, cmpApi (bobs b) rhs)
    | "bclear" | "bbuild_drop" | "bdrop" =>
      match getK cs.builders n with
      | none => fail (.err s!"unknown builder {n}")
      | some b =>
        let (a', d) := b.arena.clear
        let bs := if verb == "bdrop" then delK cs.builders n else setK cs.builders n { b with arena := a' }
        ({ cs with builders := bs }, m, ss, cmpApi ("ok " ++ dstr d) rhs)
    | "bspawn" =>
      match getK cs.builders n, args.head? with
      | some b, some wn =>
        match worldOp m ss wn (.spawn b.arena.vals) implRes implD with
        | .error e => fail (if e.startsWith "SPEC " then .spec (e.drop 5).toString else .err e)
        | .ok (m', ss', o) =>
          let (a', _) := b.arena.clear
          ({ cs with builders := setK cs.builders n { b with arena := a' } }, m', ss', cmpApi (showOut o) rhs)
      | _, _ => fail (.err "bad bspawn")
    | "bbuild" =>
      match getK cs.builders n, f "into" with
      | some b, some c =>
        -- a container already stored under the target name is dropped
        let od := ((getK (delK cs.builders n) c).map (·.arena.vals)).getD []
        ({ cs with builders := setK (delK cs.builders n) c { b with kind := .built } }, m, ss, cmpApi ("ok " ++ dstr od) rhs)
      | _, _ => fail (.err "bad bbuild")
    | "cback" =>
      match getK cs.builders n, f "into" with
      | some b, some c =>
        let od := ((getK (delK cs.builders n) c).map (·.arena.vals)).getD []
        ({ cs with builders := setK (delK cs.builders n) c { b with kind := .clone } }, m, ss, cmpApi ("ok " ++ dstr od) rhs)
      | _, _ => fail (.err "bad cback")
    | "bclone" =>
      match getK cs.builders n, f "into" with
      | some b, some c =>
        let (cc', b') := b.cloneB cs.cc
        let od := if c == n then [] else ((getK cs.builders c).map (·.arena.vals)).getD []
        ({ cs with builders := setK cs.builders c b', cc := cc' }, m, ss, cmpApi ("ok " ++ dstr od) rhs)
      | _, _ => fail (.err "bad bclone")
    | "cspawn" =>
      match getK cs.builders n, args.head? with
      | some b, some wn =>
        let (cc', vs) := cloneVals cs.cc b.arena.vals
        match worldOp m ss wn (.spawn vs) implRes implD with
        | .error e => fail (if e.startsWith "SPEC " then .spec (e.drop 5).toString else .err e)
        | .ok (m', ss', o) => ({ cs with cc := cc' }, m', ss', cmpApi (showOut o) rhs)
      | _, _ => fail (.err "bad cspawn")
    -- ---------------- command buffers
    | "qnew" => ({ cs with cmdbufs := setK cs.cmdbufs n {} }, m, ss, cmpApi "ok d=[]" rhs)
    | "qspawn" | "qinsert" | "qremove" | "qdespawn" =>
      match getK cs.cmdbufs n with
      | none => fail (.err s!"unknown command buffer {n}")
      | some q =>
        let q' : Option CmdBuf := match verb with
          | "qspawn" => ((f "b").bind comps?).map (fun b => q.record cs.layOf none b)
          | "qinsert" => do pure (q.record cs.layOf (some (← (f "h").bind entity?)) (← (f "b").bind comps?))
          | "qremove" => do pure (q.recRemove (← (f "h").bind entity?) (← (f "ts").bind nats?))
          | _ => ((f "h").bind entity?).map q.recDespawn
        match q' with
        | some q' => ({ cs with cmdbufs := setK cs.cmdbufs n q' }, m, ss, cmpApi "ok d=[]" rhs)
        | none => fail (.err s!"cannot parse: {lhs}")
    | "qrun" =>
      match getK cs.cmdbufs n, args.head? with
      | some q, some wn =>
        match getW m.worlds wn with
        | none => fail (.err s!"unknown world {wn}")
        | some w =>
          let (q', w', d, guesses) := q.runOn w
          let m' := { m with worlds := setW m.worlds wn w' }
          -- (S): recorded commands applied directly to the abstract map
          -- entities that merely materialised from outstanding reservations are explained by the flush
          let newEs := (parseNew ((field rtoks "new").getD "[]")).filter
            (fun p => !((getS ss wn).reserved.contains p.1))
          match specRun q q.cmds (getS ss wn) newEs guesses [] with
          | .error e => ({ cs with cmdbufs := setK cs.cmdbufs n q' }, m', ss, .spec e)
          | .ok (s', sd) =>
            let ss' := setS ss wn s'
            let cs' := { cs with cmdbufs := setK cs.cmdbufs n q' }
            if !Spec.sameComps sd implD then
              (cs', m', ss', .spec s!"run_on must drop exactly what direct application drops: spec d={showComps (sortComps sd)}")
            else if !Spec.sameComps d implD then (cs', m', ss', .diff s!"model d={showComps (sortComps d)}")
            else (cs', m', ss', .ok)
      | _, _ => fail (.err "bad qrun")
    | "qclear" | "qdrop" =>
      match getK cs.cmdbufs n with
      | none => fail (.err s!"unknown command buffer {n}")
      | some q =>
        let (q', d) := q.clear
        let qs := if verb == "qdrop" then delK cs.cmdbufs n else setK cs.cmdbufs n q'
        ({ cs with cmdbufs := qs }, m, ss, cmpApi ("ok " ++ dstr d) rhs)
    -- ---------------- column batches
    | "pnew" =>
      match (f "decl").bind nats?, (f "n").bind String.toNat? with
      | some decl, some k =>
        ({ cs with batches := setK cs.batches n (BatchB.new decl k), built := delK cs.built n }, m, ss, cmpApi "ok d=[]" rhs)
      | _, _ => fail (.err "bad pnew")
    | "ppush" =>
      match getK cs.batches n, (f "t").bind String.toNat?, (f "vals").bind nats? with
      | some b, some t, some vs =>
        match b.push t vs with
        | none => (cs, m, ss, cmpApi "nowriter" rhs)
        | some (b', k, rej) =>
          ({ cs with batches := setK cs.batches n b' }, m, ss, cmpApi s!"pushed={k} rejected={rej.length}" rhs)
      | _, _, _ => fail (.err "bad ppush")
    | "pbuild" =>
      match getK cs.batches n with
      | none => fail (.err s!"unknown batch builder {n}")
      | some b =>
        match b.build with
        | some rows =>
          ({ cs with batches := delK cs.batches n, built := setK cs.built n (b.types, rows) }, m, ss, cmpApi "ok d=[]" rhs)
        | none => ({ cs with batches := delK cs.batches n }, m, ss, cmpApi ("incomplete " ++ dstr b.pushed) rhs)
    | "pspawn" | "pspawn_at" =>
      match getK cs.built n, args.head? with
      | some (ts, rows), some wn =>
        let op : Option Op := if verb == "pspawn" then some (.spawnColumnBatch ts rows)
          else ((f "hs").bind entities?).map (fun hs => .spawnColumnBatchAt hs ts rows)
        match op with
        | none => fail (.err "bad pspawn_at")
        | some op =>
          match worldOp m ss wn op implRes implD with
          | .error e => fail (if e.startsWith "SPEC " then .spec (e.drop 5).toString else .err e)
          | .ok (m', ss', o) =>
            ({ cs with built := delK cs.built n }, m', ss',
              if implRes == .panic && o.res == .panic then .ok else cmpApi (showOut o) rhs)
      | _, _ => fail (.err s!"unknown built batch {n}")
    | "pdrop" =>
      match getK cs.batches n, getK cs.built n with
      | some b, _ => ({ cs with batches := delK cs.batches n }, m, ss, cmpApi ("ok " ++ dstr b.pushed) rhs)
      | none, some (_, rows) => ({ cs with built := delK cs.built n }, m, ss, cmpApi ("ok " ++ dstr rows.flatten) rhs)
      | none, none => fail (.err s!"unknown batch {n}")
    | v => fail (.err s!"unknown container verb {v}")
  | _ => fail (.err "bad container line")

end Hecs.ContainerJudge
