/-
  Hand model of `Entity::to_bits` / `Entity::from_bits` (entities.rs:44-64) over machine words.
-/
namespace Hecs.Bits

/-- `Entity::to_bits` -/
def toBits (id gen : BitVec 32) : BitVec 64 := (gen.setWidth 64 <<< 32) ||| id.setWidth 64

/-- `Entity::from_bits`: `(id, generation)` unless the upper half is zero -/
def fromBits (b : BitVec 64) : Option (BitVec 32 × BitVec 32) :=
  let g := (b >>> 32).setWidth 32
  if g = 0 then none else some (b.setWidth 32, g)

/-- `derive(PartialOrd, Ord)` on `struct Entity { id, generation }`: lexicographic, id first -/
def lexLt (a b : BitVec 32 × BitVec 32) : Bool := a.1 < b.1 || (a.1 == b.1 && a.2 < b.2)

/-- `Ordering` as -1/0/1 -/
def lexCmp (a b : BitVec 32 × BitVec 32) : Int :=
  if lexLt a b then -1 else if a = b then 0 else 1

end Hecs.Bits
