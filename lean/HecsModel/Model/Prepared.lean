import HecsModel.Model.Query
/-
  Model of `PreparedQuery` (query.rs:1104-1311): a memo `(world id, archetype count)` and the list of
  archetype indices for which `Fetch::prepare` succeeded when the memo was taken.  (The per-archetype
  fetch state is a column index, determined by the archetype's immutable type list.)
-/
namespace Hecs

structure Prepared where
  memo : Nat × Nat := (0, 0)
  idxs : List Nat := []
  deriving Repr, Inhabited, DecidableEq

namespace Prepared

/-- `PreparedQuery::prepare` -/
def prepareFor (wid : Nat) (w : World) (q : Q) : Prepared :=
  { memo := (wid, w.archs.size),
    idxs := (List.range w.archs.size).filter (fun i => q.prepares (w.typesOf i)) }

/-- the memo test at the top of `query`/`query_mut`/`view_mut` -/
def refresh (p : Prepared) (wid : Nat) (w : World) (q : Q) : Prepared :=
  if p.memo = (wid, w.archs.size) then p else prepareFor wid w q

/-- `PreparedQueryIter` run to completion over the cached archetype list -/
def iter (p : Prepared) (w : World) (q : Q) : List (Entity × Item) :=
  p.idxs.flatMap (fun i =>
    match w.archs[i]? with
    | some ar => ar.rows.toList.map (fun r => (w.entityOf r.id, q.item ar.types r.vals))
    | none => [])

/-- `ExactSizeIterator::len` of a fresh `PreparedQueryIter` -/
def len (p : Prepared) (w : World) : Nat :=
  (p.idxs.map (fun i => (w.rowsOf i).size)).sum

/-- `PreparedView::get` through the cached archetype list -/
def viewGet (p : Prepared) (w : World) (q : Q) (e : Entity) : Option Item :=
  match w.metas[e.id]? with
  | none => none
  | some m =>
    if m.gen != e.gen then none
    else match m.loc with
      | none => none
      | some (a, i) =>
        if p.idxs.contains a then
          match w.archs[a]? with
          | some ar => (ar.rows[i]?).map (fun r => q.item ar.types r.vals)
          | none => none
        else none

end Prepared
end Hecs
