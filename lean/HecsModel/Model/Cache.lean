import HecsModel.Model.World
/-
  The three memo tables of `hecs::World` (`bundle_to_archetype`, `insert_edges`, `remove_edges`) on top
  of the world model.  A table maps a key to an archetype *index*; on a hit the stored index is used
  and `ArchetypeSet::get` is not called, on a miss the world model's `getArch` is called and the
  result is stored.  `Lemmas/Cache.lean` proves that the tables are transparent (C10.3).

  Keys: `TypeId::of::<T>()` of a static bundle type is modelled by the *field-ordered* type list of
  `T` (`(A, B)` and `(B, A)` are different keys, as in Rust); a dynamic bundle (`key() = None`,
  e.g. `EntityBuilder`) bypasses the table.  The `replaced`/`retained` lists of `InsertTarget` are
  not stored: the world model recomputes them from the origin's type list.
-/
namespace Hecs

structure Cached where
  w : World
  /-- `bundle_to_archetype : TypeIdMap<u32>` -/
  bundleToArch : List (List Nat × Nat) := []
  /-- `insert_edges : IndexTypeIdMap<InsertTarget>`, key `(graph_origin, bundle type)` -/
  insertEdges : List ((Nat × List Nat) × Nat) := []
  /-- `remove_edges : IndexTypeIdMap<u32>`, key `(old archetype, bundle type)` -/
  removeEdges : List ((Nat × List Nat) × Nat) := []
  deriving Repr, Inhabited

/-- `World::new` -/
def Cached.new : Cached := { w := World.new }

namespace World

/-- `spawn_inner` once the archetype is known -/
def spawnInnerWith (w1 : World) (a : Nat) (e : Entity) (b : List Comp) : World :=
  let (w2, i) := w1.pushRow a ⟨e.id, canon b⟩
  w2.setLoc e.id (some (a, i))

/-- `insert_inner` once the target archetype is known (`src` = the origin's type list) -/
def insertInnerWith (w1 : World) (tgt : Nat) (e : Entity) (b : List Comp) (src : List Nat) (a i : Nat) :
    World × List Comp :=
  let bt := b.map (·.1)
  let row := ((w1.rowAt a i)).getD ⟨e.id, []⟩
  let dropped := row.vals.filter (fun c => src.contains c.1 && bt.contains c.1)
  if tgt = a then
    (w1.setRow a i { row with vals := b.foldl (fun vs c => putComp c vs) row.vals }, dropped)
  else
    let kept := row.vals.filter (fun c => src.contains c.1 && !bt.contains c.1)
    let (w2, j) := w1.pushRow tgt ⟨e.id, canon (b ++ kept)⟩
    let w3 := w2.setLoc e.id (some (tgt, j))
    (w3.removeRow a i, dropped)

/-- `remove` once the target archetype is known -/
def removeWith (w1 : World) (tgt : Nat) (e : Entity) (ts : List Nat) (a i : Nat) (row : Row)
    (got : List Comp) : World × Out :=
  if tgt = a then (w1, { res := .vals got })
  else
    let (w2, j) := w1.pushRow tgt ⟨e.id, row.vals.filter (fun c => !ts.contains c.1)⟩
    let w3 := w2.setLoc e.id (some (tgt, j))
    (w3.removeRow a i, { res := .vals got })

end World

namespace Cached

/-- `bundle_to_archetype.entry(key).or_insert_with(|| archetypes.get(ids))`; `ts` = the sorted ids -/
def bundleArch (c : Cached) (key : Option (List Nat)) (ts : List Nat) : Cached × Nat :=
  match key with
  | none => ({ c with w := (c.w.getArch ts).1 }, (c.w.getArch ts).2)
  | some k =>
    match c.bundleToArch.lookup k with
    | some a => (c, a)
    | none =>
      ({ c with w := (c.w.getArch ts).1, bundleToArch := (k, (c.w.getArch ts).2) :: c.bundleToArch },
        (c.w.getArch ts).2)

/-- `insert_edges.entry((graph_origin, key))` / `get_insert_target`; `info` = the target's type list -/
def insertTarget (c : Cached) (key : Option (List Nat)) (origin : Nat) (info : List Nat) : Cached × Nat :=
  match key with
  | none => ({ c with w := (c.w.getArch info).1 }, (c.w.getArch info).2)
  | some k =>
    match c.insertEdges.lookup (origin, k) with
    | some t => (c, t)
    | none =>
      ({ c with w := (c.w.getArch info).1,
                insertEdges := ((origin, k), (c.w.getArch info).2) :: c.insertEdges },
        (c.w.getArch info).2)

/-- `remove_target::<T>` (`k` = the field-ordered type list of `T`; always static) -/
def removeTarget (c : Cached) (old : Nat) (k : List Nat) : Cached × Nat :=
  match c.removeEdges.lookup (old, k) with
  | some t => (c, t)
  | none =>
    let info := (c.w.typesOf old).filter (fun t => !k.contains t)
    ({ c with w := (c.w.getArch info).1,
              removeEdges := ((old, k), (c.w.getArch info).2) :: c.removeEdges },
      (c.w.getArch info).2)

/-- `World::spawn_inner` -/
def spawnInner (c : Cached) (key : Option (List Nat)) (e : Entity) (b : List Comp) : Cached :=
  let r := c.bundleArch key ((canon b).map (·.1))
  { r.1 with w := r.1.w.spawnInnerWith r.2 e b }

/-- `World::spawn` -/
def spawn (c : Cached) (key : Option (List Nat)) (b : List Comp) : Cached × Out :=
  let w0 := c.w.flush
  let (w1, e) := w0.alloc
  (({ c with w := w1 } : Cached).spawnInner key e b, { res := .ent e })

/-- `World::spawn_at` -/
def spawnAt (c : Cached) (key : Option (List Nat)) (h : Entity) (b : List Comp) : Cached × Out :=
  let w0 := c.w.flush
  let (w1, old) := w0.allocAt h
  let (w2, d) := w1.evict old
  (({ c with w := w2 } : Cached).spawnInner key h b, { res := .ok, dropped := d })

/-- `World::reserve_inner::<T>` (`ts` = the field-ordered type list of `T`; always static) -/
def reserve (c : Cached) (ts : List Nat) : Cached × Nat :=
  ({ c with w := c.w.flush } : Cached).bundleArch (some ts) (sortNat ts)

/-- `World::spawn_batch` -/
def spawnBatch (c : Cached) (ts : List Nat) (rows : List (List Comp)) : Cached × Out :=
  let r := c.reserve ts
  let (w2, es) := World.spawnBatchRows r.2 rows r.1.w []
  ({ r.1 with w := w2 }, { res := .ents es })

/-- `World::insert_inner` -/
def insertInner (c : Cached) (key : Option (List Nat)) (e : Entity) (b : List Comp) (origin a i : Nat) :
    Cached × List Comp :=
  let src := c.w.typesOf origin
  let info := sortNat (src ++ (b.map (·.1)).filter (fun t => !src.contains t))
  let r := c.insertTarget key origin info
  let r' := r.1.w.insertInnerWith r.2 e b src a i
  ({ r.1 with w := r'.1 }, r'.2)

/-- `World::insert` -/
def insert (c : Cached) (key : Option (List Nat)) (e : Entity) (b : List Comp) : Cached × Out :=
  let c0 : Cached := { c with w := c.w.flush }
  match c0.w.get e with
  | some (some (a, i)) =>
    let r := c0.insertInner key e b a a i
    (r.1, { res := .ok, dropped := r.2 })
  | _ => (c0, { res := .nosuch, dropped := b })

/-- `World::remove::<T>` -/
def remove (c : Cached) (e : Entity) (ts : List Nat) : Cached × Out :=
  let c0 : Cached := { c with w := c.w.flush }
  match c0.w.getMut e with
  | none => (c0, { res := .nosuch })
  | some (a, i) =>
    let row := ((c0.w.rowAt a i)).getD ⟨e.id, []⟩
    match World.bundleGet row.vals ts with
    | none => (c0, { res := .missing })
    | some got =>
      let r := c0.removeTarget a ts
      let r' := r.1.w.removeWith r.2 e ts a i row got
      ({ r.1 with w := r'.1 }, r'.2)

/-- `World::exchange::<S, T>` -/
def exchange (c : Cached) (key : Option (List Nat)) (e : Entity) (ts : List Nat) (b : List Comp) :
    Cached × Out :=
  let c0 : Cached := { c with w := c.w.flush }
  match c0.w.get e with
  | some (some (a, i)) =>
    let row := ((c0.w.rowAt a i)).getD ⟨e.id, []⟩
    match World.bundleGet row.vals ts with
    | none => (c0, { res := .missing, dropped := b })
    | some got =>
      let r := c0.removeTarget a ts
      let r' := r.1.insertInner key e b r.2 a i
      (r'.1, { res := .vals got, dropped := r'.2 })
  | _ => (c0, { res := .nosuch, dropped := b })

end Cached

/-- A static key must be the field-ordered type list of the bundle that is passed. -/
def Op.KeyOk : Op → Option (List Nat) → Prop
  | .spawn b, some k => k = b.map (·.1)
  | .spawnAt _ b, some k => k = b.map (·.1)
  | .insert _ b, some k => k = b.map (·.1)
  | .exchange _ _ b, some k => k = b.map (·.1)
  | _, _ => True

/-- One operation of the world with memo tables.  `key` is the `DynamicBundle::key()` of the bundle
argument of `spawn`/`spawn_at`/`insert`/`exchange` (`none` for a dynamic bundle); the type arguments of
`remove`/`exchange`/`reserve`/`spawn_batch` are always static.  The other operations do not consult the
tables (`clear` keeps tables and archetypes). -/
def cachedStep (c : Cached) (op : Op) (key : Option (List Nat)) : Cached × Out :=
  match op with
  | .spawn b => c.spawn key b
  | .spawnAt h b => c.spawnAt key h b
  | .spawnBatch ts rows => c.spawnBatch ts rows
  | .insert e b => c.insert key e b
  | .remove e ts => c.remove e ts
  | .exchange e ts b => c.exchange key e ts b
  | .reserve ts => ((c.reserve ts).1, { res := .ok })
  | op => ({ c with w := (step c.w op).1 }, (step c.w op).2)

/-- a run with memo tables; every operation comes with the key of its bundle argument -/
def cachedRun (ops : List (Op × Option (List Nat))) : Cached :=
  ops.foldl (fun c p => (cachedStep c p.1 p.2).1) Cached.new

end Hecs
