/-
  Vocabulary for the atomic call sites extracted from the Rust sources by tools/extract_facts.py
  (plain inductives so that statements about the extracted lists are decidable by the kernel).
-/
namespace Hecs.Atomics

inductive MemOrd | relaxed | acquire | release | acqRel | seqCst | unknown
  deriving DecidableEq, Repr

inductive Meth | fetchAdd | fetchSub | fetchAnd | fetchOr | compareExchange | compareExchangeWeak | load | store | swap
  deriving DecidableEq, Repr

/-- the functions of `AtomicBorrow` and the `&self` functions of `Entities` -/
inductive Fn
  | borrow | borrowMut | release | releaseMut
  | reserveEntities | reserveEntity | contains | get | resolveUnknownGen
  deriving DecidableEq, Repr

/-- the operand of the call, classified -/
inductive Operand
  | one            -- `1`
  | zeroToUnique   -- `0, UNIQUE_BIT` (compare_exchange)
  | notUnique      -- `!UNIQUE_BIT`
  | count          -- `count as isize`
  | none           -- loads
  | other
  deriving DecidableEq, Repr

structure Site where
  fn : Fn
  meth : Meth
  operand : Operand
  ords : List MemOrd
  deriving DecidableEq, Repr

def MemOrd.acquires : MemOrd → Bool
  | .acquire | .acqRel | .seqCst => true
  | _ => false

def MemOrd.releases : MemOrd → Bool
  | .release | .acqRel | .seqCst => true
  | _ => false

end Hecs.Atomics
