import HecsModel.Model.Basic
/-
  Model of `entity_builder.rs`'s `Common<M>` (shared by `EntityBuilder`, `EntityBuilderClone`,
  `BuiltEntityClone`): a bump-allocated byte arena with a slot list, and of the same arena discipline
  in `command_buffer.rs`.  Values are serials; the arena *layout* (offsets, cursor, capacity,
  alignment) is modelled exactly because C04 is about it.
-/
namespace Hecs

/-- `(size, align)` of a component type, as reported by the harness (`Layout::new::<T>()`) -/
structure TyLayout where
  size : Nat
  align : Nat
  deriving Repr, Inhabited, DecidableEq

/-- `lib.rs::align` for a power-of-two alignment, on naturals -/
def alignUp (x a : Nat) : Nat := (x + a - 1) / a * a

def nextPow2Aux : Nat → Nat → Nat → Nat
  | 0, p, _ => p
  | fuel + 1, p, n => if p < n then nextPow2Aux fuel (2 * p) n else p

/-- `usize::next_power_of_two` (for arguments below 2^64) -/
def nextPow2 (n : Nat) : Nat := nextPow2Aux 64 1 n

structure Slot where
  ty : Nat
  off : Nat
  val : Nat
  deriving Repr, Inhabited, DecidableEq

structure Arena where
  slots : List Slot := []
  cursor : Nat := 0
  laySize : Nat := 0
  layAlign : Nat := 8
  deriving Repr, Inhabited, DecidableEq

namespace Arena

def has (a : Arena) (t : Nat) : Bool := a.slots.any (·.ty == t)
def get (a : Arena) (t : Nat) : Option Nat := (a.slots.find? (·.ty == t)).map (·.val)
def vals (a : Arena) : List Comp := a.slots.map (fun s => (s.ty, s.val))

/-- `Common::add`: replace in place (dropping the old value) or bump-allocate a new slot, growing the
arena when the slot does not fit or needs a stricter alignment -/
def add (lay : Nat → TyLayout) (a : Arena) (t v : Nat) : Arena × List Comp :=
  match a.slots.find? (·.ty == t) with
  | some old =>
    ({ a with slots := a.slots.map (fun s => if s.ty == t then { s with val := v } else s) }, [(t, old.val)])
  | none =>
    let l := lay t
    let off := alignUp a.cursor l.align
    let stop := off + l.size
    let a' :=
      if stop > a.laySize || l.align > a.layAlign then
        { a with layAlign := max a.layAlign l.align, laySize := max (nextPow2 stop) 64 }
      else a
    ({ a' with slots := a'.slots ++ [⟨t, off, v⟩], cursor := stop }, [])

def addAll (lay : Nat → TyLayout) (a : Arena) : List Comp → List Comp → Arena × List Comp
  | [], d => (a, d)
  | c :: cs, d => let (a', d') := add lay a c.1 c.2; addAll lay a' cs (d ++ d')

/-- `Common::clear`: every stored value is dropped, the allocation is kept -/
def clear (a : Arena) : Arena × List Comp :=
  ({ a with slots := [], cursor := 0 }, a.vals)

end Arena
end Hecs
