import HecsModel.Model.World
import HecsModel.Model.Proto
import HecsModel.Spec.World
import HecsModel.Model.QueryJudge
import HecsModel.Model.Prepared
import HecsModel.Model.Tracker
import HecsModel.Model.SerdeJudge
/-
  Judge for engine `world`: replays a trace line on the model and renders the model's answer in the
  harness' canonical format.  The comparison itself is a string equality done by the driver.
-/
namespace Hecs.WorldJudge
open Hecs Hecs.Proto

abbrev Worlds := List (String × World)

def getW (ws : Worlds) (n : String) : Option World := (ws.find? (·.1 == n)).map (·.2)
def setW (ws : Worlds) (n : String) (w : World) : Worlds :=
  if ws.any (·.1 == n) then ws.map (fun p => if p.1 == n then (n, w) else p) else ws ++ [(n, w)]

def showRes : Res → String
  | .ok => "ok"
  | .nosuch => "nosuch"
  | .missing => "missing"
  | .panic => "panic"
  | .ent e => "e=" ++ showEntity e
  | .ents es => "es=" ++ showEntities es
  | .vals vs => "vals=" ++ showComps vs

/-- types that take part in the drop ledger: the tracked value type (10) and hidden snapshot
components (≥ 100) have no `Drop` instrumentation -/
def ledgerType (t : Nat) : Bool := t < 10

def showOut (o : Out) : String :=
  showRes o.res ++ " d=" ++ showComps (sortComps (o.dropped.filter (fun c => ledgerType c.1)))

def visible (cs : List Comp) : List Comp := cs.filter (fun c => c.1 < 100)

/-! observables of the model world -/

def liveList (w : World) : List (Entity × List Comp) :=
  w.archs.toList.flatMap (fun ar => ar.rows.toList.map (fun r => (⟨r.id, w.genOf r.id⟩, sortComps (visible r.vals))))

def obsIter (w : World) : String :=
  let l := sortBy (fun a b => entLt a.1 b.1) (liveList w)
  "[" ++ ";".intercalate (l.map (fun p => showEntity p.1 ++ "=" ++ showComps p.2)) ++ "]"

def obsArch (w : World) : String :=
  let l := w.archs.toList.map (fun ar => (sortNat ar.types, ar.rows.size))
  let l := sortBy (fun a b => natsLt a.1 b.1 || (a.1 == b.1 && a.2 < b.2)) l
  "[" ++ ";".intercalate (l.map (fun p => showNats p.1 ++ "=" ++ toString p.2)) ++ "]"

/-- what `World::contains`, `World::entity` (+ component types and values through `EntityRef`) say
about one handle -/
def obsHandle (w : World) (h : Entity) : String :=
  let c := if w.contains h then "1" else "0"
  let e := match w.get h with
    | none => "x"
    | some none => "[]"
    | some (some (a, i)) => showComps (sortComps (visible (((w.rowAt a i).map (·.vals)).getD [])))
  c ++ "/" ++ e

def obs (w : World) (hs : List Entity) : String :=
  s!"len={w.len} iter={obsIter w} arch={obsArch w} ag={w.archs.size} hs=" ++ showList (obsHandle w) hs ++ " acc=ok"

/-- all values still stored (what dropping the world drops) -/
def allVals (w : World) : List Comp :=
  (w.archs.toList.flatMap (fun ar => ar.rows.toList.flatMap (·.vals))).filter (fun c => ledgerType c.1)

def stripArch (s : String) : String :=
  " ".intercalate ((s.splitOn " ").filter (fun t => !(t.startsWith "arch=") && !(t.startsWith "ag=")))

/-! tracker lines: `track W reads=[added,changed~,removed]` -/

def parseReads (s : String) : List Tracker.Read :=
  let inner := ((s.drop 1).toString.dropEnd 1).toString
  if inner == "" then [] else
  (inner.splitOn ",").filterMap (fun r =>
    let part := r.endsWith "~"
    let name := if part then (r.dropEnd 1).toString else r
    match name with
    | "added" => some (.added part)
    | "changed" => some (.changed part)
    | "removed" => some (.removed part)
    | _ => none)

def showEV (l : List (Entity × Nat)) : String :=
  let l := sortBy (fun a b => entLt a.1 b.1) l
  "[" ++ ";".intercalate (l.map (fun p => showEntity p.1 ++ "=" ++ toString p.2)) ++ "]"

def showEVV (l : List (Entity × Nat × Nat)) : String :=
  let l := sortBy (fun a b => entLt a.1 b.1) l
  "[" ++ ";".intercalate (l.map (fun p => showEntity p.1 ++ "=" ++ toString p.2.1 ++ ">" ++ toString p.2.2)) ++ "]"

/-- rendering of the reports for the reads that were performed (`~n` = abandoned after n items); a report
read more than once is shown as its last read saw it -/
def showReports (reads : List Tracker.Read) (added : List (Entity × Nat)) (changed : List (Entity × Nat × Nat))
    (removed : List (Entity × Nat)) : String :=
  let part (k : Nat) := s!"~{min k 1}"
  let rr := reads.reverse
  let a := match rr.find? (fun r => match r with | .added _ => true | _ => false) with
    | some (.added true) => part added.length
    | some _ => showEV added
    | none => "-"
  let c := match rr.find? (fun r => match r with | .changed _ => true | _ => false) with
    | some (.changed true) => part changed.length
    | some _ => showEVV changed
    | none => "-"
  let r := match rr.find? (fun r => match r with | .removed _ => true | _ => false) with
    | some (.removed true) => part removed.length
    | some _ => showEV removed
    | none => "-"
  s!"added={a} changed={c} removed={r}"

/-! decoding a trace line into a model step -/

def parseOp (verb : String) (toks : List String) : Option Op :=
  let f := field toks
  match verb with
  | "spawn" => do pure (.spawn (← comps? (← f "b")))
  | "spawn_at" => do pure (.spawnAt (← entity? (← f "h")) (← comps? (← f "b")))
  | "spawn_batch" => do pure (.spawnBatch (← nats? (← f "ts")) (← compss? (← f "rows")))
  | "spawn_cb" => do pure (.spawnColumnBatch (← nats? (← f "ts")) (← compss? (← f "rows")))
  | "spawn_cb_at" => do
      pure (.spawnColumnBatchAt (← entities? (← f "hs")) (← nats? (← f "ts")) (← compss? (← f "rows")))
  | "insert" => do pure (.insert (← entity? (← f "h")) (← comps? (← f "b")))
  | "remove" => do pure (.remove (← entity? (← f "h")) (← nats? (← f "ts")))
  | "exchange" => do pure (.exchange (← entity? (← f "h")) (← nats? (← f "ts")) (← comps? (← f "b")))
  | "despawn" => do pure (.despawn (← entity? (← f "h")))
  | "clear" => some .clear
  | "flush" => some .flush
  | "reserve" => do pure (.reserve (← nats? (← f "ts")))
  | "reserve_entity" => some .reserveEntity
  | "reserve_entities" => do pure (.reserveEntities (← (← f "n").toNat?))
  | _ => none

/-! ### specification oracle (S): the abstract map driven by the implementation's own outputs -/

open Hecs.Spec in
def specObs (s : SpecW) (hs : List Entity) : String :=
  -- component types ≥ 100 (the fields of a bundle struct taken apart) show in archetype lists only
  let live := sortBy (fun a b => entLt a.1 b.1) (s.live.map (fun p => (p.1, sortComps (visible p.2))))
  let iter := "[" ++ ";".intercalate (live.map (fun p => showEntity p.1 ++ "=" ++ showComps p.2)) ++ "]"
  let keys := (s.live.map (fun p => sortNat (p.2.map (·.1)))).eraseDups
  let groups := keys.map (fun k => (k, (s.live.filter (fun p => sortNat (p.2.map (·.1)) == k)).length))
  let groups := sortBy (fun a b => natsLt a.1 b.1 || (a.1 == b.1 && a.2 < b.2)) groups
  let arch := "[" ++ ";".intercalate (groups.map (fun p => showNats p.1 ++ "=" ++ toString p.2)) ++ "]"
  let h (e : Entity) : String :=
    (if s.contains e then "1" else "0") ++ "/" ++
      (match s.lookup e with
       | some cs => showComps (sortComps (visible cs))
       | none => if s.reserved.contains e then "[]" else "x")
  s!"len={s.live.length} iter={iter} arch={arch} hs=" ++ showList h hs ++ " acc=ok"

/-- the set of archetype type sets an `obs` line reports (counts stripped) -/
def archSets (rhs : String) : String :=
  match (rhs.splitOn " ").find? (·.startsWith "arch=[") with
  | some t =>
    let inner := ((t.drop 6).toString.dropEnd 1).toString
    ";".intercalate ((inner.splitOn ";").map (fun p => (p.splitOn "=").headD ""))
  | none => ""

def obsGen (rhs : String) : Option Nat :=
  ((rhs.splitOn " ").find? (·.startsWith "ag=")).bind (fun t => (t.drop 3).toString.toNat?)

/-- drop `[..]=0` entries (empty archetypes are not observable facts about the map) and the
archetype generation (checked separately) -/
def dropEmptyArchs (rhs : String) : String :=
  let toks := (rhs.splitOn " ").filter (fun t => !t.startsWith "ag=")
  " ".intercalate (toks.map (fun t =>
    if t.startsWith "arch=[" then
      let inner := ((t.drop 6).toString.dropEnd 1).toString
      let parts := (inner.splitOn ";").filter (fun p => p ≠ "" && !p.endsWith "=0")
      "arch=[" ++ ";".intercalate parts ++ "]"
    else t))

def parseRes (tok : String) : Option Res :=
  if tok == "ok" then some .ok
  else if tok == "nosuch" then some .nosuch
  else if tok == "missing" then some .missing
  else if tok == "panic" then some .panic
  else if tok.startsWith "e=" then (entity? (tok.drop 2).toString).map .ent
  else if tok.startsWith "es=" then (entities? (tok.drop 3).toString).map .ents
  else if tok.startsWith "vals=" then (comps? (tok.drop 5).toString).map .vals
  else none

/-- result and dropped values reported by the implementation -/
def parseRhs (rhs : String) : Option (Res × List Comp) :=
  match (rhs.trimAscii.toString.splitOn " ").filter (· ≠ "") with
  | [r] => (parseRes r).map (·, [])
  | [r, d] => do
    let res ← parseRes r
    let ds ← if d.startsWith "d=" then comps? (d.drop 2).toString else none
    pure (res, ds)
  | _ => none

abbrev Specs := List (String × Spec.SpecW)
def getS (ws : Specs) (n : String) : Spec.SpecW := ((ws.find? (·.1 == n)).map (·.2)).getD {}
def setS (ws : Specs) (n : String) (w : Spec.SpecW) : Specs :=
  if ws.any (·.1 == n) then ws.map (fun p => if p.1 == n then (n, w) else p) else ws ++ [(n, w)]

/-- (S): is the implementation's own answer an allowed transition of the abstract map?  Returns the
successor spec state, or the reason it is not. -/
def specLine (ss : Specs) (lhs rhs : String) : Except String Specs :=
  let toks := (lhs.trimAscii.toString.splitOn " ").filter (· ≠ "")
  match toks with
  | "world" :: n :: _ => .ok (setS ss n {})
  | verb :: n :: args =>
    let s := getS ss n
    match verb with
    | "reserve_bulk" =>
      -- the handles the iterator was asked for are reserved like any others; the rest of the claimed range
      -- is not enumerated
      match parseRhs rhs with
      | some (.ents es, d) =>
        match Spec.apply s (.reserveEntities es.length) (.ents es) d with
        | .ok s' => .ok (setS ss n { s' with bulkOutstanding := true })
        | .error m => .error m
      | _ => .error "reserve_entities must return handles"
    | "obs" =>
      if s.bulkOutstanding then .ok ss else
      match (field args "hs").bind entities? with
      | some hs =>
        let want := specObs s hs
        if dropEmptyArchs rhs.trimAscii.toString != want then
          .error s!"observable state differs from the abstract map: spec={want}"
        else
          -- C17: a generation value seen with a different set of archetypes must not come back
          match obsGen rhs with
          | none => .ok ss
          | some g =>
            let sets := archSets rhs
            if s.gens.any (fun p => p.1 == g && p.2 != sets) then
              .error s!"archetypes_generation {g} was returned for two different sets of archetypes"
            else .ok (setS ss n { s with gens := if s.gens.any (fun p => p.1 == g) then s.gens else (g, sets) :: s.gens })
      | none => .error "bad obs"
    | "ser" =>
      match field args "fmt", (field args "H").bind nats? with
      | some fmt, some H =>
        let q := (field args "q").bind QueryJudge.parseShape
        let rt := (rhs.trimAscii.toString.splitOn " ").filter (· ≠ "")
        let want := SerdeJudge.specSer s fmt H q
        match (field rt "tree").bind SerdeJudge.parseT with
        | some t =>
          if SerdeJudge.canonOf fmt t != want then
            .error s!"serialised form differs from the abstract map restricted to the handled types: spec={want}"
          else if field rt "honest" != some "1" then .error "an announced length differs from the number of elements written"
          else .ok ss
        | none => .error "unparsable serialised form"
      | _, _ => .error "bad ser line"
    | "de" =>
      match field args "fmt", (field args "H").bind nats?, (field args "tree").bind SerdeJudge.parseT with
      | some fmt, some H, some t =>
        let rt := (rhs.trimAscii.toString.splitOn " ").filter (· ≠ "")
        let r := rt.headD ""
        if r == "panic" then .error "the deserialiser panicked instead of returning an error"
        else if field rt "leak" != some "0" then
          .error "decoded components were leaked (leak>0) or dropped more than once (leak<0)"
        else if r == "ok" then
          -- the world it produced, at the level of the abstract map
          let s' : Option Spec.SpecW :=
            if fmt == "row" then
              match t with
              | .map kvs => match SerdeJudge.specDeRow H kvs {} with
                | .ok s' => some s'
                | .error _ => none
              | _ => none
            else match t with
              | .seq blocks => some (SerdeJudge.specDeCol blocks {})
              | _ => none
          match s' with
          | some s' => .ok (setS ss n { s' with issued := s'.live.map (·.1), targeted := s'.live.map (·.1.id) })
          | none => .error "input that is not a valid serialisation was accepted"
        else .ok ss
      | _, _, _ => .error "bad de line"
    | "roundtrip" =>
      -- C14: deserialising the serialised form gives the same handles with the same handled components
      match args.head?, (field args "H").bind nats? with
      | some n2, some H =>
        let a := sortBy (fun x y => entLt x.1 y.1) (s.live.map (fun p => (p.1, sortComps (p.2.filter (fun c => H.contains c.1)))))
        let b := sortBy (fun x y => entLt x.1 y.1) ((getS ss n2).live.map (fun p => (p.1, sortComps p.2)))
        if a == b then .ok ss else .error "round trip changed handles or handled component values"
      | _, _ => .error "bad roundtrip line"
    | "tobs" =>
      match (field args "hs").bind entities? with
      | some hs =>
        let want := stripArch (specObs s hs)
        if stripArch (dropEmptyArchs rhs.trimAscii.toString) == want then .ok ss
        else .error s!"observable state differs from the abstract map: spec={want}"
      | none => .error "bad tobs"
    | "track" =>
      -- C18: the reports are the difference between the previous snapshot and the current state
      let reads := parseReads ((field args "reads").getD "[]")
      let cur := Tracker.snapshot s.live 10
      let added := Tracker.specAdded s.tprev cur
      let changed := Tracker.specChanged s.tprev cur
      let removed := Tracker.specRemoved s.tprev cur (s.live.map (·.1))
      -- a second read of `changed`/`removed` finds nothing left (`C18.second_read_empty`); `added` is the
      -- same every time, its snapshot is attached when the `Changes` value is dropped
      let times (p : Tracker.Read → Bool) : Nat := (reads.filter p).length
      let changedSeen := if times (fun r => match r with | .changed _ => true | _ => false) ≥ 2 then [] else changed
      let removedSeen := if times (fun r => match r with | .removed _ => true | _ => false) ≥ 2 then [] else removed
      let want := showReports reads added changedSeen removedSeen
      if rhs.trimAscii.toString != want then .error s!"reports differ from the difference of consecutive snapshots: spec={want}"
      else
        -- insert_one/remove_one run (and flush reservations) only when something was added or removed
        let s' := if added.isEmpty && removed.isEmpty then s else s.flush
        .ok (setS ss n { s' with tprev := cur })
    | "contains" =>
      match (field args "h").bind entity? with
      | some h =>
        if rhs.trimAscii.toString == (if s.contains h then "c=1" else "c=0") then .ok ss
        else .error "contains disagrees with the abstract map (live or reserved handles exist, others do not)"
      | none => .error "bad contains"
    | "query" =>
      match (field args "q").bind QueryJudge.parseShape, field args "path" with
      | some q, some path =>
        match QueryJudge.specCheck s q path args rhs with
        | .ok () => .ok ss
        | .error m => .error m
      | _, _ => .error "bad query line"
    | "extend" => if rhs.trimAscii.toString == "ok d=[]" then .ok ss else .error "extend failed"
    | "yields" => .error "a call on the shared (&self) path performed a number of atomic accesses other than one"
    | "drop" =>
      match parseRhs rhs with
      | some (_, d) =>
        if Spec.sameComps d (s.live.flatMap (·.2)) then .ok (ss.filter (·.1 != n))
        else .error "dropping the world must drop exactly the stored components"
      | none => .error "bad drop rhs"
    | "take" =>
      match (field args "h").bind entity?, field args "into", parseRhs rhs with
      | some h, some into, some (res, d) =>
        let s1 := s.flush
        match s1.lookup h with
        | none => if res == .nosuch && d == [] then .ok (setS ss n s1) else .error "take of a handle that is not live must report NoSuchEntity"
        | some old =>
          if into == "-" then
            if res == .ok && Spec.sameComps d old then .ok (setS ss n (s1.erase h))
            else .error "a dropped TakenEntity must drop exactly the entity's components"
          else
            match res with
            | .ent e =>
              match Spec.apply (getS ss into) (.spawn old) (.ent e) d with
              | .ok v' => .ok (setS (setS ss n (s1.erase h)) into v')
              | .error m => .error m
            | _ => .error "take into another world must return the new handle"
      | _, _, _ => .error "bad take"
    | _ =>
      match parseOp verb args, parseRhs rhs with
      | some op, some (res, d) =>
        match Spec.apply s op res d with
        | .ok s' =>
          -- the hidden snapshot component dies with its entity (C18 ghost)
          let gone : List Nat := match op with
            | .spawnAt h _ => [h.id]
            | .spawnColumnBatchAt hs _ _ => hs.map (·.id)
            | _ => []
          .ok (setS ss n { s' with tprev := s'.tprev.filter (fun p => s'.isLive p.1 && !gone.contains p.1.id) })
        | .error m => .error m
      | _, _ => .error s!"cannot parse: {lhs} => {rhs}"
  | _ => .error "bad line"

/-- model-side judge state: worlds, their ids (a fresh id per `World::new`), and one `PreparedQuery`
per query-menu entry -/
structure MState where
  worlds : Worlds := []
  wids : List (String × Nat) := []
  nextWid : Nat := 2
  prepared : List (Nat × Prepared) := []
  deriving Inhabited

def MState.widOf (m : MState) (n : String) : Nat := ((m.wids.find? (·.1 == n)).map (·.2)).getD 0
def MState.prep (m : MState) (k : Nat) : Prepared := ((m.prepared.find? (·.1 == k)).map (·.2)).getD {}
def MState.setPrep (m : MState) (k : Nat) (p : Prepared) : MState :=
  { m with prepared := (k, p) :: m.prepared.filter (·.1 != k) }

/-- prepared-query paths go through the cached archetype list (C17) -/
def preparedAnswer (m : MState) (n : String) (w : World) (k : Nat) (q : Q) (path : String) (args : List String) :
    MState × String :=
  match QueryJudge.aliasAnswer q path none (QueryJudge.dynConflict w q) with
  | some a => (m, a)        -- refused by `assert_borrow` before the memo is looked at (or mid-acquisition: the history ends)
  | none =>
  let p := (m.prep k).refresh (m.widOf n) w q
  let m' := m.setPrep k p
  let hs := ((field args "hs").bind entities?).getD []
  match path with
  | "prepared_view" =>
    (m', s!"items={QueryJudge.showPairs (p.iter w q)} g=" ++
      showList (fun e => QueryJudge.showOptItem (p.viewGet w q e)) hs)
  | _ => (m', s!"len={p.len w} items={QueryJudge.showPairs (p.iter w q)}")

def stepLineW (ws : Worlds) (lhs : String) : Except String (Worlds × String) :=
  let toks := (lhs.trimAscii.toString.splitOn " ").filter (· ≠ "")
  match toks with
  | [] => .error "empty line"
  | verb :: rest =>
    match verb, rest with
    | "world", [n] => .ok (setW ws n World.new, "ok")
    | _, n :: args =>
      match getW ws n with
      | none => .error s!"unknown world {n}"
      | some w =>
        match verb with
        | "obs" =>
          match (field args "hs").bind entities? with
          | some hs => .ok (ws, obs w hs)
          | none => .error "bad obs"
        | "drop" => .ok (ws.filter (·.1 != n), "ok d=" ++ showComps (sortComps (allVals w)))
        | "contains" =>
          match (field args "h").bind entity? with
          | some h => .ok (ws, if w.contains h then "c=1" else "c=0")
          | none => .error "bad contains"
        | "yields" => .ok (ws, "ok")
        -- `Extend`/`FromIterator`: announced here, followed by one `spawn` line per item
        | "extend" => .ok (ws, "ok d=[]")
        | "tobs" =>
          match (field args "hs").bind entities? with
          | some hs => .ok (ws, stripArch (obs w hs))
          | none => .error "bad tobs"
        | "track" =>
          let reads := parseReads ((field args "reads").getD "[]")
          -- the last read of each kind determines what the caller saw; every read acts on the state
          let (w', rep) := Tracker.track 10 110 w reads
          .ok (setW ws n w', showReports reads (rep.added.getD []) (rep.changed.getD []) (rep.removed.getD []))
        | "query" =>
          match (field args "q").bind QueryJudge.parseShape, field args "path" with
          | some q, some path =>
            match QueryJudge.answer w q path args with
            | .ok a => .ok (ws, a)
            | .error m => .error m
          | _, _ => .error s!"bad query line: {lhs}"
        | "take" =>
          match (field args "h").bind entity?, field args "into" with
          | some h, some into =>
            match w.take h with
            | (w', none) => .ok (setW ws n w', "nosuch d=[]")
            | (w', some vals) =>
              if into == "-" then .ok (setW ws n w', "ok d=" ++ showComps (sortComps (vals.filter (fun c => ledgerType c.1))))
              else match getW ws into with
                | none => .error s!"unknown world {into}"
                | some v =>
                  let (v', o) := v.spawn vals
                  .ok (setW (setW ws n w') into v', showOut o)
          | _, _ => .error "bad take"
        -- the reservation calls refuse to go past the `u32` id space ("too many entities")
        | "reserve_entity" =>
          match w.reserveEntityChecked with
          | some (w', e) => .ok (setW ws n w', showOut { res := .ent e })
          | none => .ok (ws, "panic")
        | "reserve_entities" | "reserve_bulk" =>
          match (field args "n").bind (·.toNat?) with
          | some cnt =>
            -- `reserve_bulk`: the iterator is advanced `k` times only; the call claims all `n` ids
            let k := if verb == "reserve_bulk" then ((field args "k").bind (·.toNat?)).getD 0 else cnt
            match w.reserveEntitiesPrefix cnt k with
            | some (w', es) => .ok (setW ws n w', showOut { res := .ents es })
            | none => .ok (ws, "panic")
          | none => .error s!"cannot parse: {lhs}"
        | _ =>
          match parseOp verb args with
          | none => .error s!"cannot parse: {lhs}"
          | some op =>
            let (w', o) := step w op
            .ok (setW ws n w', showOut o)
    | _, _ => .error s!"cannot parse: {lhs}"

end Hecs.WorldJudge

namespace Hecs.WorldJudge
open Hecs Hecs.Proto

def hasDup (l : List Nat) : Bool := l.eraseDups.length != l.length

/-- out-of-contract calls, which hecs rejects by panicking before touching anything: a bundle (or a
removed bundle type) naming a component type twice; `spawn_column_batch_at` with repeated ids -/
def outOfContract (lhs : String) : Bool :=
  let toks := (lhs.trimAscii.toString.splitOn " ").filter (· ≠ "")
  match toks with
  | verb :: _ :: args =>
    let b := (((field args "b").bind comps?).getD []).map (·.1)
    let ts := ((field args "ts").bind nats?).getD []
    match verb with
    | "spawn" | "spawn_at" | "insert" => hasDup b
    | "spawn_batch" | "reserve" => hasDup ts
    | "remove" => hasDup ts
    | "exchange" => hasDup ts || hasDup b
    | "spawn_cb_at" | "pspawn_at" =>
      let hs := ((field args "hs").bind entities?).getD []
      hasDup (hs.map (·.id))
    | "query" =>
      -- `query_many_mut` / `get_many_mut` with one handle in two slots
      match field args "path", (field args "es").bind entities? with
      | some path, some es => path.startsWith "many_" && es.eraseDups.length != es.length
      | _, _ => false
    | _ => false
  | _ => false

/-- a query line whose query aliases a unique borrow within itself (its panics are judged by `specLine`) -/
def aliasingQueryLine (lhs : String) : Bool :=
  let toks := (lhs.trimAscii.toString.splitOn " ").filter (· ≠ "")
  match toks with
  | "query" :: _ :: args =>
    match (field args "q").bind QueryJudge.parseShape with
    | some q => !q.assertBorrowOk
    | none => false
  | _ => false

/-- bring the implementation's answer into the canonical form the model is rendered in -/
def normRhs (lhs rhs : String) : String :=
  let toks := (lhs.trimAscii.toString.splitOn " ").filter (· ≠ "")
  match toks with
  | "ser" :: _ :: args =>
    let rt := (rhs.trimAscii.toString.splitOn " ").filter (· ≠ "")
    match field args "fmt", (field rt "tree").bind SerdeJudge.parseT with
    | some fmt, some t => s!"tree={SerdeJudge.canonOf fmt t} honest={(field rt "honest").getD "?"}"
    | _, _ => rhs
  | "de_bytes" :: _ => "impl-only"
  | _ => rhs

/-- returns the new state and the model's rendering of the right-hand side, or an error -/
def stepLine (m : MState) (lhs : String) : Except String (MState × String) :=
  let toks := (lhs.trimAscii.toString.splitOn " ").filter (· ≠ "")
  if outOfContract lhs && !(lhs.startsWith "pspawn_at") then
    -- the duplicate check of `insert`/`exchange` runs after the entity lookup: a handle that is not
    -- live is answered NoSuchEntity (bundle dropped intact) without reaching it
    let early : Option (MState × String) :=
      match toks with
      | verb :: _ :: args =>
        let dupTs := hasDup (((field args "ts").bind nats?).getD [])
        if (verb == "insert" || (verb == "exchange" && !dupTs)) then
          match stepLineW m.worlds lhs with
          | .ok (ws, a) => if a.startsWith "nosuch" then some ({ m with worlds := ws }, a) else none
          | .error _ => none
        else none
      | _ => none
    .ok (early.getD (m, "panic"))
  else
  match toks with
  | ["world", n] =>
    .ok ({ m with worlds := setW m.worlds n World.new,
                  wids := (n, m.nextWid) :: m.wids.filter (·.1 != n), nextWid := m.nextWid + 1 }, "ok")
  | "ser" :: n :: args =>
    match getW m.worlds n, field args "fmt", (field args "H").bind nats? with
    | some w, some fmt, some H =>
      let q := (field args "q").bind QueryJudge.parseShape
      let t := if fmt == "row" then Serde.serRow w H q else Serde.serCol w H q
      .ok (m, s!"tree={SerdeJudge.canonOf fmt t} honest=1")
    | _, _, _ => .error s!"bad ser line: {lhs}"
  | "de" :: n :: args =>
    match field args "fmt", (field args "H").bind nats?, (field args "tree").bind SerdeJudge.parseT with
    | some fmt, some H, some t =>
      match (if fmt == "row" then Serde.deRow H t else Serde.deCol H t) with
      | .ok w =>
        let m' : MState := { m with worlds := setW m.worlds n w, wids := (n, m.nextWid) :: m.wids.filter (·.1 != n),
                                    nextWid := m.nextWid + 1 }
        .ok (m', "ok leak=0")
      | .error _ => .ok (m, "err leak=0")
    | _, _, _ => .error s!"bad de line: {lhs}"
  | "roundtrip" :: _ => .ok (m, "ok")
  | "de_bytes" :: _ => .ok (m, "impl-only")
  | "query" :: n :: args =>
    match getW m.worlds n, (field args "q").bind QueryJudge.parseShape, field args "path",
          (field args "k").bind String.toNat? with
    | some w, some q, some path, some k =>
      if path.startsWith "prepared" then .ok (preparedAnswer m n w k q path args)
      else match stepLineW m.worlds lhs with
        | .ok (ws, a) => .ok ({ m with worlds := ws }, a)
        | .error e => .error e
    | _, _, _, _ => .error s!"bad query line: {lhs}"
  | _ =>
    match stepLineW m.worlds lhs with
    | .ok (ws, a) => .ok ({ m with worlds := ws }, a)
    | .error e => .error e

end Hecs.WorldJudge
