import HecsModel.Model.World
import HecsModel.Model.Proto
/-
  Judge for engine `world`: replays a trace line on the model and renders the model's answer in the
  harness' canonical format.  The comparison itself is a string equality done by the driver.
-/
namespace Hecs.WorldJudge
open Hecs Hecs.Proto

abbrev Worlds := List (String × World)

def getW (ws : Worlds) (n : String) : Option World := (ws.find? (·.1 == n)).map (·.2)
def setW (ws : Worlds) (n : String) (w : World) : Worlds :=
  if ws.any (·.1 == n) then ws.map (fun p => if p.1 == n then (n, w) else p) else ws ++ [(n, w)]

def showRes : Res → String
  | .ok => "ok"
  | .nosuch => "nosuch"
  | .missing => "missing"
  | .panic => "panic"
  | .ent e => "e=" ++ showEntity e
  | .ents es => "es=" ++ showEntities es
  | .vals vs => "vals=" ++ showComps vs

def showOut (o : Out) : String := showRes o.res ++ " d=" ++ showComps (sortComps o.dropped)

/-! observables of the model world -/

def liveList (w : World) : List (Entity × List Comp) :=
  w.archs.toList.flatMap (fun ar => ar.rows.toList.map (fun r => (⟨r.id, w.genOf r.id⟩, sortComps r.vals)))

def obsIter (w : World) : String :=
  let l := sortBy (fun a b => entLt a.1 b.1) (liveList w)
  "[" ++ ";".intercalate (l.map (fun p => showEntity p.1 ++ "=" ++ showComps p.2)) ++ "]"

def obsArch (w : World) : String :=
  let l := w.archs.toList.map (fun ar => (sortNat ar.types, ar.rows.size))
  let l := sortBy (fun a b => natsLt a.1 b.1 || (a.1 == b.1 && a.2 < b.2)) l
  "[" ++ ";".intercalate (l.map (fun p => showNats p.1 ++ "=" ++ toString p.2)) ++ "]"

/-- what `World::contains`, `World::entity` (+ component types and values through `EntityRef`) say
about one handle -/
def obsHandle (w : World) (h : Entity) : String :=
  let c := if w.contains h then "1" else "0"
  let e := match w.get h with
    | none => "x"
    | some none => "[]"
    | some (some (a, i)) => showComps (sortComps (((w.rowAt a i).map (·.vals)).getD []))
  c ++ "/" ++ e

def obs (w : World) (hs : List Entity) : String :=
  s!"len={w.len} iter={obsIter w} arch={obsArch w} hs=" ++ showList (obsHandle w) hs

/-- all values still stored (what dropping the world drops) -/
def allVals (w : World) : List Comp := w.archs.toList.flatMap (fun ar => ar.rows.toList.flatMap (·.vals))

/-! decoding a trace line into a model step -/

def parseOp (verb : String) (toks : List String) : Option Op :=
  let f := field toks
  match verb with
  | "spawn" => do pure (.spawn (← comps? (← f "b")))
  | "spawn_at" => do pure (.spawnAt (← entity? (← f "h")) (← comps? (← f "b")))
  | "spawn_batch" => do pure (.spawnBatch (← nats? (← f "ts")) (← compss? (← f "rows")))
  | "spawn_cb" => do pure (.spawnColumnBatch (← nats? (← f "ts")) (← compss? (← f "rows")))
  | "spawn_cb_at" => do
      pure (.spawnColumnBatchAt (← entities? (← f "hs")) (← nats? (← f "ts")) (← compss? (← f "rows")))
  | "insert" => do pure (.insert (← entity? (← f "h")) (← comps? (← f "b")))
  | "remove" => do pure (.remove (← entity? (← f "h")) (← nats? (← f "ts")))
  | "exchange" => do pure (.exchange (← entity? (← f "h")) (← nats? (← f "ts")) (← comps? (← f "b")))
  | "despawn" => do pure (.despawn (← entity? (← f "h")))
  | "clear" => some .clear
  | "flush" => some .flush
  | "reserve" => do pure (.reserve (← nats? (← f "ts")))
  | "reserve_entity" => some .reserveEntity
  | "reserve_entities" => do pure (.reserveEntities (← (← f "n").toNat?))
  | _ => none

/-- returns the new state and the model's rendering of the right-hand side, or an error -/
def stepLine (ws : Worlds) (lhs : String) : Except String (Worlds × String) :=
  let toks := (lhs.trimAscii.toString.splitOn " ").filter (· ≠ "")
  match toks with
  | [] => .error "empty line"
  | verb :: rest =>
    match verb, rest with
    | "world", [n] => .ok (setW ws n World.new, "ok")
    | _, n :: args =>
      match getW ws n with
      | none => .error s!"unknown world {n}"
      | some w =>
        match verb with
        | "obs" =>
          match (field args "hs").bind entities? with
          | some hs => .ok (ws, obs w hs)
          | none => .error "bad obs"
        | "drop" => .ok (ws.filter (·.1 != n), "ok d=" ++ showComps (sortComps (allVals w)))
        | "take" =>
          match (field args "h").bind entity?, field args "into" with
          | some h, some into =>
            match w.take h with
            | (w', none) => .ok (setW ws n w', "nosuch d=[]")
            | (w', some vals) =>
              if into == "-" then .ok (setW ws n w', "ok d=" ++ showComps (sortComps vals))
              else match getW ws into with
                | none => .error s!"unknown world {into}"
                | some v =>
                  let (v', o) := v.spawn vals
                  .ok (setW (setW ws n w') into v', showOut o)
          | _, _ => .error "bad take"
        | _ =>
          match parseOp verb args with
          | none => .error s!"cannot parse: {lhs}"
          | some op =>
            let (w', o) := step w op
            .ok (setW ws n w', showOut o)
    | _, _ => .error s!"cannot parse: {lhs}"

end Hecs.WorldJudge
