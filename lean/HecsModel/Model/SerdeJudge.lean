import HecsModel.Model.Serde
import HecsModel.Model.Proto
import HecsModel.Spec.World
/-
  Judge support for the serialization verbs (C14, C15) and the representation-invariant check on
  hooked `#state` dumps (oracle (R) of DESIGN §3.5).
-/
namespace Hecs.SerdeJudge
open Hecs Hecs.Proto Hecs.Serde

/-! tree syntax: numbers, `[a,b]`, `{k:v,k:v}` -/

partial def parseTree : List Char → Option (Tree × List Char)
  | '[' :: rest =>
    let rec items (cs : List Char) (acc : List Tree) : Option (List Tree × List Char) :=
      match cs with
      | ']' :: r => some (acc.reverse, r)
      | ',' :: r => items r acc
      | [] => none
      | _ => match parseTree cs with
        | some (v, r) => items r (v :: acc)
        | none => none
    (items rest []).map (fun p => (.seq p.1, p.2))
  | '{' :: rest =>
    let rec entries (cs : List Char) (acc : List (Tree × Tree)) : Option (List (Tree × Tree) × List Char) :=
      match cs with
      | '}' :: r => some (acc.reverse, r)
      | ',' :: r => entries r acc
      | [] => none
      | _ => match parseTree cs with
        | some (k, ':' :: r) => match parseTree r with
          | some (v, r') => entries r' ((k, v) :: acc)
          | none => none
        | _ => none
    (entries rest []).map (fun p => (.map p.1, p.2))
  | cs =>
    let d := cs.takeWhile Char.isDigit
    if d.isEmpty then none else (String.ofList d).toNat?.map (fun n => (.num n, cs.dropWhile Char.isDigit))

def parseT (s : String) : Option Tree :=
  match parseTree s.toList with
  | some (t, []) => some t
  | _ => none

partial def showTree : Tree → String
  | .num n => toString n
  | .seq xs => "[" ++ ",".intercalate (xs.map showTree) ++ "]"
  | .map kvs => "{" ++ ",".intercalate (kvs.map (fun p => showTree p.1 ++ ":" ++ showTree p.2)) ++ "}"

/-! canonical forms (storage order is not part of the property) -/

def keyNum : Tree → Nat
  | .num n => n
  | _ => 0

def canonRow : Tree → Tree
  | .map kvs =>
    let inner (t : Tree) : Tree := match t with
      | .map cs => .map (sortBy (fun a b => keyNum a.1 < keyNum b.1) cs)
      | t => t
    .map (sortBy (fun a b => keyNum a.1 < keyNum b.1) (kvs.map (fun p => (p.1, inner p.2))))
  | t => t

/-- a column block as (sorted ids, rows sorted by entity: (entity bits, values in id order)) -/
def blockRows : Tree → Option (List Nat × List (Nat × List Nat))
  | .seq [.num _, .num _, .seq ids, .seq (.seq ents :: cols)] => do
    let idl ← natsOf ids
    let es ← natsOf ents
    let cs ← cols.mapM (fun c => match c with | .seq xs => natsOf xs | _ => none)
    let order := sortBy (fun a b => a.1 < b.1) idl.zipIdx
    let rows := es.zipIdx.map (fun (e, i) => (e, order.map (fun (_, j) => ((cs.getD j []).getD i 0))))
    pure (order.map (·.1), sortBy (fun a b => a.1 < b.1) rows)
  | _ => none

def canonCol (t : Tree) : String :=
  match t with
  | .seq blocks =>
    match blocks.mapM blockRows with
    | some bs =>
      let key (b : List Nat × List (Nat × List Nat)) : List Nat := b.1 ++ [999999] ++ (b.2.head?.map (·.1)).toList
      let bs := sortBy (fun a b => natsLt (key a) (key b)) bs
      ";".intercalate (bs.map (fun b => showNats b.1 ++ "=" ++
        ",".intercalate (b.2.map (fun r => toString r.1 ++ ":" ++ showNats r.2))))
    | none => "malformed:" ++ showTree t
  | _ => "malformed:" ++ showTree t

def canonOf (fmt : String) (t : Tree) : String :=
  if fmt == "row" then showTree (canonRow t) else canonCol t

/-! specification-level serialization and deserialization over the abstract map -/

open Hecs.Spec in
def specSer (s : SpecW) (fmt : String) (H : List Nat) (q : Option Q) : String :=
  let live := s.live.filter (fun p => match q with | some q => q.sat (p.2.map (·.1)) | none => true)
  if fmt == "row" then
    showTree (canonRow (.map (live.map (fun p =>
      (.num (bitsOf p.1), .map (H.filterMap (fun t => (lookupComp t p.2).map (fun v => (Tree.num t, Tree.num v)))))))))
  else
    let keys := (live.map (fun p => sortNat (p.2.map (·.1)))).eraseDups
    let blocks := keys.map (fun k =>
      let members := live.filter (fun p => sortNat (p.2.map (·.1)) == k)
      let hs := sortNat (H.filter (fun t => k.contains t))
      Tree.seq [.num members.length, .num hs.length, .seq (hs.map Tree.num),
        .seq (.seq (members.map (fun p => Tree.num (bitsOf p.1))) ::
          hs.map (fun t => .seq (members.map (fun p => Tree.num ((lookupComp t p.2).getD 0)))))])
    canonCol (.seq blocks)

open Hecs.Spec in
def specDeRow (H : List Nat) : List (Tree × Tree) → SpecW → Except String SpecW
  | [], s => .ok s
  | (.num k, .map comps) :: rest, s =>
    match entityOfBits k, deEntityMap H comps [] with
    | some e, .ok b => specDeRow H rest (spawnAtOne s e b).1
    | _, _ => .error "rejected"
  | _, _ => .error "rejected"

open Hecs.Spec in
/-- the abstract map a valid column tree denotes (validity is decided by the concrete model) -/
def specDeCol : List Tree → SpecW → SpecW
  | [], s => s
  | t :: rest, s =>
    match blockRows t with
    | some (ids, rows) =>
      -- `blockRows` sorts rows by entity; repeated ids inside one block are rejected earlier
      let s' := rows.foldl (fun s r =>
        match entityOfBits r.1 with
        | some e => (spawnAtOne s e (ids.eraseDups.map (fun t => (t, normVal t (r.2.getD ((ids.idxOf t)) 0))))).1
        | none => s) s
      specDeCol rest s'
    | none => specDeCol rest s

/-! (R): the representation invariant evaluated on the implementation's hooked state -/

structure Dump where
  metas : List (Nat × Nat × Option Nat)       -- gen, archetype, index
  pending : List Nat
  cursor : Int
  len : Nat
  archs : List (List Nat × List Nat × List Nat × Nat)   -- types, ids, borrow words, capacity

def parseDump (toks : List String) : Option Dump := do
  let metasS ← field toks "metas"
  let inner := ((metasS.drop 1).toString.dropEnd 1).toString
  let metas ← (if inner == "" then some [] else (inner.splitOn ",").mapM (fun m =>
    match m.splitOn ":" with
    | [g, a, i] => do pure ((← g.toNat?), (← a.toNat?), (if i == "-" then none else i.toNat?))
    | _ => none))
  let pending ← (field toks "pending").bind nats?
  let cursor ← (field toks "cursor").bind String.toInt?
  let len ← (field toks "len").bind String.toNat?
  let archsS ← field toks "archs"
  let ainner := ((archsS.drop 1).toString.dropEnd 1).toString
  let archs ← (if ainner == "" then some [] else (ainner.splitOn ";").mapM (fun a =>
    match a.splitOn "=" with
    | [ts, ids, bw, cap] => do pure ((← nats? ts), (← nats? ids), (← nats? bw), (← cap.toNat?))
    | _ => none))
  pure { metas, pending, cursor, len, archs }

def checkDump (d : Dump) : Option String :=
  let nm := d.metas.length
  -- I1
  match d.metas.zipIdx.find? (fun (m, id) => match m.2.2 with
      | some i => !(match d.archs[m.2.1]? with
          | some ar => ar.2.1[i]? == some id
          | none => false)
      | none => false) with
  | some (m, id) => some s!"I1: id {id} is located at ({m.2.1},{m.2.2.getD 0}) but that row does not hold it"
  | none =>
  -- I2
  match d.archs.zipIdx.findSome? (fun (ar, a) => ar.2.1.zipIdx.findSome? (fun (id, i) =>
      match d.metas[id]? with
      | some m => if m.2.1 == a && m.2.2 == some i then none else some s!"I2: row ({a},{i}) holds id {id} whose location is elsewhere"
      | none => some s!"I2: row ({a},{i}) holds id {id} beyond the metadata")) with
  | some msg => some msg
  | none =>
  -- I3
  if d.pending.eraseDups.length != d.pending.length then some "I3: the free list repeats an id"
  else match d.pending.find? (fun id => match d.metas[id]? with | some m => m.2.2.isSome | none => true) with
  | some id => some s!"I3: free-list id {id} is out of range or has a row"
  | none =>
  match d.metas.zipIdx.find? (fun (m, id) => m.2.2.isNone && !d.pending.contains id) with
  | some (_, id) => some s!"I3: id {id} has no row and is not on the free list"
  | none =>
  if d.cursor > d.pending.length then some s!"I3: free cursor {d.cursor} beyond the free list ({d.pending.length})"
  else
  -- I4
  let rows := (d.archs.map (·.2.1.length)).sum
  if d.len != rows then some s!"I4: len {d.len} but {rows} rows"
  else if d.len + d.pending.length != nm then some s!"I4: len {d.len} + free {d.pending.length} ≠ metadata size {nm}"
  else match d.archs.find? (fun ar => ar.2.2.2 < ar.2.1.length) with
  | some ar => some s!"capacity {ar.2.2.2} below length {ar.2.1.length}"
  | none =>
  -- I5
  let sets := d.archs.map (fun ar => sortNat ar.1)
  if sets.eraseDups.length != sets.length then some "I5: two archetypes have the same component set"
  else if sets.head? != some [] then some "I5: archetype 0 is not the empty archetype"
  else if d.archs.any (fun ar => (sortNat ar.1).eraseDups.length != ar.1.length) then some "I5: an archetype repeats a component type"
  else if d.archs.any (fun ar => ar.2.2.1.any (· != 0)) then some "a column is still borrowed while no guard is alive"
  else none

end Hecs.SerdeJudge
