import HecsModel.Lemmas.GuardsOps
/-
  C05 helper lemmas, part 4: the world-level invariant `WInv`, its preservation by every guard
  operation (with the explicit `leak` of borrows that refused multi-column acquisitions leave
  behind — finding F15), the grant criterion, exclusivity, and release of everything.
-/
namespace Hecs.GuardLemmas
open Hecs Hecs.Guards

/-- the borrow words count exactly what the live guards hold plus what failed acquisitions leaked;
those holders respect aliasing-xor-mutation; guard names are distinct -/
structure WInv (s : St) (leak : List H) : Prop where
  names : NamesNodup s
  ce : CE s.words (heldAll s ++ leak)

theorem WInv.counts {s : St} {leak : List H} (h : WInv s leak) : Counts s.words (heldAll s ++ leak) := h.ce.counts
theorem WInv.excl {s : St} {leak : List H} (h : WInv s leak) : Excl (heldAll s ++ leak) := h.ce.excl

/-- counter overflow is out of scope: fewer than `UNIQUE` borrows in total -/
def Bound (s : St) (leak want : List H) : Prop :=
  (heldAll s ++ leak).length + want.length < Borrow.UNIQUE

/-! ### generic steps -/

theorem WInv.acquire_ok {s : St} {leak : List H} (h : WInv s leak) {n : String} {g' : Guard}
    {want : List H} {ws' : Words}
    (hothers : (heldAll s).Perm (heldAll (s.delGuard n))) (hheld : held s g' = want)
    (hr : acquireCols s.words want = (ws', true)) :
    WInv ({ s with words := ws' }.setGuard n g') leak := by
  refine ⟨namesNodup_setGuard (s := { s with words := ws' }) n g' h.names, ?_⟩
  have hce := acquireCols_CE want h.ce
  have hpre : acqPre s.words want = want := (acquireCols_ok_iff s.words want).1 (by rw [hr])
  rw [hr, hpre] at hce
  show CE ws' (heldAll ({ s with words := ws' }.setGuard n g') ++ leak)
  rw [heldAll_setGuard, held_congr (s := s) (s' := { s with words := ws' }) rfl, delGuard_words, hheld]
  refine hce.perm ?_
  rw [List.append_assoc]
  exact (hothers.append_right leak).append_left want

theorem WInv.acquire_any {s : St} {leak : List H} (h : WInv s leak) (want : List H) :
    WInv { s with words := (acquireCols s.words want).1 } (acqPre s.words want ++ leak) := by
  refine ⟨h.names, ?_⟩
  have hce := acquireCols_CE want h.ce
  show CE (acquireCols s.words want).1 (heldAll { s with words := (acquireCols s.words want).1 } ++ _)
  rw [heldAll_words]
  refine hce.perm ?_
  rw [← List.append_assoc, ← List.append_assoc]
  exact List.perm_append_comm.append_right leak

theorem WInv.release_del {s : St} {leak : List H} (h : WInv s leak) {n : String} {g : Guard}
    (hg : s.guard n = some g) :
    WInv ({ s with words := dropGuard s g }.delGuard n) leak := by
  refine ⟨namesNodup_delGuard (s := { s with words := dropGuard s g }) n h.names, ?_⟩
  show CE (dropGuard s g) (heldAll ({ s with words := dropGuard s g }.delGuard n) ++ leak)
  rw [delGuard_words, dropGuard_eq]
  apply releaseCols_CE
  refine h.ce.perm ?_
  rw [← List.append_assoc]
  exact (heldAll_perm h.names hg).append_right leak

theorem WInv.release_set {s : St} {leak : List H} (h : WInv s leak) {n : String} {g g' : Guard}
    (hg : s.guard n = some g) (hheld : held s g' = []) :
    WInv ({ s with words := dropGuard s g }.setGuard n g') leak := by
  refine ⟨namesNodup_setGuard (s := { s with words := dropGuard s g }) n g' h.names, ?_⟩
  show CE (dropGuard s g) (heldAll ({ s with words := dropGuard s g }.setGuard n g') ++ leak)
  rw [heldAll_setGuard, held_congr (s := s) (s' := { s with words := dropGuard s g }) rfl, hheld,
    List.nil_append]
  exact (h.release_del hg).ce

theorem WInv.set_nil {s : St} {leak : List H} (h : WInv s leak) {n : String} {g' : Guard}
    (hothers : (heldAll s).Perm (heldAll (s.delGuard n))) (hheld : held s g' = []) :
    WInv (s.setGuard n g') leak := by
  refine ⟨namesNodup_setGuard n g' h.names, ?_⟩
  show CE s.words (heldAll (s.setGuard n g') ++ leak)
  rw [heldAll_setGuard, hheld, List.nil_append]
  exact h.ce.perm (hothers.append_right leak)

theorem others_of_none {s : St} {n : String} (h : s.guard n = none) :
    (heldAll s).Perm (heldAll (s.delGuard n)) := by rw [delGuard_of_none h]

theorem others_of_nil {s : St} {n : String} {g : Guard} (hn : NamesNodup s) (h : s.guard n = some g)
    (hh : held s g = []) : (heldAll s).Perm (heldAll (s.delGuard n)) := by
  have := heldAll_perm hn h
  rwa [hh, List.nil_append] at this

/-- granted iff no overlap -/
theorem WInv.grant_iff {s : St} {leak : List H} (h : WInv s leak) (want : List H)
    (hb : Bound s leak want) :
    (acquireCols s.words want).2 = true ↔ wouldConflict (heldAll s ++ leak) want = false :=
  acquireCols_ok_iff_noconflict want h.ce hb

/-- granted only if no overlap (no bound needed) -/
theorem WInv.granted_noconflict {s : St} {leak : List H} (h : WInv s leak) (want : List H)
    (hok : (acquireCols s.words want).2 = true) : wouldConflict (heldAll s ++ leak) want = false :=
  acquireCols_ok_noconflict want h.ce hok

/-! ### creating a guard -/

/-- the columns `newGuard` tries to acquire -/
def wantNew (s : St) : Guard → List H
  | .query _ _ => []
  | .view q => held s (.view q)
  | .prepared q _ =>
    held s (.prepared q ((List.range s.archs.length).filter (fun a => q.prepares (s.arch a).types)))
  | .one _ _ _ => []
  | .ref a t => if (s.arch a).types.contains t then [((a, t), false)] else []
  | .refMut a t => if (s.arch a).types.contains t then [((a, t), true)] else []
  | .col a t => if (s.arch a).types.contains t then [((a, t), false)] else []
  | .colMut a t => if (s.arch a).types.contains t then [((a, t), true)] else []

/-- common shape of `view` / `prepared` / `iter` / `get` -/
theorem multi_step {s : St} {leak : List H} (h : WInv s leak) {n : String} {g' : Guard} {want : List H}
    (hothers : (heldAll s).Perm (heldAll (s.delGuard n))) (hheld : held s g' = want) :
    let r : St × Outcome :=
      match acquireCols s.words want with
      | (ws, true) => ({ s with words := ws }.setGuard n g', .ok)
      | (ws, false) => ({ s with words := ws }, .panic)
    WInv r.1 (if r.2 = .panic then acqPre s.words want ++ leak else leak) ∧
    (r.2 ≠ .panic ↔ (acquireCols s.words want).2 = true) := by
  have hany := h.acquire_any want
  cases hr : acquireCols s.words want with
  | mk ws' b =>
    rw [hr] at hany
    cases b
    · exact ⟨by simpa using hany, by simp⟩
    · exact ⟨by simpa using h.acquire_ok hothers hheld hr, by simp⟩

/-- common shape of `ref` / `refMut` / `col` / `colMut` / `clone` -/
theorem single_step {s : St} {leak : List H} (h : WInv s leak) {n : String} {g' : Guard} {c : Col} {u : Bool}
    (hothers : (heldAll s).Perm (heldAll (s.delGuard n))) (hheld : held s g' = [(c, u)]) :
    let r : St × Outcome :=
      match acquire s.words c u with
      | some ws => ({ s with words := ws }.setGuard n g', .ok)
      | none => (s, .panic)
    WInv r.1 (if r.2 = .panic then acqPre s.words [(c, u)] ++ leak else leak) ∧
    (r.2 ≠ .panic ↔ (acquireCols s.words [(c, u)]).2 = true) := by
  have hsingle := acquireCols_single s.words c u
  have hpre := acqPre_single s.words c u
  cases ha : acquire s.words c u with
  | none =>
    rw [ha] at hsingle hpre
    simp only [Option.isSome_none, Bool.false_eq_true, if_false] at hpre
    exact ⟨by simpa [hpre] using h, by simp [hsingle]⟩
  | some ws' =>
    rw [ha] at hsingle
    exact ⟨by simpa using h.acquire_ok hothers hheld hsingle, by simp [hsingle]⟩

theorem newGuard_spec {s : St} {leak : List H} (h : WInv s leak) {n : String} (hf : s.guard n = none)
    (g : Guard) :
    WInv (newGuard s n g).1
        (if (newGuard s n g).2 = .panic then acqPre s.words (wantNew s g) ++ leak else leak) ∧
      ((∀ q a b, g ≠ .one q a b) →
        ((newGuard s n g).2 ≠ .panic ↔ (acquireCols s.words (wantNew s g)).2 = true)) := by
  have ho := others_of_none hf
  cases g with
  | query q b =>
    simp only [newGuard, wantNew, acquireCols]
    exact ⟨by simpa using h.set_nil ho rfl, by simp⟩
  | view q =>
    simp only [newGuard, wantNew, startBorrow_eq, ← held_view]
    have := multi_step h (g' := .view q) ho rfl
    exact ⟨this.1, fun _ => this.2⟩
  | prepared q idxs =>
    simp only [newGuard, wantNew, prepFold_eq, ← held_prepared]
    have := multi_step h (g' := .prepared q ((List.range s.archs.length).filter
      (fun a => q.prepares (s.arch a).types))) ho rfl
    exact ⟨this.1, fun _ => this.2⟩
  | one q a b =>
    simp only [newGuard, wantNew]
    refine ⟨?_, fun hne => absurd rfl (hne q a b)⟩
    by_cases hq : q.assertBorrowOk = true
    · simpa [hq] using h.set_nil ho rfl
    · simpa [hq, acqPre] using h
  | ref a t =>
    simp only [newGuard, wantNew]
    by_cases hc : (s.arch a).types.contains t = true
    · simp only [hc, Bool.not_true, Bool.false_eq_true, if_false, if_true]
      have := single_step h (g' := .ref a t) (c := (a, t)) (u := false) ho rfl
      exact ⟨this.1, fun _ => this.2⟩
    · simp only [hc, Bool.not_false, if_true, Bool.not_eq_true] at *
      exact ⟨by simpa [hc] using h, by simp [acquireCols]⟩
  | refMut a t =>
    simp only [newGuard, wantNew]
    by_cases hc : (s.arch a).types.contains t = true
    · simp only [hc, Bool.not_true, Bool.false_eq_true, if_false, if_true]
      have := single_step h (g' := .refMut a t) (c := (a, t)) (u := true) ho rfl
      exact ⟨this.1, fun _ => this.2⟩
    · simp only [hc, Bool.not_false, if_true, Bool.not_eq_true] at *
      exact ⟨by simpa [hc] using h, by simp [acquireCols]⟩
  | col a t =>
    simp only [newGuard, wantNew]
    by_cases hc : (s.arch a).types.contains t = true
    · simp only [hc, Bool.not_true, Bool.false_eq_true, if_false, if_true]
      have := single_step h (g' := .col a t) (c := (a, t)) (u := false) ho rfl
      exact ⟨this.1, fun _ => this.2⟩
    · simp only [hc, Bool.not_false, if_true, Bool.not_eq_true] at *
      exact ⟨by simpa [hc] using h, by simp [acquireCols]⟩
  | colMut a t =>
    simp only [newGuard, wantNew]
    by_cases hc : (s.arch a).types.contains t = true
    · simp only [hc, Bool.not_true, Bool.false_eq_true, if_false, if_true]
      have := single_step h (g' := .colMut a t) (c := (a, t)) (u := true) ho rfl
      exact ⟨this.1, fun _ => this.2⟩
    · simp only [hc, Bool.not_false, if_true, Bool.not_eq_true] at *
      exact ⟨by simpa [hc] using h, by simp [acquireCols]⟩

end Hecs.GuardLemmas
