import HecsModel.Model.Containers
import HecsModel.Lemmas.Layout
/-
  Facts about the bump arena of `entity_builder.rs` / `command_buffer.rs` (`Arena`): lookups after
  `add`, the drop ledger, `clear`, cloning, and the slot sort of `CommandBuffer`.
-/
namespace Hecs

/-- every component type is stored at most once (the `EntityBuilder` invariant) -/
def Arena.TypesNodup (a : Arena) : Prop := (a.slots.map (·.ty)).Nodup

/-- the arena seen as a finite map from component type to value -/
def Arena.spec (a : Arena) : Nat → Option Nat := a.get

/-- two slots occupy disjoint byte ranges -/
def SlotDisjoint (lay : Nat → TyLayout) (s u : Slot) : Prop :=
  s.off + (lay s.ty).size ≤ u.off ∨ u.off + (lay u.ty).size ≤ s.off

/-- one slot is aligned for its type, ends before the cursor and inside the allocation, and the
allocation is aligned strictly enough -/
def SlotOk (lay : Nat → TyLayout) (a : Arena) (s : Slot) : Prop :=
  s.off % (lay s.ty).align = 0 ∧ s.off + (lay s.ty).size ≤ a.cursor ∧
    (lay s.ty).align ≤ a.layAlign ∧ s.off + (lay s.ty).size ≤ a.laySize

/-- the arena layout invariant (C04): every slot is `SlotOk`, slots are pairwise disjoint -/
def ArenaInv (lay : Nat → TyLayout) (a : Arena) : Prop :=
  (∀ s, s ∈ a.slots → SlotOk lay a s) ∧ a.slots.Pairwise (SlotDisjoint lay)

/-- point update of a finite map -/
def updFn (f : Nat → Option Nat) (t v : Nat) : Nat → Option Nat := fun x => if x = t then some v else f x

namespace ArenaLemmas

/-- two lists of the same length related pointwise -/
def Pointwise {α β} (R : α → β → Prop) : List α → List β → Prop
  | [], [] => True
  | a :: as, b :: bs => R a b ∧ Pointwise R as bs
  | _, _ => False

theorem Pointwise.length_eq {α β} {R : α → β → Prop} : ∀ {l : List α} {l' : List β},
    Pointwise R l l' → l.length = l'.length
  | [], [], _ => rfl
  | _ :: as, _ :: bs, h => by
    simp only [List.length_cons]; rw [Pointwise.length_eq (l := as) (l' := bs) h.2]
  | [], _ :: _, h => h.elim
  | _ :: _, [], h => h.elim

theorem Pointwise.get {α β} {R : α → β → Prop} : ∀ {l : List α} {l' : List β},
    Pointwise R l l' → ∀ (i : Nat) (h : i < l.length) (h' : i < l'.length), R l[i] l'[i]
  | [], _, _, i, h, _ => by simp at h
  | _ :: _, [], hp, _, _, _ => hp.elim
  | a :: as, b :: bs, hp, 0, _, _ => hp.1
  | a :: as, b :: bs, hp, i + 1, h, h' => by
    simp only [List.getElem_cons_succ]
    exact Pointwise.get (l := as) (l' := bs) hp.2 i (by simpa using h) (by simpa using h')

/-- overwrite the value of every slot of type `t` -/
def setVal (t v : Nat) (l : List Slot) : List Slot :=
  l.map (fun s => if s.ty == t then { s with val := v } else s)

def valsOf (l : List Slot) : List Comp := l.map (fun s => (s.ty, s.val))

def getOf (l : List Slot) (t : Nat) : Option Nat := (l.find? (·.ty == t)).map (·.val)

theorem setVal_cons_pos (t v : Nat) (s : Slot) (r : List Slot) (h : s.ty = t) :
    setVal t v (s :: r) = { s with val := v } :: setVal t v r := by
  simp [setVal, h]

theorem setVal_cons_neg (t v : Nat) (s : Slot) (r : List Slot) (h : s.ty ≠ t) :
    setVal t v (s :: r) = s :: setVal t v r := by
  simp [setVal, h]

theorem setVal_map_ty (t v : Nat) (l : List Slot) : (setVal t v l).map (·.ty) = l.map (·.ty) := by
  induction l with
  | nil => rfl
  | cons s r ih =>
    by_cases h : s.ty = t
    · rw [setVal_cons_pos t v s r h, List.map_cons, List.map_cons, ih]
    · rw [setVal_cons_neg t v s r h, List.map_cons, List.map_cons, ih]

theorem setVal_map_off (t v : Nat) (l : List Slot) : (setVal t v l).map (·.off) = l.map (·.off) := by
  induction l with
  | nil => rfl
  | cons s r ih =>
    by_cases h : s.ty = t
    · rw [setVal_cons_pos t v s r h, List.map_cons, List.map_cons, ih]
    · rw [setVal_cons_neg t v s r h, List.map_cons, List.map_cons, ih]

theorem setVal_length (t v : Nat) (l : List Slot) : (setVal t v l).length = l.length := by
  simp [setVal]

theorem find?_setVal_same (t v : Nat) (l : List Slot) :
    (setVal t v l).find? (·.ty == t) = (l.find? (·.ty == t)).map (fun s => { s with val := v }) := by
  induction l with
  | nil => rfl
  | cons s r ih =>
    by_cases h : s.ty = t
    · rw [setVal_cons_pos t v s r h]
      rw [List.find?_cons_of_pos (by simpa using h), List.find?_cons_of_pos (by simpa using h)]
      rfl
    · rw [setVal_cons_neg t v s r h]
      rw [List.find?_cons_of_neg (by simpa using h), List.find?_cons_of_neg (by simpa using h), ih]

theorem getOf_setVal_other (t t' v : Nat) (l : List Slot) (h : t' ≠ t) :
    getOf (setVal t v l) t' = getOf l t' := by
  induction l with
  | nil => rfl
  | cons s r ih =>
    unfold getOf at ih ⊢
    by_cases h1 : s.ty = t
    · rw [setVal_cons_pos t v s r h1]
      have h2 : s.ty ≠ t' := by omega
      rw [List.find?_cons_of_neg (by simpa using h2), List.find?_cons_of_neg (by simpa using h2), ih]
    · rw [setVal_cons_neg t v s r h1]
      by_cases h2 : s.ty = t'
      · rw [List.find?_cons_of_pos (by simpa using h2), List.find?_cons_of_pos (by simpa using h2)]
      · rw [List.find?_cons_of_neg (by simpa using h2), List.find?_cons_of_neg (by simpa using h2), ih]

theorem setVal_of_not_mem (t v : Nat) (l : List Slot) (h : t ∉ l.map (·.ty)) : setVal t v l = l := by
  induction l with
  | nil => rfl
  | cons s r ih =>
    simp only [List.map_cons, List.mem_cons, not_or] at h
    rw [setVal_cons_neg t v s r (fun e => h.1 e.symm), ih h.2]

theorem perm_swap_ends {α} (x y : α) (m : List α) : (x :: m ++ [y]).Perm (y :: m ++ [x]) := by
  have h1 : (x :: m ++ [y]).Perm (y :: x :: m) := by
    simpa using (List.perm_append_singleton y (x :: m))
  have h2 : (y :: m ++ [x]).Perm (y :: x :: m) := by
    exact (List.perm_append_singleton x m).cons y
  exact h1.trans h2.symm

/-- replacing the value of the (unique) slot of type `t` swaps exactly one value -/
theorem setVal_ledger (t v : Nat) (l : List Slot) (old : Slot) (hn : (l.map (·.ty)).Nodup)
    (hf : l.find? (·.ty == t) = some old) :
    (valsOf l ++ [(t, v)]).Perm (valsOf (setVal t v l) ++ [(t, old.val)]) := by
  induction l with
  | nil => simp at hf
  | cons s r ih =>
    rw [List.map_cons, List.nodup_cons] at hn
    by_cases h : (s.ty == t) = true
    · have hs : s = old := by simpa [List.find?_cons, h] using hf
      subst hs
      have ht : s.ty = t := by simpa using h
      have hr : setVal t v r = r := setVal_of_not_mem t v r (ht ▸ hn.1)
      rw [setVal_cons_pos t v s r ht, hr]
      simp only [valsOf, List.map_cons, ht]
      exact perm_swap_ends _ _ _
    · have hf' : r.find? (·.ty == t) = some old := by simpa [List.find?_cons, h] using hf
      rw [setVal_cons_neg t v s r (by simpa using h)]
      simp only [valsOf, List.map_cons, List.cons_append]
      exact (ih hn.2 hf').cons _

/-- the slot list after `add` -/
theorem add_slots (lay : Nat → TyLayout) (a : Arena) (t v : Nat) :
    (a.add lay t v).1.slots =
      match a.slots.find? (·.ty == t) with
      | some _ => setVal t v a.slots
      | none => a.slots ++ [⟨t, alignUp a.cursor (lay t).align, v⟩] := by
  unfold Arena.add
  cases h : a.slots.find? (·.ty == t) with
  | some old => rfl
  | none =>
    simp only []
    split <;> rfl

theorem add_dropped (lay : Nat → TyLayout) (a : Arena) (t v : Nat) :
    (a.add lay t v).2 = match a.get t with | some old => [(t, old)] | none => [] := by
  unfold Arena.add Arena.get
  split
  · rename_i old h; simp [h]
  · rename_i h; simp [h]

theorem get_eq_getOf (a : Arena) (t : Nat) : a.get t = getOf a.slots t := rfl
theorem vals_eq_valsOf (a : Arena) : a.vals = valsOf a.slots := rfl

theorem add_get_same (lay : Nat → TyLayout) (a : Arena) (t v : Nat) :
    ((a.add lay t v).1).get t = some v := by
  rw [get_eq_getOf, add_slots]
  split
  · rename_i old h
    simp [getOf, find?_setVal_same, h]
  · rename_i h
    simp [getOf, List.find?_append, h]

theorem add_get_other (lay : Nat → TyLayout) (a : Arena) (t t' v : Nat) (h : t' ≠ t) :
    ((a.add lay t v).1).get t' = a.get t' := by
  rw [get_eq_getOf, get_eq_getOf, add_slots]
  split
  · exact getOf_setVal_other t t' v _ h
  · have : (t == t') = false := by simp only [beq_eq_false_iff_ne]; exact fun e => h e.symm
    simp only [getOf, List.find?_append, List.find?_cons, this, List.find?_nil]
    cases List.find? (fun x => x.ty == t') a.slots <;> rfl

theorem has_eq_get_isSome (a : Arena) (t : Nat) : a.has t = (a.get t).isSome := by
  unfold Arena.has Arena.get
  rw [Bool.eq_iff_iff]
  simp [List.find?_isSome]

theorem add_types (lay : Nat → TyLayout) (a : Arena) (t v : Nat) :
    (a.add lay t v).1.slots.map (·.ty) =
      if a.has t then a.slots.map (·.ty) else a.slots.map (·.ty) ++ [t] := by
  rw [add_slots, has_eq_get_isSome, Arena.get]
  split
  · rename_i h; simp [h, setVal_map_ty]
  · rename_i h; simp [h]

theorem has_iff_mem (a : Arena) (t : Nat) : a.has t = true ↔ t ∈ a.slots.map (·.ty) := by
  simp [Arena.has]

theorem add_typesNodup (lay : Nat → TyLayout) (a : Arena) (t v : Nat) (h : a.TypesNodup) :
    (a.add lay t v).1.TypesNodup := by
  unfold Arena.TypesNodup at *
  rw [add_types]
  split
  · exact h
  · rename_i hh
    have : t ∉ a.slots.map (·.ty) := fun hm => hh ((has_iff_mem a t).2 hm)
    rw [List.nodup_append]
    refine ⟨h, by simp, ?_⟩
    intro x hx y hy
    simp only [List.mem_singleton] at hy
    subst hy
    exact fun e => this (e ▸ hx)

theorem add_ledger (lay : Nat → TyLayout) (a : Arena) (t v : Nat) (h : a.TypesNodup) :
    (a.vals ++ [(t, v)]).Perm ((a.add lay t v).1.vals ++ (a.add lay t v).2) := by
  rw [vals_eq_valsOf, vals_eq_valsOf, add_slots, add_dropped, Arena.get]
  split
  · rename_i old hf
    simp only [hf, Option.map_some]
    exact setVal_ledger t v a.slots old h hf
  · rename_i hf
    simp [hf, valsOf]

/-! ### `addAll` -/

theorem addAll_cons (lay : Nat → TyLayout) (a : Arena) (c : Comp) (cs d : List Comp) :
    a.addAll lay (c :: cs) d = (a.add lay c.1 c.2).1.addAll lay cs (d ++ (a.add lay c.1 c.2).2) := rfl

theorem add_spec (lay : Nat → TyLayout) (a : Arena) (t v : Nat) :
    (a.add lay t v).1.spec = updFn a.spec t v := by
  funext x
  unfold Arena.spec updFn
  split
  · rename_i h; subst h; exact add_get_same lay a x v
  · rename_i h; exact add_get_other lay a t x v h

theorem addAll_spec (lay : Nat → TyLayout) (a : Arena) (cs d : List Comp) :
    (a.addAll lay cs d).1.spec = cs.foldl (fun f c => updFn f c.1 c.2) a.spec := by
  induction cs generalizing a d with
  | nil => rfl
  | cons c cs ih => rw [addAll_cons, ih, List.foldl_cons, add_spec]

theorem foldl_updFn (cs : List Comp) (f : Nat → Option Nat) (t : Nat) :
    cs.foldl (fun f c => updFn f c.1 c.2) f t =
      ((cs.reverse.find? (·.1 == t)).map (·.2)).or (f t) := by
  induction cs generalizing f with
  | nil => simp
  | cons c cs ih =>
    rw [List.foldl_cons, ih, List.reverse_cons, List.find?_append]
    cases hr : List.find? (fun x => x.1 == t) cs.reverse with
    | some x => simp
    | none =>
      simp only [Option.none_or, Option.map_none, List.find?_cons, List.find?_nil, updFn]
      by_cases h : t = c.1
      · subst h; simp
      · have : (c.1 == t) = false := by simp only [beq_eq_false_iff_ne]; exact fun e => h e.symm
        simp [this, h]

theorem addAll_typesNodup (lay : Nat → TyLayout) (a : Arena) (cs d : List Comp) (h : a.TypesNodup) :
    (a.addAll lay cs d).1.TypesNodup := by
  induction cs generalizing a d with
  | nil => exact h
  | cons c cs ih => rw [addAll_cons]; exact ih _ _ (add_typesNodup lay a c.1 c.2 h)

theorem addAll_ledger (lay : Nat → TyLayout) (a : Arena) (cs d : List Comp) (h : a.TypesNodup) :
    (a.vals ++ cs ++ d).Perm ((a.addAll lay cs d).1.vals ++ (a.addAll lay cs d).2) := by
  induction cs generalizing a d with
  | nil => simp [Arena.addAll]
  | cons c cs ih =>
    rw [addAll_cons]
    refine List.Perm.trans ?_ (ih _ _ (add_typesNodup lay a c.1 c.2 h))
    have h1 := add_ledger lay a c.1 c.2 h
    -- a.vals ++ c :: cs ++ d  ~  (a'.vals ++ dr) ++ cs ++ d  ~  a'.vals ++ cs ++ (d ++ dr)
    have e1 : (a.vals ++ c :: cs ++ d).Perm ((a.vals ++ [c]) ++ (cs ++ d)) := by simp
    refine e1.trans ((h1.append_right _).trans ?_)
    generalize (a.add lay c.1 c.2).1.vals = X
    generalize (a.add lay c.1 c.2).2 = Y
    have : (Y ++ (cs ++ d)).Perm (cs ++ (d ++ Y)) := by
      have := (List.perm_append_comm : (Y ++ (cs ++ d)).Perm ((cs ++ d) ++ Y))
      simpa using this
    simpa using this.append_left X

/-! ### cloning -/

theorem cloneVals_cons (cc : CloneCounts) (c : Comp) (cs : List Comp) :
    cloneVals cc (c :: cs) =
      ((cloneVals (cc.bump c.1 c.2).1 cs).1, (c.1, (cc.bump c.1 c.2).2) :: (cloneVals (cc.bump c.1 c.2).1 cs).2) := rfl

theorem bump_serial (cc : CloneCounts) (t v : Nat) : ∃ k, 1 ≤ k ∧ (cc.bump t v).2 = cloneSerial v k := by
  unfold CloneCounts.bump
  split
  · rename_i e _; exact ⟨e.2.2 + 1, by omega, rfl⟩
  · exact ⟨1, by omega, rfl⟩

theorem cloneSerial_fresh (v k : Nat) (hv : v ≠ 0) (hk : 1 ≤ k) : cloneSerial v k ≠ v := by
  unfold cloneSerial
  rw [if_neg hv]; omega

theorem cloneVals_rel (cc : CloneCounts) (l : List Comp) :
    Pointwise (fun c c' => c'.1 = c.1 ∧ ∃ k, 1 ≤ k ∧ c'.2 = cloneSerial c.2 k) l (cloneVals cc l).2 := by
  induction l generalizing cc with
  | nil => exact trivial
  | cons c cs ih =>
    rw [cloneVals_cons]
    exact ⟨⟨rfl, bump_serial cc c.1 c.2⟩, ih _⟩

theorem cloneVals_length (cc : CloneCounts) (l : List Comp) : (cloneVals cc l).2.length = l.length :=
  (cloneVals_rel cc l).length_eq.symm

theorem cloneVals_map_fst (cc : CloneCounts) (l : List Comp) : (cloneVals cc l).2.map (·.1) = l.map (·.1) := by
  induction l generalizing cc with
  | nil => rfl
  | cons c cs ih => rw [cloneVals_cons]; simp [ih]

/-- re-valuing a slot list with a value list of the same shape -/
def reval (l : List Slot) (vs : List Comp) : List Slot := (l.zip vs).map (fun p => { p.1 with val := p.2.2 })

theorem reval_valsOf (l : List Slot) (vs : List Comp) (h : vs.map (·.1) = l.map (·.ty)) :
    valsOf (reval l vs) = vs := by
  induction l generalizing vs with
  | nil => cases vs <;> simp_all [reval, valsOf]
  | cons s r ih =>
    cases vs with
    | nil => simp at h
    | cons c cs =>
      simp only [List.map_cons, List.cons.injEq] at h
      have := ih cs h.2
      simp only [reval, valsOf, List.zip_cons_cons, List.map_cons] at this ⊢
      rw [this, ← h.1]

theorem reval_map_off (l : List Slot) (vs : List Comp) (h : vs.length = l.length) :
    (reval l vs).map (·.off) = l.map (·.off) := by
  induction l generalizing vs with
  | nil => cases vs <;> simp_all [reval]
  | cons s r ih =>
    cases vs with
    | nil => simp at h
    | cons c cs =>
      have := ih cs (by simpa using h)
      simp only [reval, List.zip_cons_cons, List.map_cons] at this ⊢
      rw [this]

theorem reval_rel (l : List Slot) (vs : List Comp) (R : Nat → Nat → Prop)
    (h : Pointwise (fun c c' => c'.1 = c.1 ∧ R c.2 c'.2) (valsOf l) vs) :
    Pointwise (fun s s' => s'.ty = s.ty ∧ s'.off = s.off ∧ R s.val s'.val) l (reval l vs) := by
  induction l generalizing vs with
  | nil => cases vs <;> first | exact trivial | exact h.elim
  | cons s r ih =>
    cases vs with
    | nil => exact h.elim
    | cons c cs =>
      simp only [valsOf, List.map_cons] at h
      exact ⟨⟨rfl, rfl, h.1.2⟩, ih _ h.2⟩

theorem cloneB_arena (cc : CloneCounts) (b : Builder) :
    (b.cloneB cc).2.arena = { b.arena with slots := reval b.arena.slots (cloneVals cc b.arena.vals).2 } := rfl

theorem cloneB_kind (cc : CloneCounts) (b : Builder) : (b.cloneB cc).2.kind = b.kind := rfl

/-! ### the slot sort of `CommandBuffer` -/

theorem insertSlot_perm (s : Slot) (l : List Slot) : (CmdBuf.insertSlot s l).Perm (s :: l) := by
  induction l with
  | nil => exact List.Perm.refl _
  | cons d ds ih =>
    simp only [CmdBuf.insertSlot]
    split
    · exact List.Perm.refl _
    · exact (ih.cons d).trans (List.Perm.swap s d ds)

theorem sortSlots_perm (l : List Slot) : (CmdBuf.sortSlots l).Perm l := by
  induction l with
  | nil => exact List.Perm.refl _
  | cons s ss ih => exact (insertSlot_perm s _).trans (ih.cons s)

theorem sortSlots_length (l : List Slot) : (CmdBuf.sortSlots l).length = l.length :=
  (sortSlots_perm l).length_eq

theorem insertSlot_sorted (s : Slot) (l : List Slot) (h : l.Pairwise (fun x y => x.ty ≤ y.ty)) :
    (CmdBuf.insertSlot s l).Pairwise (fun x y => x.ty ≤ y.ty) := by
  induction l with
  | nil => simp [CmdBuf.insertSlot]
  | cons d ds ih =>
    rw [List.pairwise_cons] at h
    simp only [CmdBuf.insertSlot]
    split
    · rename_i hle
      refine List.pairwise_cons.2 ⟨?_, List.pairwise_cons.2 h⟩
      intro x hx
      rcases List.mem_cons.1 hx with rfl | hx
      · exact hle
      · exact Nat.le_trans hle (h.1 x hx)
    · rename_i hle
      refine List.pairwise_cons.2 ⟨?_, ih h.2⟩
      intro x hx
      rcases List.mem_cons.1 ((insertSlot_perm s ds).mem_iff.1 hx) with rfl | hx
      · omega
      · exact h.1 x hx

theorem sortSlots_sorted (l : List Slot) : (CmdBuf.sortSlots l).Pairwise (fun x y => x.ty ≤ y.ty) := by
  induction l with
  | nil => simp [CmdBuf.sortSlots]
  | cons s ss ih => exact insertSlot_sorted s _ ih

/-- lookups only depend on the slots as a set when the keys are distinct -/
theorem find?_perm {l1 l2 : List Slot} (hp : l1.Perm l2) (hn : (l1.map (·.ty)).Nodup) (t : Nat) :
    l1.find? (·.ty == t) = l2.find? (·.ty == t) := by
  induction hp with
  | nil => rfl
  | cons x _ ih =>
    rw [List.map_cons, List.nodup_cons] at hn
    simp only [List.find?_cons]
    split
    · rfl
    · exact ih hn.2
  | swap x y l =>
    simp only [List.map_cons, List.nodup_cons, List.mem_cons, not_or] at hn
    simp only [List.find?_cons]
    by_cases hx : (x.ty == t) = true <;> by_cases hy : (y.ty == t) = true
    · exfalso
      simp only [beq_iff_eq] at hx hy
      exact hn.1.1 (hy.trans hx.symm)
    · simp [hx, hy]
    · simp [hx, hy]
    · simp [hx, hy]
  | trans h1 _ ih1 ih2 =>
    rw [ih1 hn]
    exact ih2 (((h1.map (·.ty)).nodup_iff).1 hn)

theorem sortSlots_getOf (l : List Slot) (hn : (l.map (·.ty)).Nodup) (t : Nat) :
    getOf (CmdBuf.sortSlots l) t = getOf l t := by
  unfold getOf
  rw [find?_perm (sortSlots_perm l).symm hn t]

theorem sortSlots_valsOf_perm (l : List Slot) : (valsOf (CmdBuf.sortSlots l)).Perm (valsOf l) :=
  (sortSlots_perm l).map _

theorem sortSlots_types_nodup (l : List Slot) (hn : (l.map (·.ty)).Nodup) :
    ((CmdBuf.sortSlots l).map (·.ty)).Nodup :=
  (((sortSlots_perm l).map (·.ty)).nodup_iff).2 hn

/-! ### the layout invariant (C04) -/

theorem SlotDisjoint.symm {lay : Nat → TyLayout} {s u : Slot} (h : SlotDisjoint lay s u) :
    SlotDisjoint lay u s := Or.symm h

theorem arenaInv_empty (lay : Nat → TyLayout) (n al : Nat) :
    ArenaInv lay { slots := [], cursor := 0, laySize := n, layAlign := al } := by
  simp [ArenaInv]

theorem arenaInv_default (lay : Nat → TyLayout) : ArenaInv lay {} := arenaInv_empty lay _ _

theorem arenaInv_clear (lay : Nat → TyLayout) (a : Arena) : ArenaInv lay (a.clear).1 := by
  simp [ArenaInv, Arena.clear]

/-- the invariant only looks at the types and offsets of the slots -/
theorem arenaInv_setVal (lay : Nat → TyLayout) (a : Arena) (t v : Nat) (h : ArenaInv lay a) :
    ArenaInv lay { a with slots := setVal t v a.slots } := by
  obtain ⟨h1, h2⟩ := h
  constructor
  · intro s hs
    simp only [setVal, List.mem_map] at hs
    obtain ⟨s0, hs0, rfl⟩ := hs
    have := h1 s0 hs0
    split <;> exact this
  · simp only [setVal]
    rw [List.pairwise_map]
    refine h2.imp ?_
    intro x y hxy
    unfold SlotDisjoint at *
    split <;> split <;> exact hxy

/-- the slot list is a set as far as the invariant is concerned -/
theorem arenaInv_perm (lay : Nat → TyLayout) (a : Arena) (l : List Slot) (hp : l.Perm a.slots)
    (h : ArenaInv lay a) : ArenaInv lay { a with slots := l } := by
  obtain ⟨h1, h2⟩ := h
  exact ⟨fun s hs => h1 s (hp.mem_iff.1 hs), (hp.pairwise_iff (fun h => SlotDisjoint.symm h)).2 h2⟩

/-- bump-allocating a new slot (`CommandBuffer::add_inner`, and the append branch of `Common::add`) -/
theorem arenaInv_addInner (lay : Nat → TyLayout) (a : Arena) (t v : Nat) (h : ArenaInv lay a)
    (hal : 0 < (lay t).align)
    (hstop : alignUp a.cursor (lay t).align + (lay t).size ≤
      nextPow2 (alignUp a.cursor (lay t).align + (lay t).size)) :
    ArenaInv lay (CmdBuf.addInner lay a t v) := by
  obtain ⟨h1, h2⟩ := h
  have hc : a.cursor ≤ alignUp a.cursor (lay t).align := LayoutLemmas.alignUp_mono_le _ _ hal
  have hm : alignUp a.cursor (lay t).align % (lay t).align = 0 := LayoutLemmas.alignUp_mod _ _
  unfold CmdBuf.addInner
  simp only []
  split
  · rename_i hg
    constructor
    · intro s hs
      simp only [List.mem_append, List.mem_singleton] at hs
      rcases hs with hs | rfl
      · obtain ⟨p1, p2, p3, p4⟩ := h1 s hs
        refine ⟨p1, ?_, ?_, ?_⟩ <;> simp only [] <;> omega
      · refine ⟨hm, Nat.le_refl _, ?_, ?_⟩ <;> simp only [] <;> omega
    · simp only []
      rw [List.pairwise_append]
      refine ⟨h2, by simp, ?_⟩
      intro x hx y hy
      simp only [List.mem_singleton] at hy
      subst hy
      have := (h1 x hx).2.1
      exact Or.inl (by simp only []; omega)
  · rename_i hg
    simp only [Bool.or_eq_true, decide_eq_true_eq, not_or, Nat.not_lt] at hg
    constructor
    · intro s hs
      simp only [List.mem_append, List.mem_singleton] at hs
      rcases hs with hs | rfl
      · obtain ⟨p1, p2, p3, p4⟩ := h1 s hs
        refine ⟨p1, ?_, p3, p4⟩; simp only []; omega
      · exact ⟨hm, Nat.le_refl _, hg.2, hg.1⟩
    · simp only []
      rw [List.pairwise_append]
      refine ⟨h2, by simp, ?_⟩
      intro x hx y hy
      simp only [List.mem_singleton] at hy
      subst hy
      have := (h1 x hx).2.1
      exact Or.inl (by simp only []; omega)

theorem add_of_none (lay : Nat → TyLayout) (a : Arena) (t v : Nat)
    (h : a.slots.find? (·.ty == t) = none) : (a.add lay t v).1 = CmdBuf.addInner lay a t v := by
  unfold Arena.add CmdBuf.addInner
  rw [h]

theorem add_of_some (lay : Nat → TyLayout) (a : Arena) (t v : Nat) (old : Slot)
    (h : a.slots.find? (·.ty == t) = some old) :
    (a.add lay t v).1 = { a with slots := setVal t v a.slots } := by
  unfold Arena.add
  rw [h]; rfl

/-- `Common::add` keeps the layout invariant, in both the replace and the append branch -/
theorem arenaInv_add' (lay : Nat → TyLayout) (a : Arena) (t v : Nat) (h : ArenaInv lay a)
    (hal : 0 < (lay t).align)
    (hstop : alignUp a.cursor (lay t).align + (lay t).size ≤
      nextPow2 (alignUp a.cursor (lay t).align + (lay t).size)) :
    ArenaInv lay (a.add lay t v).1 := by
  cases hf : a.slots.find? (·.ty == t) with
  | some old => rw [add_of_some lay a t v old hf]; exact arenaInv_setVal lay a t v h
  | none => rw [add_of_none lay a t v hf]; exact arenaInv_addInner lay a t v h hal hstop

theorem arenaInv_add (lay : Nat → TyLayout) (a : Arena) (t v : Nat) (h : ArenaInv lay a)
    (hal : 0 < (lay t).align)
    (hstop : alignUp a.cursor (lay t).align + (lay t).size ≤ 2 ^ 63) :
    ArenaInv lay (a.add lay t v).1 :=
  arenaInv_add' lay a t v h hal (LayoutLemmas.le_nextPow2 _ hstop)

theorem addInner_cursor (lay : Nat → TyLayout) (a : Arena) (t v : Nat) :
    (CmdBuf.addInner lay a t v).cursor = alignUp a.cursor (lay t).align + (lay t).size := by
  unfold CmdBuf.addInner; simp only []

theorem add_cursor_le (lay : Nat → TyLayout) (a : Arena) (t v : Nat) (hal : 0 < (lay t).align) :
    a.cursor ≤ (a.add lay t v).1.cursor := by
  cases hf : a.slots.find? (·.ty == t) with
  | some old => rw [add_of_some lay a t v old hf]; exact Nat.le_refl _
  | none =>
    rw [add_of_none lay a t v hf, addInner_cursor]
    have := LayoutLemmas.alignUp_mono_le a.cursor _ hal
    omega

theorem addAll_cursor_le (lay : Nat → TyLayout) (a : Arena) (cs d : List Comp)
    (hal : ∀ c, c ∈ cs → 0 < (lay c.1).align) : a.cursor ≤ (a.addAll lay cs d).1.cursor := by
  induction cs generalizing a d with
  | nil => exact Nat.le_refl _
  | cons c cs ih =>
    rw [addAll_cons]
    exact Nat.le_trans (add_cursor_le lay a c.1 c.2 (hal c (by simp)))
      (ih _ _ (fun x hx => hal x (List.mem_cons_of_mem _ hx)))

/-- a whole script keeps the invariant as long as the arena stays below `2^63` bytes -/
theorem arenaInv_addAll (lay : Nat → TyLayout) (a : Arena) (cs d : List Comp) (h : ArenaInv lay a)
    (hal : ∀ c, c ∈ cs → 0 < (lay c.1).align)
    (hb : ∀ c, c ∈ cs → (lay c.1).size + (lay c.1).align + (a.addAll lay cs d).1.cursor ≤ 2 ^ 63) :
    ArenaInv lay (a.addAll lay cs d).1 := by
  induction cs generalizing a d with
  | nil => exact h
  | cons c cs ih =>
    rw [addAll_cons] at hb ⊢
    have hmono := addAll_cursor_le lay (a.add lay c.1 c.2).1 cs (d ++ (a.add lay c.1 c.2).2)
      (fun x hx => hal x (List.mem_cons_of_mem _ hx))
    have hc := add_cursor_le lay a c.1 c.2 (hal c (by simp))
    refine ih _ _ ?_ (fun x hx => hal x (List.mem_cons_of_mem _ hx))
      (fun x hx => hb x (List.mem_cons_of_mem _ hx))
    apply arenaInv_add lay a c.1 c.2 h (hal c (by simp))
    have h1 := LayoutLemmas.alignUp_lt a.cursor _ (hal c (by simp))
    have h2 := hb c (by simp)
    omega

/-- the (type, offset) of a slot: all the layout invariant looks at -/
def key (s : Slot) : Nat × Nat := (s.ty, s.off)

theorem arenaInv_of_keys (lay : Nat → TyLayout) (a : Arena) (l : List Slot)
    (hk : l.map key = a.slots.map key) (h : ArenaInv lay a) : ArenaInv lay { a with slots := l } := by
  obtain ⟨h1, h2⟩ := h
  constructor
  · intro s hs
    have : key s ∈ a.slots.map key := hk ▸ List.mem_map_of_mem hs
    obtain ⟨s0, hs0, he⟩ := List.mem_map.1 this
    have ht : s0.ty = s.ty := congrArg Prod.fst he
    have ho : s0.off = s.off := congrArg Prod.snd he
    have := h1 s0 hs0
    unfold SlotOk at *
    rw [ht, ho] at this
    exact this
  · have e : ∀ l : List Slot, l.Pairwise (SlotDisjoint lay) ↔
        (l.map key).Pairwise (fun p q => p.2 + (lay p.1).size ≤ q.2 ∨ q.2 + (lay q.1).size ≤ p.2) := by
      intro l; rw [List.pairwise_map]; rfl
    show l.Pairwise (SlotDisjoint lay)
    rw [e, hk, ← e]; exact h2

theorem reval_map_key (l : List Slot) (vs : List Comp) (h : vs.length = l.length) :
    (reval l vs).map key = l.map key := by
  induction l generalizing vs with
  | nil => cases vs <;> simp_all [reval]
  | cons s r ih =>
    cases vs with
    | nil => simp at h
    | cons c cs =>
      have := ih cs (by simpa using h)
      simp only [reval, List.zip_cons_cons, List.map_cons] at this ⊢
      rw [this]; rfl

theorem arenaInv_reval (lay : Nat → TyLayout) (a : Arena) (vs : List Comp) (hl : vs.length = a.slots.length)
    (h : ArenaInv lay a) : ArenaInv lay { a with slots := reval a.slots vs } :=
  arenaInv_of_keys lay a _ (reval_map_key a.slots vs hl) h

/-- every slot of an arena satisfying the invariant is at an aligned address -/
theorem slot_address_aligned (lay : Nat → TyLayout) (a : Arena) (base : Nat) (s : Slot)
    (h : ArenaInv lay a) (hb : base % a.layAlign = 0) (hd : (lay s.ty).align ∣ a.layAlign)
    (hs : s ∈ a.slots) : (base + s.off) % (lay s.ty).align = 0 :=
  LayoutLemmas.slot_address_aligned_core base s.off _ a.layAlign (h.1 s hs).1 hd hb

/-- two different positions of the slot list hold disjoint byte ranges -/
theorem arenaInv_disjoint (lay : Nat → TyLayout) (a : Arena) (h : ArenaInv lay a) (i j : Nat)
    (hi : i < a.slots.length) (hj : j < a.slots.length) (hij : i ≠ j) :
    SlotDisjoint lay a.slots[i] a.slots[j] := by
  have := List.pairwise_iff_getElem.1 h.2
  rcases Nat.lt_or_gt_of_ne hij with hlt | hgt
  · exact this i j hi hj hlt
  · exact (this j i hj hi hgt).symm

end ArenaLemmas
end Hecs
