import HecsModel.Props.C01Effects
import HecsModel.Props.C02
import HecsModel.Props.C07
/-
  C02, history form: every handle the world hands out differs from every handle it handed out before
  (ids resurrected by an id-targeted spawn, and everything before a `clear`, excepted).
  Helper lemmas; the property theorems are in `Props/C02Issued.lean`.
-/
namespace Hecs
open Hecs.Props

namespace World

/-- a contained handle carries the generation stored for its id -/
theorem contains_gen (w : World) (e : Entity) (h : w.contains e = true) : e.gen = w.genOf e.id := by
  unfold contains at h
  unfold genOf
  cases hm : w.metas[e.id]? with
  | none => simp [hm] at h ⊢; omega
  | some m => simp [hm] at h ⊢; omega

/-- at most one handle per id is contained -/
theorem contains_unique (w : World) (e e' : Entity) (h : w.contains e = true) (h' : w.contains e' = true)
    (hid : e'.id = e.id) : e' = e := by
  have g := contains_gen w e h
  have g' := contains_gen w e' h'
  cases e; cases e'; simp_all

theorem contains_of_lookup_eq {w w' : World} (hw : w.Inv) (hw' : w'.Inv) (e : Entity)
    (h : w'.lookup e = w.lookup e) (hc : w.contains e = true) : w'.contains e = true := by
  rw [contains_eq_lookup' w' hw' e, h, ← contains_eq_lookup' w hw e]; exact hc

theorem lookup_some_of_contains (w : World) (hw : w.Inv) (e : Entity) (hc : w.contains e = true) :
    ∃ cs, w.flush.lookup e = some cs := by
  rw [contains_eq_lookup' w hw e, ← lookup_flush w hw e] at hc
  exact Option.isSome_iff_exists.1 hc

theorem lookup_none_of_other (w : World) (hw : w.Inv) (e e' : Entity) (hc : w.contains e = true)
    (hid : e'.id = e.id) (hne : e' ≠ e) : w.flush.lookup e' = none := by
  rw [lookup_flush w hw e']
  cases hl : w.lookup e' with
  | none => rfl
  | some cs =>
    exfalso; apply hne
    apply contains_unique w e e' hc _ hid
    rw [contains_eq_lookup' w hw e', hl]; rfl

theorem mem_zip_of_mem_left {α β} (l : List α) (r : List β) (hlen : l.length = r.length) (a : α) (ha : a ∈ l) :
    ∃ b, (a, b) ∈ l.zip r := by
  induction l generalizing r with
  | nil => cases ha
  | cons x xs ih =>
    cases r with
    | nil => simp at hlen
    | cons y ys =>
      rcases List.mem_cons.1 ha with rfl | ha
      · exact ⟨y, by simp⟩
      · obtain ⟨b, hb⟩ := ih ys (by simpa using hlen) ha
        exact ⟨b, by simp [hb]⟩


theorem no_handles (w : World) (op : Op)
    (h : match op with | .spawn _ | .spawnBatch _ _ | .spawnColumnBatch _ _ | .reserveEntity | .reserveEntities _ => False | _ => True) :
    (step w op).2.res.handles_eff = [] := by
  cases op with
  | spawn b => cases h
  | spawnBatch _ _ => cases h
  | spawnColumnBatch _ _ => cases h
  | reserveEntity => cases h
  | reserveEntities _ => cases h
  | spawnAt e b => simp only [step, spawnAt]; rfl
  | spawnColumnBatchAt hs ts rows => simp only [step, spawnColumnBatchAt]; split <;> rfl
  | insert e b => simp only [step, insert]; (repeat' split) <;> rfl
  | remove e ts => simp only [step, remove]; (repeat' split) <;> rfl
  | exchange e ts b => simp only [step, exchange]; (repeat' split) <;> rfl
  | despawn e => simp only [step, despawn]; (repeat' split) <;> rfl
  | takeDrop e => simp only [step]; (repeat' split) <;> rfl
  | clear => simp only [step, clear]; rfl
  | flush => rfl
  | reserve ts => rfl

/-- the handles an operation returns: pairwise distinct, not contained before, contained afterwards,
and carrying the generation stored for their id before the operation -/
theorem handles_fresh (w : World) (op : Op) (hw : w.Inv) (hop : op.WF) :
    (step w op).2.res.handles_eff.Nodup ∧
    ∀ e, e ∈ (step w op).2.res.handles_eff →
      w.contains e = false ∧ (step w op).1.contains e = true ∧ e.gen = w.genOf e.id := by
  have hg := (inv_iff_good w).1 hw
  have hw' := inv_step w op hop hw
  have notc : ∀ e, w.flush.lookup e = none → w.contains e = false := by
    intro e h
    rw [contains_eq_lookup' w hw e, ← lookup_flush w hw e, h]; rfl
  have isc : ∀ e cs, (step w op).1.lookup e = some cs → (step w op).1.contains e = true := by
    intro e cs h
    rw [contains_eq_lookup' _ hw' e, h]; rfl
  have gen_of : ∀ e, (step w op).1.contains e = true → (∀ id, (step w op).1.genOf id = w.genOf id) →
      e.gen = w.genOf e.id := by
    intro e hc hk; rw [← hk]; exact contains_gen _ e hc
  cases op with
  | spawn b =>
    obtain ⟨e', s1, _, s3, s4, _⟩ := spawn_spec w b hg hop
    have hk := spawn_keeps w b
    simp only [step] at isc gen_of ⊢
    rw [s1]
    refine ⟨by simp [Res.handles_eff], ?_⟩
    intro e he
    simp only [Res.handles_eff, List.mem_singleton] at he
    subst he
    exact ⟨notc e (s3 e.gen), isc e _ s4, gen_of e (isc e _ s4) hk.gen⟩
  | spawnBatch ts rows =>
    obtain ⟨es, s1, _, s3, s4, s5, _, s7⟩ := spawnBatch_spec' w ts rows hg hop.1 hop.2
    have hk := spawnBatch_keeps w ts rows
    simp only [step] at isc gen_of ⊢
    rw [s1]
    refine ⟨s7, ?_⟩
    intro e he
    simp only [Res.handles_eff] at he
    obtain ⟨row, hrow⟩ := mem_zip_of_mem_left es rows s3 e he
    have hl := s4 _ hrow
    exact ⟨notc e (s5 e e.gen he), isc e _ hl, gen_of e (isc e _ hl) hk.gen⟩
  | spawnColumnBatch ts rows =>
    obtain ⟨es, s1, _, s3, s4, s5, _, s7⟩ := spawnColumnBatch_spec' w ts rows hg hop.1 hop.2
    have hk := spawnColumnBatch_keeps w ts rows
    simp only [step] at isc gen_of ⊢
    rw [s1]
    refine ⟨s7, ?_⟩
    intro e he
    simp only [Res.handles_eff] at he
    obtain ⟨row, hrow⟩ := mem_zip_of_mem_left es rows s3 e he
    have hl := s4 _ hrow
    exact ⟨notc e (s5 e e.gen he), isc e _ hl, gen_of e (isc e _ hl) hk.gen⟩
  | reserveEntity =>
    obtain ⟨r1, _, _, r4, _⟩ := reserveEntity_spec w hg
    have hm : (w.reserveEntity).1.metas = w.metas := by
      by_cases h : w.cursor > 0 <;> simp [World.reserveEntity, h]
    have hgen : ∀ id, (w.reserveEntity).1.genOf id = w.genOf id := fun id => by simp only [genOf, hm]
    refine ⟨by simp [step, Res.handles_eff], ?_⟩
    intro e he
    simp only [step, Res.handles_eff, List.mem_singleton] at he
    subst he
    refine ⟨?_, r4, ?_⟩
    · rw [contains_eq_lookup' w hw, r1]; rfl
    · rw [← hgen]; exact contains_gen _ _ r4
  | reserveEntities n =>
    have hs := reserveEntities_spec w n hg
    have hm : (w.reserveEntities n).1.metas = w.metas := by simp [World.reserveEntities]
    have hgen : ∀ id, (w.reserveEntities n).1.genOf id = w.genOf id := fun id => by simp only [genOf, hm]
    have hnd := (Props.C07.reserve_sequence_distinct w hw [.many n]).1
    refine ⟨?_, ?_⟩
    · have hh : (reserveSeq [.many n] w).2 = (w.reserveEntities n).2 := by simp [reserveSeq, RCall.apply]
      rw [hh] at hnd
      simp only [step, Res.handles_eff]
      exact (List.pairwise_map.1 hnd).imp (fun h heq => h (by rw [heq]))
    · intro e he
      simp only [step, Res.handles_eff] at he
      obtain ⟨r1, _, _, r4⟩ := hs.1 e he
      refine ⟨?_, r4, ?_⟩
      · rw [contains_eq_lookup' w hw, r1]; rfl
      · rw [← hgen]; exact contains_gen _ _ r4
  | spawnAt e b => rw [no_handles w _ trivial]; exact ⟨List.nodup_nil, fun _ h => by cases h⟩
  | spawnColumnBatchAt hs ts rows => rw [no_handles w _ trivial]; exact ⟨List.nodup_nil, fun _ h => by cases h⟩
  | insert e b => rw [no_handles w _ trivial]; exact ⟨List.nodup_nil, fun _ h => by cases h⟩
  | remove e ts => rw [no_handles w _ trivial]; exact ⟨List.nodup_nil, fun _ h => by cases h⟩
  | exchange e ts b => rw [no_handles w _ trivial]; exact ⟨List.nodup_nil, fun _ h => by cases h⟩
  | despawn e => rw [no_handles w _ trivial]; exact ⟨List.nodup_nil, fun _ h => by cases h⟩
  | takeDrop e => rw [no_handles w _ trivial]; exact ⟨List.nodup_nil, fun _ h => by cases h⟩
  | clear => rw [no_handles w _ trivial]; exact ⟨List.nodup_nil, fun _ h => by cases h⟩
  | flush => rw [no_handles w _ trivial]; exact ⟨List.nodup_nil, fun _ h => by cases h⟩
  | reserve ts => rw [no_handles w _ trivial]; exact ⟨List.nodup_nil, fun _ h => by cases h⟩

/-- a contained handle stays contained through every operation that does not resurrect its id; the
only way out is being despawned/taken itself, and then the stored generation has moved past it -/
theorem contains_after (w : World) (op : Op) (hw : w.Inv) (hop : op.WF) (e : Entity)
    (hr : op.resurrects e.id = false) (hc : w.contains e = true) :
    (step w op).1.contains e = true ∨ e.gen < (step w op).1.genOf e.id := by
  have hg := (inv_iff_good w).1 hw
  have hw' := inv_step w op hop hw
  have hnc : op ≠ .clear := by intro h; subst h; simp [Op.resurrects] at hr
  have viaframe : e.id ∉ op.targetIds → (step w op).1.contains e = true := by
    intro h1
    have h2 : e ∉ (step w op).2.res.handles_eff := fun hm => by
      have := ((handles_fresh w op hw hop).2 e hm).1; rw [hc] at this; cases this
    exact contains_of_lookup_eq hw hw' e (Props.C01.frame' w op hop hw hnc e h1 h2) hc
  have atflush : (step w op).1 = w.flush → (step w op).1.contains e = true := by
    intro h; rw [h, contains_flush w hw]; exact hc
  have issome : ∀ cs, (step w op).1.lookup e = some cs → (step w op).1.contains e = true := by
    intro cs h; rw [contains_eq_lookup' _ hw' e, h]; rfl
  cases op with
  | spawn b => exact Or.inl (viaframe (by simp [Op.targetIds]))
  | spawnBatch ts rows => exact Or.inl (viaframe (by simp [Op.targetIds]))
  | spawnColumnBatch ts rows => exact Or.inl (viaframe (by simp [Op.targetIds]))
  | reserveEntity => exact Or.inl (viaframe (by simp [Op.targetIds]))
  | reserveEntities n => exact Or.inl (viaframe (by simp [Op.targetIds]))
  | flush => exact Or.inl (viaframe (by simp [Op.targetIds]))
  | reserve ts => exact Or.inl (viaframe (by simp [Op.targetIds]))
  | clear => exact absurd rfl hnc
  | spawnAt h b =>
    refine Or.inl (viaframe ?_)
    simp only [Op.resurrects, beq_eq_false_iff_ne, ne_eq] at hr
    simp only [Op.targetIds, List.mem_singleton]; exact fun h' => hr h'.symm
  | spawnColumnBatchAt hs ts rows =>
    refine Or.inl (viaframe ?_)
    simp only [Op.resurrects] at hr
    simp only [Op.targetIds, List.mem_map, not_exists, not_and]
    intro x hx hxe
    have : hs.any (fun h => h.id == e.id) = true := List.any_eq_true.2 ⟨x, hx, by simp [hxe]⟩
    rw [hr] at this; cases this
  | insert e' b =>
    by_cases hid : e'.id = e.id
    · left
      have hs := insert_spec w e' b hg hop
      by_cases hee : e' = e
      · subst hee
        obtain ⟨old, hold⟩ := lookup_some_of_contains w hw e' hc
        obtain ⟨_, _, new, h3, _⟩ := hs.1 old hold
        exact issome new h3
      · have hn := lookup_none_of_other w hw e e' hc hid hee
        exact atflush (by show (w.insert e' b).1 = _; rw [hs.2 hn])
    · exact Or.inl (viaframe (by simpa [Op.targetIds] using fun h => hid h.symm))
  | remove e' ts =>
    by_cases hid : e'.id = e.id
    · left
      have hs := remove_spec w e' ts hg
      by_cases hee : e' = e
      · subst hee
        obtain ⟨old, hold⟩ := lookup_some_of_contains w hw e' hc
        cases hgot : bundleGet old ts with
        | none => exact atflush (by show (w.remove e' ts).1 = _; rw [hs.2.1 old hold hgot])
        | some got => exact issome _ (hs.1 old got hold hgot).2.2.1
      · have hn := lookup_none_of_other w hw e e' hc hid hee
        exact atflush (by show (w.remove e' ts).1 = _; rw [hs.2.2 hn])
    · exact Or.inl (viaframe (by simpa [Op.targetIds] using fun h => hid h.symm))
  | exchange e' ts b =>
    by_cases hid : e'.id = e.id
    · left
      have hs := exchange_spec w e' ts b hg hop
      by_cases hee : e' = e
      · subst hee
        obtain ⟨old, hold⟩ := lookup_some_of_contains w hw e' hc
        cases hgot : bundleGet old ts with
        | none => exact atflush (by show (w.exchange e' ts b).1 = _; rw [hs.2.1 old hold hgot])
        | some got =>
          obtain ⟨_, _, new, h3, _⟩ := hs.1 old got hold hgot
          exact issome new h3
      · have hn := lookup_none_of_other w hw e e' hc hid hee
        exact atflush (by show (w.exchange e' ts b).1 = _; rw [hs.2.2 hn])
    · exact Or.inl (viaframe (by simpa [Op.targetIds] using fun h => hid h.symm))
  | despawn e' =>
    by_cases hid : e'.id = e.id
    · have hs := despawn_spec w e' hg
      by_cases hee : e' = e
      · subst hee
        obtain ⟨old, hold⟩ := lookup_some_of_contains w hw e' hc
        right
        have := (Props.C02.despawn_kills w e' hw (hs.1 old hold).1).1
        show e'.gen < (w.despawn e').1.genOf e'.id
        omega
      · have hn := lookup_none_of_other w hw e e' hc hid hee
        exact Or.inl (atflush (by show (w.despawn e').1 = _; rw [hs.2 hn]))
    · exact Or.inl (viaframe (by simpa [Op.targetIds] using fun h => hid h.symm))
  | takeDrop e' =>
    by_cases hid : e'.id = e.id
    · have hs := take_spec w e' hg
      by_cases hee : e' = e
      · subst hee
        obtain ⟨old, hold⟩ := lookup_some_of_contains w hw e' hc
        right
        have hsome : (w.take e').2.isSome = true := by rw [(hs.1 old hold).1]; rfl
        have := (Props.C02.take_kills w e' hw hsome).1
        rw [step_takeDrop_fst]
        omega
      · have hn := lookup_none_of_other w hw e e' hc hid hee
        exact Or.inl (atflush (by rw [step_takeDrop_fst, hs.2 hn]))
    · exact Or.inl (viaframe (by simpa [Op.targetIds] using fun h => hid h.symm))

/-! ### the history of handed-out handles -/

/-- what the world still knows about a handle it handed out earlier (ids in `R`, the ids that were
resurrected by an id-targeted spawn or wiped by `clear`, are exempt): either the generation stored
for its id has moved past it, or it is the handle currently contained for that id -/
def IssuedOk (R : List Nat) (w : World) (I : List Entity) : Prop :=
  ∀ e, e ∈ I → e.id ∉ R → e.gen < w.genOf e.id ∨ (e.gen = w.genOf e.id ∧ w.contains e = true)

theorem issuedOk_nil (R : List Nat) (w : World) : IssuedOk R w [] := fun _ h => by cases h

theorem issued_step (R : List Nat) (w : World) (op : Op) (I : List Entity) (hw : w.Inv) (hop : op.WF)
    (hr : ∀ id, op.resurrects id = true → id ∈ R) (hI : IssuedOk R w I) :
    (∀ e, e ∈ (step w op).2.res.handles_eff → e.id ∉ R → e ∉ I) ∧
    IssuedOk R (step w op).1 (I ++ (step w op).2.res.handles_eff) := by
  have hfresh := (handles_fresh w op hw hop).2
  have hnr : ∀ id, id ∉ R → op.resurrects id = false := by
    intro id hid
    cases h : op.resurrects id with
    | false => rfl
    | true => exact absurd (hr id h) hid
  constructor
  · intro e he hid hmem
    obtain ⟨f1, _, f3⟩ := hfresh e he
    rcases hI e hmem hid with h | ⟨_, h⟩
    · omega
    · rw [f1] at h; cases h
  · intro e he hid
    rcases List.mem_append.1 he with he | he
    · rcases hI e he hid with h | ⟨h1, h2⟩
      · have := (gen_step w op e.id (hnr _ hid)).2
        left; omega
      · rcases contains_after w op hw hop e (hnr _ hid) h2 with h | h
        · exact Or.inr ⟨contains_gen _ e h, h⟩
        · exact Or.inl h
    · obtain ⟨_, f2, _⟩ := hfresh e he
      exact Or.inr ⟨contains_gen _ e f2, f2⟩

end World

/-- the handles handed out (by `spawn`, the batch spawns, `reserve_entity`, `reserve_entities`) along a
history that starts in `w`, in order -/
def issuedFrom (w : World) : List Op → List Entity
  | [] => []
  | op :: ops => (step w op).2.res.handles_eff ++ issuedFrom (step w op).1 ops

/-- handles whose id is outside the exempt set -/
def keepId (R : List Nat) (e : Entity) : Bool := !R.contains e.id

namespace World

theorem issued_nodup_from (R : List Nat) (ops : List Op) (w : World) (I : List Entity) (hw : w.Inv)
    (hwf : ∀ op, op ∈ ops → op.WF) (hr : ∀ op, op ∈ ops → ∀ id, op.resurrects id = true → id ∈ R)
    (hI : IssuedOk R w I) (hn : (I.filter (keepId R)).Nodup) :
    ((I ++ issuedFrom w ops).filter (keepId R)).Nodup ∧
    IssuedOk R (ops.foldl (fun w op => (step w op).1) w) (I ++ issuedFrom w ops) := by
  induction ops generalizing w I with
  | nil => simpa [issuedFrom] using ⟨hn, hI⟩
  | cons op ops ih =>
    have hop := hwf op (by simp)
    obtain ⟨s1, s2⟩ := issued_step R w op I hw hop (hr op (by simp)) hI
    have hH := (handles_fresh w op hw hop).1
    have hn' : ((I ++ (step w op).2.res.handles_eff).filter (keepId R)).Nodup := by
      rw [List.filter_append, List.nodup_append]
      refine ⟨hn, hH.sublist List.filter_sublist, ?_⟩
      intro a ha b hb hab
      subst hab
      rw [List.mem_filter] at ha hb
      have hid : a.id ∉ R := by
        have := hb.2; simp only [keepId, Bool.not_eq_true', List.contains_eq_mem, decide_eq_false_iff_not] at this
        exact this
      exact s1 a hb.1 hid ha.1
    have := ih (step w op).1 (I ++ (step w op).2.res.handles_eff) (inv_step w op hop hw)
      (fun o ho => hwf o (by simp [ho])) (fun o ho => hr o (by simp [ho])) s2 hn'
    simpa [issuedFrom, List.append_assoc] using this

end World
end Hecs
