import HecsModel.Lemmas.Handles
/-
  Reserved-but-unflushed entities (C16, C07): what `flush` does to them, what the read-only API
  answers for them, and how `reserveEntity` / `reserveEntities` hand them out.
-/
namespace Hecs
namespace World

/-! ### flush: frame facts that need no invariant -/

theorem flushPending_frame (ids : List Nat) (w : World) :
    (flushPending ids w).pending = w.pending ∧ (flushPending ids w).len = w.len ∧
    (flushPending ids w).cursor = w.cursor ∧ (flushPending ids w).metas.size = w.metas.size := by
  induction ids generalizing w with
  | nil => exact ⟨rfl, rfl, rfl, rfl⟩
  | cons id ids ih =>
    obtain ⟨i1, i2, i3, i4⟩ := ih (w.place 0 id [])
    exact ⟨i1, i2, i3, i4.trans (place_metas_size _ _ _ _)⟩

theorem flushFresh_frame (n : Nat) (w : World) :
    (flushFresh n w).pending = w.pending ∧ (flushFresh n w).len = w.len ∧
    (flushFresh n w).cursor = w.cursor ∧ (flushFresh n w).metas.size = w.metas.size + n := by
  induction n generalizing w with
  | zero => exact ⟨rfl, rfl, rfl, rfl⟩
  | succ n ih =>
    obtain ⟨i1, i2, i3, i4⟩ := ih w.flushFreshOne
    have hs : w.flushFreshOne.metas.size = w.metas.size + 1 := by rw [flushFreshOne_eq]; simp
    exact ⟨i1, i2, i3, by show (flushFresh n w.flushFreshOne).metas.size = _; rw [i4, hs]; omega⟩

theorem flushTail_frame (w : World) (c : Nat) :
    (flushTail w c).pending = w.pending.extract 0 c ∧
    (flushTail w c).len = w.len + (w.pending.size - c) ∧
    (flushTail w c).cursor = w.cursor ∧ (flushTail w c).metas.size = w.metas.size := by
  obtain ⟨i1, i2, i3, i4⟩ := flushPending_frame (w.pending.toList.drop c) w
  refine ⟨?_, ?_, i3, i4⟩
  · show (flushPending (w.pending.toList.drop c) w).pending.extract 0 c = _
    rw [i1]
  · show (flushPending (w.pending.toList.drop c) w).len + (w.pending.toList.drop c).length = _
    rw [i2]; simp

/-- `flush` keeps the unreserved prefix of the free list -/
theorem flush_pending (w : World) : w.flush.pending = w.pending.extract 0 w.cursor.toNat := by
  rw [flush_eq]; split
  · exact (flushTail_frame w _).1
  · rename_i hc
    have : w.cursor.toNat = 0 := by omega
    rw [this, (flushTail_frame _ 0).1]
    show (flushFresh (-w.cursor).toNat w).pending.extract 0 0 = _
    rw [(flushFresh_frame _ w).1]

/-- `flush` allocates one meta per fresh reserved id -/
theorem flush_metas_size (w : World) : w.flush.metas.size = w.metas.size + (-w.cursor).toNat := by
  rw [flush_eq]; split
  · rename_i hc
    rw [(flushTail_frame w _).2.2.2]; omega
  · rw [(flushTail_frame _ 0).2.2.2]
    show (flushFresh (-w.cursor).toNat w).metas.size = _
    rw [(flushFresh_frame _ w).2.2.2]

/-- `flush` counts every reserved id -/
theorem flush_len (w : World) :
    w.flush.len = w.len + (w.pending.size - w.cursor.toNat) + (-w.cursor).toNat := by
  rw [flush_eq]; split
  · rename_i hc
    rw [(flushTail_frame w _).2.1]; omega
  · rename_i hc
    rw [(flushTail_frame _ 0).2.1]
    show (flushFresh (-w.cursor).toNat w).len + (-w.cursor).toNat + ((flushFresh (-w.cursor).toNat w).pending.size - 0) = _
    rw [(flushFresh_frame _ w).1, (flushFresh_frame _ w).2.1]
    have : w.cursor.toNat = 0 := by omega
    omega

/-- a world with nothing reserved is a fixed point of `flush` -/
theorem flush_of_cursor (w : World) (hc : w.cursor = w.pending.size) : w.flush = w := by
  have h0 : w.cursor ≥ 0 := by omega
  have h1 : w.cursor.toNat = w.pending.size := by omega
  rw [flush_eq, if_pos h0, h1]
  obtain ⟨m, p, c, l, a⟩ := w
  have hd : List.drop p.size p.toList = [] := List.drop_eq_nil_of_le (by simp)
  simp [flushTail, hd, flushPending]

theorem flush_idem (w : World) (h : w.Good) : w.flush.flush = w.flush :=
  flush_of_cursor _ (flush_flushed' w h).cursor

/-! ### flush only adds: locations and rows that exist are kept, new ones go to archetype 0 -/

structure Grows (w' w : World) : Prop where
  loc : ∀ id l, w.locOf id = some l → w'.locOf id = some l
  row : ∀ (a i : Nat) (r : Row), (w.rowsOf a)[i]? = some r → (w'.rowsOf a)[i]? = some r
  new : ∀ id, w.locOf id = none → w'.locOf id = none ∨ ∃ i, w'.locOf id = some (0, i)

theorem Grows.refl (w : World) : Grows w w := ⟨fun _ _ h => h, fun _ _ _ h => h, fun _ h => Or.inl h⟩

theorem Grows.trans {w'' w' w : World} (h2 : Grows w'' w') (h1 : Grows w' w) : Grows w'' w := by
  refine ⟨fun id l h => h2.loc id l (h1.loc id l h), fun a i r h => h2.row a i r (h1.row a i r h), ?_⟩
  intro id h
  rcases h1.new id h with h' | ⟨i, h'⟩
  · exact h2.new id h'
  · exact Or.inr ⟨i, h2.loc _ _ h'⟩

theorem Grows.of_eq {w' w : World} (hm : w'.metas = w.metas) (ha : w'.archs = w.archs) : Grows w' w := by
  refine ⟨?_, ?_, ?_⟩
  · intro id l h; rw [locOf_of_metas hm]; exact h
  · intro a i r h; rw [rowsOf_of_archs ha]; exact h
  · intro id h; left; rw [locOf_of_metas hm]; exact h

theorem place0_grows (w : World) (id : Nat) (h0 : 0 < w.archs.size) (hid : id < w.metas.size)
    (hl : w.locOf id = none) : Grows (w.place 0 id []) w := by
  refine ⟨?_, ?_, ?_⟩
  · intro id' l h
    rw [place_locOf _ _ _ _ _ hid]
    split
    · subst_vars; rw [hl] at h; cases h
    · exact h
  · intro a i r h
    rw [place_get _ _ _ _ _ _ h0]
    have : i < (w.rowsOf a).size := by
      apply Classical.byContradiction; intro hn
      rw [Array.getElem?_eq_none (by omega)] at h; cases h
    split
    · subst_vars
      rw [if_neg (by omega)]; exact h
    · exact h
  · intro id' h
    rw [place_locOf _ _ _ _ _ hid]
    split
    · exact Or.inr ⟨_, rfl⟩
    · exact Or.inl h

theorem flushPending_grows (ids : List Nat) (w : World) (pre : List Nat) (h : w.Pre (pre ++ ids)) :
    Grows (flushPending ids w) w := by
  induction ids generalizing w pre with
  | nil => exact Grows.refl w
  | cons id ids ih =>
    have h0 := h.arch.arch0
    have hid := (h.free.iff id).1 (by simp)
    have hp := place_pre w 0 id [] pre ids h0.1 (by simp [h0.2]) h
    exact (ih (w.place 0 id []) pre hp).trans (place0_grows w id h0.1 hid.1 hid.2)

theorem flushFreshOne_grows (w : World) (h0 : 0 < w.archs.size) : Grows w.flushFreshOne w := by
  refine ⟨?_, ?_, ?_⟩
  · intro id l h
    rw [flushFreshOne_locOf]
    have := lt_of_locOf h
    rw [if_neg (by omega)]; exact h
  · intro a i r h
    rw [flushFreshOne_get _ _ _ h0]
    have : i < (w.rowsOf a).size := by
      apply Classical.byContradiction; intro hn
      rw [Array.getElem?_eq_none (by omega)] at h; cases h
    split
    · subst_vars
      rw [if_neg (by omega)]; exact h
    · exact h
  · intro id h
    rw [flushFreshOne_locOf]
    split
    · exact Or.inr ⟨_, rfl⟩
    · exact Or.inl h

theorem flushFresh_grows (n : Nat) (w : World) (Q) (h : w.Pre Q) : Grows (flushFresh n w) w := by
  induction n generalizing w with
  | zero => exact Grows.refl w
  | succ n ih =>
    exact (ih w.flushFreshOne (flushFreshOne_pre w Q h).1).trans (flushFreshOne_grows w h.arch.arch0.1)

theorem flushTail_grows (w : World) (c : Nat) (h : w.Pre w.pending.toList) : Grows (flushTail w c) w := by
  have hpre : w.Pre (w.pending.toList.take c ++ w.pending.toList.drop c) := by
    rw [List.take_append_drop]; exact h
  have g := flushPending_grows _ w _ hpre
  exact (Grows.of_eq (w := flushPending (w.pending.toList.drop c) w) (w' := flushTail w c) rfl rfl).trans g

theorem flush_grows (w : World) (h : w.Good) : Grows w.flush w := by
  rw [flush_eq]; split
  · exact flushTail_grows w _ h.pre
  · obtain ⟨j1, _, j3, _, _⟩ := flushFresh_pre (-w.cursor).toNat w _ h.pre
    have g1 := flushFresh_grows (-w.cursor).toNat w _ h.pre
    have g2 : Grows ({ flushFresh (-w.cursor).toNat w with
          len := (flushFresh (-w.cursor).toNat w).len + (-w.cursor).toNat, cursor := 0 } : World)
        (flushFresh (-w.cursor).toNat w) := Grows.of_eq rfl rfl
    refine (flushTail_grows _ 0 ?_).trans (g2.trans g1)
    show Pre _ (flushFresh (-w.cursor).toNat w).pending.toList
    rw [j3]; exact Pre.of_eq (w := flushFresh (-w.cursor).toNat w) rfl rfl j1

/-! ### reserved handles -/

/-- `e` has been handed out by `reserve_entity`/`reserve_entities` and not flushed yet: either a
recycled id in the reserved part of the free list, or a fresh id beyond the meta table -/
def isReserved (w : World) (e : Entity) : Prop :=
  (e.id < w.metas.size ∧ w.genOf e.id = e.gen ∧ w.locOf e.id = none ∧ e.id ∈ w.reservedPending) ∨
  (w.metas.size ≤ e.id ∧ e.gen = 1 ∧ w.cursor < 0 ∧ (e.id : Int) < w.metas.size + (-w.cursor))

theorem isReserved.gen_eq {w : World} {e : Entity} (h : w.isReserved e) : e.gen = w.genOf e.id := by
  rcases h with ⟨_, h, _, _⟩ | ⟨h1, h2, _, _⟩
  · exact h.symm
  · rw [h2]; simp [genOf, Array.getElem?_eq_none h1]

theorem isReserved.contains {w : World} {e : Entity} (h : w.isReserved e) : w.contains e = true := by
  rcases h with ⟨h1, h2, h3, h4⟩ | ⟨h1, h2, h3, h4⟩
  · obtain ⟨m1, m2, m3⟩ := meta_of_lt h1
    simp only [World.contains, m1]
    rw [← m2, h2]
    simp [h4]
  · simp only [World.contains, Array.getElem?_eq_none h1, h2]
    simp [h3]; omega

theorem isReserved.get {w : World} {e : Entity} (h : w.isReserved e) : w.get e = some none := by
  rcases h with ⟨h1, h2, h3, h4⟩ | ⟨h1, h2, h3, h4⟩
  · obtain ⟨m1, m2, m3⟩ := meta_of_lt h1
    simp only [World.get, m1]
    rw [← m2, h2, ← m3, h3]
    simp [h4]
  · simp only [World.get, Array.getElem?_eq_none h1, h2]
    have : (e.id : Int) < -w.cursor + w.metas.size := by omega
    simp [h3, this]

theorem isReserved.getMut {w : World} {e : Entity} (h : w.isReserved e) : w.getMut e = none := by
  rcases h with ⟨h1, h2, h3, h4⟩ | ⟨h1, h2, h3, h4⟩
  · obtain ⟨m1, m2, m3⟩ := meta_of_lt h1
    simp only [World.getMut, m1]
    rw [← m3, h3]; simp
  · simp only [World.getMut, Array.getElem?_eq_none h1]

theorem isReserved.locOf {w : World} {e : Entity} (h : w.isReserved e) : w.locOf e.id = none := by
  rcases h with ⟨_, _, h3, _⟩ | ⟨h1, _, _, _⟩
  · exact h3
  · exact locOf_ge w _ h1

/-- a reserved id has no row: it is not iterated and not counted in `len` -/
theorem isReserved.no_row {w : World} {e : Entity} (h : w.isReserved e) (hc : w.Core) :
    ∀ a i r, w.rowAt a i = some r → r.id ≠ e.id := by
  intro a i r hr hid
  have := hc.row_loc a i r hr
  rw [hid, h.locOf] at this; cases this

theorem mem_drop_mono {l : List Nat} {x m n : Nat} (hmn : m ≤ n) (h : x ∈ l.drop n) : x ∈ l.drop m := by
  have : l.drop n = (l.drop m).drop (n - m) := by rw [List.drop_drop]; congr 1; omega
  rw [this] at h
  exact List.mem_of_mem_drop h

/-- reserving more never un-reserves -/
theorem isReserved.mono {w w' : World} {e : Entity} (hm : w'.metas = w.metas) (hp : w'.pending = w.pending)
    (hc : w'.cursor ≤ w.cursor) (h : w.isReserved e) : w'.isReserved e := by
  rcases h with ⟨h1, h2, h3, h4⟩ | ⟨h1, h2, h3, h4⟩
  · left
    refine ⟨by rw [hm]; exact h1, by rw [genOf_eq, hm]; exact h2, by rw [locOf_of_metas hm]; exact h3, ?_⟩
    simp only [reservedPending, hp] at h4 ⊢
    exact mem_drop_mono (by omega) h4
  · right
    exact ⟨by rw [hm]; exact h1, h2, by omega, by rw [hm]; omega⟩

/-! ### reserveEntity -/

theorem reserveEntity_fst (w : World) : (w.reserveEntity).1 = { w with cursor := w.cursor - 1 } := by
  unfold reserveEntity; simp only; split <;> rfl

theorem getElem!_mem_drop (P : Array Nat) (k : Nat) (hk : k < P.size) : P[k]! ∈ P.toList.drop k := by
  have : P[k]! = P.toList[k] := by simp [hk]
  rw [this, List.mem_iff_getElem]
  exact ⟨0, by simp; omega, by simp⟩

theorem nodup_not_mem_drop (l : List Nat) (hn : l.Nodup) (k : Nat) (hk : k < l.length) :
    l[k] ∉ l.drop (k + 1) := by
  intro hmem
  rw [List.mem_iff_getElem] at hmem
  obtain ⟨j, hj, he⟩ := hmem
  simp only [List.getElem_drop] at he
  have := (List.getElem_inj hn).1 he
  omega

/-- the free-list entry at position `k` -/
theorem pending_at (w : World) (h : w.Good) (k : Nat) (hk : k < w.pending.size) :
    w.pending[k]! ∈ w.pending.toList.drop k ∧ w.pending[k]! ∉ w.pending.toList.drop (k + 1) ∧
    w.pending[k]! < w.metas.size ∧ w.locOf w.pending[k]! = none := by
  have hmem := getElem!_mem_drop w.pending k hk
  obtain ⟨h1, h2⟩ := (h.free.iff _).1 (List.mem_of_mem_drop hmem)
  refine ⟨hmem, ?_, h1, h2⟩
  have e1 : w.pending[k]! = w.pending.toList[k]'(by simpa using hk) := by simp [hk]
  rw [e1]
  exact nodup_not_mem_drop _ h.free.nodup _ _

/-- the handle handed out by `reserve_entity` is reserved afterwards -/
theorem reserveEntity_reserved (w : World) (h : w.Good) :
    (w.reserveEntity).1.isReserved (w.reserveEntity).2 := by
  rw [reserveEntity_fst]
  unfold reserveEntity
  simp only
  split
  · rename_i hc
    have hle := h.cursor_le
    obtain ⟨k, hk⟩ : ∃ k, (w.cursor - 1).toNat = k := ⟨_, rfl⟩
    rw [hk]
    obtain ⟨p1, _, p3, p4⟩ := pending_at w h k (by omega)
    left
    refine ⟨p3, rfl, p4, ?_⟩
    show _ ∈ w.pending.toList.drop (w.cursor - 1).toNat
    rw [hk]; exact p1
  · rename_i hc
    right
    refine ⟨?_, rfl, ?_, ?_⟩
    · show w.metas.size ≤ ((w.metas.size : Int) + -w.cursor).toNat
      omega
    · show w.cursor - 1 < 0
      omega
    · show ((((w.metas.size : Int) + -w.cursor).toNat : Nat) : Int) < w.metas.size + -(w.cursor - 1)
      omega

/-- … and was not a handle of the world before -/
theorem reserveEntity_fresh (w : World) (h : w.Good) :
    w.contains (w.reserveEntity).2 = false ∧ (w.reserveEntity).2.gen = w.genOf (w.reserveEntity).2.id := by
  unfold reserveEntity
  simp only
  split
  · rename_i hc
    have hle := h.cursor_le
    obtain ⟨k, hk⟩ : ∃ k, (w.cursor - 1).toNat = k := ⟨_, rfl⟩
    rw [hk]
    obtain ⟨_, p2, p3, p4⟩ := pending_at w h k (by omega)
    obtain ⟨m1, m2, m3⟩ := meta_of_lt p3
    refine ⟨?_, rfl⟩
    have hnot : w.pending[k]! ∉ w.reservedPending := by
      have e2 : w.cursor.toNat = k + 1 := by omega
      rw [reservedPending, e2]; exact p2
    simp only [World.contains, m1]
    rw [← m3, p4]
    simp [hnot]
  · rename_i hc
    have hge : w.metas.size ≤ ((w.metas.size : Int) + -w.cursor).toNat := by omega
    refine ⟨?_, ?_⟩
    · simp only [World.contains, Array.getElem?_eq_none hge]
      simp; omega
    · simp [genOf, Array.getElem?_eq_none hge]

theorem reserveEntity_mono (w : World) (e : Entity) (h : w.isReserved e) : (w.reserveEntity).1.isReserved e := by
  rw [reserveEntity_fst]
  exact isReserved.mono (w := w) rfl rfl (by show w.cursor - 1 ≤ w.cursor; omega) h

/-! ### reserveEntities -/

theorem reserveEntities_mono (w : World) (n : Nat) (e : Entity) (h : w.isReserved e) :
    (w.reserveEntities n).1.isReserved e :=
  isReserved.mono (w := w) (w' := (w.reserveEntities n).1) rfl rfl (by show w.cursor - n ≤ w.cursor; omega) h

/-- the handles of one `reserve_entities(n)` call, split into the recycled and the fresh part -/
theorem mem_reserveEntities {w : World} {n : Nat} {e : Entity} (he : e ∈ (w.reserveEntities n).2) :
    (e.id ∈ (w.pending.toList.drop (w.cursor - n).toNat).take (w.cursor.toNat - (w.cursor - n).toNat) ∧
      e.gen = w.genOf e.id) ∨
    (w.cursor - n < 0 ∧ e.gen = 1 ∧ ((w.metas.size : Int) - min w.cursor 0).toNat ≤ e.id ∧
      e.id < ((w.metas.size : Int) - (w.cursor - n)).toNat) := by
  unfold reserveEntities at he
  simp only [List.mem_append, List.mem_map] at he
  rcases he with ⟨id, hid, rfl⟩ | he
  · exact Or.inl ⟨hid, rfl⟩
  · split at he
    · cases he
    · rename_i hneg
      simp only [List.mem_map, List.mem_range'_1] at he
      obtain ⟨id, ⟨h1, h2⟩, rfl⟩ := he
      refine Or.inr ⟨by omega, rfl, ?_, ?_⟩
      · show _ ≤ id
        omega
      · show id < _
        omega

theorem mem_take_drop {l : List Nat} {x a b : Nat} (h : x ∈ (l.drop a).take b) :
    x ∈ l.drop a ∧ (l.Nodup → x ∉ l.drop (a + b)) := by
  refine ⟨List.mem_of_mem_take h, ?_⟩
  intro hn hmem
  have hn' : (l.drop a).Nodup := hn.sublist (List.drop_sublist _ _)
  rw [← List.take_append_drop b (l.drop a)] at hn'
  have hd := (List.nodup_append.1 hn').2.2
  have : x ∈ (l.drop a).drop b := by rw [List.drop_drop]; exact hmem
  exact hd x h x this rfl

/-- every handle handed out by `reserve_entities(n)` is reserved afterwards -/
theorem reserveEntities_reserved (w : World) (n : Nat) (h : w.Good) (e : Entity)
    (he : e ∈ (w.reserveEntities n).2) : (w.reserveEntities n).1.isReserved e := by
  rcases mem_reserveEntities he with ⟨h1, h2⟩ | ⟨h1, h2, h3, h4⟩
  · left
    have hmem := (mem_take_drop h1).1
    obtain ⟨f1, f2⟩ := (h.free.iff _).1 (List.mem_of_mem_drop hmem)
    exact ⟨f1, h2.symm, f2, hmem⟩
  · right
    refine ⟨?_, h2, h1, ?_⟩
    · show w.metas.size ≤ e.id
      omega
    · show (e.id : Int) < w.metas.size + -(w.cursor - n)
      omega

/-- … and none of them was a handle of the world before -/
theorem reserveEntities_fresh (w : World) (n : Nat) (h : w.Good) (e : Entity)
    (he : e ∈ (w.reserveEntities n).2) : w.contains e = false ∧ e.gen = w.genOf e.id := by
  rcases mem_reserveEntities he with ⟨h1, h2⟩ | ⟨h1, h2, h3, h4⟩
  · refine ⟨?_, h2⟩
    obtain ⟨hmem, hnot⟩ := mem_take_drop h1
    obtain ⟨f1, f2⟩ := (h.free.iff _).1 (List.mem_of_mem_drop hmem)
    obtain ⟨m1, m2, m3⟩ := meta_of_lt f1
    have hnot' : e.id ∉ w.reservedPending := by
      intro hr
      refine hnot h.free.nodup (mem_drop_mono ?_ hr)
      omega
    simp only [World.contains, m1]
    rw [← m3, f2]
    simp [hnot']
  · have hge : w.metas.size ≤ e.id := by omega
    refine ⟨?_, ?_⟩
    · simp only [World.contains, Array.getElem?_eq_none hge]
      simp; omega
    · rw [h2]; simp [genOf, Array.getElem?_eq_none hge]

/-- the ids handed out by one `reserve_entities(n)` call are pairwise distinct -/
theorem reserveEntities_nodup (w : World) (n : Nat) (h : w.Good) :
    ((w.reserveEntities n).2.map (·.id)).Nodup := by
  unfold reserveEntities
  simp only [List.map_append, List.map_map]
  have e1 : ((fun e : Entity => e.id) ∘ fun id => (⟨id, w.genOf id⟩ : Entity)) = id := rfl
  rw [e1, List.map_id]
  have hsub : ((w.pending.toList.drop (w.cursor - n).toNat).take (w.cursor.toNat - (w.cursor - n).toNat)).Sublist
      w.pending.toList := (List.take_sublist _ _).trans (List.drop_sublist _ _)
  rw [List.nodup_append]
  refine ⟨h.free.nodup.sublist hsub, ?_, ?_⟩
  · split
    · simp
    · have e2 : ((fun e : Entity => e.id) ∘ fun id => (⟨id, 1⟩ : Entity)) = id := rfl
      rw [List.map_map, e2, List.map_id]; exact List.nodup_range' 1
  · intro a ha b hb hab
    subst hab
    have hlt := ((h.free.iff a).1 (hsub.subset ha)).1
    split at hb
    · simp at hb
    · have e2 : ((fun e : Entity => e.id) ∘ fun id => (⟨id, 1⟩ : Entity)) = id := rfl
      rw [List.map_map, e2, List.map_id, List.mem_range'_1] at hb
      omega

/-! ### flush materialises the reserved handles -/

theorem get_of_loc {w : World} {e : Entity} {l} (hlt : e.id < w.metas.size) (hg : w.genOf e.id = e.gen)
    (hl : w.locOf e.id = some l) : w.get e = some (some l) := by
  obtain ⟨m1, m2, m3⟩ := meta_of_lt hlt
  simp only [World.get, m1]
  rw [← m2, hg, ← m3, hl]
  simp

/-- after `flush` a reserved handle is an ordinary entity without components in archetype 0 -/
theorem flush_materialises (w : World) (h : w.Good) (e : Entity) (hr : w.isReserved e) :
    ∃ i, w.flush.get e = some (some (0, i)) ∧ w.flush.rowAt 0 i = some ⟨e.id, []⟩ := by
  have hf := flush_flushed' w h
  have hg := flush_grows w h
  have hk := flush_keeps w
  have hsz := flush_metas_size w
  have hlt : e.id < w.flush.metas.size := by
    rcases hr with ⟨h1, _, _, _⟩ | ⟨_, _, h3, h4⟩
    · have := hk.size; omega
    · omega
  have hnot : e.id ∉ w.flush.pending.toList := by
    rw [flush_pending]
    simp only [Array.toList_extract, List.extract_eq_take_drop, List.drop_zero, Nat.sub_zero]
    intro hmem
    rcases hr with ⟨_, _, _, h4⟩ | ⟨h1, _, _, _⟩
    · have hn := h.free.nodup
      rw [← List.take_append_drop w.cursor.toNat w.pending.toList] at hn
      exact (List.nodup_append.1 hn).2.2 _ hmem _ h4 rfl
    · have := ((h.free.iff e.id).1 (List.mem_of_mem_take hmem)).1
      omega
  have hsome : w.flush.locOf e.id ≠ none := fun hn => hnot ((hf.good.free.iff e.id).2 ⟨hlt, hn⟩)
  obtain ⟨i, hi⟩ : ∃ i, w.flush.locOf e.id = some (0, i) := by
    rcases hg.new e.id hr.locOf with h' | h'
    · exact absurd h' hsome
    · exact h'
  obtain ⟨r, hr1, hr2⟩ := hf.good.bij.loc_row _ _ _ hi
  have hv : r.vals = [] := by
    have := hf.good.arch.row_types 0 i r hr1
    rw [hf.good.arch.arch0.2] at this
    simpa using this
  refine ⟨i, get_of_loc hlt (by rw [hk.gen]; exact hr.gen_eq.symm) hi, ?_⟩
  rw [rowAt_eq, hr1]
  obtain ⟨rid, rvals⟩ := r
  simp only at hr2 hv
  rw [hr2, hv]

/-- live handles keep their location across `flush` -/
theorem flush_get_live (w : World) (h : w.Good) (e : Entity) (l : Nat × Nat)
    (hget : w.get e = some (some l)) : w.flush.get e = some (some l) := by
  obtain ⟨m, hm, hg, hl⟩ := get_some_some hget
  have hlt := lt_of_meta hm
  have hk := flush_keeps w
  refine get_of_loc (by have := hk.size; omega) (by rw [hk.gen, genOf_of_meta hm]; exact hg) ?_
  exact (flush_grows w h).loc _ _ (by rw [locOf_of_meta hm]; exact hl)

/-- rows keep their position and contents across `flush` -/
theorem flush_row_live (w : World) (h : w.Good) (a i : Nat) (r : Row)
    (hrow : w.rowAt a i = some r) : w.flush.rowAt a i = some r := by
  rw [rowAt_eq] at hrow ⊢
  exact (flush_grows w h).row a i r hrow

/-! ### the reserved handles, enumerated -/

/-- all reserved handles: the reserved part of the free list, then the fresh ids -/
def reservedHandles (w : World) : List Entity :=
  w.reservedPending.map (fun id => (⟨id, w.genOf id⟩ : Entity)) ++
  (List.range' w.metas.size (-w.cursor).toNat).map (fun id => (⟨id, 1⟩ : Entity))

theorem reservedHandles_length (w : World) :
    w.reservedHandles.length = (w.pending.size - w.cursor.toNat) + (-w.cursor).toNat := by
  simp [reservedHandles, reservedPending]

theorem mem_reservedHandles (w : World) (h : w.Good) (e : Entity) : e ∈ w.reservedHandles ↔ w.isReserved e := by
  simp only [reservedHandles, List.mem_append, List.mem_map, List.mem_range'_1]
  constructor
  · rintro (⟨id, hid, rfl⟩ | ⟨id, ⟨h1, h2⟩, rfl⟩)
    · obtain ⟨f1, f2⟩ := (h.free.iff id).1 (List.mem_of_mem_drop hid)
      exact Or.inl ⟨f1, rfl, f2, hid⟩
    · refine Or.inr ⟨h1, rfl, by omega, ?_⟩
      show (id : Int) < _
      omega
  · rintro (⟨h1, h2, h3, h4⟩ | ⟨h1, h2, h3, h4⟩)
    · left
      refine ⟨e.id, h4, ?_⟩
      obtain ⟨i, g⟩ := e
      simp only at h2 ⊢
      rw [h2]
    · right
      refine ⟨e.id, ⟨h1, by omega⟩, ?_⟩
      obtain ⟨i, g⟩ := e
      simp only at h2 ⊢
      rw [h2]

end World

/-! ### which operations flush first -/

/-- every `&mut World` operation except `clear` starts with `flush`; the two `&World` reservation
calls do not -/
def Op.flushesFirst : Op → Bool
  | .reserveEntity => false
  | .reserveEntities _ => false
  | .clear => false
  | _ => true

/-- `spawn_column_batch_at` rejects a batch whose handle list has the wrong length or repeats an id
before doing anything; every other call is always accepted -/
def Op.accepted : Op → Prop
  | .spawnColumnBatchAt hs _ rows => hs.length = rows.length ∧ (hs.map (·.id)).Nodup
  | _ => True

namespace World

theorem step_flush_first (w : World) (op : Op) (h : w.Good) (hf : op.flushesFirst = true) (ha : op.accepted) :
    step w.flush op = step w op := by
  have e := flush_idem w h
  cases op with
  | spawn b => simp only [step, spawn, e]
  | spawnAt x b => simp only [step, spawnAt, e]
  | spawnBatch ts rows => simp only [step, spawnBatch, reserve, e]
  | spawnColumnBatch ts rows => simp only [step, spawnColumnBatch, e]
  | spawnColumnBatchAt hs ts rows =>
    have hc : ¬ (hs.length ≠ rows.length ∨ ¬ (hs.map (·.id)).Nodup) := by
      intro hc; rcases hc with hc | hc
      · exact hc ha.1
      · exact hc ha.2
    simp only [step, spawnColumnBatchAt, if_neg hc, e]
  | insert x b => simp only [step, insert, e]
  | remove x ts => simp only [step, remove, e]
  | exchange x ts b => simp only [step, exchange, e]
  | despawn x => simp only [step, despawn, e]
  | takeDrop x => simp only [step, take, e]
  | clear => cases hf
  | flush => simp only [step, e]
  | reserve ts => simp only [step, reserve, e]
  | reserveEntity => cases hf
  | reserveEntities n => cases hf

end World

/-! ### sequences of reservation calls (C07) -/

/-- one reservation call made through `&World` -/
inductive RCall
  | one
  | many (n : Nat)
  deriving Repr, DecidableEq

/-- the model operation a call stands for -/
def RCall.toOp : RCall → Op
  | .one => .reserveEntity
  | .many n => .reserveEntities n

/-- new state and the handles handed out -/
def RCall.apply (w : World) : RCall → World × List Entity
  | .one => ((w.reserveEntity).1, [(w.reserveEntity).2])
  | .many n => w.reserveEntities n

/-- the handles a result carries -/
def Res.handles : Res → List Entity
  | .ent e => [e]
  | .ents es => es
  | _ => []

/-- run a sequence of reservation calls, collecting every handle handed out, in order -/
def reserveSeq : List RCall → World → World × List Entity
  | [], w => (w, [])
  | c :: cs, w => ((reserveSeq cs (c.apply w).1).1, (c.apply w).2 ++ (reserveSeq cs (c.apply w).1).2)

namespace World

theorem RCall.apply_eq_step (w : World) (c : RCall) :
    (step w c.toOp).1 = (c.apply w).1 ∧ (step w c.toOp).2.res.handles = (c.apply w).2 := by
  cases c <;> exact ⟨rfl, rfl⟩

/-- what one reservation call guarantees -/
theorem rcall_spec (w : World) (h : w.Good) (c : RCall) :
    (c.apply w).1.Good ∧ ((c.apply w).2.map (·.id)).Nodup ∧
    (∀ e, e ∈ (c.apply w).2 → (c.apply w).1.isReserved e ∧ w.contains e = false ∧ e.gen = w.genOf e.id) ∧
    (∀ e, w.isReserved e → (c.apply w).1.isReserved e) ∧
    (c.apply w).1.archs = w.archs := by
  cases c with
  | one =>
    refine ⟨reserveEntity_good w h, by simp [RCall.apply], ?_, fun e he => reserveEntity_mono w e he, ?_⟩
    · intro e he
      simp only [RCall.apply, List.mem_singleton] at he
      subst he
      exact ⟨reserveEntity_reserved w h, reserveEntity_fresh w h⟩
    · show (w.reserveEntity).1.archs = _
      rw [reserveEntity_fst]
  | many n =>
    refine ⟨reserveEntities_good w n h, reserveEntities_nodup w n h, ?_,
      fun e he => reserveEntities_mono w n e he, rfl⟩
    intro e he
    exact ⟨reserveEntities_reserved w n h e he, reserveEntities_fresh w n h e he⟩

/-- a freshly handed-out handle never shares its id with an outstanding reservation -/
theorem fresh_id_ne_reserved {w : World} {e p : Entity} (hc : w.contains e = false)
    (hg : e.gen = w.genOf e.id) (hp : w.isReserved p) : e.id ≠ p.id := by
  intro hid
  have : p = e := by
    obtain ⟨pi, pg⟩ := p
    obtain ⟨ei, eg⟩ := e
    have h1 := hp.gen_eq
    simp only at hid hg h1
    subst hid
    rw [hg, h1]
  subst this
  rw [hp.contains] at hc; cases hc

theorem reserveSeq_spec (cs : List RCall) (w : World) (h : w.Good) (prev : List Entity)
    (hprev : ∀ e, e ∈ prev → w.isReserved e) :
    (reserveSeq cs w).1.Good ∧ (reserveSeq cs w).1.archs = w.archs ∧
    ((reserveSeq cs w).2.map (·.id)).Nodup ∧
    (∀ e, e ∈ (reserveSeq cs w).2 → ∀ p, p ∈ prev → e.id ≠ p.id) ∧
    (∀ e, e ∈ prev ++ (reserveSeq cs w).2 → (reserveSeq cs w).1.isReserved e) := by
  induction cs generalizing w prev with
  | nil =>
    refine ⟨h, rfl, by simp [reserveSeq], by simp [reserveSeq], ?_⟩
    intro e he
    simp only [reserveSeq, List.append_nil] at he
    exact hprev e he
  | cons c cs ih =>
    obtain ⟨c1, c2, c3, c4, c5⟩ := rcall_spec w h c
    have hprev' : ∀ e, e ∈ prev ++ (c.apply w).2 → (c.apply w).1.isReserved e := by
      intro e he
      rcases List.mem_append.1 he with he | he
      · exact c4 e (hprev e he)
      · exact (c3 e he).1
    obtain ⟨i1, i2, i3, i4, i5⟩ := ih (c.apply w).1 c1 (prev ++ (c.apply w).2) hprev'
    refine ⟨i1, i2.trans c5, ?_, ?_, ?_⟩
    · show (((c.apply w).2 ++ (reserveSeq cs (c.apply w).1).2).map (·.id)).Nodup
      rw [List.map_append, List.nodup_append]
      refine ⟨c2, i3, ?_⟩
      intro a ha b hb hab
      obtain ⟨x, hx, rfl⟩ := List.mem_map.1 ha
      obtain ⟨y, hy, rfl⟩ := List.mem_map.1 hb
      exact i4 y hy x (List.mem_append_right _ hx) hab.symm
    · intro e he p hp
      rcases List.mem_append.1 (show e ∈ (c.apply w).2 ++ (reserveSeq cs (c.apply w).1).2 from he) with he | he
      · exact fresh_id_ne_reserved (c3 e he).2.1 (c3 e he).2.2 (hprev p hp)
      · exact i4 e he p (List.mem_append_left _ hp)
    · intro e he
      apply i5
      have : e ∈ prev ++ ((c.apply w).2 ++ (reserveSeq cs (c.apply w).1).2) := he
      simpa [List.append_assoc] using this

/-! ### cursor positions -/

/-- the id claimed by cursor position `p`: a free-list entry for `p ≥ 0`, the `(-p)`-th fresh id
beyond the meta table for `p < 0` -/
def posId (w : World) (p : Int) : Nat :=
  if p ≥ 0 then w.pending[p.toNat]! else w.metas.size + (-p - 1).toNat

/-- distinct positions below the end of the free list claim distinct ids -/
theorem posId_inj (w : World) (h : w.Good) (p q : Int) (hp : p < w.pending.size) (hq : q < w.pending.size)
    (he : w.posId p = w.posId q) : p = q := by
  unfold posId at he
  have key : ∀ k : Nat, k < w.pending.size → w.pending[k]! = w.pending.toList[k]! ∧ w.pending[k]! < w.metas.size := by
    intro k hk
    have e1 : w.pending[k]! = w.pending.toList[k]! := by simp [hk]
    refine ⟨e1, ?_⟩
    exact ((h.free.iff _).1 (List.mem_of_mem_drop (getElem!_mem_drop w.pending k hk))).1
  by_cases h1 : p ≥ 0 <;> by_cases h2 : q ≥ 0
  · rw [if_pos h1, if_pos h2] at he
    have hp' : p.toNat < w.pending.size := by omega
    have hq' : q.toNat < w.pending.size := by omega
    rw [(key _ hp').1, (key _ hq').1] at he
    have := (List.getElem!_inj (by simpa using hp') (by simpa using hq') h.free.nodup).1 he
    omega
  · rw [if_pos h1, if_neg h2] at he
    have := (key p.toNat (by omega)).2
    omega
  · rw [if_neg h1, if_pos h2] at he
    have := (key q.toNat (by omega)).2
    omega
  · rw [if_neg h1, if_neg h2] at he
    omega

/-- `reserve_entity` claims position `cursor - 1` -/
theorem reserveEntity_pos (w : World) : (w.reserveEntity).2.id = w.posId (w.cursor - 1) := by
  unfold reserveEntity posId
  simp only
  split
  · rename_i hc
    rw [if_pos (by omega)]
  · rename_i hc
    rw [if_neg (by omega)]
    show ((w.metas.size : Int) + -w.cursor).toNat = _
    omega

/-- `reserve_entities(n)` claims positions in `[cursor - n, cursor)` -/
theorem reserveEntities_pos (w : World) (n : Nat) (h : w.Good) (e : Entity) (he : e ∈ (w.reserveEntities n).2) :
    ∃ p : Int, w.cursor - n ≤ p ∧ p < w.cursor ∧ e.id = w.posId p := by
  have hle := h.cursor_le
  rcases mem_reserveEntities he with ⟨h1, _⟩ | ⟨h1, _, h3, h4⟩
  · obtain ⟨lo, hlo⟩ : ∃ lo, (w.cursor - n).toNat = lo := ⟨_, rfl⟩
    rw [hlo] at h1
    rw [List.mem_iff_getElem] at h1
    obtain ⟨j, hj, hje⟩ := h1
    simp only [List.length_take, List.length_drop, Array.length_toList] at hj
    simp only [List.getElem_take, List.getElem_drop] at hje
    refine ⟨((lo + j : Nat) : Int), by omega, by omega, ?_⟩
    unfold posId
    rw [if_pos (by omega)]
    have e1 : (((lo + j : Nat) : Int)).toNat = lo + j := by omega
    have hlt : lo + j < w.pending.size := by omega
    rw [e1, ← hje]
    simp [hlt]
  · refine ⟨(w.metas.size : Int) - e.id - 1, by omega, by omega, ?_⟩
    unfold posId
    rw [if_neg (by omega)]
    omega

/-! ### the handle returned by `spawn` is live afterwards -/

theorem alloc_lt (w : World) (hf : w.Flushed) : (w.alloc).2.id < (w.alloc).1.metas.size := by
  unfold alloc
  split
  · simp
  · rename_i hz
    simp only
    have hk : w.pending.size - 1 < w.pending.size := by omega
    have hb : w.pending.back! = w.pending[w.pending.size - 1]! := by
      rw [Array.back!_eq_back?, Array.back?_eq_getElem?]; simp [hk]
    rw [hb]
    exact (pending_at w hf.good _ hk).2.2.1

theorem spawn_live (w : World) (b : List Comp) (h : w.Good) :
    ∃ l, (w.spawn b).1.get (w.flush.alloc).2 = some (some l) := by
  have hf := flush_flushed' w h
  have hlt := alloc_lt w.flush hf
  have hgen := (alloc_fresh w.flush hf).2
  have k1 := alloc_keeps w.flush
  have k2 := spawnInner_keeps (w.flush.alloc).1 (w.flush.alloc).2 b
  show ∃ l, ((w.flush.alloc).1.spawnInner (w.flush.alloc).2 b).get (w.flush.alloc).2 = some (some l)
  generalize w.flush.alloc = al at *
  obtain ⟨w1, e⟩ := al
  simp only at hlt hgen k1 k2 ⊢
  have hlt' : e.id < (w1.getArch ((canon b).map (·.1))).1.metas.size := by rw [getArch_metas]; exact hlt
  have hloc : (w1.spawnInner e b).locOf e.id = some ((w1.getArch ((canon b).map (·.1))).2,
      ((w1.getArch ((canon b).map (·.1))).1.rowsOf (w1.getArch ((canon b).map (·.1))).2).size) := by
    rw [spawnInner_eq, place_locOf _ _ _ _ _ hlt', if_pos rfl]
  exact ⟨_, get_of_loc (by have := k2.size; omega) (by rw [k2.gen, k1.gen]; exact hgen.symm) hloc⟩

end World
end Hecs
