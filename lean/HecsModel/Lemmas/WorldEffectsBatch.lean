import HecsModel.Lemmas.WorldEffectsAt
/-
  Effects of the batch spawns on `lookup`.
-/
namespace Hecs
namespace World

/-! ### spawnBatch -/

/-- one iteration of `spawnBatchRows`: allocate a handle and give it a row in archetype `a` -/
theorem alloc_place_view (w : World) (hf : w.Flushed) (a : Nat) (ha : a < w.archs.size) (vals : List Comp)
    (hv : vals.map (·.1) = w.typesOf a) :
    ((w.alloc).1.place a (w.alloc).2.id vals).Flushed ∧
    (∀ id, ((w.alloc).1.place a (w.alloc).2.id vals).genAt id
      = if id = (w.alloc).2.id then some (w.alloc).2.gen else w.genAt id) ∧
    (∀ id, ((w.alloc).1.place a (w.alloc).2.id vals).valsOf id
      = if id = (w.alloc).2.id then some vals else w.valsOf id) ∧
    w.valsOf (w.alloc).2.id = none := by
  obtain ⟨a1, a2, a3⟩ := alloc_view w hf
  have h1 := alloc_allocd w hf
  have harchs := alloc_archs w
  have ha1 : a < (w.alloc).1.archs.size := by rw [harchs]; exact ha
  have h2 := place_allocd (w.alloc).1 a (w.alloc).2.id vals [] ha1
    (by rw [typesOf_of_archs harchs]; exact hv) h1
  have hid : (w.alloc).2.id < (w.alloc).1.metas.size := ((h1.pre.free.iff _).1 (by simp)).1
  refine ⟨h2.flushed, ?_, ?_, a3⟩
  · intro id; rw [place_genAt, a1]
  · intro id; rw [place_valsOf _ _ _ _ _ ha1 hid h1.pre.bij.locOK, a2]

theorem spawnBatchRows_spec' (a : Nat) (rows : List (List Comp)) (w : World) (acc : List Entity)
    (hf : w.Flushed) (ha : a < w.archs.size)
    (hty : ∀ row, row ∈ rows → (canon row).map (·.1) = w.typesOf a) :
    ∃ es, (spawnBatchRows a rows w acc).2 = acc.reverse ++ es ∧ es.length = rows.length ∧
      (spawnBatchRows a rows w acc).1.Flushed ∧
      (∀ p, p ∈ es.zip rows → (spawnBatchRows a rows w acc).1.lookup p.1 = some (canon p.2)) ∧
      (∀ e, e ∈ es → w.valsOf e.id = none) ∧
      (∀ e, e ∉ es → (spawnBatchRows a rows w acc).1.lookup e = w.lookup e) ∧ es.Nodup := by
  induction rows generalizing w acc with
  | nil =>
    exact ⟨[], by simp [spawnBatchRows], rfl, hf, by simp, by simp, fun _ _ => rfl, List.nodup_nil⟩
  | cons b bs ih =>
    obtain ⟨s1, s2, s3, s4⟩ := alloc_place_view w hf a ha (canon b) (hty b (by simp))
    have harchs := alloc_archs w
    obtain ⟨es, i1, i2, i3, i4, i5, i6, i7⟩ := ih ((w.alloc).1.place a (w.alloc).2.id (canon b)) ((w.alloc).2 :: acc) s1
      (by rw [place_archs_size, harchs]; exact ha)
      (by intro row hrow; rw [place_typesOf, typesOf_of_archs harchs]; exact hty row (by simp [hrow]))
    have e : spawnBatchRows a (b :: bs) w acc =
        spawnBatchRows a bs ((w.alloc).1.place a (w.alloc).2.id (canon b)) ((w.alloc).2 :: acc) := rfl
    rw [e]
    have hnot : (w.alloc).2 ∉ es := by
      intro hm
      have := i5 _ hm
      rw [s3, if_pos rfl] at this; cases this
    have hstep : ∀ e', e' ≠ (w.alloc).2 →
        ((w.alloc).1.place a (w.alloc).2.id (canon b)).lookup e' = w.lookup e' := by
      intro e' hne
      by_cases hi : e'.id = (w.alloc).2.id
      · have hg : e'.gen ≠ (w.alloc).2.gen := by
          intro hg; apply hne; cases e'; cases hh : (w.alloc).2; simp_all
        rw [lookup_none_of_vals hf.cursor (by rw [hi]; exact s4)]
        apply lookup_none_of_gen s1.cursor
        rw [s2, if_pos hi]
        intro hh; exact hg (Option.some.inj hh).symm
      · exact lookup_congr hf.cursor s1.cursor (by rw [s2, if_neg hi]) (by rw [s3, if_neg hi])
    refine ⟨(w.alloc).2 :: es, by rw [i1]; simp, by simp [i2], i3, ?_, ?_, ?_, List.nodup_cons.2 ⟨hnot, i7⟩⟩
    · intro p hp
      rw [List.zip_cons_cons, List.mem_cons] at hp
      rcases hp with rfl | hp
      · rw [i6 _ hnot]
        exact lookup_some_of s1.cursor (by rw [s2, if_pos rfl]) (by rw [s3, if_pos rfl])
      · exact i4 p hp
    · intro e' he'
      rcases List.mem_cons.1 he' with rfl | he'
      · exact s4
      · have := i5 _ he'
        rw [s3] at this
        split at this
        · cases this
        · exact this
    · intro e' he'
      simp only [List.mem_cons, not_or] at he'
      rw [i6 _ he'.2, hstep _ he'.1]

theorem spawnBatch_spec' (w : World) (ts : List Nat) (rows : List (List Comp)) (h : w.Good)
    (hts : ts.Nodup) (hrows : ∀ row, row ∈ rows → (canon row).map (·.1) = sortNat ts) :
    ∃ es, (w.spawnBatch ts rows).2.res = .ents es ∧ (w.spawnBatch ts rows).2.dropped = [] ∧
      es.length = rows.length ∧
      (∀ p, p ∈ es.zip rows → (w.spawnBatch ts rows).1.lookup p.1 = some (canon p.2)) ∧
      (∀ e g, e ∈ es → w.flush.lookup ⟨e.id, g⟩ = none) ∧
      (∀ e, e ∉ es → (w.spawnBatch ts rows).1.lookup e = w.flush.lookup e) ∧ es.Nodup := by
  have hf := flush_flushed' w h
  obtain ⟨g1, g2, g3, g4, _, _⟩ := getArch_spec w.flush (sortNat ts) hf.good.arch (sortNat_sorted ts hts)
  have hf1 : (w.reserve ts).1.Flushed := hf.same g1 g4
  obtain ⟨es, i1, i2, i3, i4, i5, i6, i7⟩ := spawnBatchRows_spec' (w.reserve ts).2 rows (w.reserve ts).1 [] hf1 g2
    (by intro row hrow; rw [hrows row hrow]; exact g3.symm)
  have hsame : ∀ e, (w.reserve ts).1.lookup e = w.flush.lookup e := fun e =>
    lookup_congr hf.cursor hf1.cursor (g1.genAt _) (g1.valsOf _)
  refine ⟨es, ?_, rfl, i2, i4, ?_, ?_, i7⟩
  · show Res.ents (spawnBatchRows (w.reserve ts).2 rows (w.reserve ts).1 []).2 = _
    rw [i1]; rfl
  · intro e g he
    apply lookup_none_of_vals hf.cursor
    have := i5 e he
    rw [show (w.reserve ts).1.valsOf e.id = w.flush.valsOf e.id from g1.valsOf _] at this
    exact this
  · intro e he
    rw [← hsame e]; exact i6 e he

/-! ### assignRows -/

/-- no location points at the rows `(a, j)`, `k ≤ j` -/
def NoLocFrom (w : World) (a k : Nat) : Prop := ∀ id b j, w.locOf id = some (b, j) → ¬ (b = a ∧ k ≤ j)

theorem assignOne_genAt (w : World) (a i id id' : Nat) : (w.assignOne a i id).genAt id' = w.genAt id' := by
  rw [assignOne_eq]; simp

theorem assignOne_metas_size (w : World) (a i id : Nat) : (w.assignOne a i id).metas.size = w.metas.size := by
  rw [assignOne_eq]; simp

theorem assignOne_valsOf (w : World) (a k id id' : Nat) (hid : id < w.metas.size) (hn : w.NoLocFrom a k) :
    (w.assignOne a k id).valsOf id' = if id' = id then ((w.rowsOf a)[k]?).map (·.vals) else w.valsOf id' := by
  by_cases hi : id' = id
  · subst hi
    rw [if_pos rfl]
    simp only [valsOf, assignOne_locOf _ _ _ _ _ hid, if_true, Option.bind_some, rowAt_eq, assignOne_get,
      and_self, Option.map_map]
    rfl
  · rw [if_neg hi]
    apply valsOf_congr
    · rw [assignOne_locOf _ _ _ _ _ hid, if_neg hi]
    · intro b j hh
      have := hn _ _ _ hh
      rw [assignOne_get, if_neg (by intro hc; exact this ⟨hc.1, by omega⟩)]

theorem assignOne_noLocFrom (w : World) (a k id : Nat) (hid : id < w.metas.size) (hn : w.NoLocFrom a k) :
    (w.assignOne a k id).NoLocFrom a (k + 1) := by
  intro id' b j
  rw [assignOne_locOf _ _ _ _ _ hid]
  split
  · intro hh; cases hh; omega
  · intro hh; have := hn _ _ _ hh; omega

theorem assignRows_view (a : Nat) (ids : List Nat) (k : Nat) (w : World) (hn : w.NoLocFrom a k)
    (hlt : ∀ id, id ∈ ids → id < w.metas.size) (hnd : ids.Nodup) :
    (∀ id, (assignRows a ids k w).genAt id = w.genAt id) ∧
    (∀ j (hj : j < ids.length), (assignRows a ids k w).valsOf ids[j] = ((w.rowsOf a)[k + j]?).map (·.vals)) ∧
    (∀ id, id ∉ ids → (assignRows a ids k w).valsOf id = w.valsOf id) := by
  induction ids generalizing k w with
  | nil => exact ⟨fun _ => rfl, fun j hj => by simp at hj, fun _ _ => rfl⟩
  | cons id ids ih =>
    have e : assignRows a (id :: ids) k w = assignRows a ids (k + 1) (w.assignOne a k id) := rfl
    rw [e]
    have hid := hlt id (by simp)
    rw [List.nodup_cons] at hnd
    obtain ⟨i1, i2, i3⟩ := ih (k + 1) (w.assignOne a k id) (assignOne_noLocFrom w a k id hid hn)
      (by intro x hx; rw [assignOne_metas_size]; exact hlt x (by simp [hx])) hnd.2
    refine ⟨?_, ?_, ?_⟩
    · intro id'; rw [i1, assignOne_genAt]
    · intro j hj
      cases j with
      | zero =>
        simp only [List.getElem_cons_zero, Nat.add_zero]
        rw [i3 id hnd.1, assignOne_valsOf _ _ _ _ _ hid hn, if_pos rfl]
      | succ j =>
        simp only [List.getElem_cons_succ]
        rw [i2 j (by simpa using hj), assignOne_get, if_neg (by omega)]
        congr 2; omega
    · intro id' hid'
      simp only [List.mem_cons, not_or] at hid'
      rw [i3 id' hid'.2, assignOne_valsOf _ _ _ _ _ hid hn, if_neg hid'.1]

/-! ### insertBatch -/

theorem insertBatch_view (w : World) (ts : List Nat) (rows : List (List Comp)) (hb : w.Bij) (ha : w.ArchOK)
    (hs : strictSorted ts = true) :
    (∀ id, (w.insertBatch ts rows).1.valsOf id = w.valsOf id) ∧
    (w.insertBatch ts rows).1.NoLocFrom (w.insertBatch ts rows).2.1 (w.insertBatch ts rows).2.2 ∧
    (∀ j, ((w.insertBatch ts rows).1.rowsOf (w.insertBatch ts rows).2.1)[(w.insertBatch ts rows).2.2 + j]?
      = (rows[j]?).map (fun v => (⟨0, v⟩ : Row))) := by
  rw [insertBatch_eq]
  obtain ⟨g1, g2, g3, g4, g5, g6⟩ := getArch_spec w ts ha hs
  generalize w.getArch ts = ga at *
  obtain ⟨w1, a⟩ := ga
  simp only at g1 g2 g3 g4 g5 g6 ⊢
  have hget : ∀ b j, ((w1.modRows a (fun r => r ++ batchRows rows)).rowsOf b)[j]? =
      if b = a then (if j < (w.rowsOf a).size then (w.rowsOf a)[j]? else (batchRows rows)[j - (w.rowsOf a).size]?)
      else (w.rowsOf b)[j]? := by
    intro b j
    rw [modRows_rowsOf]
    by_cases hb : b = a
    · subst hb; simp only [g2, and_self, if_true, g1.rows, Array.getElem?_append]
    · simp [hb, g1.rows]
  refine ⟨?_, ?_, ?_⟩
  · intro id
    apply valsOf_congr
    · rw [modRows_locOf, g1.locOf]
    · intro b j hh
      have := hb.locOK _ _ _ hh
      rw [hget]
      grind
  · intro id b j
    rw [modRows_locOf, g1.locOf]
    intro hh
    have := hb.locOK _ _ _ hh
    rintro ⟨rfl, hk⟩
    omega
  · intro j
    rw [hget, if_pos rfl, if_neg (by omega)]
    simp [batchRows]

/-! ### spawnColumnBatch -/

theorem genOf_of_genAt {w : World} {id g : Nat} (h : w.genAt id = some g) : w.genOf id = g := by
  rw [genOf_eq_eff, h]; rfl

theorem mem_zip_map_left {α β γ} (f : α → β) (l : List α) (r : List γ) (p : β × γ)
    (hp : p ∈ (l.map f).zip r) : ∃ j, ∃ (h1 : j < l.length) (h2 : j < r.length), p = (f l[j], r[j]) := by
  obtain ⟨j, hj, rfl⟩ := List.getElem_of_mem hp
  simp only [List.length_zip, List.length_map] at hj
  exact ⟨j, by omega, by omega, by simp⟩

theorem spawnColumnBatch_spec' (w : World) (ts : List Nat) (rows : List (List Comp))
    (h : w.Good) (hts : strictSorted ts = true) (hrows : ∀ row, row ∈ rows → row.map (·.1) = ts) :
    ∃ es, (w.spawnColumnBatch ts rows).2.res = .ents es ∧ (w.spawnColumnBatch ts rows).2.dropped = [] ∧
      es.length = rows.length ∧
      (∀ p, p ∈ es.zip rows → (w.spawnColumnBatch ts rows).1.lookup p.1 = some p.2) ∧
      (∀ e g, e ∈ es → w.flush.lookup ⟨e.id, g⟩ = none) ∧
      (∀ e, e ∉ es → (w.spawnColumnBatch ts rows).1.lookup e = w.flush.lookup e) ∧ es.Nodup := by
  have hf := flush_flushed' w h
  have hfin := spawnColumnBatch_flushed w ts rows h hts hrows
  unfold spawnColumnBatch at hfin ⊢
  simp only at hfin ⊢
  generalize w.flush = w0 at *
  obtain ⟨s1, s2, s3, s4, s5, s6, s7, s8⟩ := insertBatch_spec w0 ts rows hf.good.bij hf.good.arch hts hrows
  obtain ⟨v1, v2, v3⟩ := insertBatch_view w0 ts rows hf.good.bij hf.good.arch hts
  generalize w0.insertBatch ts rows = ib at *
  obtain ⟨w1, a, base⟩ := ib
  simp only at s1 s2 s3 s4 s5 s6 s7 s8 v1 v2 v3 hfin ⊢
  have hw2 : ({ w1 with metas := w1.metas ++ Array.replicate (rows.length - w1.pending.size) Meta.empty,
                         len := w1.len + rows.length } : World)
      = w1.extend (rows.length - w1.pending.size) (w1.len + rows.length) := rfl
  rw [hw2] at hfin ⊢
  have gv := grow_view w1 (w1.extend (rows.length - w1.pending.size) (w1.len + rows.length))
    (rows.length - w1.pending.size) rfl rfl
  have hn2 : (w1.extend (rows.length - w1.pending.size) (w1.len + rows.length)).NoLocFrom a base := by
    intro id b j; rw [(gv id).2.1]; exact v2 id b j
  have hm1 : w1.metas.size = w0.metas.size := by rw [s1]
  have hrec : ∀ id, id ∈ w1.pending.toList.drop (w1.pending.size - rows.length) →
      id < w0.metas.size ∧ w0.valsOf id = none := by
    intro id hid
    have := (hf.good.free.iff id).1 (by rw [← s2]; exact List.mem_of_mem_drop hid)
    exact ⟨this.1, valsOf_none this.2⟩
  have hfresh : ∀ id, id ∈ List.range' w1.metas.size (rows.length - w1.pending.size) →
      w0.metas.size ≤ id ∧ id < w0.metas.size + (rows.length - w1.pending.size) ∧ w0.valsOf id = none := by
    intro id hid
    rw [List.mem_range'_1, hm1] at hid
    exact ⟨hid.1, hid.2, valsOf_none (locOf_ge _ _ hid.1)⟩
  have hnd : (w1.pending.toList.drop (w1.pending.size - rows.length) ++
      List.range' w1.metas.size (rows.length - w1.pending.size)).Nodup := by
    rw [List.nodup_append]
    refine ⟨(by rw [s2]; exact hf.good.free.nodup.drop), List.nodup_range' (step := 1), ?_⟩
    intro x hx y hy hxy
    have := (hrec x hx).1; have := (hfresh y hy).1; omega
  have hlen : (w1.pending.toList.drop (w1.pending.size - rows.length) ++
      List.range' w1.metas.size (rows.length - w1.pending.size)).length = rows.length := by
    simp; omega
  generalize hids : w1.pending.toList.drop (w1.pending.size - rows.length) ++
      List.range' w1.metas.size (rows.length - w1.pending.size) = ids at *
  have hmem : ∀ id, id ∈ ids → w0.valsOf id = none ∧
      id < w0.metas.size + (rows.length - w1.pending.size) := by
    intro id hid
    rw [← hids, List.mem_append] at hid
    rcases hid with hid | hid
    · have := hrec id hid; exact ⟨this.2, by omega⟩
    · have := hfresh id hid; exact ⟨this.2.2, this.2.1⟩
  have hlt2 : ∀ id, id ∈ ids →
      id < (w1.extend (rows.length - w1.pending.size) (w1.len + rows.length)).metas.size := by
    intro id hid; have := (hmem id hid).2; simp [extend]; omega
  obtain ⟨i1, i2, i3⟩ := assignRows_view a ids base _ hn2 hlt2 hnd
  generalize assignRows a ids base (w1.extend (rows.length - w1.pending.size) (w1.len + rows.length)) = w3 at *
  -- the final world differs from `w3` only in `pending`, `cursor`
  generalize hw4 : ({ w3 with pending := w3.pending.extract 0 (w1.pending.size - rows.length), cursor := ((w1.pending.size - rows.length : Nat) : Int) } : World)
      = w4 at *
  have k1 : ∀ id, w4.genAt id = w3.genAt id := fun _ => by rw [← hw4]; rfl
  have k2 : ∀ id, w4.valsOf id = w3.valsOf id := fun _ => by rw [← hw4]; rfl
  have hgen4 : ∀ id, w4.genAt id = (if id < w1.metas.size then w0.genAt id
      else if id < w1.metas.size + (rows.length - w1.pending.size) then some 1 else none) := by
    intro id; rw [k1, i1, (gv id).1]
    split
    · exact genAt_of_archs_metas s1 id
    · rfl
  have hin : ∀ id, id ∈ ids → w4.genAt id = some (w4.genOf id) := by
    intro id hid
    have := (hmem id hid).2
    cases hg : w4.genAt id with
    | none =>
      exfalso
      rw [hgen4] at hg
      split at hg
      · rw [genAt_eq_none] at hg; omega
      · split at hg
        · cases hg
        · omega
    | some g => rw [genOf_of_genAt hg]
  have hvals0 : ∀ id, w3.valsOf id = w0.valsOf id → w4.valsOf id = w0.valsOf id := fun id hh => by rw [k2, hh]
  refine ⟨_, rfl, trivial, by simp [hlen], ?_, ?_, ?_, ?_⟩
  · intro p hp
    obtain ⟨j, h1, h2, rfl⟩ := mem_zip_map_left _ _ _ _ hp
    apply lookup_some_of hfin.cursor
    · exact hin _ (List.getElem_mem h1)
    · simp only
      rw [k2, i2 j h1]
      have : ((w1.extend (rows.length - w1.pending.size) (w1.len + rows.length)).rowsOf a)[base + j]?
          = (w1.rowsOf a)[base + j]? := rfl
      rw [this, v3 j]; simp [h2]
  · intro e g he
    obtain ⟨id, hid, rfl⟩ := List.mem_map.1 he
    exact lookup_none_of_vals hf.cursor (hmem id hid).1
  · intro e he
    by_cases hid : e.id ∈ ids
    · rw [lookup_none_of_vals hf.cursor (hmem _ hid).1]
      apply lookup_none_of_gen hfin.cursor
      rw [hin _ hid]
      intro hh
      apply he
      exact List.mem_map.2 ⟨e.id, hid, by cases e; simp at hh ⊢; exact hh⟩
    · have hv : w4.valsOf e.id = w0.valsOf e.id := by
        rw [k2, i3 _ hid, (gv _).2.2, v1]
      have hnf : ¬ (w1.metas.size ≤ e.id ∧ e.id < w1.metas.size + (rows.length - w1.pending.size)) := by
        intro hc; apply hid; rw [← hids]; apply List.mem_append_right
        rw [List.mem_range'_1]; exact hc
      apply lookup_congr hf.cursor hfin.cursor _ hv
      rw [hgen4]
      split
      · rfl
      · rw [if_neg (by omega)]; symm; rw [genAt_eq_none]; omega
  · exact hnd.map _ (fun a b hab hh => hab (by simpa using congrArg Entity.id hh))

/-- the batch specifications without the distinctness clause (the form most callers use) -/
theorem spawnBatch_spec (w : World) (ts : List Nat) (rows : List (List Comp)) (h : w.Good)
    (hts : ts.Nodup) (hrows : ∀ row, row ∈ rows → (canon row).map (·.1) = sortNat ts) :
    ∃ es, (w.spawnBatch ts rows).2.res = .ents es ∧ (w.spawnBatch ts rows).2.dropped = [] ∧
      es.length = rows.length ∧
      (∀ p, p ∈ es.zip rows → (w.spawnBatch ts rows).1.lookup p.1 = some (canon p.2)) ∧
      (∀ e g, e ∈ es → w.flush.lookup ⟨e.id, g⟩ = none) ∧
      (∀ e, e ∉ es → (w.spawnBatch ts rows).1.lookup e = w.flush.lookup e) := by
  obtain ⟨es, a, b, c, d, e, f, _⟩ := spawnBatch_spec' w ts rows h hts hrows
  exact ⟨es, a, b, c, d, e, f⟩

theorem spawnColumnBatch_spec (w : World) (ts : List Nat) (rows : List (List Comp))
    (h : w.Good) (hts : strictSorted ts = true) (hrows : ∀ row, row ∈ rows → row.map (·.1) = ts) :
    ∃ es, (w.spawnColumnBatch ts rows).2.res = .ents es ∧ (w.spawnColumnBatch ts rows).2.dropped = [] ∧
      es.length = rows.length ∧
      (∀ p, p ∈ es.zip rows → (w.spawnColumnBatch ts rows).1.lookup p.1 = some p.2) ∧
      (∀ e g, e ∈ es → w.flush.lookup ⟨e.id, g⟩ = none) ∧
      (∀ e, e ∉ es → (w.spawnColumnBatch ts rows).1.lookup e = w.flush.lookup e) := by
  obtain ⟨es, a, b, c, d, e, f, _⟩ := spawnColumnBatch_spec' w ts rows h hts hrows
  exact ⟨es, a, b, c, d, e, f⟩

/-! ### spawnColumnBatchAt -/

/-- the components stored under an id (whatever its generation), `[]` if there are none -/
def occupant (w : World) (id : Nat) : List Comp := (w.valsOf id).getD []

theorem occupant_spec (w : World) (hf : w.Flushed) (id : Nat) :
    (∀ g cs, w.lookup ⟨id, g⟩ = some cs → w.occupant id = cs) ∧
    ((∀ g, w.lookup ⟨id, g⟩ = none) → w.occupant id = []) := by
  unfold occupant
  constructor
  · intro g cs hl
    rw [lookup_flushed _ hf.cursor] at hl
    split at hl
    · simp only at hl; rw [hl]; rfl
    · cases hl
  · intro hall
    cases hvv : w.valsOf id with
    | none => rfl
    | some cs =>
      exfalso
      have hloc : (w.locOf id).isSome := by
        cases hl : w.locOf id with
        | none => rw [valsOf_none hl] at hvv; cases hvv
        | some l => rfl
      obtain ⟨l, hl⟩ := Option.isSome_iff_exists.1 hloc
      have hlt := lt_of_locOf hl
      have hg : w.genAt id = some w.metas[id].gen := genAt_eq_some.2 ⟨_, by simp [hlt], rfl⟩
      have := hall w.metas[id].gen
      rw [lookup_some_of hf.cursor (e := ⟨id, w.metas[id].gen⟩) hg hvv] at this
      cases this

theorem flatMap_congr' {α β} (l : List α) (f g : α → List β) (h : ∀ x, x ∈ l → f x = g x) :
    l.flatMap f = l.flatMap g := by
  induction l with
  | nil => rfl
  | cons x xs ih =>
    rw [List.flatMap_cons, List.flatMap_cons, h x (by simp), ih (fun y hy => h y (by simp [hy]))]

theorem allocAtAll_view (hs : List Entity) (w : World) (d : List Comp) (D : List Nat) (h : w.Allocd D)
    (hnd : (hs.map (·.id)).Nodup) (hdisj : ∀ x, x ∈ hs.map (·.id) → x ∉ D) :
    (∀ e, e ∈ hs → (allocAtAll hs w d).1.genAt e.id = some e.gen) ∧
    (∀ id, id ∉ hs.map (·.id) → (allocAtAll hs w d).1.genAt id = w.genAt id ∨ w.genAt id = none) ∧
    (∀ id, (allocAtAll hs w d).1.valsOf id = if id ∈ hs.map (·.id) then none else w.valsOf id) ∧
    (allocAtAll hs w d).2 = d ++ hs.flatMap (fun e => w.occupant e.id) := by
  induction hs generalizing w d D with
  | nil => exact ⟨by simp, fun _ _ => .inl rfl, fun _ => by simp [allocAtAll], by simp [allocAtAll]⟩
  | cons e es ih =>
    simp only [List.map_cons, List.nodup_cons] at hnd
    have hD : e.id ∉ D := hdisj e.id (by simp)
    have h1 := allocAt_evict_allocd w e D h hD
    obtain ⟨a1, a2, a3, a4⟩ := allocAt_evict_view w e D h hD
    obtain ⟨i1, i2, i3, i4⟩ := ih ((w.allocAt e).1.evict (w.allocAt e).2).1
      (d ++ ((w.allocAt e).1.evict (w.allocAt e).2).2) (e.id :: D) h1 hnd.2 (by
        intro x hx
        simp only [List.mem_cons, not_or]
        exact ⟨fun e' => hnd.1 (e' ▸ hx), hdisj x (by simp [hx])⟩)
    have heq : allocAtAll (e :: es) w d = allocAtAll es ((w.allocAt e).1.evict (w.allocAt e).2).1
        (d ++ ((w.allocAt e).1.evict (w.allocAt e).2).2) := rfl
    rw [heq]
    refine ⟨?_, ?_, ?_, ?_⟩
    · intro e' he'
      rcases List.mem_cons.1 he' with rfl | he'
      · rcases i2 e'.id hnd.1 with hh | hh
        · rw [hh, a1]
        · rw [a1] at hh; cases hh
      · exact i1 e' he'
    · intro id hid
      simp only [List.map_cons, List.mem_cons, not_or] at hid
      rcases i2 id hid.2 with hh | hh
      · rw [hh]; exact a2 id hid.1
      · rcases a2 id hid.1 with h2 | h2
        · right; rw [← h2]; exact hh
        · right; exact h2
    · intro id
      rw [i3, a3]
      simp only [List.map_cons, List.mem_cons]
      by_cases h1 : id = e.id
      · simp [h1]
      · simp [h1]
    · rw [i4, a4, List.flatMap_cons, List.append_assoc]
      congr 2
      apply flatMap_congr'
      intro e' he'
      unfold occupant
      rw [a3, if_neg]
      intro hh
      exact hnd.1 (hh ▸ List.mem_map_of_mem (f := (·.id)) he')

theorem assignRows_pending (a : Nat) (ids : List Nat) (k : Nat) (w : World) :
    (assignRows a ids k w).pending = w.pending ∧ (assignRows a ids k w).cursor = w.cursor := by
  induction ids generalizing k w with
  | nil => exact ⟨rfl, rfl⟩
  | cons id ids ih =>
    have e : assignRows a (id :: ids) k w = assignRows a ids (k + 1) (w.assignOne a k id) := rfl
    rw [e]; exact ih (k + 1) _

theorem mem_zip_map_left' {α γ} (l : List α) (r : List γ) (p : α × γ)
    (hp : p ∈ l.zip r) : ∃ j, ∃ (h1 : j < l.length) (h2 : j < r.length), p = (l[j], r[j]) := by
  obtain ⟨j, hj, rfl⟩ := List.getElem_of_mem hp
  simp only [List.length_zip] at hj
  exact ⟨j, by omega, by omega, by simp⟩

theorem spawnColumnBatchAt_spec (w : World) (hs : List Entity) (ts : List Nat) (rows : List (List Comp))
    (h : w.Good) (hts : strictSorted ts = true) (hrows : ∀ row, row ∈ rows → row.map (·.1) = ts)
    (hlen : hs.length = rows.length) (hnd : (hs.map (·.id)).Nodup) :
    (w.spawnColumnBatchAt hs ts rows).2.res = .ok ∧
    (w.spawnColumnBatchAt hs ts rows).2.dropped = hs.flatMap (fun e => w.flush.occupant e.id) ∧
    (∀ p, p ∈ hs.zip rows → (w.spawnColumnBatchAt hs ts rows).1.lookup p.1 = some p.2) ∧
    (∀ e, e.id ∈ hs.map (·.id) → e ∉ hs → (w.spawnColumnBatchAt hs ts rows).1.lookup e = none) ∧
    (∀ e, e.id ∉ hs.map (·.id) → (w.spawnColumnBatchAt hs ts rows).1.lookup e = w.flush.lookup e) := by
  have hf := flush_flushed' w h
  have hc : ¬ (hs.length ≠ rows.length ∨ ¬ (hs.map (·.id)).Nodup) := by
    simp only [not_or, Decidable.not_not]; exact ⟨hlen, hnd⟩
  unfold spawnColumnBatchAt
  rw [if_neg hc]
  simp only
  have h1 := allocAtAll_allocd hs w.flush [] [] hf.allocd hnd (by simp)
  obtain ⟨a1, a2, a3, a4⟩ := allocAtAll_view hs w.flush [] [] hf.allocd hnd (by simp)
  generalize allocAtAll hs w.flush [] = r at *
  obtain ⟨w1, d⟩ := r
  simp only [List.append_nil, List.nil_append] at h1 a1 a2 a3 a4 ⊢
  obtain ⟨s1, s2, s3, s4, s5, s6, s7, s8⟩ := insertBatch_spec w1 ts rows h1.pre.bij h1.pre.arch hts hrows
  obtain ⟨v1, v2, v3⟩ := insertBatch_view w1 ts rows h1.pre.bij h1.pre.arch hts
  generalize w1.insertBatch ts rows = ib at *
  obtain ⟨w2, a, base⟩ := ib
  simp only at s1 s2 s3 s4 s5 s6 s7 s8 v1 v2 v3 ⊢
  have hlt : ∀ id, id ∈ hs.map (·.id) → id < w2.metas.size := by
    intro id hid
    rw [s1]
    exact ((h1.pre.free.iff id).1 (List.mem_append_left _ (List.mem_reverse.2 hid))).1
  obtain ⟨i1, i2, i3⟩ := assignRows_view a (hs.map (·.id)) base w2 v2 hlt hnd
  obtain ⟨p1, p2⟩ := assignRows_pending a (hs.map (·.id)) base w2
  generalize assignRows a (hs.map (·.id)) base w2 = w3 at *
  have hcur : w3.cursor = w3.pending.size := by rw [p1, p2, s2, s3, h1.cursor]
  have hgen : ∀ id, w3.genAt id = w1.genAt id := fun id => by rw [i1, genAt_of_archs_metas s1]
  refine ⟨trivial, a4, ?_, ?_, ?_⟩
  · intro p hp
    obtain ⟨j, j1, j2, rfl⟩ := mem_zip_map_left' _ _ _ hp
    apply lookup_some_of hcur
    · rw [hgen]; exact a1 _ (List.getElem_mem j1)
    · have := i2 j (by simpa using j1)
      simp only [List.getElem_map] at this
      simp only
      rw [this, v3 j]; simp [j2]
  · intro e hid hne
    obtain ⟨e', he', hid'⟩ := List.mem_map.1 hid
    apply lookup_none_of_gen hcur
    rw [hgen, ← hid', a1 e' he']
    intro hh
    apply hne
    have : e = e' := by cases e; cases e'; simp at hid' hh ⊢; exact ⟨hid'.symm, hh.symm⟩
    rw [this]; exact he'
  · intro e hid
    have hv : w3.valsOf e.id = w.flush.valsOf e.id := by rw [i3 _ hid, v1, a3, if_neg hid]
    rcases a2 e.id hid with hg | hg
    · exact lookup_congr hf.cursor hcur (by rw [hgen, hg]) hv
    · have hn' : w.flush.valsOf e.id = none := valsOf_none (locOf_ge _ _ (genAt_eq_none.1 hg))
      rw [lookup_none_of_vals hf.cursor hn']
      exact lookup_none_of_vals hcur (by rw [hv, hn'])

theorem spawnColumnBatchAt_panic (w : World) (hs : List Entity) (ts : List Nat) (rows : List (List Comp))
    (hbad : hs.length ≠ rows.length ∨ ¬ (hs.map (·.id)).Nodup) :
    w.spawnColumnBatchAt hs ts rows = (w, { res := .panic, dropped := rows.flatten }) := by
  unfold spawnColumnBatchAt; rw [if_pos hbad]

end World
end Hecs
