import HecsModel.Lemmas.SerdeRound
/-
  C14, column format: deserializing what `serCol` wrote gives back every live entity with its
  handled components.
-/
namespace Hecs.SerdeLemmas
open Hecs Hecs.Serde Hecs.CanonLemmas

/-- the lengths the column format announces fit its 32-bit length fields -/
def SizesFit (w : World) (H : List Nat) : Prop :=
  H.length < 4294967296 ∧ ∀ ar ∈ w.archs.toList, ar.rows.size < 4294967296

/-! ### columns -/

theorem deColumns_enc (n : Nat) (hs : List Nat) (f : Nat → List Nat) (acc : List (Nat × List Nat))
    (hf : ∀ t ∈ hs, (f t).length = n)
    (hnd : (acc.map (·.1) ++ hs).Nodup) :
    deColumns n hs (hs.map (fun t => Tree.seq ((f t).map Tree.num))) acc =
      .ok (acc ++ hs.map (fun t => (t, f t)), []) := by
  induction hs generalizing acc with
  | nil => simp [deColumns]
  | cons t hs ih =>
    have hcol : deColumn n (Tree.seq ((f t).map Tree.num)) = .ok (f t) := by
      have := deColumn_eq (f t); rwa [hf t (by simp)] at this
    have hnot : acc.any (·.1 == t) = false := by
      rw [Bool.eq_false_iff]; intro h
      obtain ⟨d, hd, hdc⟩ := List.any_eq_true.1 h
      simp only [beq_iff_eq] at hdc
      rw [List.nodup_append] at hnd
      exact hnd.2.2 _ (List.mem_map_of_mem (f := fun x : Nat × List Nat => x.1) hd) _
        (List.mem_cons_self (a := t) (l := hs)) hdc
    simp only [List.map_cons, deColumns, hcol, hnot, Bool.false_eq_true, if_false]
    rw [ih (acc ++ [(t, f t)]) (fun t' ht' => hf t' (List.mem_cons_of_mem _ ht')) (by simpa using hnd)]
    simp

theorem find_map_key (hs : List Nat) (f : Nat → List Nat) (t : Nat) (ht : t ∈ hs) :
    (hs.map (fun t => (t, f t))).find? (·.1 == t) = some (t, f t) := by
  induction hs with
  | nil => cases ht
  | cons a hs ih =>
    simp only [List.map_cons, List.find?_cons]
    by_cases h : a = t
    · subst h; simp
    · have : (a == t) = false := by simpa using h
      simp only [this]
      rcases List.mem_cons.1 ht with rfl | ht
      · exact absurd rfl h
      · exact ih ht

/-! ### one archetype -/

/-- the handles of an archetype's rows -/
def archEnts (w : World) (ar : Arch) : List Entity := ar.rows.toList.map (fun r => w.entityOf r.id)

/-- the decoded form of one block -/
def archBlock (w : World) (H : List Nat) (ar : Arch) : Block :=
  ⟨archEnts w ar, dedupSorted (sortNat (H.filter (fun t => ar.types.contains t))),
   ar.rows.toList.map (fun r => restrict H r.vals)⟩

theorem range_map_eq {α β : Type} (l : List α) (n : Nat) (hn : l.length = n) (G : Nat → β) (F : α → β)
    (h : ∀ i (hi : i < l.length), G i = F l[i]) : (List.range n).map G = l.map F := by
  subst hn
  apply List.ext_getElem
  · simp
  · intro i h1 h2
    simp only [List.getElem_map, List.getElem_range]
    exact h i (by simpa using h2)

theorem keys_map_eq (vals : List Comp) (q : Nat → Bool) (g : Nat → Nat) (hg : ∀ c ∈ vals, g c.1 = c.2) :
    ((vals.map (·.1)).filter q).map (fun t => (t, g t)) = vals.filter (fun c => q c.1) := by
  induction vals with
  | nil => rfl
  | cons c vals ih =>
    have ih := ih (fun d hd => hg d (List.mem_cons_of_mem _ hd))
    simp only [List.map_cons, List.filter_cons]
    cases hq : q c.1
    · simpa using ih
    · simp only [if_true, List.map_cons, ih, hg c (by simp)]

/-- the types a block announces, sorted, are the archetype's handled types -/
theorem block_types (H : List Nat) (types : List Nat) (hs : strictSorted types = true) :
    dedupSorted (sortNat (H.filter (fun t => types.contains t))) = types.filter (fun t => H.contains t) := by
  apply strictSorted_ext _ _ (dedupSorted_sortNat_sorted _) (strictSorted_filter _ _ hs)
  intro x
  rw [mem_dedupSorted_sortNat]
  simp [List.mem_filter, and_comm]

theorem colRows_block (w : World) (H : List Nat) (a : Nat) (ar : Arch) (hw : w.Inv)
    (ha : w.archs[a]? = some ar)
    (hz : ∀ r ∈ ar.rows.toList, ∀ c ∈ r.vals, normVal c.1 c.2 = c.2) :
    let hs := H.filter (fun t => ar.types.contains t)
    colRows ar.rows.size (dedupSorted (sortNat hs))
      (hs.map (fun t => (t, ar.rows.toList.map (fun r => (lookupComp t r.vals).getD 0)))) =
    ar.rows.toList.map (fun r => restrict H r.vals) := by
  intro hs
  have hts := block_types H ar.types (hw.core.types_sorted a ar ha)
  unfold colRows
  apply range_map_eq _ _ (by simp)
  intro i hi
  have hri : ar.rows[i]? = some ar.rows.toList[i] := World.toList_getElem?_rows ar i hi
  have hkeys := hw.core.row_types a ar i _ ha hri
  have hnd : ((ar.rows.toList[i]).vals.map (·.1)).Nodup := by
    rw [hkeys]; exact strictSorted_nodup _ (hw.core.types_sorted a ar ha)
  have hmem : ∀ t ∈ dedupSorted (sortNat hs), t ∈ hs := fun t ht => (mem_dedupSorted_sortNat t hs).1 ht
  have : ∀ t ∈ dedupSorted (sortNat hs),
      (fun t => (t, normVal t (List.getD (Option.getD (Option.map (·.2)
        (List.find? (·.1 == t) (hs.map (fun t => (t, ar.rows.toList.map (fun r => (lookupComp t r.vals).getD 0))))))
          []) i 0))) t =
      (fun t => (t, normVal t ((lookupComp t (ar.rows.toList[i]).vals).getD 0))) t := by
    intro t ht
    simp only
    rw [find_map_key hs _ t (hmem t ht)]
    have hi' : i < ar.rows.size := by simpa using hi
    simp [List.getD_eq_getElem?_getD, hi']
  rw [List.map_congr_left this, hts, ← hkeys]
  unfold restrict
  apply keys_map_eq
  intro c hc
  rw [(lookupComp_eq_some_iff hnd).2 (show (c.1, c.2) ∈ _ from hc)]
  simp only [Option.getD_some]
  exact hz _ (List.getElem_mem hi) c hc

theorem arch_ids_nodup (w : World) (hw : w.Inv) (ar : Arch) (har : ar ∈ w.archs.toList) :
    (ar.rows.toList.map (·.id)).Nodup := by
  have := World.liveRows_nodup w hw.core
  rw [World.liveRows_ids, List.nodup_iff_pairwise_ne, List.pairwise_flatMap] at this
  rw [List.nodup_iff_pairwise_ne]
  exact this.1 ar har

theorem map_map_congr {α β γ δ : Type} (l : List α) (f : α → β) (g : β → δ) (h : α → γ) (k : γ → δ)
    (H : ∀ a ∈ l, g (f a) = k (h a)) : (l.map f).map g = (l.map h).map k := by
  induction l with
  | nil => rfl
  | cons a l ih =>
    rw [List.map_cons, List.map_cons, List.map_cons, List.map_cons, H a (by simp),
      ih (fun b hb => H b (List.mem_cons_of_mem _ hb))]

/-- the block of one non-empty archetype is accepted and spawns the decoded block -/
theorem deArchetype_colBlock (w w0 : World) (H : List Nat) (hw : w.Inv) (hb : Bounded w) (hz : ZstNormal w)
    (hf : SizesFit w H) (hH : H.Nodup) (ar : Arch) (har : ar ∈ w.archs.toList) :
    deArchetype H w0 (colBlock w H ar) =
      .ok (w0.spawnColumnBatchAt (archBlock w H ar).hs (archBlock w H ar).ts (archBlock w H ar).rows).1 := by
  obtain ⟨a, ha⟩ := World.mem_archs_toList har
  have hlive : ∀ r ∈ ar.rows.toList, (w.entityOf r.id, r.vals) ∈ w.liveRows := by
    intro r hr
    simp only [World.liveRows, List.mem_flatMap, List.mem_map]
    exact ⟨ar, har, r, hr, rfl⟩
  have hsl : (H.filter (fun t => ar.types.contains t)).length < 4294967296 :=
    Nat.lt_of_le_of_lt (List.length_filter_le _ _) hf.1
  have e1 : (ar.rows.toList.map (fun r => bitsOf (w.entityOf r.id))).mapM entityOfBits = some (archEnts w ar) := by
    rw [mapM_eq_some]
    apply map_map_congr
    intro r hr
    obtain ⟨h1, h2, h3⟩ := hb _ (hlive r hr)
    exact entity_bits_roundtrip _ h1 h2 h3
  have e2 : (archEnts w ar).length = ar.rows.size := by simp [archEnts]
  have e3 : ((archEnts w ar).map (·.id)).Nodup := by
    have := arch_ids_nodup w hw ar har
    simpa [archEnts, List.map_map, Function.comp_def, World.entityOf] using this
  have e4 : (List.filter (fun t => ar.types.contains t) H).all H.contains = true := by
    rw [List.all_eq_true]; intro t ht; simpa using (List.mem_filter.1 ht).1
  have e5 := deColumns_enc ar.rows.size (H.filter (fun t => ar.types.contains t))
      (fun t => ar.rows.toList.map (fun r => (lookupComp t r.vals).getD 0)) []
      (fun t _ => by simp) (by simp only [List.map_nil, List.nil_append]; exact hH.filter _)
  rw [List.nil_append] at e5
  have := deArchetype_eq H w0 ar.rows.size (H.filter (fun t => ar.types.contains t)).length
    _ _ _ _ _ _ _ (hf.2 ar har) hsl (natsOf_map_num _) e4 (natsOf_map_num _) e1 e2 e3 e5
  rw [colRows_block w H a ar hw ha (fun r hr => hz _ (hlive r hr))] at this
  simpa [colBlock, archBlock, List.map_map, Function.comp_def] using this

/-! ### the fold -/

theorem deColArchs_blocks (w : World) (H : List Nat) (hw : w.Inv) (hb : Bounded w) (hz : ZstNormal w)
    (hf : SizesFit w H) (hH : H.Nodup) (ars : List Arch) (hars : ∀ ar ∈ ars, ar ∈ w.archs.toList)
    (w0 : World) :
    deColArchs H (ars.map (colBlock w H)) w0 = .ok (replayBlocks (ars.map (archBlock w H)) w0) := by
  induction ars generalizing w0 with
  | nil => rfl
  | cons ar ars ih =>
    simp only [List.map_cons, deColArchs, deArchetype_colBlock w w0 H hw hb hz hf hH ar (hars ar (by simp))]
    exact ih (fun x hx => hars x (List.mem_cons_of_mem _ hx)) _

theorem flatMap_filter_of_nil {α β : Type} (l : List α) (p : α → Bool) (f : α → List β)
    (h : ∀ a ∈ l, p a = false → f a = []) : (l.filter p).flatMap f = l.flatMap f := by
  induction l with
  | nil => rfl
  | cons a l ih =>
    have ih := ih (fun b hb => h b (List.mem_cons_of_mem _ hb))
    simp only [List.filter_cons, List.flatMap_cons]
    cases hp : p a
    · simp [h a (by simp) hp, ih]
    · simp [ih]

theorem archBlock_ok (w : World) (H : List Nat) (hw : w.Inv) (ar : Arch) (har : ar ∈ w.archs.toList) :
    (archBlock w H ar).Ok := by
  obtain ⟨a, ha⟩ := World.mem_archs_toList har
  refine ⟨dedupSorted_sortNat_sorted _, ?_, by simp [archBlock, archEnts], ?_⟩
  · intro row hrow
    simp only [archBlock, List.mem_map] at hrow
    obtain ⟨r, hr, rfl⟩ := hrow
    obtain ⟨i, hi⟩ := World.mem_rows_toList hr
    show (restrict H r.vals).map (·.1) = dedupSorted (sortNat _)
    rw [block_types H ar.types (hw.core.types_sorted a ar ha), ← hw.core.row_types a ar i r ha hi]
    unfold restrict
    rw [List.filter_map]; rfl
  · have := arch_ids_nodup w hw ar har
    simpa [archBlock, archEnts, List.map_map, Function.comp_def, World.entityOf] using this

/-- C14 for the column format -/
theorem col_roundtrip (w : World) (H : List Nat) (hw : w.Inv) (hH : H.Nodup) (hb : Bounded w)
    (hz : ZstNormal w) (hf : SizesFit w H) :
    ∃ w', deCol H (serCol w H none) = .ok w' ∧ w'.Inv ∧
      (∀ e cs, (e, cs) ∈ w.liveRows → w'.lookup e = some (canon (restrict H cs))) ∧
      (∀ e, (∀ cs, (e, cs) ∉ w.liveRows) → w'.lookup e = none) := by
  let ars := w.archs.toList.filter (fun ar => ar.rows.size ≠ 0)
  have hars : ∀ ar ∈ ars, ar ∈ w.archs.toList := fun ar h => (List.mem_filter.1 h).1
  have hB : ∀ b ∈ ars.map (archBlock w H), b.Ok := by
    intro b hb'
    obtain ⟨ar, har, rfl⟩ := List.mem_map.1 hb'
    exact archBlock_ok w H hw ar (hars ar har)
  have hids : (ars.map (archBlock w H)).flatMap (fun b => b.hs.map (·.id)) = w.liveRows.map (·.1.id) := by
    rw [World.liveRows_ids, List.flatMap_map]
    simp only [archBlock, archEnts, List.map_map, Function.comp_def, World.entityOf]
    apply flatMap_filter_of_nil
    intro ar _ hp
    have : ar.rows.size = 0 := by simpa using hp
    have : ar.rows = #[] := Array.eq_empty_of_size_eq_zero this
    simp [this]
  have hents : (ars.map (archBlock w H)).flatMap (·.hs) = w.liveRows.map (·.1) := by
    rw [List.flatMap_map]
    simp only [World.liveRows, archBlock, archEnts, List.map_flatMap, List.map_map, Function.comp_def]
    apply flatMap_filter_of_nil
    intro ar _ hp
    have : ar.rows.size = 0 := by simpa using hp
    have : ar.rows = #[] := Array.eq_empty_of_size_eq_zero this
    simp [this]
  have hnd : ((ars.map (archBlock w H)).flatMap (fun b => b.hs.map (·.id))).Nodup := by
    rw [hids]; exact World.liveRows_nodup w hw.core
  obtain ⟨r1, r2, r3⟩ := replayBlocks_lookup_nodup _ World.new World.inv_new hB hnd
  refine ⟨replayBlocks (ars.map (archBlock w H)) World.new, ?_, replayBlocks_inv _ _ World.inv_new hB, ?_, ?_⟩
  · rw [serCol_none]
    exact deColArchs_blocks w H hw hb hz hf hH ars hars World.new
  · intro e cs hmem
    have hsorted := liveRows_sorted hw hmem
    simp only [World.liveRows, List.mem_flatMap, List.mem_map] at hmem
    obtain ⟨ar, har, r, hr, heq⟩ := hmem
    have harne : ar ∈ ars := by
      refine List.mem_filter.2 ⟨har, ?_⟩
      have : 0 < ar.rows.toList.length := List.length_pos_of_mem hr
      simp only [Array.length_toList] at this
      exact decide_eq_true (by omega)
    have hp : (e, restrict H cs) ∈ (archBlock w H ar).hs.zip (archBlock w H ar).rows := by
      simp only [archBlock, archEnts, List.zip_map', List.mem_map]
      refine ⟨r, hr, ?_⟩
      cases heq; rfl
    rw [r1 _ (List.mem_map_of_mem harne) _ hp]
    congr 1
    symm
    apply CmdBufLemmas.canon_of_sorted
    have h1 : cs.Pairwise (fun x y => x.1 < y.1) := List.pairwise_map.1 ((strictSorted_iff _).1 hsorted)
    exact (h1.filter _).imp (fun h => Nat.le_of_lt h)
  · intro e hne
    have hnot : e ∉ w.liveRows.map (·.1) := by
      simp only [List.mem_map]; rintro ⟨p, hp, rfl⟩; exact hne p.2 hp
    by_cases hid : e.id ∈ w.liveRows.map (·.1.id)
    · exact r2 e (by rw [hids]; exact hid) (by rw [hents]; exact hnot)
    · rw [r3 e (by rw [hids]; exact hid)]; exact new_lookup e

end Hecs.SerdeLemmas
