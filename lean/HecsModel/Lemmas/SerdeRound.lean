import HecsModel.Lemmas.SerdeReplay
import HecsModel.Lemmas.SerdeSer
import HecsModel.Lemmas.CmdBuf
/-
  C14: deserializing what was serialized gives back every live entity with its handled components.
-/
namespace Hecs.SerdeLemmas
open Hecs Hecs.Serde Hecs.CanonLemmas

/-- every live handle fits the wire format: 32-bit id, non-zero 32-bit generation -/
def Bounded (w : World) : Prop :=
  ∀ p ∈ w.liveRows, p.1.id < 4294967296 ∧ 0 < p.1.gen ∧ p.1.gen < 4294967296

/-- stored component values are values their types can hold: zero-sized components (types 7, 8, 9)
carry the unit value, rendered 0, and the 4-byte types (1, 2) hold 32-bit values -/
def ZstNormal (w : World) : Prop :=
  ∀ p ∈ w.liveRows, ∀ c ∈ p.2, normVal c.1 c.2 = c.2

theorem entity_bits_roundtrip (e : Entity) (hid : e.id < 4294967296) (hg : 0 < e.gen) (hg' : e.gen < 4294967296) :
    entityOfBits (bitsOf e) = some e := by
  unfold entityOfBits bitsOf
  have h1 : ¬ (e.gen * 4294967296 + e.id ≥ 18446744073709551616) := by omega
  have h2 : (e.gen * 4294967296 + e.id) / 4294967296 = e.gen := by omega
  have h3 : (e.gen * 4294967296 + e.id) % 4294967296 = e.id := by omega
  have h4 : ¬ e.gen = 0 := by omega
  simp [h1, h2, h3, h4]

/-! ### live rows under the invariant -/

theorem liveRows_mem {w : World} {p : Entity × List Comp} (hp : p ∈ w.liveRows) :
    ∃ (a : Nat) (ar : Arch) (i : Nat) (r : Row), w.archs[a]? = some ar ∧ ar.rows[i]? = some r ∧ p = (w.entityOf r.id, r.vals) := by
  simp only [World.liveRows, List.mem_flatMap, List.mem_map] at hp
  obtain ⟨ar, har, r, hr, rfl⟩ := hp
  obtain ⟨a, ha⟩ := World.mem_archs_toList har
  obtain ⟨i, hi⟩ := World.mem_rows_toList hr
  exact ⟨a, ar, i, r, ha, hi, rfl⟩

theorem liveRows_sorted {w : World} (hw : w.Inv) {p : Entity × List Comp} (hp : p ∈ w.liveRows) :
    strictSorted (p.2.map (·.1)) = true := by
  obtain ⟨a, ar, i, r, ha, hi, rfl⟩ := liveRows_mem hp
  rw [hw.core.row_types a ar i r ha hi]
  exact hw.core.types_sorted a ar ha

theorem liveRows_keys_nodup {w : World} (hw : w.Inv) {p : Entity × List Comp} (hp : p ∈ w.liveRows) :
    (p.2.map (·.1)).Nodup := strictSorted_nodup _ (liveRows_sorted hw hp)

/-! ### the row context reads back what was written -/

theorem deEntityMap_enc (H : List Nat) (ps acc : List Comp)
    (hH : ∀ c ∈ ps, c.1 ∈ H) (hz : ∀ c ∈ ps, normVal c.1 c.2 = c.2)
    (hnd : ((acc ++ ps).map (·.1)).Nodup) :
    deEntityMap H (ps.map (fun c => (Tree.num c.1, Tree.num c.2))) acc = .ok (acc ++ ps) := by
  induction ps generalizing acc with
  | nil => simp [deEntityMap]
  | cons c ps ih =>
    have hc : H.contains c.1 = true := by simpa using hH c (by simp)
    have hnot : acc.any (·.1 == c.1) = false := by
      rw [Bool.eq_false_iff]; intro h
      obtain ⟨d, hd, hdc⟩ := List.any_eq_true.1 h
      simp only [beq_iff_eq] at hdc
      rw [List.map_append, List.nodup_append] at hnd
      exact hnd.2.2 _ (List.mem_map_of_mem (f := (·.1)) hd) _
        (List.mem_map_of_mem (f := fun x : Comp => x.1) (List.mem_cons_self (a := c) (l := ps))) hdc
    simp only [List.map_cons, deEntityMap, hc, if_true, hnot, Bool.false_eq_true, if_false]
    rw [hz c (by simp), ih (acc ++ [c]) (fun d hd => hH d (List.mem_cons_of_mem _ hd))
      (fun d hd => hz d (List.mem_cons_of_mem _ hd)) (by simpa using hnd)]
    simp

theorem rowEntry_decodes (H : List Nat) (hH : H.Nodup) (p : Entity × List Comp)
    (hb : p.1.id < 4294967296 ∧ 0 < p.1.gen ∧ p.1.gen < 4294967296)
    (hz : ∀ c ∈ p.2, normVal c.1 c.2 = c.2) :
    RowEntry H (rowEntry H p) (p.1, pairsH H p.2) := by
  refine ⟨bitsOf p.1, _, rfl, entity_bits_roundtrip p.1 hb.1 hb.2.1 hb.2.2, ?_⟩
  have := deEntityMap_enc H (pairsH H p.2) [] ?_ ?_ (by simpa using pairsH_nodup hH p.2)
  · simpa using this
  · intro c hc
    simp only [pairsH, List.mem_filterMap, Option.map_eq_some_iff] at hc
    obtain ⟨t, ht, v, -, rfl⟩ := hc
    exact ht
  · intro c hc
    simp only [pairsH, List.mem_filterMap, Option.map_eq_some_iff] at hc
    obtain ⟨t, ht, v, hv, rfl⟩ := hc
    exact hz _ (lookupComp_some hv)

theorem all₂_map {α β γ : Type} (R : β → γ → Prop) (f : α → β) (g : α → γ) (l : List α)
    (h : ∀ a ∈ l, R (f a) (g a)) : All₂ R (l.map f) (l.map g) := by
  induction l with
  | nil => exact .nil
  | cons a l ih => exact .cons (h a (by simp)) (ih (fun b hb => h b (List.mem_cons_of_mem _ hb)))

/-- the decoded form of `serRow w H none` -/
def decodedRows (H : List Nat) (w : World) : List (Entity × List Comp) :=
  w.liveRows.map (fun p => (p.1, pairsH H p.2))

theorem deRow_serRow (w : World) (H : List Nat) (hH : H.Nodup) (hb : Bounded w) (hz : ZstNormal w) :
    deRow H (serRow w H none) = .ok (replayRows (decodedRows H w) World.new) := by
  rw [serRow_none]
  show deRowEntries H _ World.new = _
  rw [deRowEntries_ok_iff]
  exact ⟨_, all₂_map _ _ _ _ (fun p hp => rowEntry_decodes H hH p (hb p hp) (hz p hp)), rfl⟩

/-- C14 for the row format -/
theorem row_roundtrip (w : World) (H : List Nat) (hw : w.Inv) (hH : H.Nodup) (hb : Bounded w)
    (hz : ZstNormal w) :
    ∃ w', deRow H (serRow w H none) = .ok w' ∧ w'.Inv ∧
      (∀ e cs, (e, cs) ∈ w.liveRows → w'.lookup e = some (canon (restrict H cs))) ∧
      (∀ e, (∀ cs, (e, cs) ∉ w.liveRows) → w'.lookup e = none) := by
  have hL : ∀ p ∈ decodedRows H w, (p.2.map (·.1)).Nodup := by
    intro p hp
    simp only [decodedRows, List.mem_map] at hp
    obtain ⟨q, -, rfl⟩ := hp
    exact pairsH_nodup hH q.2
  have hnd : ((decodedRows H w).map (·.1.id)).Nodup := by
    have := World.liveRows_nodup w hw.core
    simpa [decodedRows, List.map_map, Function.comp_def] using this
  obtain ⟨r1, r2, r3⟩ := replayRows_lookup_nodup (decodedRows H w) World.new World.inv_new hL hnd
  refine ⟨_, deRow_serRow w H hH hb hz, replayRows_inv _ _ World.inv_new hL, ?_, ?_⟩
  · intro e cs hmem
    have := r1 (e, pairsH H cs) (by simp only [decodedRows, List.mem_map]; exact ⟨(e, cs), hmem, rfl⟩)
    rw [this, canon_pairsH hH (liveRows_keys_nodup hw hmem)]
  · intro e hne
    by_cases hid : e.id ∈ (decodedRows H w).map (·.1.id)
    · apply r2 e hid
      simp only [decodedRows, List.map_map, List.mem_map, Function.comp_def]
      rintro ⟨p, hp, rfl⟩
      exact hne p.2 hp
    · rw [r3 e hid]; exact new_lookup e

end Hecs.SerdeLemmas
