import HecsModel.Model.Basic
/-
  Facts about the canonical order of type lists: `insertNat`, `sortNat`, `canon`, `strictSorted`.
-/
namespace Hecs

theorem strictSorted_iff (l : List Nat) : strictSorted l = true ↔ l.Pairwise (· < ·) := by
  induction l with
  | nil => simp [strictSorted]
  | cons a l ih =>
    cases l with
    | nil => simp [strictSorted]
    | cons b r =>
      simp only [strictSorted, Bool.and_eq_true, decide_eq_true_eq, ih, List.pairwise_cons]
      constructor
      · rintro ⟨hab, hb, hr⟩
        refine ⟨?_, hb, hr⟩
        intro x hx
        rcases List.mem_cons.1 hx with rfl | hx
        · exact hab
        · exact Nat.lt_trans hab (hb x hx)
      · rintro ⟨ha, hb, hr⟩
        exact ⟨ha b (List.mem_cons_self), hb, hr⟩

theorem mem_insertNat (c x : Nat) (l : List Nat) : x ∈ insertNat c l ↔ x = c ∨ x ∈ l := by
  induction l with
  | nil => simp [insertNat]
  | cons d ds ih =>
    simp only [insertNat]; split
    · simp
    · simp [ih]; grind

theorem mem_sortNat (x : Nat) (l : List Nat) : x ∈ sortNat l ↔ x ∈ l := by
  induction l with
  | nil => simp [sortNat]
  | cons c cs ih => simp [sortNat, mem_insertNat, ih]

theorem insertNat_sorted (c : Nat) (l : List Nat) (hl : l.Pairwise (· < ·)) (hc : c ∉ l) :
    (insertNat c l).Pairwise (· < ·) := by
  induction l with
  | nil => simp [insertNat]
  | cons d ds ih =>
    simp only [insertNat]
    rw [List.pairwise_cons] at hl
    simp only [List.mem_cons, not_or] at hc
    split
    · rw [List.pairwise_cons]
      refine ⟨?_, List.pairwise_cons.2 hl⟩
      intro x hx
      rcases List.mem_cons.1 hx with rfl | hx
      · omega
      · have := hl.1 x hx; omega
    · rw [List.pairwise_cons]
      refine ⟨?_, ih hl.2 hc.2⟩
      intro x hx
      rcases (mem_insertNat c x ds).1 hx with rfl | hx
      · omega
      · exact hl.1 x hx

theorem sortNat_sorted (l : List Nat) (h : l.Nodup) : strictSorted (sortNat l) = true := by
  rw [strictSorted_iff]
  induction l with
  | nil => simp [sortNat]
  | cons c cs ih =>
    rw [List.nodup_cons] at h
    simp only [sortNat]
    exact insertNat_sorted c _ (ih h.2) (by rw [mem_sortNat]; exact h.1)

theorem insertComp_map (c : Comp) (l : List Comp) :
    (insertComp c l).map (·.1) = insertNat c.1 (l.map (·.1)) := by
  induction l with
  | nil => simp [insertComp, insertNat]
  | cons d ds ih =>
    simp only [insertComp, List.map_cons, insertNat]
    split <;> simp [ih]

theorem canon_map (b : List Comp) : (canon b).map (·.1) = sortNat (b.map (·.1)) := by
  induction b with
  | nil => simp [canon, sortNat]
  | cons c cs ih => simp [canon, sortNat, insertComp_map, ih]

theorem canon_sorted (b : List Comp) (h : (b.map (·.1)).Nodup) :
    strictSorted ((canon b).map (·.1)) = true := by
  rw [canon_map]; exact sortNat_sorted _ h

theorem sorted_ext (l1 l2 : List Nat) (h1 : l1.Pairwise (· < ·)) (h2 : l2.Pairwise (· < ·))
    (h : ∀ x, x ∈ l1 ↔ x ∈ l2) : l1 = l2 := by
  induction l1 generalizing l2 with
  | nil =>
    cases l2 with
    | nil => rfl
    | cons b r => have := (h b).2 (by simp); simp at this
  | cons a r ih =>
    cases l2 with
    | nil => have := (h a).1 (by simp); simp at this
    | cons b s =>
      rw [List.pairwise_cons] at h1 h2
      have hab : a = b := by
        have ha := (h a).1 (by simp)
        have hb := (h b).2 (by simp)
        rcases List.mem_cons.1 ha with e | ha
        · exact e
        · rcases List.mem_cons.1 hb with e | hb
          · exact e.symm
          · have := h1.1 b hb; have := h2.1 a ha; omega
      subst hab
      congr 1
      apply ih s h1.2 h2.2
      intro x
      constructor
      · intro hx
        have := (h x).1 (List.mem_cons_of_mem _ hx)
        rcases List.mem_cons.1 this with e | hx'
        · subst e; have := h1.1 x hx; omega
        · exact hx'
      · intro hx
        have := (h x).2 (List.mem_cons_of_mem _ hx)
        rcases List.mem_cons.1 this with e | hx'
        · subst e; have := h2.1 x hx; omega
        · exact hx'

theorem strictSorted_ext (l1 l2 : List Nat) (h1 : strictSorted l1 = true) (h2 : strictSorted l2 = true)
    (h : ∀ x, x ∈ l1 ↔ x ∈ l2) : l1 = l2 :=
  sorted_ext l1 l2 ((strictSorted_iff l1).1 h1) ((strictSorted_iff l2).1 h2) h

theorem strictSorted_filter (l : List Nat) (p : Nat → Bool) (h : strictSorted l = true) :
    strictSorted (l.filter p) = true := by
  rw [strictSorted_iff] at *; exact h.filter p

theorem strictSorted_nodup (l : List Nat) (h : strictSorted l = true) : l.Nodup := by
  rw [strictSorted_iff] at h
  exact h.imp (fun hab => Nat.ne_of_lt hab)

end Hecs
