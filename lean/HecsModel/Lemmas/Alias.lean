import HecsModel.Model.QueryJudge
import HecsModel.Lemmas.Query
namespace Hecs.AliasLemmas
open Hecs Hecs.QueryJudge

/-- no two entries of the list touch one type with a unique access among them -/
def Clean (l : List (Nat × Bool)) : Prop := l.Pairwise (fun x y => ¬ (x.1 = y.1 ∧ (x.2 = true ∨ y.2 = true)))

theorem borrowList_sublist (q : Q) (ts : List Nat) : (q.borrowList ts).Sublist q.borrows := by
  induction q with
  | read t => simp [Q.borrowList, Q.borrows]
  | write t => simp [Q.borrowList, Q.borrows]
  | opt q ih => simp only [Q.borrowList, Q.borrows]; split; exact ih; exact List.nil_sublist _
  | or l r ihl ihr =>
    simp only [Q.borrowList, Q.borrows]
    apply List.Sublist.append
    · split; exact ihl; exact List.nil_sublist _
    · split; exact ihr; exact List.nil_sublist _
  | with_ q r ihq _ => simpa [Q.borrowList, Q.borrows] using ihq
  | without q r ihq _ => simpa [Q.borrowList, Q.borrows] using ihq
  | satisfies q _ => simp [Q.borrowList, Q.borrows]
  | unit => simp [Q.borrowList, Q.borrows]
  | pair q rest ihq ihr => simp only [Q.borrowList, Q.borrows]; exact List.Sublist.append ihq ihr

theorem getD_eq {α} (l : List α) (i : Nat) (d : α) (h : i < l.length) : l.getD i d = l[i] := by
  simp [List.getD, h]

theorem clean_of_assert (q : Q) (h : q.assertBorrowOk = true) : Clean q.borrows := by
  unfold Clean
  rw [List.pairwise_iff_getElem]
  intro i j hi hj hij ⟨h1, h2⟩
  rcases h2 with h2 | h2
  · have := Q.assertBorrowOk_sound q h i j (by omega) hi hj (by rw [getD_eq _ _ _ hi]; exact h2)
    rw [getD_eq _ _ _ hi, getD_eq _ _ _ hj] at this
    exact this h1
  · have := Q.assertBorrowOk_sound q h j i (by omega) hj hi (by rw [getD_eq _ _ _ hj]; exact h2)
    rw [getD_eq _ _ _ hi, getD_eq _ _ _ hj] at this
    exact this h1.symm

theorem mem_zipIdx' {α} {l : List α} {x : α × Nat} (h : x ∈ l.zipIdx) :
    ∃ (hi : x.2 < l.length), l[x.2] = x.1 := by
  have := (List.mem_zipIdx_iff_getElem? (x := x)).1 h
  have hi : x.2 < l.length := by
    rcases Nat.lt_or_ge x.2 l.length with h' | h'
    · exact h'
    · rw [List.getElem?_eq_none h'] at this; cases this
  refine ⟨hi, ?_⟩
  rw [List.getElem?_eq_getElem hi] at this
  exact Option.some.inj this

theorem selfConflict_false_of_clean (l : List (Nat × Bool)) (h : Clean l) : selfConflict l = false := by
  unfold Clean at h
  rw [List.pairwise_iff_getElem] at h
  rw [Bool.eq_false_iff]
  intro hc
  unfold selfConflict at hc
  rw [List.any_eq_true] at hc
  obtain ⟨p, hp, hc⟩ := hc
  rw [List.any_eq_true] at hc
  obtain ⟨r, hr, hc⟩ := hc
  simp only [Bool.and_eq_true, bne_iff_ne, ne_eq, beq_iff_eq, Bool.or_eq_true] at hc
  obtain ⟨⟨hne, hty⟩, hu⟩ := hc
  obtain ⟨hi, hpi⟩ := mem_zipIdx' hp
  obtain ⟨hj, hrj⟩ := mem_zipIdx' hr
  rcases Nat.lt_or_ge p.2 r.2 with hlt | hge
  · exact h p.2 r.2 hi hj hlt ⟨by rw [hpi, hrj]; exact hty, by rw [hpi, hrj]; exact hu⟩
  · have hlt : r.2 < p.2 := by omega
    exact h r.2 p.2 hj hi hlt ⟨by rw [hpi, hrj]; exact hty.symm, by rw [hpi, hrj]; exact hu.symm⟩

/-- the static check is sound for the dynamic one: a query that passes `assert_borrow` never asks one
archetype for two conflicting borrows -/
theorem assert_sound_for_dynamic (q : Q) (ts : List Nat) (h : q.assertBorrowOk = true) :
    selfConflict (q.borrowList ts) = false :=
  selfConflict_false_of_clean _ ((clean_of_assert q h).sublist (borrowList_sublist q ts))

end Hecs.AliasLemmas
