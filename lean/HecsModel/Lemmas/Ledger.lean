import HecsModel.Lemmas.WorldInvStep
import HecsModel.Lemmas.WorldInvCex
import HecsModel.Lemmas.Canon
/-
  C03 (world part): every component value is dropped or handed back exactly once.

  `World.owned` lists every value stored in the world; the ledger equation
  `owned w ++ inputs op ~ owned w' ++ dropped ++ returned` is proved for every operation by counting
  occurrences of an arbitrary value `c` (`List.perm_iff_count`), which turns the bookkeeping into
  linear arithmetic.
-/
namespace Hecs

/-- every component value stored in the world -/
def World.owned (w : World) : List Comp :=
  w.archs.toList.flatMap (fun ar => ar.rows.toList.flatMap (·.vals))

/-- the values the caller hands to the operation -/
def Op.inputs : Op → List Comp
  | .spawn b => b
  | .spawnAt _ b => b
  | .spawnBatch _ rows => rows.flatten
  | .spawnColumnBatch _ rows => rows.flatten
  | .spawnColumnBatchAt _ _ rows => rows.flatten
  | .insert _ b => b
  | .exchange _ _ b => b
  | .remove _ _ => []
  | .despawn _ => []
  | .takeDrop _ => []
  | .clear => []
  | .flush => []
  | .reserve _ => []
  | .reserveEntity => []
  | .reserveEntities _ => []

/-- the values the operation hands back to the caller -/
def Out.returned (o : Out) : List Comp :=
  match o.res with
  | .vals vs => vs
  | _ => []

/-- The extra side condition of the ledger: the field types named by `remove`/`exchange` are
distinct.  It is forced: `remove::<(D, D)>` hands the same value back twice (finding F5, see
`Ledger.cex_remove_dup`). -/
def Op.FieldsNodup : Op → Prop
  | .remove _ ts => ts.Nodup
  | .exchange _ ts _ => ts.Nodup
  | _ => True

instance : DecidablePred Op.FieldsNodup := fun op => by
  cases op <;> unfold Op.FieldsNodup <;> infer_instance

/-- state of a run together with everything dropped and everything handed back so far -/
structure Trace where
  w : World
  dropped : List Comp
  returned : List Comp

/-- one step of a run, accumulating the outputs -/
def Trace.step (t : Trace) (op : Op) : Trace :=
  { w := (Hecs.step t.w op).1,
    dropped := t.dropped ++ (Hecs.step t.w op).2.dropped,
    returned := t.returned ++ (Hecs.step t.w op).2.returned }

/-- run `ops` from the empty world, accumulating the outputs (a fold, like `run`) -/
def runTrace (ops : List Op) : Trace := ops.foldl Trace.step ⟨World.new, [], []⟩

/-- everything dropped during the run -/
def runDropped (ops : List Op) : List Comp := (runTrace ops).dropped

/-- everything handed back to the caller during the run -/
def runReturned (ops : List Op) : List Comp := (runTrace ops).returned

namespace Ledger
open World CanonLemmas

/-- the values held by an array of rows -/
def rv (R : Array Row) : List Comp := R.toList.flatMap (·.vals)

theorem owned_eq (w : World) : w.owned = w.archs.toList.flatMap (fun ar => rv ar.rows) := rfl

theorem owned_of_archs {w w' : World} (h : w'.archs = w.archs) : w'.owned = w.owned := by
  unfold World.owned; rw [h]

/-! ### values of a row array -/

@[simp] theorem rv_empty : rv #[] = [] := rfl

theorem rv_push (R : Array Row) (r : Row) : rv (R.push r) = rv R ++ r.vals := by
  simp [rv, List.flatMap_append]

theorem rv_append (R E : Array Row) : rv (R ++ E) = rv R ++ rv E := by
  simp [rv, List.flatMap_append]

theorem rv_batchRows (rows : List (List Comp)) : rv (batchRows rows) = rows.flatten := by
  simp only [rv, batchRows, List.flatten_eq_flatMap]
  induction rows with
  | nil => rfl
  | cons r rs ih => simpa [List.flatMap_cons] using ih

theorem toList_pop_last (R : Array Row) (m : Row) (h : R[R.size - 1]? = some m) :
    R.toList = R.pop.toList ++ [m] := by
  have hne : R.toList ≠ [] := by
    intro h0; have : R.size = 0 := by simpa using congrArg List.length h0
    simp [this] at h
  rw [Array.toList_pop]
  conv => lhs; rw [← List.dropLast_concat_getLast hne]
  congr 2
  rw [List.getLast_eq_getElem]
  have : R.toList[R.toList.length - 1]? = some m := by simpa using h
  grind

theorem rv_pop (R : Array Row) (m : Row) (h : R[R.size - 1]? = some m) :
    rv R = rv R.pop ++ m.vals := by
  simp only [rv]
  rw [toList_pop_last R m h, List.flatMap_append]; simp

theorem count_list_set (l : List Row) (i : Nat) (r r0 : Row) (h : l[i]? = some r0) (c : Comp) :
    ((l.set i r).flatMap (·.vals)).count c + r0.vals.count c
      = (l.flatMap (·.vals)).count c + r.vals.count c := by
  induction l generalizing i with
  | nil => simp at h
  | cons x xs ih =>
    cases i with
    | zero =>
      simp at h; subst h
      simp only [List.set_cons_zero, List.flatMap_cons, List.count_append]; omega
    | succ i =>
      simp at h
      have := ih i h
      simp only [List.set_cons_succ, List.flatMap_cons, List.count_append]; omega

theorem rv_set (R : Array Row) (i : Nat) (r r0 : Row) (h : R[i]? = some r0) (c : Comp) :
    (rv (R.set! i r)).count c + r0.vals.count c = (rv R).count c + r.vals.count c := by
  simp only [rv, Array.set!_eq_setIfInBounds, Array.toList_setIfInBounds]
  exact count_list_set R.toList i r r0 (by simpa using h) c

theorem list_modify_flatMap (l : List Row) (i : Nat) (f : Row → Row) (hf : ∀ r, (f r).vals = r.vals) :
    (l.modify i f).flatMap (·.vals) = l.flatMap (·.vals) := by
  induction l generalizing i with
  | nil => simp
  | cons x xs ih =>
    cases i with
    | zero => simp [List.flatMap_cons, hf]
    | succ i => simp [List.flatMap_cons, ih]

theorem rv_modify (R : Array Row) (i : Nat) (f : Row → Row) (hf : ∀ r, (f r).vals = r.vals) :
    rv (R.modify i f) = rv R := by
  simp only [rv, Array.toList_modify]; exact list_modify_flatMap _ i f hf

/-- swap-remove of row `i` takes exactly that row's values away -/
theorem rv_swapRemove (R : Array Row) (i : Nat) (r0 : Row) (h : R[i]? = some r0) (c : Comp) :
    (rv (if i = R.size - 1 then R.pop else (R.set! i R[R.size - 1]!).pop)).count c + r0.vals.count c
      = (rv R).count c := by
  have hi : i < R.size := by
    apply Classical.byContradiction; intro hn
    rw [Array.getElem?_eq_none (by omega)] at h; cases h
  split
  · rename_i hl
    subst hl
    rw [rv_pop R r0 h, List.count_append]
  · rename_i hl
    have hlast : R[R.size - 1]? = some R[R.size - 1]! := by grind
    generalize R[R.size - 1]! = m at *
    have hm : (R.set! i m)[(R.set! i m).size - 1]? = some m := by
      simp only [Array.set!_eq_setIfInBounds, Array.size_setIfInBounds, Array.getElem?_setIfInBounds]
      rw [if_neg hl]; exact hlast
    rw [← List.count_append] at *
    have h1 := rv_pop (R.set! i m) m hm
    have h2 := rv_set R i m r0 h c
    have h3 : (rv (R.set! i m)).count c = (rv (R.set! i m).pop).count c + m.vals.count c := by
      rw [h1, List.count_append]
    rw [List.count_append]
    omega

/-! ### modifying the rows of one archetype -/

theorem count_flatMap_modify (l : List Arch) (a : Nat) (f : Arch → Arch) (ar : Arch)
    (h : l[a]? = some ar) (c : Comp) :
    ((l.modify a f).flatMap (fun ar => rv ar.rows)).count c + (rv ar.rows).count c
      = (l.flatMap (fun ar => rv ar.rows)).count c + (rv (f ar).rows).count c := by
  induction l generalizing a with
  | nil => simp at h
  | cons x xs ih =>
    cases a with
    | zero =>
      simp at h; subst h
      simp only [List.modify_zero_cons, List.flatMap_cons, List.count_append]; omega
    | succ a =>
      simp at h
      have := ih a h
      simp only [List.modify_succ_cons, List.flatMap_cons, List.count_append]; omega

theorem modRows_count (w : World) (a : Nat) (g : Array Row → Array Row) (ha : a < w.archs.size)
    (c : Comp) :
    (w.modRows a g).owned.count c + (rv (w.rowsOf a)).count c
      = w.owned.count c + (rv (g (w.rowsOf a))).count c := by
  rw [owned_eq, owned_eq]
  simp only [modRows, Array.toList_modify]
  have h1 : w.archs.toList[a]? = some w.archs[a] := by simp [ha]
  have := count_flatMap_modify w.archs.toList a (fun ar => { ar with rows := g ar.rows }) _ h1 c
  simpa [rowsOf, ha] using this

theorem modRows_ge (w : World) (a : Nat) (g : Array Row → Array Row) (ha : w.archs.size ≤ a) :
    (w.modRows a g).archs = w.archs := by
  simp only [modRows]
  apply Array.ext_getElem?; intro j
  simp only [Array.getElem?_modify]
  split
  · subst_vars; simp [Array.getElem?_eq_none ha]
  · rfl

/-- a modification of one archetype's rows that keeps their values keeps `owned` -/
theorem modRows_owned_of_rv (w : World) (a : Nat) (g : Array Row → Array Row)
    (hg : ∀ R, rv (g R) = rv R) : (w.modRows a g).owned = w.owned := by
  rw [owned_eq, owned_eq]
  simp only [modRows, Array.toList_modify]
  generalize w.archs.toList = l
  induction l generalizing a with
  | nil => simp
  | cons x xs ih =>
    cases a with
    | zero => simp [List.flatMap_cons, hg]
    | succ a => simp [List.flatMap_cons, ih]

/-! ### primitives -/

theorem place_count (w : World) (a id : Nat) (vals : List Comp) (ha : a < w.archs.size) (c : Comp) :
    (w.place a id vals).owned.count c = w.owned.count c + vals.count c := by
  rw [place_eq, owned_of_archs (setLoc_archs _ _ _)]
  have := modRows_count w a (fun rows => rows.push ⟨id, vals⟩) ha c
  rw [rv_push, List.count_append] at this
  simp only at this; omega

/-- a row without values does not change `owned` (wherever it is pushed) -/
theorem place_nil_owned (w : World) (a id : Nat) : (w.place a id []).owned = w.owned := by
  rw [place_eq, owned_of_archs (setLoc_archs _ _ _)]
  exact modRows_owned_of_rv w a _ (fun R => by simp [rv_push])

theorem removeRow_count (w : World) (a i : Nat) (r0 : Row) (h : (w.rowsOf a)[i]? = some r0) (c : Comp) :
    (w.removeRow a i).owned.count c + r0.vals.count c = w.owned.count c := by
  have ha := lt_of_row h
  have key := rv_swapRemove (w.rowsOf a) i r0 h c
  rw [removeRow_eq]
  split
  · rename_i hl
    rw [if_pos hl] at key
    have := modRows_count w a (fun rows => rows.pop) ha c
    omega
  · rename_i hl
    rw [if_neg hl] at key
    rw [owned_of_archs (setLocIndex_archs _ _ _)]
    have := modRows_count w a (fun rows => (rows.set! i (w.rowsOf a)[(w.rowsOf a).size - 1]!).pop) ha c
    omega

theorem setRow_count (w : World) (a i : Nat) (r r0 : Row) (h : (w.rowsOf a)[i]? = some r0) (c : Comp) :
    (w.setRow a i r).owned.count c + r0.vals.count c = w.owned.count c + r.vals.count c := by
  have ha := lt_of_row h
  rw [setRow_eq]
  have := modRows_count w a (fun rows => rows.set! i r) ha c
  have := rv_set (w.rowsOf a) i r r0 h c
  omega

/-! ### getArch (no hypotheses needed) -/

theorem getArch_owned (w : World) (ts : List Nat) : (w.getArch ts).1.owned = w.owned := by
  unfold getArch
  split
  · rfl
  · simp [World.owned, List.flatMap_append]

/-! ### flush keeps every value -/

theorem flushPending_owned (ids : List Nat) (w : World) : (flushPending ids w).owned = w.owned := by
  induction ids generalizing w with
  | nil => rfl
  | cons id ids ih =>
    show (flushPending ids (w.flushPendingOne id)).owned = _
    rw [ih, flushPendingOne_eq, place_nil_owned]

theorem flushFreshOne_owned (w : World) : w.flushFreshOne.owned = w.owned := by
  rw [flushFreshOne_eq]
  have : ({ w.modRows 0 (fun rows => rows.push ⟨w.metas.size, []⟩) with
        metas := w.metas.push ⟨1, some (0, (w.rowsOf 0).size)⟩ } : World).archs
      = (w.modRows 0 (fun rows => rows.push ⟨w.metas.size, []⟩)).archs := rfl
  rw [owned_of_archs this]
  exact modRows_owned_of_rv w 0 _ (fun R => by simp [rv_push])

theorem flushFresh_owned (n : Nat) (w : World) : (flushFresh n w).owned = w.owned := by
  induction n generalizing w with
  | zero => rfl
  | succ n ih =>
    show (flushFresh n w.flushFreshOne).owned = _
    rw [ih, flushFreshOne_owned]

theorem flushTail_owned (w : World) (c : Nat) : (flushTail w c).owned = w.owned := by
  simp only [flushTail]
  exact (owned_of_archs (w := flushPending (w.pending.toList.drop c) w) rfl).trans (flushPending_owned _ w)

/-- `flush` only adds rows without values -/
theorem flush_owned (w : World) : w.flush.owned = w.owned := by
  rw [flush_eq]
  split
  · exact flushTail_owned _ _
  · rw [flushTail_owned]
    exact (owned_of_archs (w := flushFresh (-w.cursor).toNat w) rfl).trans (flushFresh_owned _ w)

/-! ### spawn family -/

theorem alloc_owned (w : World) : (w.alloc).1.owned = w.owned := owned_of_archs (alloc_archs w)

theorem spawnInner_count (w : World) (e : Entity) (b : List Comp) (c : Comp) :
    (w.spawnInner e b).owned.count c = w.owned.count c + b.count c := by
  rw [spawnInner_eq, place_count _ _ _ _ (getArch_lt _ _), getArch_owned, canon_count]

theorem spawn_count (w : World) (b : List Comp) (c : Comp) :
    (w.spawn b).1.owned.count c = w.owned.count c + b.count c := by
  show ((w.flush.alloc).1.spawnInner (w.flush.alloc).2 b).owned.count c = _
  rw [spawnInner_count, alloc_owned, flush_owned]

theorem allocAt_archs (w : World) (e : Entity) : (w.allocAt e).1.archs = w.archs := by
  unfold allocAt; split
  · rfl
  · split <;> rfl

theorem allocAt_old (w : World) (e : Entity) (l : Nat × Nat) (h : (w.allocAt e).2 = some l) :
    w.locOf e.id = some l := by
  unfold allocAt at h; split at h
  · cases h
  · split at h
    · cases h
    · exact h

theorem evict_count (w : World) (old : Option (Nat × Nat))
    (hrow : ∀ a i, old = some (a, i) → ∃ r, (w.rowsOf a)[i]? = some r) (c : Comp) :
    (w.evict old).1.owned.count c + (w.evict old).2.count c = w.owned.count c := by
  cases old with
  | none => simp [evict_none]
  | some l =>
    obtain ⟨a, i⟩ := l
    obtain ⟨r, hr⟩ := hrow a i rfl
    rw [evict_some, rowAt_eq, hr]
    exact removeRow_count w a i r hr c

theorem allocAt_evict_count (w : World) (e : Entity) (hb : w.Bij) (c : Comp) :
    ((w.allocAt e).1.evict (w.allocAt e).2).1.owned.count c
      + ((w.allocAt e).1.evict (w.allocAt e).2).2.count c = w.owned.count c := by
  rw [evict_count, owned_of_archs (allocAt_archs w e)]
  intro a i h
  have := allocAt_old w e _ h
  obtain ⟨r, hr, _⟩ := hb.loc_row _ _ _ this
  exact ⟨r, by rw [rowsOf_of_archs (allocAt_archs w e)]; exact hr⟩

theorem spawnAt_count (w : World) (h : Entity) (b : List Comp) (hg : w.Good) (c : Comp) :
    (w.spawnAt h b).1.owned.count c + (w.spawnAt h b).2.dropped.count c
      = w.owned.count c + b.count c := by
  have hf := flush_flushed' w hg
  have := allocAt_evict_count w.flush h hf.good.bij c
  show (((w.flush.allocAt h).1.evict (w.flush.allocAt h).2).1.spawnInner h b).owned.count c
    + ((w.flush.allocAt h).1.evict (w.flush.allocAt h).2).2.count c = _
  rw [spawnInner_count, ← flush_owned w]; omega

theorem allocAtAll_count (hs : List Entity) (w : World) (d : List Comp) (D : List Nat) (h : w.Allocd D)
    (hnd : (hs.map (·.id)).Nodup) (hdisj : ∀ x, x ∈ hs.map (·.id) → x ∉ D) (c : Comp) :
    (allocAtAll hs w d).1.owned.count c + (allocAtAll hs w d).2.count c
      = w.owned.count c + d.count c := by
  induction hs generalizing w d D with
  | nil => rfl
  | cons e es ih =>
    simp only [List.map_cons, List.nodup_cons] at hnd
    have h1 := allocAt_evict_allocd w e D h (hdisj e.id (by simp))
    have h2 := allocAt_evict_count w e h.pre.bij c
    have h3 := ih ((w.allocAt e).1.evict (w.allocAt e).2).1 (d ++ ((w.allocAt e).1.evict (w.allocAt e).2).2)
      (e.id :: D) h1 hnd.2 (by
        intro x hx
        simp only [List.mem_cons, not_or]
        exact ⟨fun e' => hnd.1 (e' ▸ hx), hdisj x (by simp [hx])⟩)
    have e1 : allocAtAll (e :: es) w d
        = allocAtAll es ((w.allocAt e).1.evict (w.allocAt e).2).1
            (d ++ ((w.allocAt e).1.evict (w.allocAt e).2).2) := rfl
    rw [List.count_append] at h3
    rw [e1]; omega

theorem insertBatch_count (w : World) (ts : List Nat) (rows : List (List Comp)) (c : Comp) :
    (w.insertBatch ts rows).1.owned.count c = w.owned.count c + rows.flatten.count c := by
  rw [insertBatch_eq]
  have := modRows_count (w.getArch ts).1 (w.getArch ts).2 (fun r => r ++ batchRows rows) (getArch_lt w ts) c
  rw [rv_append, List.count_append, rv_batchRows, getArch_owned] at this
  show ((w.getArch ts).1.modRows (w.getArch ts).2 (fun r => r ++ batchRows rows)).owned.count c = _
  omega

theorem assignRows_owned (a : Nat) (ids : List Nat) (k : Nat) (w : World) :
    (assignRows a ids k w).owned = w.owned := by
  induction ids generalizing k w with
  | nil => rfl
  | cons id ids ih =>
    show (assignRows a ids (k + 1) ((w.setRowId a k id).setLoc id (some (a, k)))).owned = _
    rw [ih, owned_of_archs (setLoc_archs _ _ _)]
    show (w.modRows a (fun rows => rows.modify k (fun r => { r with id := id }))).owned = _
    exact modRows_owned_of_rv w a _ (fun R => rv_modify R k _ (fun _ => rfl))

theorem spawnBatchRows_count (a : Nat) (rows : List (List Comp)) (w : World) (acc : List Entity)
    (ha : a < w.archs.size) (c : Comp) :
    (spawnBatchRows a rows w acc).1.owned.count c = w.owned.count c + rows.flatten.count c := by
  induction rows generalizing w acc with
  | nil => simp [spawnBatchRows]
  | cons b bs ih =>
    have e1 : spawnBatchRows a (b :: bs) w acc
        = spawnBatchRows a bs ((w.alloc).1.place a (w.alloc).2.id (canon b)) ((w.alloc).2 :: acc) := rfl
    have ha1 : a < (w.alloc).1.archs.size := by rw [alloc_archs]; exact ha
    rw [e1, ih _ _ (by rw [place_archs_size]; exact ha1), place_count _ _ _ _ ha1, alloc_owned, canon_count]
    simp only [List.flatten_cons, List.count_append]; omega

theorem reserve_owned (w : World) (ts : List Nat) : (w.reserve ts).1.owned = w.owned := by
  show ((w.flush).getArch (sortNat ts)).1.owned = _
  rw [getArch_owned, flush_owned]

theorem spawnBatch_count (w : World) (ts : List Nat) (rows : List (List Comp)) (c : Comp) :
    (w.spawnBatch ts rows).1.owned.count c = w.owned.count c + rows.flatten.count c := by
  show (spawnBatchRows (w.reserve ts).2 rows (w.reserve ts).1 []).1.owned.count c = _
  have hlt : (w.reserve ts).2 < (w.reserve ts).1.archs.size := getArch_lt w.flush (sortNat ts)
  rw [spawnBatchRows_count _ _ _ _ hlt, reserve_owned]

theorem spawnColumnBatch_count (w : World) (ts : List Nat) (rows : List (List Comp)) (c : Comp) :
    (w.spawnColumnBatch ts rows).1.owned.count c = w.owned.count c + rows.flatten.count c := by
  unfold spawnColumnBatch
  simp only
  generalize hib : w.flush.insertBatch ts rows = ib
  have h1 := insertBatch_count w.flush ts rows c
  rw [hib, flush_owned] at h1
  obtain ⟨w1, a, base⟩ := ib
  simp only at h1 ⊢
  refine (congrArg (List.count c) ((owned_of_archs rfl).trans (assignRows_owned a _ base _))).trans ?_
  exact h1

theorem spawnColumnBatchAt_count (w : World) (hs : List Entity) (ts : List Nat) (rows : List (List Comp))
    (hg : w.Good) (c : Comp) :
    (w.spawnColumnBatchAt hs ts rows).1.owned.count c + (w.spawnColumnBatchAt hs ts rows).2.dropped.count c
      = w.owned.count c + rows.flatten.count c := by
  unfold spawnColumnBatchAt
  split
  · rfl
  · rename_i hc
    simp only [not_or, Decidable.not_not] at hc
    obtain ⟨hlen, hnd⟩ := hc
    have hf := flush_flushed' w hg
    have h1 := allocAtAll_count hs w.flush [] [] hf.allocd hnd (by simp) c
    simp only
    rw [assignRows_owned, insertBatch_count]
    rw [flush_owned] at h1
    simp only [List.count_nil, Nat.add_zero] at h1
    omega

/-! ### insert / remove / exchange -/

theorem count_partition (l : List Comp) (p q : Comp → Bool) (c : Comp) :
    l.count c = (l.filter (fun d => p d && q d)).count c + (l.filter (fun d => p d && !q d)).count c
      + (l.filter (fun d => !p d)).count c := by
  induction l with
  | nil => rfl
  | cons x xs ih =>
    simp only [List.filter_cons, List.count_cons]
    cases hp : p x <;> cases hq : q x <;> simp [List.count_cons] <;> omega

theorem count_partition2 (l : List Comp) (p : Comp → Bool) (c : Comp) :
    l.count c = (l.filter p).count c + (l.filter (fun d => !p d)).count c :=
  ((List.filter_append_perm p l).count_eq c).symm.trans List.count_append

/-- `insert_inner`: the bundle goes in; the replaced values are dropped; the values whose type is
not in the origin's type list (the values `exchange` hands back) leave the world without being dropped -/
theorem insertInner_count (w : World) (e : Entity) (b : List Comp) (origin a i : Nat) (r0 : Row)
    (hr0 : (w.rowsOf a)[i]? = some r0) (hty : r0.vals.map (·.1) = w.typesOf a)
    (hnd : (w.typesOf a).Nodup) (hb : (b.map (·.1)).Nodup) (c : Comp) :
    (w.insertInner e b origin a i).1.owned.count c + (w.insertInner e b origin a i).2.count c
      + (r0.vals.filter (fun d => !(w.typesOf origin).contains d.1)).count c
      = w.owned.count c + b.count c := by
  rw [insertInner_eq]
  simp only
  have ha := lt_of_row hr0
  have g_lt := getArch_lt w (sortNat (w.typesOf origin ++
      (b.map (·.1)).filter (fun t => !(w.typesOf origin).contains t)))
  have g_rows := getArch_rowsOf w (sortNat (w.typesOf origin ++
      (b.map (·.1)).filter (fun t => !(w.typesOf origin).contains t)))
  have g_self := getArch_typesOf_self w (sortNat (w.typesOf origin ++
      (b.map (·.1)).filter (fun t => !(w.typesOf origin).contains t)))
  have g_old := getArch_typesOf_old w (sortNat (w.typesOf origin ++
      (b.map (·.1)).filter (fun t => !(w.typesOf origin).contains t))) a ha
  have g_owned := getArch_owned w (sortNat (w.typesOf origin ++
      (b.map (·.1)).filter (fun t => !(w.typesOf origin).contains t)))
  generalize w.getArch (sortNat (w.typesOf origin ++
      (b.map (·.1)).filter (fun t => !(w.typesOf origin).contains t))) = ga at *
  obtain ⟨w1, tgt⟩ := ga
  simp only at g_lt g_rows g_self g_old g_owned ⊢
  have hrow1 : (w1.rowsOf a)[i]? = some r0 := by rw [g_rows]; exact hr0
  have hrow : w1.rowAt a i = some r0 := by rw [rowAt_eq]; exact hrow1
  rw [hrow]; simp only [Option.getD_some]
  have part := count_partition r0.vals (fun d => (w.typesOf origin).contains d.1)
    (fun d => (b.map (·.1)).contains d.1) c
  split
  · -- overwrite in place
    rename_i htgt
    subst htgt
    have hinfo : sortNat (w.typesOf origin ++
        (b.map (·.1)).filter (fun t => !(w.typesOf origin).contains t)) = r0.vals.map (·.1) := by
      rw [← g_self, g_old, hty]
    have hsubset : ∀ t, t ∈ b.map (·.1) → t ∈ r0.vals.map (·.1) := by
      intro t ht
      rw [← hinfo, mem_sortNat, List.mem_append]
      by_cases hs : t ∈ w.typesOf origin
      · exact Or.inl hs
      · exact Or.inr (List.mem_filter.2 ⟨ht, by simpa using hs⟩)
    have hcover : ∀ d, d ∈ r0.vals →
        (!(b.map (·.1)).contains d.1) = ((w.typesOf origin).contains d.1 && !(b.map (·.1)).contains d.1) := by
      intro d hd
      have : d.1 ∈ sortNat (w.typesOf origin ++
          (b.map (·.1)).filter (fun t => !(w.typesOf origin).contains t)) := by
        rw [hinfo]; exact List.mem_map_of_mem (f := (·.1)) hd
      rw [mem_sortNat, List.mem_append, List.mem_filter] at this
      rcases this with h | h
      · simp [h]
      · have : (b.map (·.1)).contains d.1 = true := List.contains_iff_mem.2 h.1
        rw [this]; simp
    have hperm := foldl_putComp_perm b r0.vals hb (by rw [hty]; exact hnd) hsubset
    have hcnt := hperm.count_eq c
    rw [List.count_append, List.filter_congr hcover] at hcnt
    have hset := setRow_count w1 tgt i
      { r0 with vals := b.foldl (fun vs c => putComp c vs) r0.vals } r0 hrow1 c
    rw [g_owned] at hset
    dsimp only at hset ⊢
    omega
  · -- move to the target archetype
    rename_i htgt
    have hpl := place_count w1 tgt e.id (canon (b ++ r0.vals.filter
      (fun c => (w.typesOf origin).contains c.1 && !(b.map (·.1)).contains c.1))) g_lt c
    have hget : ((w1.place tgt e.id (canon (b ++ r0.vals.filter
        (fun c => (w.typesOf origin).contains c.1 && !(b.map (·.1)).contains c.1)))).rowsOf a)[i]?
          = some r0 := by
      rw [place_get _ _ _ _ _ _ g_lt, if_neg (fun h => htgt h.symm)]; exact hrow1
    have hrm := removeRow_count _ a i r0 hget c
    rw [canon_count, List.count_append, g_owned] at hpl
    dsimp only
    omega

theorem insert_count (w : World) (e : Entity) (b : List Comp) (hg : w.Good) (hb : (b.map (·.1)).Nodup)
    (c : Comp) :
    (w.insert e b).1.owned.count c + (w.insert e b).2.dropped.count c = w.owned.count c + b.count c := by
  have hf := flush_flushed' w hg
  unfold World.insert
  simp only
  split
  · rename_i a i hget
    have hloc := locOf_of_get hget
    obtain ⟨r0, hr0, _⟩ := hf.good.bij.loc_row _ _ _ hloc
    have ha := lt_of_row hr0
    have hty := hf.good.arch.row_types a i r0 hr0
    have hnd := strictSorted_nodup _ (hf.good.arch.sorted a ha)
    have key := insertInner_count w.flush e b a a i r0 hr0 hty hnd hb c
    have hnil : r0.vals.filter (fun d => !(w.flush.typesOf a).contains d.1) = [] := by
      rw [List.filter_eq_nil_iff]
      intro d hd
      have : d.1 ∈ w.flush.typesOf a := by rw [← hty]; exact List.mem_map_of_mem (f := (·.1)) hd
      simpa using this
    rw [hnil, flush_owned] at key
    simp only [List.count_nil, Nat.add_zero] at key
    exact key
  · rw [flush_owned]

theorem remove_count (w : World) (e : Entity) (ts : List Nat) (hg : w.Good) (hts : ts.Nodup) (c : Comp) :
    (w.remove e ts).1.owned.count c + (w.remove e ts).2.dropped.count c
      + (w.remove e ts).2.returned.count c = w.owned.count c := by
  have hf := flush_flushed' w hg
  unfold remove
  simp only
  split
  · simp [flush_owned, Out.returned]
  · rename_i a i hget
    have hloc := locOf_of_getMut hget
    obtain ⟨r0, hr0, hr0id⟩ := hf.good.bij.loc_row _ _ _ hloc
    have ha := lt_of_row hr0
    have hty := hf.good.arch.row_types a i r0 hr0
    have hnd := strictSorted_nodup _ (hf.good.arch.sorted a ha)
    have hrow : w.flush.rowAt a i = some r0 := by rw [rowAt_eq]; exact hr0
    rw [hrow]; simp only [Option.getD_some]
    split
    · simp [flush_owned, Out.returned]
    · rename_i got hgot
      have hperm := bundleGet_perm hgot hts (by rw [hty]; exact hnd)
      have hcnt := hperm.count_eq c
      rw [List.count_append] at hcnt
      have g_lt := getArch_lt w.flush ((w.flush.typesOf a).filter (fun t => !ts.contains t))
      have g_rows := getArch_rowsOf w.flush ((w.flush.typesOf a).filter (fun t => !ts.contains t))
      have g_self := getArch_typesOf_self w.flush ((w.flush.typesOf a).filter (fun t => !ts.contains t))
      have g_old := getArch_typesOf_old w.flush ((w.flush.typesOf a).filter (fun t => !ts.contains t)) a ha
      have g_owned := getArch_owned w.flush ((w.flush.typesOf a).filter (fun t => !ts.contains t))
      generalize w.flush.getArch ((w.flush.typesOf a).filter (fun t => !ts.contains t)) = ga at *
      obtain ⟨w1, tgt⟩ := ga
      simp only at g_lt g_rows g_self g_old g_owned ⊢
      rw [flush_owned] at g_owned
      split
      · -- nothing to remove: the target is the source archetype
        rename_i htgt
        subst htgt
        have hall : r0.vals.filter (fun c => !ts.contains c.1) = r0.vals := by
          rw [List.filter_eq_self]
          intro d hd
          have hd' : d.1 ∈ w.flush.typesOf tgt := by rw [← hty]; exact List.mem_map_of_mem (f := (·.1)) hd
          rw [← g_old, g_self] at hd'
          exact (List.mem_filter.1 hd').2
        rw [hall] at hcnt
        simp only [Out.returned, List.count_nil, Nat.add_zero, g_owned]
        omega
      · rename_i htgt
        have hpl := place_count w1 tgt e.id (r0.vals.filter (fun c => !ts.contains c.1)) g_lt c
        have hget' : ((w1.place tgt e.id (r0.vals.filter (fun c => !ts.contains c.1))).rowsOf a)[i]?
            = some r0 := by
          rw [place_get _ _ _ _ _ _ g_lt, if_neg (fun h => htgt h.symm), g_rows]; exact hr0
        have hrm := removeRow_count _ a i r0 hget' c
        rw [g_owned] at hpl
        show ((w1.place tgt e.id (r0.vals.filter (fun c => !ts.contains c.1))).removeRow a i).owned.count c
          + ([] : List Comp).count c + got.count c = _
        simp only [List.count_nil, Nat.add_zero]
        omega

theorem exchange_count (w : World) (e : Entity) (ts : List Nat) (b : List Comp) (hg : w.Good)
    (hb : (b.map (·.1)).Nodup) (hts : ts.Nodup) (c : Comp) :
    (w.exchange e ts b).1.owned.count c + (w.exchange e ts b).2.dropped.count c
      + (w.exchange e ts b).2.returned.count c = w.owned.count c + b.count c := by
  have hf := flush_flushed' w hg
  unfold exchange
  simp only
  split
  · rename_i a i hget
    have hloc := locOf_of_get hget
    obtain ⟨r0, hr0, hr0id⟩ := hf.good.bij.loc_row _ _ _ hloc
    have ha := lt_of_row hr0
    have hty := hf.good.arch.row_types a i r0 hr0
    have hnd := strictSorted_nodup _ (hf.good.arch.sorted a ha)
    have hrow : w.flush.rowAt a i = some r0 := by rw [rowAt_eq]; exact hr0
    rw [hrow]; simp only [Option.getD_some]
    split
    · simp [flush_owned, Out.returned]
    · rename_i got hgot
      have hperm := bundleGet_perm hgot hts (by rw [hty]; exact hnd)
      have hcnt := hperm.count_eq c
      rw [List.count_append] at hcnt
      have g_rows := getArch_rowsOf w.flush ((w.flush.typesOf a).filter (fun t => !ts.contains t))
      have g_self := getArch_typesOf_self w.flush ((w.flush.typesOf a).filter (fun t => !ts.contains t))
      have g_old := getArch_typesOf_old w.flush ((w.flush.typesOf a).filter (fun t => !ts.contains t)) a ha
      have g_owned := getArch_owned w.flush ((w.flush.typesOf a).filter (fun t => !ts.contains t))
      generalize w.flush.getArch ((w.flush.typesOf a).filter (fun t => !ts.contains t)) = ga at *
      obtain ⟨w1, mid⟩ := ga
      simp only at g_rows g_self g_old g_owned ⊢
      rw [flush_owned] at g_owned
      have key := insertInner_count w1 e b mid a i r0 (by rw [g_rows]; exact hr0)
        (by rw [g_old]; exact hty) (by rw [g_old]; exact hnd) hb c
      have hback : r0.vals.filter (fun d => !(w1.typesOf mid).contains d.1)
          = r0.vals.filter (fun d => ts.contains d.1) := by
        apply List.filter_congr
        intro d hd
        have hd' : d.1 ∈ w.flush.typesOf a := by rw [← hty]; exact List.mem_map_of_mem (f := (·.1)) hd
        rw [g_self]
        by_cases hc : d.1 ∈ ts
        · simp [hc]
        · simp [hc, hd']
      have hp2 := count_partition2 r0.vals (fun d => ts.contains d.1) c
      rw [hback, g_owned] at key
      show (w1.insertInner e b mid a i).1.owned.count c + (w1.insertInner e b mid a i).2.count c
        + got.count c = _
      omega
  · simp [flush_owned, Out.returned]

/-! ### despawn / take / clear -/

theorem despawn_count (w : World) (e : Entity) (hg : w.Good) (c : Comp) :
    (w.despawn e).1.owned.count c + (w.despawn e).2.dropped.count c = w.owned.count c := by
  have hf := flush_flushed' w hg
  unfold despawn
  simp only
  split
  · simp [flush_owned]
  · rename_i w1 a i hfree
    obtain ⟨m, hm, _, hl, rfl⟩ := free_some hfree
    have hloc : w.flush.locOf e.id = some (a, i) := by rw [locOf_of_meta hm, hl]
    obtain ⟨r0, hr0, _⟩ := hf.good.bij.loc_row _ _ _ hloc
    have hr1 : ((w.flush.freed e.id m).rowsOf a)[i]? = some r0 := hr0
    have hrow : (w.flush.freed e.id m).rowAt a i = some r0 := by rw [rowAt_eq]; exact hr1
    rw [hrow]
    have := removeRow_count _ a i r0 hr1 c
    rw [owned_of_archs (w := w.flush) (w' := w.flush.freed e.id m) rfl, flush_owned] at this
    exact this

theorem free_archs {w w1 : World} {e : Entity} {l} (h : w.free e = some (w1, l)) : w1.archs = w.archs := by
  obtain ⟨m, _, _, _, rfl⟩ := free_some h
  rfl

theorem take_count (w : World) (e : Entity) (hg : w.Good) (c : Comp) :
    (w.take e).1.owned.count c + (((w.take e).2).getD []).count c = w.owned.count c := by
  have hf := flush_flushed' w hg
  unfold take
  simp only
  split
  · rename_i a i hget
    have hloc := locOf_of_get hget
    obtain ⟨r0, hr0, _⟩ := hf.good.bij.loc_row _ _ _ hloc
    have hrow : w.flush.rowAt a i = some r0 := by rw [rowAt_eq]; exact hr0
    have hrm := removeRow_count _ a i r0 hr0 c
    rw [flush_owned] at hrm
    rw [hrow]
    split
    · rename_i w2 l hfree
      rw [owned_of_archs (free_archs hfree)]
      exact hrm
    · exact hrm
  · simp [flush_owned]

theorem clear_owned (w : World) : (w.clear).1.owned = [] := by
  simp only [clear, World.owned, Array.toList_map, List.flatMap_map]
  generalize w.archs.toList = L
  induction L with
  | nil => rfl
  | cons x xs ih => simp [List.flatMap_cons]

theorem clear_dropped (w : World) : (w.clear).2.dropped = w.owned := rfl

/-! ### the ledger equation -/

/-- the ledger equation, counting the occurrences of one value -/
theorem ledger_count (w : World) (op : Op) (hi : w.Inv) (hop : op.WF) (hf : op.FieldsNodup) (c : Comp) :
    w.owned.count c + op.inputs.count c
      = (step w op).1.owned.count c + (step w op).2.dropped.count c + (step w op).2.returned.count c := by
  have hg := (inv_iff_good w).1 hi
  cases op with
  | spawn b =>
    have := spawn_count w b c
    show _ = (w.spawn b).1.owned.count c + ([] : List Comp).count c + ([] : List Comp).count c
    simp only [Op.inputs, List.count_nil]; omega
  | spawnAt h b =>
    have := spawnAt_count w h b hg c
    show _ = (w.spawnAt h b).1.owned.count c + (w.spawnAt h b).2.dropped.count c + ([] : List Comp).count c
    simp only [Op.inputs, List.count_nil]; omega
  | spawnBatch ts rows =>
    have := spawnBatch_count w ts rows c
    show _ = (w.spawnBatch ts rows).1.owned.count c + ([] : List Comp).count c + ([] : List Comp).count c
    simp only [Op.inputs, List.count_nil]; omega
  | spawnColumnBatch ts rows =>
    have := spawnColumnBatch_count w ts rows c
    show _ = (w.spawnColumnBatch ts rows).1.owned.count c + ([] : List Comp).count c + ([] : List Comp).count c
    simp only [Op.inputs, List.count_nil]; omega
  | spawnColumnBatchAt hs ts rows =>
    have := spawnColumnBatchAt_count w hs ts rows hg c
    have hr : (w.spawnColumnBatchAt hs ts rows).2.returned = [] := by
      unfold spawnColumnBatchAt; split <;> rfl
    show _ = (w.spawnColumnBatchAt hs ts rows).1.owned.count c
      + (w.spawnColumnBatchAt hs ts rows).2.dropped.count c + (w.spawnColumnBatchAt hs ts rows).2.returned.count c
    rw [hr]; simp only [Op.inputs, List.count_nil]; omega
  | insert e b =>
    have := insert_count w e b hg hop c
    have hr : (w.insert e b).2.returned = [] := by
      unfold World.insert; simp only; split <;> rfl
    show _ = (w.insert e b).1.owned.count c + (w.insert e b).2.dropped.count c + (w.insert e b).2.returned.count c
    rw [hr]; simp only [Op.inputs, List.count_nil]; omega
  | remove e ts =>
    have := remove_count w e ts hg hf c
    show _ = (w.remove e ts).1.owned.count c + (w.remove e ts).2.dropped.count c + (w.remove e ts).2.returned.count c
    simp only [Op.inputs, List.count_nil]; omega
  | exchange e ts b =>
    have := exchange_count w e ts b hg hop hf c
    show _ = (w.exchange e ts b).1.owned.count c + (w.exchange e ts b).2.dropped.count c
      + (w.exchange e ts b).2.returned.count c
    simp only [Op.inputs]; omega
  | despawn e =>
    have := despawn_count w e hg c
    have hr : (w.despawn e).2.returned = [] := by
      unfold despawn; simp only; split <;> rfl
    show _ = (w.despawn e).1.owned.count c + (w.despawn e).2.dropped.count c + (w.despawn e).2.returned.count c
    rw [hr]; simp only [Op.inputs, List.count_nil]; omega
  | takeDrop e =>
    have := take_count w e hg c
    show _ = (match w.take e with
      | (w', some d) => (w', ({ res := .ok, dropped := d } : Out))
      | (w', none) => (w', { res := .nosuch })).1.owned.count c + (match w.take e with
      | (w', some d) => (w', ({ res := .ok, dropped := d } : Out))
      | (w', none) => (w', { res := .nosuch })).2.dropped.count c + (match w.take e with
      | (w', some d) => (w', ({ res := .ok, dropped := d } : Out))
      | (w', none) => (w', { res := .nosuch })).2.returned.count c
    generalize w.take e = t at *
    obtain ⟨w', _ | d⟩ := t <;> simp [Op.inputs, Out.returned] at this ⊢ <;> omega
  | clear =>
    show _ = (w.clear).1.owned.count c + w.owned.count c + ([] : List Comp).count c
    rw [clear_owned]; simp [Op.inputs]
  | flush =>
    show _ = w.flush.owned.count c + ([] : List Comp).count c + ([] : List Comp).count c
    rw [flush_owned]; simp [Op.inputs]
  | reserve ts =>
    show _ = (w.reserve ts).1.owned.count c + ([] : List Comp).count c + ([] : List Comp).count c
    rw [reserve_owned]; simp [Op.inputs]
  | reserveEntity =>
    have e1 : (step w .reserveEntity).1.archs = w.archs := by
      show (w.reserveEntity).1.archs = _
      unfold reserveEntity; simp only; split <;> rfl
    have e2 : (step w .reserveEntity).2.dropped = [] := rfl
    have e3 : (step w .reserveEntity).2.returned = [] := rfl
    rw [owned_of_archs e1, e2, e3]; simp [Op.inputs]
  | reserveEntities n =>
    show _ = w.owned.count c + ([] : List Comp).count c + ([] : List Comp).count c
    simp [Op.inputs]

/-- C03: the ledger equation for one operation -/
theorem ledger_step (w : World) (op : Op) (hi : w.Inv) (hop : op.WF) (hf : op.FieldsNodup) :
    (w.owned ++ op.inputs).Perm
      ((step w op).1.owned ++ (step w op).2.dropped ++ (step w op).2.returned) := by
  rw [List.perm_iff_count]
  intro c
  simp only [List.count_append]
  exact ledger_count w op hi hop hf c

/-! ### runs -/

theorem foldl_trace_w (ops : List Op) (t : Trace) :
    (ops.foldl Trace.step t).w = ops.foldl (fun w op => (step w op).1) t.w := by
  induction ops generalizing t with
  | nil => rfl
  | cons op ops ih => simp only [List.foldl_cons]; rw [ih]; rfl

theorem runTrace_w (ops : List Op) : (runTrace ops).w = run ops := foldl_trace_w ops _

theorem ledger_foldl (ops : List Op) (hops : ∀ op, op ∈ ops → op.WF) (hfs : ∀ op, op ∈ ops → op.FieldsNodup)
    (t : Trace) (hi : t.w.Inv) (c : Comp) :
    t.w.owned.count c + t.dropped.count c + t.returned.count c + (ops.flatMap Op.inputs).count c
      = (ops.foldl Trace.step t).w.owned.count c + (ops.foldl Trace.step t).dropped.count c
        + (ops.foldl Trace.step t).returned.count c := by
  induction ops generalizing t with
  | nil => simp
  | cons op ops ih =>
    have h1 := ledger_count t.w op hi (hops op (by simp)) (hfs op (by simp)) c
    have h2 := ih (fun o ho => hops o (List.mem_cons_of_mem _ ho)) (fun o ho => hfs o (List.mem_cons_of_mem _ ho))
      (t.step op) (inv_step t.w op (hops op (by simp)) hi)
    simp only [List.foldl_cons, List.flatMap_cons, List.count_append]
    simp only [Trace.step, List.count_append] at h2 ⊢
    omega

/-- C03 for runs: every value ever passed in is, at the end, either still stored in the world, or
has been dropped, or has been handed back — with the same multiplicity -/
theorem ledger_run (ops : List Op) (hops : ∀ op, op ∈ ops → op.WF) (hfs : ∀ op, op ∈ ops → op.FieldsNodup) :
    (ops.flatMap Op.inputs).Perm ((run ops).owned ++ runDropped ops ++ runReturned ops) := by
  rw [List.perm_iff_count]
  intro c
  have := ledger_foldl ops hops hfs ⟨World.new, [], []⟩ inv_new c
  have h0 : World.new.owned = [] := by simp [World.new, World.owned]
  simp only [List.count_append, ← runTrace_w, runDropped, runReturned, runTrace]
  simp only [h0, List.count_nil] at this
  omega

/-- with fresh serial numbers nothing is dropped twice, dropped and handed back, or dropped while
still stored -/
theorem ledger_run_nodup (ops : List Op) (hops : ∀ op, op ∈ ops → op.WF)
    (hfs : ∀ op, op ∈ ops → op.FieldsNodup) (hn : (ops.flatMap Op.inputs).Nodup) :
    ((run ops).owned ++ runDropped ops ++ runReturned ops).Nodup :=
  (ledger_run ops hops hfs).nodup_iff.1 hn

/-- `clear` drops every stored value and leaves nothing behind -/
theorem clear_drops_all (w : World) :
    (step w .clear).2.dropped = w.owned ∧ (step w .clear).1.owned = [] ∧ (step w .clear).2.returned = [] :=
  ⟨rfl, clear_owned w, rfl⟩

theorem run_snoc (ops : List Op) (op : Op) : run (ops ++ [op]) = (step (run ops) op).1 := by
  simp [run, List.foldl_append]

theorem runTrace_snoc (ops : List Op) (op : Op) : runTrace (ops ++ [op]) = (runTrace ops).step op := by
  simp [runTrace, List.foldl_append]

/-- Dropping the world (`Drop for Archetype` is `clear`): what is dropped then is exactly `owned`, so
over the whole life of the world every input is dropped or handed back exactly once. -/
theorem drop_world (ops : List Op) (hops : ∀ op, op ∈ ops → op.WF) (hfs : ∀ op, op ∈ ops → op.FieldsNodup) :
    (run (ops ++ [.clear])).owned = [] ∧
    runDropped (ops ++ [.clear]) = runDropped ops ++ (run ops).owned ∧
    runReturned (ops ++ [.clear]) = runReturned ops ∧
    (ops.flatMap Op.inputs).Perm (runDropped (ops ++ [.clear]) ++ runReturned (ops ++ [.clear])) := by
  have h1 : (run (ops ++ [.clear])).owned = [] := by rw [run_snoc]; exact clear_owned _
  have h2 : runDropped (ops ++ [.clear]) = runDropped ops ++ (run ops).owned := by
    simp only [runDropped, runTrace_snoc, Trace.step, runTrace_w]; rfl
  have h3 : runReturned (ops ++ [.clear]) = runReturned ops := by
    simp only [runReturned, runTrace_snoc, Trace.step]
    show (runTrace ops).returned ++ [] = _
    simp
  refine ⟨h1, h2, h3, ?_⟩
  rw [h2, h3]
  refine (ledger_run ops hops hfs).trans ?_
  exact List.Perm.append_right _ List.perm_append_comm

/-! ### the side condition `FieldsNodup` is needed (finding F5) -/

/-- the world after `spawn((D(0),))` where `D` is component type 1 -/
def wD : World :=
  { metas := #[⟨1, some (1, 0)⟩], pending := #[], cursor := 0, len := 1,
    archs := #[⟨[], #[]⟩, ⟨[1], #[⟨0, [(1, 0)]⟩]⟩] }

theorem wD_eq : (step World.new (.spawn [(1,0)])).1 = wD := by
  simp only [step, World.spawn, flush_new]
  simp [World.new, alloc, spawnInner, getArch, findArch, canon, insertComp, pushRow, setLoc, rowsOf, wD,
    Meta.empty]

theorem wD_inv : wD.Inv := by
  rw [← wD_eq]; exact inv_step _ _ (by simp [Op.WF]) inv_new

theorem wD_flush : wD.flush = wD := by
  simp [flush_eq, wD, flushTail, flushPending]

theorem wD_remove_returned : (step wD (.remove ⟨0,1⟩ [1,1])).2.returned = [(1,0),(1,0)] := by
  simp only [step, World.remove, wD_flush]
  simp [wD, getMut, rowAt, bundleGet, lookupComp, getArch, findArch, typesOf, Out.returned, List.findIdx?_cons]

/-- F5: `remove::<(D, D)>` hands the single stored value back twice, so the ledger equation fails
without `FieldsNodup` (the operation is `WF`, the world satisfies the invariant) -/
theorem cex_remove_dup :
    wD.Inv ∧ (Op.remove ⟨0,1⟩ [1,1]).WF ∧
    ¬ (wD.owned ++ (Op.remove ⟨0,1⟩ [1,1]).inputs).Perm
        ((step wD (.remove ⟨0,1⟩ [1,1])).1.owned ++ (step wD (.remove ⟨0,1⟩ [1,1])).2.dropped
          ++ (step wD (.remove ⟨0,1⟩ [1,1])).2.returned) := by
  refine ⟨wD_inv, trivial, ?_⟩
  intro h
  have hl := h.length_eq
  have h0 : wD.owned = [(1,0)] := by simp [wD, World.owned]
  rw [wD_remove_returned, h0] at hl
  simp [Op.inputs] at hl
  omega

end Ledger
end Hecs
